"""C19 - each task sees its own namespace settings; session edits persist safely."""
import copy

import common
import cfglib
from common import Outcome, LeanDriver
from props import c06

ID = "C19"
PROPS = ["Invoke/Props/C19.lean"]
TARGETS = ["drv_config"]
DRIVER_ROOTS = ["Driver/Config.lean"]
GENERATED = ["Clone"]
RULE = ("a case is one session (one or two execute() calls on the same Executor/Config objects) over a random namespace tree "
        "of depth <=4 (every collection with its own nested settings, names with inner underscores, task aliases, default "
        "tasks and default sub-collections at every level) with 1-5 requested tasks per call, each invoked through ANY name "
        "the collection resolves for it (primary dotted name, alias, default-task / default-sub-collection shortcut, "
        "underscore or dash spelling; consecutive calls biased to the same task under another name / the same, parent or "
        "child namespace), sometimes no name (the root default), pre/post tasks from other sub-collections, bodies that record the deep view of context.config and then perform generated "
        "writes / deletions / nested edits / dict-protocol mutations and change os.environ for the following tasks; "
        "oracle per executed task: view = journal of all earlier tasks' edits replayed over the merge of the levels with "
        "collection := deep merge of the settings along ITS OWN namespace path (outer wins) and env := the environment as it "
        "is when the task starts; no exception may escape execute(); the same session is run through the Lean model "
        "(TASK step = load_collection + load_shell_env); non-trivial = at least two tasks from different namespaces "
        "executed and at least one edit succeeded; distinct = distinct sessions")
TRUSTED = ["Lean 4.33 kernel", "axioms propext/Classical.choice/Quot.sound only",
           "harness/cfglib.py + harness/props/c19.py (session runner, reference, canonicalisation)",
           "model Invoke/Model/Config.lean (taskStep, nsConfig) hand-written, tied by correspondence on every run"]
ASSUMPTIONS = ["type-consistent values; dict-valued writes only at key paths no level defines (C06 known findings)",
               "the order in which tasks execute (pre, task, post, no dedupe) is C04's subject and taken from the real run "
               "after checking it against the straightforward expansion",
               "environment values are texts that the setting's current type can adopt (C16)"]

KNOWN_SIGS = ("C19-called-as-none-root-only",)
DEFAULTS = {"tasks": {"dedupe": False}}


# ------------------------------------------------------------------ generation

def gen_body(rng, n):
    """edit script of one task: proxy ops are generated against no particular state (KeyErrors are fine)"""
    ops = []
    for _ in range(n):
        r = rng.random()
        if r < 0.15:
            p = rng.choice([k for k, v in c06.SHAPE.items() if v == "leaf" and k[-1] != "d" and not c06.in_mods_only(k)])
            var = "_".join(p).upper()
            if rng.random() < 0.7:
                ops.append({"op": "SETENV", "var": var, "val": rng.choice(["0", "1", "7", "42"])})
            else:
                ops.append({"op": "UNSETENV", "var": var})
            continue
        secs = [k for k, v in c06.SHAPE.items() if v == "sec"] + [()]
        path = rng.choice(secs)
        cand = [k for k in c06.KEYS if path + (k,) in c06.SHAPE]
        k = rng.choice(cand)
        full = path + (k,)
        op = {"path": [[x, rng.random() < 0.4] for x in path], "k": k}
        if r < 0.55:
            if c06.SHAPE[full] == "sec":
                if not c06.in_mods_only(full):
                    continue
                v = c06.tree(rng, full, lower=False, dens=0.5)
            else:
                v = c06.leaf(rng, full)
            w = rng.random()
            if w < 0.5:
                op.update(op="SI", v=v)
            elif w < 0.75:
                op.update(op="SA", v=v)
            elif w < 0.9:
                op.update(op="SD", d=v)
            else:
                op.update(op="UPD", kw={k: v})
                del op["k"]
        elif r < 0.85:
            w = rng.random()
            if w < 0.4:
                op["op"] = "DI"
            elif w < 0.6:
                op["op"] = "DA"
            elif w < 0.8:
                op.update(op="POP", d=0)
            elif not path:
                op["op"] = "DI"  # (popitem / clear at the root would remove the executor's own tasks.dedupe setting)
            elif w < 0.9:
                op["op"] = "PI"
                del op["k"]
            else:
                op["op"] = "CLR"
                del op["k"]
        else:
            op["op"] = rng.choice(["GI", "GA", "HAS", "KEYS", "LEN"])
            if op["op"] in ("KEYS", "LEN"):
                del op["k"]
        ops.append(op)
    return ops


COLL_NAMES = ["s1", "db_tools", "web", "in_ner", "x2", "ops_a"]
TASK_NAMES = ["t1", "run_it", "go", "push_all", "t2"]
ALIASES = ["al", "do_it", "z9"]


def gen_node(rng, name, depth, prefix, bodies, counter):
    """random namespace node: own settings, 1-3 tasks (aliases, maybe a default), sub-collections up to depth 4"""
    node = {"name": name, "cfg": c06.tree(rng, dens=0.45) if rng.random() < 0.85 else {}, "tasks": [], "subs": [],
            "default_task": None, "default_sub": None}
    here = prefix + [name] if name else prefix
    for tn in rng.sample(TASK_NAMES, rng.randint(1, 3) if name else rng.randint(1, 2)):
        tag = ".".join(here + [tn])
        al = [a + str(counter[0])[-1:] for a in rng.sample(ALIASES, rng.choice([0, 0, 1, 2]))]
        counter[0] += 1
        node["tasks"].append({"name": tn, "aliases": al, "tag": tag})
        bodies[tag] = {"pre": [], "post": [], "ops": gen_body(rng, rng.randint(0, 3))}
    if depth < 4:
        nsub = rng.choice([0, 1, 1, 2]) if depth > 1 else rng.choice([1, 2, 3])
        for sn in rng.sample(COLL_NAMES, nsub):
            node["subs"].append(gen_node(rng, sn, depth + 1, here, bodies, counter))
    r = rng.random()
    if r < 0.6:
        node["default_task"] = rng.choice(node["tasks"])["name"]
    elif r < 0.85 and node["subs"]:
        node["default_sub"] = rng.choice(node["subs"])["name"]
    return node


def default_tag(node):
    """the task a collection's default resolves to (following default sub-collections), or None"""
    if node["default_task"]:
        return next(t["tag"] for t in node["tasks"] if t["name"] == node["default_task"])
    if node["default_sub"]:
        return default_tag(next(s for s in node["subs"] if s["name"] == node["default_sub"]))
    return None


def walk(node, prefix=(), cfgs=()):
    """yields (node, dotted-path components, settings along the path root..node)"""
    here = prefix + ((node["name"],) if node["name"] else ())
    chain = cfgs + (node["cfg"],)
    yield node, here, chain
    for s in node["subs"]:
        yield from walk(s, here, chain)


def spellings(rng_or_none, comps):
    """the dotted name in the spelling given and with inner underscores written as dashes"""
    a = ".".join(comps)
    b = ".".join(c[0] + c[1:-1].replace("_", "-") + c[-1] if len(c) > 2 else c for c in comps)
    return [a] if a == b else [a, b]


def index_tree(tree):
    """BY CONSTRUCTION: tag -> settings along its own namespace path; tag -> every name that invokes it
    (primary dotted name, aliases, default-task / default-sub-collection shortcuts; both spellings)"""
    cfgs, names, coll = {}, {}, {}
    for node, here, chain in walk(tree):
        for t in node["tasks"]:
            cfgs[t["tag"]] = list(chain)
            coll[t["tag"]] = ".".join(here)
            ns = []
            for n in [t["name"]] + t["aliases"]:
                ns += spellings(None, list(here) + [n])
            names[t["tag"]] = ns
    for node, here, chain in walk(tree):
        d = default_tag(node)
        if d and here:
            names[d] += spellings(None, list(here))
    return cfgs, names, coll


def coll_of(case, tag):
    return case["_coll"][tag]


def gen_session(rng, prepost=0.3):
    bodies = {}
    tree = gen_node(rng, None, 1, [], bodies, [rng.randint(0, 9)])
    cfgs, names, coll = index_tree(tree)
    tags = sorted(bodies)
    if rng.random() < prepost:
        for _ in range(rng.randint(1, 2)):
            t = rng.choice(tags)
            other = rng.choice([x for x in tags if x != t] or [t])
            if other != t and not bodies[other]["pre"] and not bodies[other]["post"] and not any(
                    t in bodies[x]["pre"] + bodies[x]["post"] for x in tags):
                bodies[t][rng.choice(["pre", "post"])].append(other)
    with_pp = [t for t in tags if bodies[t]["pre"] or bodies[t]["post"]]

    def related(tag):
        c = coll[tag]
        near = [x for x in tags if coll[x] == c or coll[x].startswith(c + ".") or c.startswith(coll[x] + ".")
                or coll[x].rsplit(".", 1)[0] == c.rsplit(".", 1)[0]]
        return rng.choice(near or tags)

    calls = []
    for _ in range(rng.choice([1, 1, 1, 2])):
        req, prev = [], None
        for _ in range(rng.randint(1, 5)):
            r = rng.random()
            if prev is not None and r < 0.25:
                tag = prev
            elif prev is not None and r < 0.6:
                tag = related(prev)
            else:
                tag = rng.choice(with_pp) if with_pp and rng.random() < 0.2 else rng.choice(tags)
            req.append(rng.choice(names[tag]))
            prev = tag
        if rng.random() < 0.08 and default_tag(tree):
            req = []
        calls.append(req)
    env0 = {}
    if rng.random() < 0.5:
        for _ in range(rng.randint(1, 3)):
            p = rng.choice([k for k, v in c06.SHAPE.items() if v == "leaf" and k[-1] != "d" and not c06.in_mods_only(k)])
            env0["_".join(p).upper()] = rng.choice(["0", "1", "7", "42"])
    return {"kind": "session", "v": 2, "defaults": dict(copy.deepcopy(DEFAULTS), **c06.tree(rng, dens=0.4)),
            "overrides": c06.tree(rng, dens=0.15), "tree": tree, "bodies": bodies, "calls": calls, "env0": env0}


def upgrade(case):
    """sessions recorded in the first format (fixed tree root/s1/s1.inner/s2) -> the general format"""
    if case.get("v") == 2:
        return case
    def node(name, path, tnames, subs):
        return {"name": name, "cfg": case["cfgs"][path], "subs": subs, "default_task": None, "default_sub": None,
                "tasks": [{"name": t, "aliases": [], "tag": (path + "." if path else "") + t} for t in tnames]}
    inner = node("inner", "s1.inner", ["t"], [])
    s1, s2 = node("s1", "s1", ["t1", "t2"], [inner]), node("s2", "s2", ["t1", "t2"], [])
    root = node(None, "", ["top", "top2"], [s1, s2])
    d = case.get("default")
    if d == "top":
        root["default_task"] = "top"
    elif d in ("s1", "s2"):
        root["default_sub"] = d
        (s1 if d == "s1" else s2)["default_task"] = "t1"
    return {"kind": "session", "v": 2, "defaults": case["defaults"], "overrides": case["overrides"], "tree": root,
            "bodies": case["tasks"], "calls": [case["request"]], "env0": case["env0"]}


# ------------------------------------------------------------------ running the real executor

def prepare(case):
    case = upgrade(case)
    case["_cfgs"], case["_names"], case["_coll"] = index_tree(case["tree"])
    case["_resolve"] = {n: tag for tag, ns in case["_names"].items() for n in ns}
    return case


def expansion(case):
    """(tag, called_as_none) in execution order: pre tasks, the task, post tasks (no dedupe), over all execute() calls"""
    out = []

    def expand(tag, none):
        for p in case["bodies"][tag]["pre"]:
            expand(p, True)
        out.append((tag, none))
        for p in case["bodies"][tag]["post"]:
            expand(p, True)
    for req in case["calls"]:
        if req:
            for n in req:
                expand(case["_resolve"][n], False)
        else:
            expand(default_tag(case["tree"]), True)
    return out


def run_session(case):
    """Runs the real Executor.  Returns (record, escaped): record = [(tag, view, environ, [(op, result, view)...])]."""
    import os
    from invoke import Collection, Task, Executor, Config
    record = []
    task_objs = {}
    prefix = "INVOKE_"

    def mk(tag):
        def body(c):
            cfg = c.config
            environ = {k[len(prefix):]: v for k, v in os.environ.items() if k.startswith(prefix)}
            try:
                view = cfglib.plain(cfg)
            except Exception as e:
                view = "!" + cfglib.errname(e)
            steps = []
            record.append((tag, view, environ, steps))
            impl = cfglib.Impl()
            impl.objs = [cfg]
            for op in case["bodies"][tag]["ops"]:
                if op["op"] == "SETENV":
                    os.environ[prefix + op["var"]] = op["val"]
                    continue
                if op["op"] == "UNSETENV":
                    os.environ.pop(prefix + op["var"], None)
                    continue
                op = copy.deepcopy(op)
                r = impl.apply(op)
                try:
                    v = cfglib.plain(cfg)
                except Exception as e:
                    v = "!" + cfglib.errname(e)
                steps.append((op, r, v))
        body.__name__ = "body"
        return body

    info = {}
    for node, here, _ in walk(case["tree"]):
        for t in node["tasks"]:
            info[t["tag"]] = t
    # tasks without pre/post first so that the objects exist when referenced
    for tag in sorted(case["bodies"], key=lambda t: bool(case["bodies"][t]["pre"] or case["bodies"][t]["post"])):
        spec = case["bodies"][tag]
        task_objs[tag] = Task(mk(tag), name=info[tag]["name"], pre=[task_objs[p] for p in spec["pre"]],
                              post=[task_objs[p] for p in spec["post"]])

    def build(node):
        c = Collection(node["name"]) if node["name"] else Collection()
        c.configure(copy.deepcopy(node["cfg"]))
        for t in node["tasks"]:
            c.add_task(task_objs[t["tag"]], name=t["name"], aliases=tuple(t["aliases"]),
                       default=(t["name"] == node["default_task"]))
        for s in node["subs"]:
            c.add_collection(build(s), default=(s["name"] == node["default_sub"]))
        return c

    root = build(case["tree"])
    # the names computed by construction must be names the collection resolves to that very task
    bad = [n for n, tag in case["_resolve"].items() if _lookup(root, n) is not task_objs[tag]]
    cfg = Config(defaults=copy.deepcopy(case["defaults"]), overrides=copy.deepcopy(case["overrides"]), lazy=True,
                 **cfglib.NOFILES)
    escaped = None
    with cfglib.EnvPatch(prefix, case["env0"]):
        ex = Executor(root, cfg)
        for req in case["calls"]:
            if any(n in bad for n in req):
                escaped = "harness: name(s) %s do not resolve as constructed" % [n for n in req if n in bad]
                break
            try:
                ex.execute(*req)
            except Exception as e:  # anything escaping execute() comes from configuration handling (bodies catch their own)
                escaped = cfglib.errname(e) + " " + repr(e)[:200]
                break
    return record, escaped


def _lookup(root, name):
    try:
        return root[name]
    except Exception:
        return None


def path_cfgs(case, tag):
    return case["_cfgs"][tag]


def ns_expected(case, tag):
    """collection-level settings for the task's own namespace path: deep merge along the path, outer wins (C17)"""
    m = {}
    for c in reversed(path_cfgs(case, tag)):
        m = cfglib.deep_merge(m, c)
    return m


def judge(case, record, escaped):
    """ORACLE.  Returns (why, signature, model ops, impl rows) - why None when the property holds."""
    exp = expansion(case)
    ops = [{"o": 0, "op": "NEW", "defaults": case["defaults"], "overrides": case["overrides"]}]
    first = cfglib.Ref({"defaults": case["defaults"], "overrides": case["overrides"]})
    rows = ["-#" + cfglib.canon(first.tree)]
    ref = first
    why = sig = None
    if [t for t, _ in exp[:len(record)]] != [r[0] for r in record]:
        return "executed %s, expected expansion %s" % ([r[0] for r in record], exp), "order", ops, rows
    for (tag, none), (_, view, environ, steps) in zip(exp, record):
        ops.append({"o": 0, "op": "TASK", "none": none, "cfgs": path_cfgs(case, tag), "env": environ})
        rows.append("-#" + (view if isinstance(view, str) else cfglib.canon(view)))
        if isinstance(view, str):
            return "config unreadable inside %s: %s" % (tag, view), "other", ops, rows
        try:
            alt = ref.clone()
            ref.reload("collection", ns_expected(case, tag))
            ref.load_env(environ)
        except cfglib.RefSkip:
            return None, None, ops, rows
        if cfglib.canon(view) != cfglib.canon(ref.tree):
            why = "task %s (called_as %s) sees %s; own namespace settings + fresh env + earlier edits give %s" % (
                tag, "None" if none else tag, cfglib.canon(view), cfglib.canon(ref.tree))
            sig = "other"
            if none:
                try:
                    alt.reload("collection", case["tree"]["cfg"])
                    alt.load_env(environ)
                    if cfglib.canon(alt.tree) == cfglib.canon(view):
                        sig = "C19-called-as-none-root-only"
                except cfglib.RefSkip:
                    pass
            return why, sig, ops, rows
        for op, r, v in steps:
            ops.append(dict(op, o=0))
            rows.append(r + "#" + (v if isinstance(v, str) else cfglib.canon(v)))
            try:
                want = ref.apply(op)
            except cfglib.RefSkip:
                return None, None, ops, rows
            if cfglib.is_internal(r) or isinstance(v, str):
                return "internal error %s from %s in task %s" % (r, cfglib.op_txt(op), tag), "other", ops, rows
            if want != r:
                return "%s in task %s returned %s, a nested dict gives %s" % (cfglib.op_txt(op), tag, r, want), "other", ops, rows
            if cfglib.canon(v) != cfglib.canon(ref.tree):
                return ("after %s in task %s the config reads %s, the nested dict %s" % (
                    cfglib.op_txt(op), tag, cfglib.canon(v), cfglib.canon(ref.tree))), "other", ops, rows
    if escaped and escaped.startswith("harness:"):
        return None, None, ops, rows
    if escaped:
        return "execute() failed inside configuration handling: %s" % escaped, "other", ops, rows
    if len(record) != len(exp):
        return "only %d of %d tasks executed" % (len(record), len(exp)), "other", ops, rows
    return None, None, ops, rows


def check(case):
    case = prepare(case)
    record, escaped = run_session(case)
    res = judge(case, record, escaped) + (record,)
    for k in [k for k in case if k.startswith("_")]:
        del case[k]
    return res


def replay(case):
    why, sig, _, _, _ = check(copy.deepcopy(case))
    return why is None, why or "ok"


def match_known(entry, failure):
    if not entry.get("match") or failure["case"].get("kind") != "session":
        return False
    why, sig, _, _, _ = check(copy.deepcopy(failure["case"]))
    return why is not None and sig == entry["match"]


def run(ctx):
    out = Outcome()
    rng = ctx.rng
    drv = LeanDriver("drv_config")
    lines, rows_all, ran = [], [], []
    for i in range(ctx.n(3500, 45000)):
        case = gen_session(rng, prepost=0.3 if i % 2 else 0.0)
        why, sig, ops, rows, record = check(case)
        _, names, coll = index_tree(case["tree"])
        resolve = {n: tag for tag, ns in names.items() for n in ns}
        tags = [r[0] for r in record]
        edits = [1 for r in record for op, res, v in r[3] if op["op"] in cfglib.MUTATORS and not res.startswith("E:")]
        out.case(case, len({coll[t] for t in tags}) >= 2 and bool(edits))
        out.hist["sessions"] += 1
        out.hist["tasks_executed"] += len(tags)
        out.hist["edits_ok"] += len(edits)
        out.hist["execute_calls"] += len(case["calls"])
        out.hist["default_task_call"] += sum(1 for r in case["calls"] if not r)
        out.hist["env_changes"] += sum(1 for t in tags for o in case["bodies"][t]["ops"] if o["op"] in ("SETENV", "UNSETENV"))
        out.hist["namespace_switches"] += sum(1 for a, b in zip(tags, tags[1:]) if coll[a] != coll[b])
        for req in case["calls"]:
            out.hist["with_prepost"] += any(case["bodies"][resolve[n]]["pre"] or case["bodies"][resolve[n]]["post"] for n in req)
            for n, n2 in zip(req, req[1:]):
                t1, t2 = resolve[n], resolve[n2]
                out.hist["consecutive_same_task_other_name"] += (t1 == t2 and n != n2)
                out.hist["consecutive_same_namespace"] += (t1 != t2 and coll[t1] == coll[t2])
                out.hist["consecutive_parent_child"] += (coll[t1] != coll[t2] and (
                    (coll[t1] + ".").startswith(coll[t2] + ".") or (coll[t2] + ".").startswith(coll[t1] + ".")
                    or coll[t1] == "" or coll[t2] == ""))
            for n in req:
                tag = resolve[n]
                depth = len(coll[tag].split(".")) + 1 if coll[tag] else 1
                primary = tag
                kind = ("shortcut" if n.count(".") < tag.count(".") else
                        "alias" if n.replace("-", "_").rsplit(".", 1)[-1] != tag.rsplit(".", 1)[-1] else "primary")
                out.hist["name_" + kind] += 1
                out.hist["name_dashed_spelling"] += ("-" in n)
                out.hist["call_depth_%d" % depth] += 1
                if kind == "shortcut":
                    out.hist["shortcut_depth_%d" % (n.count(".") + 1)] += 1
        if why:
            out.hist["oracle_" + sig] += 1
            if sig not in KNOWN_SIGS or out.hist["oracle_" + sig] <= 12:
                out.fail(case, why)
        lines.append(cfglib.line(ops))
        rows_all.append("|".join(rows))
        ran.append(case)
    if ctx.model_ok:
        model = drv.run(lines)
        for case, m, i in zip(ran, model, rows_all):
            out.traces += 1
            if m != i:
                ms, is_ = m.split("|"), i.split("|")
                k = next((j for j in range(min(len(ms), len(is_))) if ms[j] != is_[j]), min(len(ms), len(is_)))
                out.disagree(case, "step %d: %s" % (k, is_[k] if k < len(is_) else None), ms[k] if k < len(ms) else None)
    out.extra["table_obligations"] = 0
    return out


LEVEL_TEXT = ("Lean 4 proofs on the Config model extended by the executor's per-task step (load_collection of the namespace "
              "configuration, load_shell_env, then the body's edits): task_sees_own_ns_plus_journal (the view a task starts "
              "with is the journal of all earlier edits replayed over the merge with ITS collection level and ITS environment "
              "level, for every sequence of tasks and edit scripts), named_task_sees_own_namespace, session_never_fails, and - "
              "making the boundary of the known finding explicit - pre_post_task_sees_root_only / "
              "unnamed_task_gets_root_settings / called_as_none_counterexample for pre/post/default tasks; tied to the real Executor + Config + Collection by "
              "running generated sessions through both and by a direct oracle")
TECHNIQUE = ("Lean 4 theorems over all task sequences x edit scripts (instance of the C06 journal theorem with the base "
             "swapped per task) + real Executor sessions vs model + reference-dict oracle")
