"""C19 - each task sees its own namespace settings; session edits persist safely."""
import copy

import common
import cfglib
from common import Outcome, LeanDriver
from props import c06

ID = "C19"
PROPS = ["Invoke/Props/C19.lean"]
TARGETS = ["drv_config"]
DRIVER_ROOTS = ["Driver/Config.lean"]
GENERATED = ["Clone"]
RULE = ("a case is one session (one or two execute() calls on the same Executor/Config objects) over a random namespace tree "
        "of depth <=4 (every collection with its own nested settings, names with inner underscores, task aliases, default "
        "tasks and default sub-collections at every level) with 1-5 requested tasks per call, each invoked through ANY name "
        "the collection resolves for it (primary dotted name, alias, default-task / default-sub-collection shortcut, "
        "underscore or dash spelling; consecutive calls biased to the same task under another name / the same, parent or "
        "child namespace), sometimes no name (the root default), pre/post tasks living in other sub-collections, task "
        "objects bound in two places, collection OBJECTS mounted under a second parent and/or name (45% of sessions; tasks "
        "run through both paths, in both orders), equal-but-distinct TWIN tasks (same name and function: wrapped twice / "
        "deepcopy of the Task / factory twins) bound once each in different namespaces and run unnamed as pre/post tasks of "
        "two main tasks in both orders, also across two execute() calls, delete / re-create scripts at depth 2-3 below one section spread over "
        "two tasks, the collections' own configuration() compared before/after the session, pre/post task objects the collection does not hold, bodies that record the deep view of context.config and then perform generated "
        "writes / deletions / nested edits / dict-protocol mutations and change os.environ for the following tasks; "
        "oracle per executed task: view = journal of all earlier tasks' edits replayed over the merge of the levels with "
        "collection := deep merge of the settings along ITS OWN namespace path (outer wins; the path of the name used, for "
        "unnamed pre/post/default calls any path the task object is bound under, the root for a task object the collection "
        "does not hold) and env := the environment as it is when the task starts, applied to the settings that exist "
        "WITHOUT any earlier environment load; no exception may escape execute(); the same session is run through the Lean model "
        "(TASK step = load_collection + load_shell_env); non-trivial = at least two tasks from different namespaces "
        "executed and at least one edit succeeded; distinct = distinct sessions")
TRUSTED = ["Lean 4.33 kernel", "axioms propext/Classical.choice/Quot.sound only",
           "harness/cfglib.py + harness/props/c19.py (session runner, reference, canonicalisation)",
           "model Invoke/Model/Config.lean (taskStep, nsConfig) hand-written, tied by correspondence on every run"]
ASSUMPTIONS = ["type-consistent values; dict-valued writes only at key paths no level defines (C06 known findings)",
               "the order in which tasks execute (pre, task, post, no dedupe) is C04's subject and taken from the real run "
               "after checking it against the straightforward expansion",
               "environment values are texts that the setting's current type can adopt (C16)"]

KNOWN_SIGS = ()  # finding #23 (called_as=None -> root settings only) was repaired in /repo
DEFAULTS = {"tasks": {"dedupe": False}}


# ------------------------------------------------------------------ generation

def gen_body(rng, n):
    """edit script of one task: proxy ops are generated against no particular state (KeyErrors are fine)"""
    ops = []
    for _ in range(n):
        r = rng.random()
        if r < 0.15:
            p = rng.choice([k for k, v in c06.SHAPE.items() if v == "leaf" and k[-1] != "d" and not c06.in_mods_only(k) and not any("_" in x for x in k)])
            var = "_".join(p).upper()
            if rng.random() < 0.7:
                ops.append({"op": "SETENV", "var": var, "val": rng.choice(["0", "1", "7", "42"])})
            else:
                ops.append({"op": "UNSETENV", "var": var})
            continue
        secs = [k for k, v in c06.SHAPE.items() if v == "sec"] + [()]
        path = rng.choice(secs)
        cand = [k for k in c06.KEYS if path + (k,) in c06.SHAPE]
        k = rng.choice(cand)
        full = path + (k,)
        op = {"path": [[x, rng.random() < 0.4] for x in path], "k": k}
        if r < 0.55:
            if c06.SHAPE[full] == "sec":
                if not c06.in_mods_only(full):
                    continue
                v = c06.tree(rng, full, lower=False, dens=0.5)
            else:
                v = c06.leaf(rng, full)
            w = rng.random()
            if w < 0.5:
                op.update(op="SI", v=v)
            elif w < 0.75:
                op.update(op="SA", v=v)
            elif w < 0.9:
                op.update(op="SD", d=v)
            else:
                op.update(op="UPD", kw={k: v})
                del op["k"]
        elif r < 0.85:
            w = rng.random()
            if w < 0.4:
                op["op"] = "DI"
            elif w < 0.6:
                op["op"] = "DA"
            elif w < 0.8:
                op.update(op="POP", d=0)
            elif not path:
                op["op"] = "DI"  # (popitem / clear at the root would remove the executor's own tasks.dedupe setting)
            elif w < 0.9:
                op["op"] = "PI"
                del op["k"]
            else:
                op["op"] = "CLR"
                del op["k"]
        else:
            op["op"] = rng.choice(["GI", "GA", "HAS", "KEYS", "LEN"])
            if op["op"] in ("KEYS", "LEN"):
                del op["k"]
        ops.append(c06.plain_syntax(op))
    return ops


COLL_NAMES = ["s1", "db_tools", "web", "in_ner", "x2", "ops_a"]
TASK_NAMES = ["t1", "run_it", "go", "push_all", "t2"]
ALIASES = ["al", "do_it", "z9"]


def gen_node(rng, name, depth, prefix, bodies, counter):
    """random namespace node: own settings, 1-3 tasks (aliases, maybe a default), sub-collections up to depth 4"""
    node = {"name": name, "cfg": c06.tree(rng, dens=0.45) if rng.random() < 0.85 else {}, "tasks": [], "subs": [],
            "default_task": None, "default_sub": None}
    here = prefix + [name] if name else prefix
    for tn in rng.sample(TASK_NAMES, rng.randint(1, 3) if name else rng.randint(1, 2)):
        tag = ".".join(here + [tn])
        al = [a + str(counter[0])[-1:] for a in rng.sample(ALIASES, rng.choice([0, 0, 1, 2]))]
        counter[0] += 1
        node["tasks"].append({"name": tn, "aliases": al, "tag": tag})
        bodies[tag] = {"pre": [], "post": [], "ops": gen_body(rng, rng.randint(0, 3))}
    if depth < 4:
        nsub = rng.choice([0, 1, 1, 2]) if depth > 1 else rng.choice([1, 2, 3])
        for sn in rng.sample(COLL_NAMES, nsub):
            node["subs"].append(gen_node(rng, sn, depth + 1, here, bodies, counter))
    r = rng.random()
    if r < 0.6:
        node["default_task"] = rng.choice(node["tasks"])["name"]
    elif r < 0.85 and node["subs"]:
        node["default_sub"] = rng.choice(node["subs"])["name"]
    return node


def default_tag(node):
    """the task a collection's default resolves to (following default sub-collections), or None"""
    if node["default_task"]:
        return next(t["tag"] for t in node["tasks"] if t["name"] == node["default_task"])
    if node["default_sub"]:
        return default_tag(next(s for s in node["subs"] if s["name"] == node["default_sub"]))
    return None


def real_nodes(node, prefix=()):
    """every collection OBJECT once (the place it is defined), with its defining path"""
    here = prefix + ((node["name"],) if node["name"] else ())
    yield node, here
    for s in node["subs"]:
        yield from real_nodes(s, here)


def ensure_ids(tree):
    for n, here in real_nodes(tree):
        n.setdefault("id", ".".join(here))
        n.setdefault("mounts", [])
    return {n["id"]: n for n, _ in real_nodes(tree)}


def walk(node, prefix=(), cfgs=(), byid=None, name=False):
    """yields (node, dotted-path components, settings along the path root..node) for EVERY namespace path: a
    collection object mounted under several parents / names (`mounts`) is visited once per path"""
    if byid is None:
        byid = ensure_ids(node)
    nm = node["name"] if name is False else name
    here = prefix + ((nm,) if nm else ())
    chain = cfgs + (node["cfg"],)
    yield node, here, chain
    for s in node["subs"]:
        yield from walk(s, here, chain, byid)
    for m in node.get("mounts", []):
        yield from walk(byid[m["id"]], here, chain, byid, m["name"])


def add_mounts(rng, tree):
    """mount existing collection objects a second time: under another parent (the root, a sibling, deeper) and/or
    under another name - never inside themselves"""
    byid = ensure_ids(tree)
    for _ in range(rng.choice([1, 1, 2])):
        cands = [n for n in byid.values() if n["name"]]
        if not cands:
            return
        src = rng.choice(cands)
        inside = {n["id"] for n, _, _ in walk(src, byid=byid)}
        parents = [p for p in byid.values() if p["id"] not in inside]
        if not parents:
            continue
        par = tree if rng.random() < 0.4 else rng.choice(parents)
        taken = {x["name"] for x in par["subs"]} | {m["name"] for m in par["mounts"]} | {t["name"] for t in par["tasks"]}
        nm = src["name"]
        if nm in taken or rng.random() < 0.35:
            free = [x for x in COLL_NAMES + ["mnt_b", "sh"] if x not in taken]
            if not free:
                continue
            nm = rng.choice(free)
        par["mounts"].append({"id": src["id"], "name": nm})


def spellings(rng_or_none, comps):
    """the dotted name in the spelling given and with inner underscores written as dashes"""
    a = ".".join(comps)
    b = ".".join(c[0] + c[1:-1].replace("_", "-") + c[-1] if len(c) > 2 else c for c in comps)
    return [a] if a == b else [a, b]


def index_tree(tree):
    """BY CONSTRUCTION: tag -> the settings chains (root..collection) of every place the task object is bound, in
    `task_names` order; name -> (tag, chain) for every name that invokes a task (primary dotted name, aliases,
    default-task / default-sub-collection shortcuts; both spellings); tag -> names; tag -> first collection path"""
    bindings, resolve, names, coll = {}, {}, {}, {}
    for node, here, chain in walk(tree):
        for t in node["tasks"]:
            bindings.setdefault(t["tag"], []).append(list(chain))
            coll.setdefault(t["tag"], ".".join(here))
            for n in [t["name"]] + t["aliases"]:
                for sp in spellings(None, list(here) + [n]):
                    resolve[sp] = (t["tag"], list(chain))
                    names.setdefault(t["tag"], []).append(sp)
    for node, here, chain in walk(tree):
        d = default_binding(node, chain[:-1])
        if d and here:
            for sp in spellings(None, list(here)):
                resolve[sp] = d
                names[d[0]].append(sp)
    return bindings, resolve, names, coll


def default_binding(node, above=()):
    """(tag, settings chain) of the task a collection's default resolves to (following default sub-collections)"""
    chain = list(above) + [node["cfg"]]
    if node["default_task"]:
        return next(t["tag"] for t in node["tasks"] if t["name"] == node["default_task"]), chain
    if node["default_sub"]:
        return default_binding(next(s for s in node["subs"] if s["name"] == node["default_sub"]), chain)
    return None


def gen_session(rng, prepost=0.3):
    bodies = {}
    tree = gen_node(rng, None, 1, [], bodies, [rng.randint(0, 9)])
    tags = sorted(bodies)
    if rng.random() < 0.45:
        add_mounts(rng, tree)
    if rng.random() < 0.25:
        # the same task object bound a second time, in another collection under another name
        tag = rng.choice(tags)
        nodes = [n for n, _, _ in walk(tree) if not any(t["tag"] == tag for t in n["tasks"])]
        if nodes:
            n = rng.choice(nodes)
            free = [x for x in TASK_NAMES + ["dup_b"] if x not in [t["name"] for t in n["tasks"]]]
            n["tasks"].append({"name": rng.choice(free), "aliases": [], "tag": tag})
    eqpair = None
    if rng.random() < 0.3:
        # two sibling namespaces whose settings are EQUAL (==) but not identical: other key order, 0/1 <-> False/True
        # (their merged settings then differ only in the TYPE of a value); their tasks run back to back below
        parents = [(n, chain) for n, _, chain in walk(tree) if len(n["subs"]) >= 2]
        if parents:
            par, chain = rng.choice(parents)
            n1, n2 = rng.sample(par["subs"], 2)
            free = [k for k in [("c",), ("a", "c"), ("b", "c"), ("a", "a", "c"), ("b", "a")]
                    if all(cfglib.get_path(c, list(k)) is cfglib.ABSENT for c in chain)]
            if free:
                k = rng.choice(free)
                v = rng.choice([0, 1, True, False])
                cfglib.set_total(n1["cfg"], list(k), v)
                n2["cfg"] = c06.equal_variant(rng, n1["cfg"])
                cfglib.set_total(n2["cfg"], list(k), (not isinstance(v, bool)) and bool(v) or (isinstance(v, bool) and int(v)))
                eqpair = (n1, n2, k)
    twin = None
    if rng.random() < 0.3:
        # EQUAL-BUT-DISTINCT twin: a second Task object with the same name and the same function (wrapped twice /
        # deepcopy of the Task / produced by the same factory), bound exactly once, in ANOTHER namespace
        t1 = rng.choice(tags)
        home = next(n for n, _ in real_nodes(tree) if any(t["tag"] == t1 for t in n["tasks"]))
        nm = next(t["name"] for t in home["tasks"] if t["tag"] == t1)
        others = [(n, here) for n, here in real_nodes(tree)
                  if n is not home and nm not in [t["name"] for t in n["tasks"]] + [x["name"] for x in n["subs"]]]
        if others:
            n2, here2 = rng.choice(others)
            t2 = ".".join(list(here2) + [nm]) + "~twin"
            n2["tasks"].append({"name": nm, "aliases": [], "tag": t2})
            bodies[t2] = {"pre": [], "post": [], "ops": copy.deepcopy(bodies[t1]["ops"]), "twin_of": t1,
                          "twin_kind": rng.choice(["same_fn", "same_fn", "deepcopy", "factory"])}
            twin = (t1, t2)
            tags = sorted(bodies)
    bindings, resolve, names, coll = index_tree(tree)
    if twin:
        # both twins are used WITHOUT an invocation name: as pre / post tasks of two different main tasks
        mains = [x for x in tags if x not in twin and not bodies[x].get("twin_of")]
        if len(mains) >= 2:
            m1, m2 = rng.sample(mains, 2)
            bodies[m1][rng.choice(["pre", "post"])].append(twin[0])
            bodies[m2][rng.choice(["pre", "post"])].append(twin[1])
            twin = twin + (m1, m2)
        else:
            bodies[twin[1]]["twin_kind"] = "factory"  # (nothing to share: an independent equal task)
            twin = None
    twin_src = {b["twin_of"] for b in bodies.values() if b.get("twin_kind") in ("same_fn", "deepcopy")}
    if rng.random() < prepost:
        for _ in range(rng.randint(1, 2)):
            t = rng.choice(tags)
            if rng.random() < 0.2:
                other = "ext%d" % len([x for x in bodies if x.startswith("ext")])  # a task object the collection does not hold
                bodies[other] = {"pre": [], "post": [], "ops": gen_body(rng, rng.randint(0, 2))}
            else:
                cands = [x for x in tags if x != t]
                far = [x for x in cands if coll[x] != coll[t]]
                other = rng.choice(far if far and rng.random() < 0.7 else cands or [t])
            if other != t and t not in twin_src and not bodies[other]["pre"] and not bodies[other]["post"] and not any(
                    t in bodies[x]["pre"] + bodies[x]["post"] for x in bodies):
                bodies[t][rng.choice(["pre", "post"])].append(other)
    with_pp = [t for t in tags if bodies[t]["pre"] or bodies[t]["post"]]

    def related(tag):
        c = coll[tag]
        near = [x for x in tags if coll[x] == c or coll[x].startswith(c + ".") or c.startswith(coll[x] + ".")
                or coll[x].rsplit(".", 1)[0] == c.rsplit(".", 1)[0]]
        return rng.choice(near or tags)

    calls = []
    for _ in range(rng.choice([1, 1, 1, 2])):
        req, prev = [], None
        for _ in range(rng.randint(1, 5)):
            r = rng.random()
            if prev is not None and (r < 0.25 or (len(bindings[prev]) > 1 and r < 0.5)):
                tag = prev
            elif prev is not None and r < 0.6:
                tag = related(prev)
            else:
                tag = rng.choice(with_pp) if with_pp and rng.random() < 0.3 else rng.choice(tags)
            req.append(rng.choice(names[tag]))
            prev = tag
        if rng.random() < 0.08 and default_binding(tree):
            req = []
        calls.append(req)
    if rng.random() < 0.25:
        # NESTED default-task shortcut (`a.b`, `a.b.c` = the default task of that sub-collection) next to a task living
        # directly in the enclosing collection, in both orders, within one execute() or across two
        cands = []
        for node, here, chain in walk(tree):
            if len(here) >= 1:
                for sub in node["subs"]:
                    d = default_binding(sub, chain)
                    if d:
                        for sp in spellings(None, list(here) + [sub["name"]]):
                            cands.append((sp, [n for t in node["tasks"] for n in names[t["tag"]]
                                               if n.count(".") == len(here)]))
        cands = [c for c in cands if c[1]]
        if cands:
            short, direct = rng.choice(cands)
            pair = [short, rng.choice(direct)]
            rng.shuffle(pair)
            calls = [c for c in calls if c] or [[]]
            if len(calls) > 1 and rng.random() < 0.4:
                calls[0] = calls[0] + [pair[0]]
                calls[1] = [pair[1]] + calls[1]
            else:
                k = rng.randint(0, len(calls[0]))
                calls[0] = calls[0][:k] + pair + calls[0][k:]
    if eqpair:
        n1, n2, k = eqpair
        pair = [rng.choice(names[rng.choice(n1["tasks"])["tag"]]), rng.choice(names[rng.choice(n2["tasks"])["tag"]])]
        rng.shuffle(pair)
        calls = [c for c in calls if c] or [[]]
        i = rng.randint(0, len(calls[0]))
        calls[0] = calls[0][:i] + pair + ([rng.choice(pair)] if rng.random() < 0.3 else []) + calls[0][i:]
    if twin:
        pair = [rng.choice(names[twin[2]]), rng.choice(names[twin[3]])]
        rng.shuffle(pair)
        calls = [c for c in calls if c] or [[]]
        if rng.random() < 0.4:
            calls = [calls[0] + [pair[0]], (calls[1] if len(calls) > 1 else []) + [pair[1]]]  # two execute() calls
        else:
            k = rng.randint(0, len(calls[0]))
            calls[0] = calls[0][:k] + [pair[0]] + calls[0][k:]
            k = rng.randint(0, len(calls[-1]))
            calls[-1] = calls[-1][:k] + [pair[1]] + calls[-1][k:]
        if rng.random() < 0.3:
            calls[-1] = calls[-1] + [rng.choice(pair)]
    env0 = {}
    if rng.random() < 0.5:
        for _ in range(rng.randint(1, 3)):
            p = rng.choice([k for k, v in c06.SHAPE.items() if v == "leaf" and k[-1] != "d" and not c06.in_mods_only(k) and not any("_" in x for x in k)])
            env0["_".join(p).upper()] = rng.choice(["0", "1", "7", "42"])
    if eqpair and rng.random() < 0.6:
        env0["_".join(eqpair[2]).upper()] = rng.choice(["7", "0", "1"])  # cast depends on the setting's current TYPE
    defaults = dict(copy.deepcopy(DEFAULTS), **c06.tree(rng, dens=0.4))
    flat = [resolve[n][0] for req in calls for n in req]
    if len(flat) >= 2 and rng.random() < 0.3:
        # journal family across tasks: an early task deletes settings at several depths below one top-level section,
        # a later task re-creates / overwrites some of them, the tasks after that read
        deep = [k for k, v in c06.SHAPE.items() if v == "leaf" and len(k) >= 2 and not c06.in_mods_only(k)]
        top = rng.choice(["a", "b"])
        below = [k for k in deep if k[0] == top]
        picks = rng.sample(below, min(len(below), rng.randint(2, 4)))
        for k in picks:
            cfglib.set_total(defaults, list(k), c06.leaf(rng, k))
        i = rng.randrange(len(flat) - 1)
        j = rng.randrange(i + 1, len(flat))
        dels = [c06.plain_syntax({"op": rng.choice(["DI", "DA"]), "path": [[x, rng.random() < 0.4] for x in k[:-1]], "k": k[-1]})
                for k in picks]
        sets = [{"op": "SI", "path": [[x, False] for x in k[:-1]], "k": k[-1], "v": c06.leaf(rng, k)}
                for k in rng.sample(picks, rng.randint(1, len(picks)))]
        if flat[i] != flat[j]:
            bodies[flat[i]]["ops"] = bodies[flat[i]]["ops"] + dels
            bodies[flat[j]]["ops"] = sets + bodies[flat[j]]["ops"]
    return {"kind": "session", "v": 2, "defaults": defaults,
            "overrides": c06.tree(rng, dens=0.15), "tree": tree, "bodies": bodies, "calls": calls, "env0": env0}


def upgrade(case):
    """sessions recorded in the first format (fixed tree root/s1/s1.inner/s2) -> the general format"""
    if case.get("v") == 2:
        return case
    def node(name, path, tnames, subs):
        return {"name": name, "cfg": case["cfgs"][path], "subs": subs, "default_task": None, "default_sub": None,
                "tasks": [{"name": t, "aliases": [], "tag": (path + "." if path else "") + t} for t in tnames]}
    inner = node("inner", "s1.inner", ["t"], [])
    s1, s2 = node("s1", "s1", ["t1", "t2"], [inner]), node("s2", "s2", ["t1", "t2"], [])
    root = node(None, "", ["top", "top2"], [s1, s2])
    d = case.get("default")
    if d == "top":
        root["default_task"] = "top"
    elif d in ("s1", "s2"):
        root["default_sub"] = d
        (s1 if d == "s1" else s2)["default_task"] = "t1"
    return {"kind": "session", "v": 2, "defaults": case["defaults"], "overrides": case["overrides"], "tree": root,
            "bodies": case["tasks"], "calls": [case["request"]], "env0": case["env0"]}


# ------------------------------------------------------------------ running the real executor

def prepare(case):
    case = upgrade(case)
    case["_bindings"], case["_resolve"], case["_names"], case["_coll"] = index_tree(case["tree"])
    return case


def expansion(case):
    """(tag, name it was called by | None) in execution order: pre tasks, the task, post tasks (no dedupe),
    over all execute() calls"""
    out = []

    def expand(tag, name):
        for p in case["bodies"][tag]["pre"]:
            expand(p, None)
        out.append((tag, name))
        for p in case["bodies"][tag]["post"]:
            expand(p, None)
    for req in case["calls"]:
        if req:
            for n in req:
                expand(case["_resolve"][n][0], n)
        else:
            expand(default_binding(case["tree"])[0], None)
    return out


def candidates(case, tag, name):
    """(unheld?, [settings chains the property accepts as the task's own namespace path])"""
    if name is not None:
        return False, [case["_resolve"][name][1]]
    if tag in case["_bindings"]:
        return False, case["_bindings"][tag]  # bound in several places: any of its paths is its own
    return True, [[case["tree"]["cfg"]]]      # not held by the collection: no namespace of its own


def run_session(case):
    """Runs the real Executor.  Returns (record, escaped): record = [(tag, view, environ, [(op, result, view)...])]."""
    import os
    from invoke import Collection, Task, Executor, Config
    record = []
    task_objs = {}
    prefix = "INVOKE_"

    def mk(tag):
        def body(c):
            cfg = c.config
            environ = {k[len(prefix):]: v for k, v in os.environ.items() if k.startswith(prefix)}
            try:
                view = cfglib.plain(cfg)
            except Exception as e:
                view = "!" + cfglib.errname(e)
            steps = []
            record.append((tag, view, environ, steps))
            impl = cfglib.Impl()
            impl.objs = [cfg]
            for op in case["bodies"][tag]["ops"]:
                if op["op"] == "SETENV":
                    os.environ[prefix + op["var"]] = op["val"]
                    continue
                if op["op"] == "UNSETENV":
                    os.environ.pop(prefix + op["var"], None)
                    continue
                op = copy.deepcopy(op)
                r = impl.apply(op)
                try:
                    v = cfglib.plain(cfg)
                except Exception as e:
                    v = "!" + cfglib.errname(e)
                steps.append((op, r, v))
        body.__name__ = "body"
        return body

    info = {}
    for node, here, _ in walk(case["tree"]):
        for t in node["tasks"]:
            info.setdefault(t["tag"], t)
    # tasks without pre/post first so that the objects exist when referenced
    fns = {}
    for tag in sorted(case["bodies"], key=lambda t: (bool(case["bodies"][t]["pre"] or case["bodies"][t]["post"]),
                                                    bool(case["bodies"][t].get("twin_of")))):
        spec = case["bodies"][tag]
        kind, src = spec.get("twin_kind"), spec.get("twin_of")
        if kind == "deepcopy":
            task_objs[tag] = copy.deepcopy(task_objs[src])  # the function object is shared, the Task is new
            continue
        # same_fn: the SAME function wrapped a second time (it records under the twin group's tag); factory: a new
        # closure of the same code
        fns[tag] = fns[src] if kind == "same_fn" else mk(tag)
        task_objs[tag] = Task(fns[tag], name=info[tag]["name"] if tag in info else tag, pre=[task_objs[p] for p in spec["pre"]],
                              post=[task_objs[p] for p in spec["post"]])

    byid = ensure_ids(case["tree"])
    built = {}

    def build(node):
        if node["id"] in built:
            return built[node["id"]]
        c = Collection(node["name"]) if node["name"] else Collection()
        built[node["id"]] = c
        c.configure(copy.deepcopy(node["cfg"]))
        for t in node["tasks"]:
            c.add_task(task_objs[t["tag"]], name=t["name"], aliases=tuple(t["aliases"]),
                       default=(t["name"] == node["default_task"]))
        for sub in node["subs"]:
            c.add_collection(build(sub), default=(sub["name"] == node["default_sub"]))
        for m in node["mounts"]:
            c.add_collection(build(byid[m["id"]]), name=m["name"])
        return c

    root = build(case["tree"])
    stored = {i: cfglib.canon(c.configuration()) for i, c in built.items()}
    # the names computed by construction must be names the collection resolves to that very task
    bad = [n for n, (tag, _) in case["_resolve"].items() if _lookup(root, n) is not task_objs[tag]]
    cfg = Config(defaults=copy.deepcopy(case["defaults"]), overrides=copy.deepcopy(case["overrides"]), lazy=True,
                 **cfglib.NOFILES)
    escaped = None
    with cfglib.EnvPatch(prefix, case["env0"]):
        ex = Executor(root, cfg)
        for req in case["calls"]:
            if any(n in bad for n in req):
                escaped = "harness: name(s) %s do not resolve as constructed" % [n for n in req if n in bad]
                break
            try:
                ex.execute(*req)
            except Exception as e:  # anything escaping execute() comes from configuration handling (bodies catch their own)
                escaped = cfglib.errname(e) + " " + repr(e)[:200]
                break
    changed = ["collection %r: own settings were %s, are %s after the session" % (i, stored[i], cfglib.canon(c.configuration()))
               for i, c in built.items() if cfglib.canon(c.configuration()) != stored[i]]
    return record, escaped, changed


def _lookup(root, name):
    try:
        return root[name]
    except Exception:
        return None


def ns_of(chain):
    """collection-level settings for a namespace path: deep merge along the path, outer wins (C17)"""
    m = {}
    for c in reversed(chain):
        m = cfglib.deep_merge(m, c)
    return m


def judge(case, record, escaped, changed=()):
    """ORACLE.  Returns (why, signature, model ops, impl rows) - why None when the property holds."""
    exp = expansion(case)
    ops = [{"o": 0, "op": "NEW", "defaults": case["defaults"], "overrides": case["overrides"]}]
    first = cfglib.Ref({"defaults": case["defaults"], "overrides": case["overrides"]})
    rows = ["-#" + cfglib.canon(first.tree)]
    ref = first
    def group(t):
        b = case["bodies"][t]
        return b["twin_of"] if b.get("twin_kind") in ("same_fn", "deepcopy") else t
    if [group(t) for t, _ in exp[:len(record)]] != [r[0] for r in record]:
        return "executed %s, expected expansion %s" % ([r[0] for r in record], exp), "order", ops, rows
    for (tag, name), (_, view, environ, steps) in zip(exp, record):
        unheld, chains = candidates(case, tag, name)
        if isinstance(view, str):
            ops.append({"o": 0, "op": "TASK", "none": unheld, "cfgs": chains[0], "env": environ})
            rows.append("-#" + view)
            return "config unreadable inside %s: %s" % (tag, view), "other", ops, rows
        chosen = None
        try:
            alts = []
            for ch in chains:
                alt = ref.clone()
                alt.reload("collection", ns_of(ch))
                alt.load_env(environ)
                alts.append(alt)
                if chosen is None and cfglib.canon(view) == cfglib.canon(alt.tree):
                    chosen = (ch, alt)
        except cfglib.RefSkip:
            return None, None, ops, rows
        ops.append({"o": 0, "op": "TASK", "none": unheld, "cfgs": (chosen or (chains[0],))[0], "env": environ})
        rows.append("-#" + cfglib.canon(view))
        if chosen is None:
            why = "task %s (called as %s) sees %s; own namespace settings + fresh env + earlier edits give %s" % (
                tag, name, cfglib.canon(view), " or ".join(cfglib.canon(a.tree) for a in alts))
            return why, "other", ops, rows
        ref = chosen[1]
        for op, r, v in steps:
            ops.append(dict(op, o=0))
            rows.append(r + "#" + (v if isinstance(v, str) else cfglib.canon(v)))
            try:
                want = ref.apply(op)
            except cfglib.RefSkip:
                return None, None, ops, rows
            if cfglib.is_internal(r) or isinstance(v, str):
                return "internal error %s from %s in task %s" % (r, cfglib.op_txt(op), tag), "other", ops, rows
            if want != r:
                return "%s in task %s returned %s, a nested dict gives %s" % (cfglib.op_txt(op), tag, r, want), "other", ops, rows
            if cfglib.canon(v) != cfglib.canon(ref.tree):
                return ("after %s in task %s the config reads %s, the nested dict %s" % (
                    cfglib.op_txt(op), tag, cfglib.canon(v), cfglib.canon(ref.tree))), "other", ops, rows
    if escaped and escaped.startswith("harness:"):
        return None, None, ops, rows
    if escaped:
        return "execute() failed inside configuration handling: %s" % escaped, "other", ops, rows
    if len(record) != len(exp):
        return "only %d of %d tasks executed" % (len(record), len(exp)), "other", ops, rows
    if changed:
        return "the session changed settings stored in the namespace: " + "; ".join(changed[:2]), "other", ops, rows
    return None, None, ops, rows


def check(case):
    case = prepare(case)
    record, escaped, changed = run_session(case)
    res = judge(case, record, escaped, changed) + (record,)
    for k in [k for k in case if k.startswith("_")]:
        del case[k]
    return res


def replay(case):
    why, sig, _, _, _ = check(copy.deepcopy(case))
    return why is None, why or "ok"


def match_known(entry, failure):
    return False  # C19 has no known finding left (#23 was repaired); every oracle failure is a violation


def run(ctx):
    out = Outcome()
    rng = ctx.rng
    drv = LeanDriver("drv_config")
    lines, rows_all, ran = [], [], []
    for i in range(ctx.n(2300, 45000)):
        case = gen_session(rng, prepost=0.3 if i % 2 else 0.0)
        why, sig, ops, rows, record = check(case)
        bindings, res2, names, coll = index_tree(case["tree"])
        resolve = {n: t for n, (t, _) in res2.items()}
        coll = dict(coll, **{t: "<outside>" for t in case["bodies"] if t not in coll})
        for t in case["bodies"]:
            for o in case["bodies"][t]["pre"] + case["bodies"][t]["post"]:
                out.hist["prepost_defined"] += 1
                out.hist["prepost_in_other_namespace"] += (o in bindings and coll[o] != coll[t])
                out.hist["prepost_not_held_by_collection"] += (o not in bindings)
                out.hist["prepost_bound_in_several_places"] += (len(bindings.get(o, [])) > 1)
        out.hist["tasks_bound_in_several_places"] += sum(1 for t in bindings if len(bindings[t]) > 1)
        for t, b in case["bodies"].items():
            if b.get("twin_of"):
                out.hist["twin_sessions_" + b["twin_kind"]] += 1
                ran_unnamed = [x for x in (t, b["twin_of"]) if any(
                    x in case["bodies"][m]["pre"] + case["bodies"][m]["post"] for m in case["bodies"])]
                out.hist["twin_sessions_both_twins_ran_unnamed"] += len(ran_unnamed) == 2
                out.hist["twin_sessions_two_execute_calls"] += len(case["calls"]) > 1
        cfgs_seen = [cfglib.canon(n["cfg"]) for n, _ in real_nodes(case["tree"]) if n["cfg"]]
        raw = [n["cfg"] for n, _ in real_nodes(case["tree"]) if n["cfg"]]
        out.hist["sessions_with_equal_but_not_identical_namespace_settings"] += any(
            a == b and cfglib.canon(a) != cfglib.canon(b) for i, a in enumerate(raw) for b in raw[i + 1:])
        nm = sum(len(n.get("mounts", [])) for n, _ in real_nodes(case["tree"]))
        out.hist["sessions_with_collection_mounted_twice"] += nm > 0
        if nm:
            used = {}
            for req in case["calls"]:
                for n in req:
                    t, ch = res2[n]
                    if len(bindings[t]) > 1:
                        used.setdefault(t, []).append(cfglib.canon({"p": [cfglib.canon(x) for x in ch]}))
            out.hist["calls_to_tasks_reachable_by_several_paths"] += sum(len(v) for v in used.values())
            out.hist["sessions_running_one_task_through_two_paths"] += any(len(set(v)) > 1 for v in used.values())
            out.hist["sessions_repeating_a_path_after_the_other"] += any(
                any(v[i] != v[i + 1] and v[i] in v[i + 2:] for i in range(len(v) - 2)) for v in used.values())
        tags = [r[0] for r in record]
        edits = [1 for r in record for op, res, v in r[3] if op["op"] in cfglib.MUTATORS and not res.startswith("E:")]
        out.case(case, len({coll[t] for t in tags}) >= 2 and bool(edits))
        out.hist["sessions"] += 1
        out.hist["tasks_executed"] += len(tags)
        out.hist["edits_ok"] += len(edits)
        out.hist["execute_calls"] += len(case["calls"])
        out.hist["default_task_call"] += sum(1 for r in case["calls"] if not r)
        out.hist["env_changes"] += sum(1 for t in tags for o in case["bodies"][t]["ops"] if o["op"] in ("SETENV", "UNSETENV"))
        out.hist["namespace_switches"] += sum(1 for a, b in zip(tags, tags[1:]) if coll[a] != coll[b])
        for req in case["calls"]:
            out.hist["with_prepost"] += any(case["bodies"][resolve[n]]["pre"] or case["bodies"][resolve[n]]["post"] for n in req)
            for n, n2 in zip(req, req[1:]):
                t1, t2 = resolve[n], resolve[n2]
                out.hist["consecutive_same_task_other_name"] += (t1 == t2 and n != n2)
                out.hist["consecutive_same_namespace"] += (t1 != t2 and coll[t1] == coll[t2])
                out.hist["consecutive_parent_child"] += (coll[t1] != coll[t2] and (
                    (coll[t1] + ".").startswith(coll[t2] + ".") or (coll[t2] + ".").startswith(coll[t1] + ".")
                    or coll[t1] == "" or coll[t2] == ""))
            for n in req:
                tag = resolve[n]
                depth = len(coll[tag].split(".")) + 1 if coll[tag] else 1
                primary = tag
                kind = ("shortcut" if n.count(".") < tag.count(".") else
                        "alias" if n.replace("-", "_").rsplit(".", 1)[-1] != tag.rsplit(".", 1)[-1] else "primary")
                out.hist["name_" + kind] += 1
                out.hist["name_dashed_spelling"] += ("-" in n)
                out.hist["call_depth_%d" % depth] += 1
                if kind == "shortcut":
                    out.hist["shortcut_depth_%d" % (n.count(".") + 1)] += 1
            for n, n2 in list(zip(req, req[1:])) + list(zip(req[1:], req)):
                if n.count(".") >= 1 and n.count(".") < resolve[n].count(".") and \
                        n2.replace("-", "_").rsplit(".", 1)[0] == n.replace("-", "_").rsplit(".", 1)[0] and \
                        n2.count(".") == n.count(".") and resolve[n2] != resolve[n]:
                    out.hist["nested_shortcut_adjacent_to_enclosing_task"] += 1
        if why:
            out.hist["oracle_" + sig] += 1
            if sig not in KNOWN_SIGS or out.hist["oracle_" + sig] <= 12:
                out.fail(case, why)
        lines.append(cfglib.line(ops))
        rows_all.append("|".join(rows))
        ran.append(case)
    if ctx.model_ok:
        model = drv.run(lines)
        for case, m, i in zip(ran, model, rows_all):
            out.traces += 1
            if m != i:
                ms, is_ = m.split("|"), i.split("|")
                k = next((j for j in range(min(len(ms), len(is_))) if ms[j] != is_[j]), min(len(ms), len(is_)))
                out.disagree(case, "step %d: %s" % (k, is_[k] if k < len(is_) else None), ms[k] if k < len(ms) else None)
    out.extra["table_obligations"] = 0
    return out


LEVEL_TEXT = ("Lean 4 proofs on the Config model extended by the executor's per-task step (load_collection of the namespace "
              "configuration, load_shell_env, then the body's edits): task_sees_own_ns_plus_journal (the view a task starts "
              "with is the journal of all earlier edits replayed over the merge with ITS collection level and an env level "
              "that is a function of the current other levels, the journal and the current environment only - "
              "stale_env_is_irrelevant), held_task_sees_own_namespace (named calls AND pre/post/default tasks the collection "
              "holds get nsConfig of their path), unheld_task_sees_root_settings (residual case), session_never_fails, and "
              "called_as_none_pinned_counterexample for the behaviour before the repair of #23; tied to the real Executor + "
              "Config + Collection by running generated sessions through both and by a direct oracle")
TECHNIQUE = ("Lean 4 theorems over all task sequences x edit scripts (instance of the C06 journal theorem with the base "
             "swapped per task) + real Executor sessions vs model + reference-dict oracle")
