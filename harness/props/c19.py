"""C19 - each task sees its own namespace settings; session edits persist safely."""
import copy

import common
import cfglib
from common import Outcome, LeanDriver
from props import c06

ID = "C19"
PROPS = ["Invoke/Props/C19.lean"]
TARGETS = ["drv_config"]
DRIVER_ROOTS = ["Driver/Config.lean"]
GENERATED = ["Clone"]
RULE = ("a case is one session of the real Executor.execute over a namespace tree (root + s1 + s1.inner + s2, each with "
        "its own nested collection settings) with 1-5 requested tasks (sometimes none: the default task), pre/post tasks "
        "from other sub-collections, bodies that record the deep view of context.config and then perform generated "
        "writes / deletions / nested edits / dict-protocol mutations and change os.environ for the following tasks; "
        "oracle per executed task: view = journal of all earlier tasks' edits replayed over the merge of the levels with "
        "collection := deep merge of the settings along ITS OWN namespace path (outer wins) and env := the environment as it "
        "is when the task starts; no exception may escape execute(); the same session is run through the Lean model "
        "(TASK step = load_collection + load_shell_env); non-trivial = at least two tasks from different namespaces "
        "executed and at least one edit succeeded; distinct = distinct sessions")
TRUSTED = ["Lean 4.33 kernel", "axioms propext/Classical.choice/Quot.sound only",
           "harness/cfglib.py + harness/props/c19.py (session runner, reference, canonicalisation)",
           "model Invoke/Model/Config.lean (taskStep, nsConfig) hand-written, tied by correspondence on every run"]
ASSUMPTIONS = ["type-consistent values; dict-valued writes only at key paths no level defines (C06 known findings)",
               "the order in which tasks execute (pre, task, post, no dedupe) is C04's subject and taken from the real run "
               "after checking it against the straightforward expansion",
               "environment values are texts that the setting's current type can adopt (C16)"]

KNOWN_SIGS = ("C19-called-as-none-root-only",)
DEFAULTS = {"tasks": {"dedupe": False}}


# ------------------------------------------------------------------ generation

def gen_body(rng, n):
    """edit script of one task: proxy ops are generated against no particular state (KeyErrors are fine)"""
    ops = []
    for _ in range(n):
        r = rng.random()
        if r < 0.15:
            p = rng.choice([k for k, v in c06.SHAPE.items() if v == "leaf" and k[-1] != "d" and not c06.in_mods_only(k)])
            var = "_".join(p).upper()
            if rng.random() < 0.7:
                ops.append({"op": "SETENV", "var": var, "val": rng.choice(["0", "1", "7", "42"])})
            else:
                ops.append({"op": "UNSETENV", "var": var})
            continue
        secs = [k for k, v in c06.SHAPE.items() if v == "sec"] + [()]
        path = rng.choice(secs)
        cand = [k for k in c06.KEYS if path + (k,) in c06.SHAPE]
        k = rng.choice(cand)
        full = path + (k,)
        op = {"path": [[x, rng.random() < 0.4] for x in path], "k": k}
        if r < 0.55:
            if c06.SHAPE[full] == "sec":
                if not c06.in_mods_only(full):
                    continue
                v = c06.tree(rng, full, lower=False, dens=0.5)
            else:
                v = c06.leaf(rng, full)
            w = rng.random()
            if w < 0.5:
                op.update(op="SI", v=v)
            elif w < 0.75:
                op.update(op="SA", v=v)
            elif w < 0.9:
                op.update(op="SD", d=v)
            else:
                op.update(op="UPD", kw={k: v})
                del op["k"]
        elif r < 0.85:
            w = rng.random()
            if w < 0.4:
                op["op"] = "DI"
            elif w < 0.6:
                op["op"] = "DA"
            elif w < 0.8:
                op.update(op="POP", d=0)
            elif w < 0.9:
                op["op"] = "PI"
                del op["k"]
            else:
                op["op"] = "CLR"
                del op["k"]
        else:
            op["op"] = rng.choice(["GI", "GA", "HAS", "KEYS", "LEN"])
            if op["op"] in ("KEYS", "LEN"):
                del op["k"]
        ops.append(op)
    return ops


NODES = {"": [], "s1": ["s1"], "s1.inner": ["s1", "inner"], "s2": ["s2"]}
TASKS = ["top", "top2", "s1.t1", "s1.t2", "s1.inner.t", "s2.t1", "s2.t2"]


def coll_of(tag):
    return tag.rsplit(".", 1)[0] if "." in tag else ""


def gen_session(rng, prepost=0.3):
    cfgs = {node: c06.tree(rng, dens=0.5) if rng.random() < 0.85 else {} for node in NODES}
    tasks = {t: {"pre": [], "post": [], "ops": gen_body(rng, rng.randint(0, 4))} for t in TASKS}
    if rng.random() < prepost:
        for _ in range(rng.randint(1, 2)):
            t = rng.choice(TASKS)
            other = rng.choice([x for x in TASKS if x != t])
            if not tasks[other]["pre"] and not tasks[other]["post"] and not any(
                    t in tasks[x]["pre"] + tasks[x]["post"] for x in TASKS):
                tasks[t][rng.choice(["pre", "post"])].append(other)
    request = [rng.choice(TASKS) for _ in range(rng.randint(1, 5))]
    with_pp = [t for t in TASKS if tasks[t]["pre"] or tasks[t]["post"]]
    if with_pp and not any(t in request for t in with_pp):
        request[rng.randrange(len(request))] = rng.choice(with_pp)
    default = None
    if rng.random() < 0.12:
        request = []
        default = rng.choice(["top", "s1", "s2"])
    env0 = {}
    if rng.random() < 0.5:
        for _ in range(rng.randint(1, 3)):
            p = rng.choice([k for k, v in c06.SHAPE.items() if v == "leaf" and k[-1] != "d" and not c06.in_mods_only(k)])
            env0["_".join(p).upper()] = rng.choice(["0", "1", "7", "42"])
    return {"kind": "session", "defaults": dict(copy.deepcopy(DEFAULTS), **c06.tree(rng, dens=0.4)),
            "overrides": c06.tree(rng, dens=0.15), "cfgs": cfgs, "tasks": tasks, "request": request, "default": default,
            "env0": env0}


# ------------------------------------------------------------------ running the real executor

def expansion(case):
    """(tag, called_as_none) in execution order: pre tasks, the task, post tasks (no dedupe)"""
    out = []

    def expand(tag, none):
        for p in case["tasks"][tag]["pre"]:
            expand(p, True)
        out.append((tag, none))
        for p in case["tasks"][tag]["post"]:
            expand(p, True)
    if case["request"]:
        for t in case["request"]:
            expand(t, False)
    else:
        d = case["default"]
        expand({"top": "top", "s1": "s1.t1", "s2": "s2.t1"}[d], True)
    return out


def run_session(case):
    """Runs the real Executor.  Returns (record, escaped): record = [(tag, view, environ, [(op, result)...])]."""
    from invoke import Collection, Task, Executor, Config
    record = []
    task_objs = {}

    def mk(tag):
        def body(c):
            cfg = c.config
            environ = {k[len(prefix):]: v for k, v in __import__("os").environ.items() if k.startswith(prefix)}
            try:
                view = cfglib.plain(cfg)
            except Exception as e:
                view = "!" + cfglib.errname(e)
            steps = []
            record.append((tag, view, environ, steps))
            impl = cfglib.Impl()
            impl.objs = [cfg]
            for op in case["tasks"][tag]["ops"]:
                if op["op"] == "SETENV":
                    __import__("os").environ[prefix + op["var"]] = op["val"]
                    continue
                if op["op"] == "UNSETENV":
                    __import__("os").environ.pop(prefix + op["var"], None)
                    continue
                op = copy.deepcopy(op)
                r = impl.apply(op)
                try:
                    v = cfglib.plain(cfg)
                except Exception as e:
                    v = "!" + cfglib.errname(e)
                steps.append((op, r, v))
        body.__name__ = tag.replace(".", "_")
        return body

    prefix = "INVOKE_"
    # tasks without pre/post first so that the objects exist when referenced
    order = sorted(case["tasks"], key=lambda t: bool(case["tasks"][t]["pre"] or case["tasks"][t]["post"]))
    for tag in order:
        spec = case["tasks"][tag]
        task_objs[tag] = Task(mk(tag), name=tag.rsplit(".", 1)[-1], pre=[task_objs[p] for p in spec["pre"]],
                              post=[task_objs[p] for p in spec["post"]])
    colls = {"": Collection()}
    for node in ("s1", "s1.inner", "s2"):
        colls[node] = Collection(node.rsplit(".", 1)[-1])
    for node, c in colls.items():
        c.configure(copy.deepcopy(case["cfgs"][node]))
    d = case["default"]
    for tag in TASKS:
        node = coll_of(tag)
        is_default = (d == "top" and tag == "top") or (d in ("s1", "s2") and tag == d + ".t1")
        colls[node].add_task(task_objs[tag], name=tag.rsplit(".", 1)[-1], default=is_default)
    colls["s1"].add_collection(colls["s1.inner"])
    colls[""].add_collection(colls["s1"], default=(d == "s1"))
    colls[""].add_collection(colls["s2"], default=(d == "s2"))
    cfg = Config(defaults=copy.deepcopy(case["defaults"]), overrides=copy.deepcopy(case["overrides"]), lazy=True,
                 **cfglib.NOFILES)
    escaped = None
    with cfglib.EnvPatch(prefix, case["env0"]):
        try:
            Executor(colls[""], cfg).execute(*case["request"])
        except Exception as e:  # anything escaping execute() comes from configuration handling (bodies catch their own)
            escaped = cfglib.errname(e) + " " + repr(e)[:200]
    return record, escaped


def path_cfgs(case, tag):
    node = coll_of(tag)
    parts = NODES[node]
    return [case["cfgs"][""]] + [case["cfgs"][".".join(parts[:i + 1])] for i in range(len(parts))]


def ns_expected(case, tag):
    """collection-level settings for the task's own namespace path: deep merge along the path, outer wins (C17)"""
    m = {}
    for c in reversed(path_cfgs(case, tag)):
        m = cfglib.deep_merge(m, c)
    return m


def judge(case, record, escaped):
    """ORACLE.  Returns (why, signature, model ops, impl rows) - why None when the property holds."""
    exp = expansion(case)
    ops = [{"o": 0, "op": "NEW", "defaults": case["defaults"], "overrides": case["overrides"]}]
    first = cfglib.Ref({"defaults": case["defaults"], "overrides": case["overrides"]})
    rows = ["-#" + cfglib.canon(first.tree)]
    ref = first
    why = sig = None
    if [t for t, _ in exp[:len(record)]] != [r[0] for r in record]:
        return "executed %s, expected expansion %s" % ([r[0] for r in record], exp), "order", ops, rows
    for (tag, none), (_, view, environ, steps) in zip(exp, record):
        ops.append({"o": 0, "op": "TASK", "none": none, "cfgs": path_cfgs(case, tag), "env": environ})
        rows.append("-#" + (view if isinstance(view, str) else cfglib.canon(view)))
        if isinstance(view, str):
            return "config unreadable inside %s: %s" % (tag, view), "other", ops, rows
        try:
            alt = ref.clone()
            ref.reload("collection", ns_expected(case, tag))
            ref.load_env(environ)
        except cfglib.RefSkip:
            return None, None, ops, rows
        if cfglib.canon(view) != cfglib.canon(ref.tree):
            why = "task %s (called_as %s) sees %s; own namespace settings + fresh env + earlier edits give %s" % (
                tag, "None" if none else tag, cfglib.canon(view), cfglib.canon(ref.tree))
            sig = "other"
            if none:
                try:
                    alt.reload("collection", case["cfgs"][""])
                    alt.load_env(environ)
                    if cfglib.canon(alt.tree) == cfglib.canon(view):
                        sig = "C19-called-as-none-root-only"
                except cfglib.RefSkip:
                    pass
            return why, sig, ops, rows
        for op, r, v in steps:
            ops.append(dict(op, o=0))
            rows.append(r + "#" + (v if isinstance(v, str) else cfglib.canon(v)))
            try:
                want = ref.apply(op)
            except cfglib.RefSkip:
                return None, None, ops, rows
            if cfglib.is_internal(r) or isinstance(v, str):
                return "internal error %s from %s in task %s" % (r, cfglib.op_txt(op), tag), "other", ops, rows
            if want != r:
                return "%s in task %s returned %s, a nested dict gives %s" % (cfglib.op_txt(op), tag, r, want), "other", ops, rows
            if cfglib.canon(v) != cfglib.canon(ref.tree):
                return ("after %s in task %s the config reads %s, the nested dict %s" % (
                    cfglib.op_txt(op), tag, cfglib.canon(v), cfglib.canon(ref.tree))), "other", ops, rows
    if escaped:
        return "execute() failed inside configuration handling: %s" % escaped, "other", ops, rows
    if len(record) != len(exp):
        return "only %d of %d tasks executed" % (len(record), len(exp)), "other", ops, rows
    return None, None, ops, rows


def check(case):
    record, escaped = run_session(case)
    return judge(case, record, escaped) + (record,)


def replay(case):
    why, sig, _, _, _ = check(copy.deepcopy(case))
    return why is None, why or "ok"


def match_known(entry, failure):
    if not entry.get("match") or failure["case"].get("kind") != "session":
        return False
    why, sig, _, _, _ = check(copy.deepcopy(failure["case"]))
    return why is not None and sig == entry["match"]


def run(ctx):
    out = Outcome()
    rng = ctx.rng
    drv = LeanDriver("drv_config")
    lines, rows_all, ran = [], [], []
    for i in range(ctx.n(5000, 60000)):
        case = gen_session(rng, prepost=0.3 if i % 2 else 0.0)
        why, sig, ops, rows, record = check(case)
        tags = [r[0] for r in record]
        edits = [1 for r in record for op, res, v in r[3] if op["op"] in cfglib.MUTATORS and not res.startswith("E:")]
        out.case(case, len({coll_of(t) for t in tags}) >= 2 and bool(edits))
        out.hist["sessions"] += 1
        out.hist["tasks_executed"] += len(tags)
        out.hist["edits_ok"] += len(edits)
        out.hist["with_prepost"] += any(case["tasks"][t]["pre"] or case["tasks"][t]["post"] for t in case["request"])
        out.hist["default_task"] += not case["request"]
        out.hist["env_changes"] += sum(1 for t in tags for o in case["tasks"][t]["ops"] if o["op"] in ("SETENV", "UNSETENV"))
        out.hist["namespace_switches"] += sum(1 for a, b in zip(tags, tags[1:]) if coll_of(a) != coll_of(b))
        if why:
            out.hist["oracle_" + sig] += 1
            if sig not in KNOWN_SIGS or out.hist["oracle_" + sig] <= 12:
                out.fail(case, why)
        lines.append(cfglib.line(ops))
        rows_all.append("|".join(rows))
        ran.append(case)
    if ctx.model_ok:
        model = drv.run(lines)
        for case, m, i in zip(ran, model, rows_all):
            out.traces += 1
            if m != i:
                ms, is_ = m.split("|"), i.split("|")
                k = next((j for j in range(min(len(ms), len(is_))) if ms[j] != is_[j]), min(len(ms), len(is_)))
                out.disagree(case, "step %d: %s" % (k, is_[k] if k < len(is_) else None), ms[k] if k < len(ms) else None)
    out.extra["table_obligations"] = 0
    return out


LEVEL_TEXT = ("Lean 4 proofs on the Config model extended by the executor's per-task step (load_collection of the namespace "
              "configuration, load_shell_env, then the body's edits): task_sees_own_ns_plus_journal (the view a task starts "
              "with is the journal of all earlier edits replayed over the merge with ITS collection level and ITS environment "
              "level, for every sequence of tasks and edit scripts), named_task_sees_own_namespace, session_never_fails, and - "
              "making the boundary of the known finding explicit - pre_post_task_sees_root_only / "
              "unnamed_task_gets_root_settings / called_as_none_counterexample for pre/post/default tasks; tied to the real Executor + Config + Collection by "
              "running generated sessions through both and by a direct oracle")
TECHNIQUE = ("Lean 4 theorems over all task sequences x edit scripts (instance of the C06 journal theorem with the base "
             "swapped per task) + real Executor sessions vs model + reference-dict oracle")
