"""C20 - the nearest enclosing tasks module is the one loaded, with its project dir."""
import contextlib
import importlib
import io
import itertools
import os
import posixpath
import shutil
import sys
import tempfile

import common
from common import Outcome, LeanDriver

ID = "C20"
PROPS = ["Invoke/Props/C20.lean"]
TARGETS = ["drv_loader"]
DRIVER_ROOTS = ["Driver/Loader.lean"]
GENERATED = []
RULE = ("case = (real directory chain of depth <=4 in a temporary directory, each level holding one of: nothing / name.py / "
        "name/__init__.py / both / a bare name/ directory without __init__.py; a collection name out of three, one of "
        "them containing a dot (`a.b`: module a.b.py, package a.b/ whose __init__ imports its sibling plainly); a start level; "
        "a start form: absolute, absolute with trailing separator, relative from an ancestor (os.chdir), relative with ./ and "
        "trailing separator, ../.. from a deeper directory, the absolute path of a deeper directory followed by /../.. (both `..` forms "
        "preferably step out of a directory that holds a candidate), no start at all (cwd)).  Directories named like the collection: "
        "all chains in which every directory below the base is `name/` (level i is the `name/` entry of level i-1: "
        "name/name.py, name/name/name.py, a module next to and inside a package of that name) and random mixtures of plain "
        "directories, `name/` and the other collection's name at every level.  Every case runs the real "
        "FilesystemLoader(start).load(name) (file, project dir, sys.path entry, sibling import executed by the loaded module); "
        "every k-th case also runs the real Program with -r/-c and reads the project-level invoke.yaml marker.  quick: all "
        "layouts of depth <=2 x all starts x all forms + random deeper ones; thorough: all layouts of depth <=4.  Virtual "
        "layouts (os shim for find() only) add the filesystem root.  Non-trivial = at least one candidate in the tree; "
        "distinct = distinct (layout, name, start, form).  Histories on ONE loader object (case = one or two directory "
        "chains of 2-4 levels holding candidates for BOTH collection names + loaders + explicit list of steps; judged after "
        "every call for the start point and the layout of THAT call): a loader without explicit start used from several "
        "working directories in sequence (other levels, the other chain), loaders with an explicit start - absolute, "
        "trailing separator, tasks.search_root from a Config, relative - used after os.chdir (must not follow the working "
        "directory), two or three loader objects interleaved, `.start` read in between, find and load mixed, the two "
        "collection names asked in a row, candidates created / removed between the calls; loaders are created in a "
        "directory other than those they are used in; after every load the project invoke.yaml is read through Config; "
        "a history is non-trivial when a loader is used again from another working directory.  Module BODIES with import-time behaviour (every layout of depth <=2 over none/module/package/both x body assignments: a chain of nested projects each loading the same-named collection of the enclosing directory through a FilesystemLoader, loading itself once more, loading another collection from above / from a side directory, rebinding or deleting sys.modules[its name], changing cwd with and without restoring it): the module returned is still the one defined by the nearest candidate, and every re-entrant load obeys the same rule.  Directory names made of pattern characters (proj[1], a*b, x?, [ab], {a,b}, **, [!x]y, w(1)+.$) as base, middle or deepest directory of the chain, with a decoy directory the pattern would match (holding candidates) next to each: names are literal")
TRUSTED = ["Lean 4.33 kernel", "axioms propext/Classical.choice/Quot.sound only",
           "harness/props/c20.py correspondence + canonicalisation",
           "CPython os.path.abspath / os.listdir / os.path.exists / importlib spec loading (modelled: absPath, FS.ls, FS.ex)",
           "model Invoke/Model/Loader.lean hand-written, tied by correspondence on every run"]
ASSUMPTIONS = ["POSIX paths; no symlinks on the way up (abspath does not resolve them); the start directory exists",
               "a directory name/ without __init__.py is not a package for the loader (the code requires __init__.py); the "
               "oracle accepts either reading",
               "when name.py and name/ exist side by side the property does not say which is loaded; the code takes the "
               "module (model: module beats package; oracle: either)",
               "find_complete assumes every directory from the start up to / can be listed (the start directory exists)",
               "histories: a RELATIVE explicit start is only ever used from the working directory it was written for (whether "
               "it is resolved at construction or at call time is not constrained); interpreter import state (sys.path, "
               "sys.modules entries a load leaves behind) is reset between the calls of a history - the histories are about "
               "the state of the loader object, the working directory and the filesystem"]

KINDS = ["none", "module", "package", "both", "baredir"]
NAMES = ["tasks", "mycoll", "a.b", "__init__"]  # a dotted name (module `a.b.py`, package `a.b/`); `__init__`: the module IS `<dir>/__init__.py`
# names that are special to Python's import machinery or to path handling (own sweep over small layouts): the module
# the process runs as, the byte-code cache directory, hidden / trailing-dot / dashed / spaced names, a stdlib module
# that is already imported, a directory on the way up (`d1` is a level of every chain), a name ending in `.py`.
# Not in the vocabulary: `invoke` (a tasks module cannot import the library under that name: Python, not the loader),
# `os` / `sys` (binding sys.modules[name] to a tasks module would endanger the harness process), `.` and `..` (never
# directory entries), `sibmark` / `psib` (the harness's own sibling files).
SPECIAL_NAMES = ["__main__", "__pycache__", ".hidden", "trail.", "my-tasks", "my tasks", "json", "d1", "tasks.py"]
FORMS = ["abs", "trailing", "rel", "dotrel", "relup", "absup", "none"]


# ------------------------------------------------------------------ real trees

MODULE_SRC = ("MARK = %r\n"
              "import sibmark\n"
              "SIB = sibmark.LEVEL\n"
              "from invoke import task\n"
              "@task\n"
              "def probe(c):\n"
              "    print('PROBE-RAN', MARK, c.config.get('marker', None))\n")
PACKAGE_SRC = ("MARK = %r\n"
               "from . import psib\n"
               "SIB = psib.LEVEL\n"
               "from invoke import task\n"
               "@task\n"
               "def probe(c):\n"
               "    print('PROBE-RAN', MARK, c.config.get('marker', None))\n")


# a package whose NAME contains a dot cannot use `from . import x` (Python resolves the parent package `a` of `a.b`);
# the property only promises that sibling modules are importable: the package directory is on sys.path
PACKAGE_SRC_PLAIN = PACKAGE_SRC.replace("from . import psib", "import psib")


def write(path, text):
    with open(path, "w") as f:
        f.write(text)


def put_candidate(d, lvl, k, name):
    """the files that make directory `d` (level `lvl`) hold a candidate of kind `k` for collection `name`"""
    if k in ("module", "both"):
        write(os.path.join(d, name + ".py"), MODULE_SRC % ("%d:module" % lvl))
    if k in ("package", "both", "baredir"):
        os.makedirs(os.path.join(d, name), exist_ok=True)
        write(os.path.join(d, name, "invoke.yaml"), "marker: P%d\n" % lvl)
        write(os.path.join(d, name, "psib.py"), "LEVEL = %d\n" % lvl)
    if k in ("package", "both"):
        write(os.path.join(d, name, "__init__.py"), (PACKAGE_SRC_PLAIN if "." in name else PACKAGE_SRC) % ("%d:package" % lvl))


def del_candidate(d, name):
    if os.path.exists(os.path.join(d, name + ".py")):
        os.remove(os.path.join(d, name + ".py"))
    shutil.rmtree(os.path.join(d, name), ignore_errors=True)


# ---- directory names made of characters that mean something to glob / fnmatch / regex style matching (they mean
# nothing to the file system); next to each such directory stands a DECOY directory whose name the pattern would match,
# holding a candidate that is NOT at or above any start inside the tree's chain
GLOB_DIRNAMES = ["proj[1]", "a*b", "x?", "[ab]", "{a,b}", "**", "[!x]y", "w(1)+.$"]
GLOB_DECOYS = {"proj[1]": "proj1", "a*b": "aXXb", "x?": "xy", "[ab]": "a", "{a,b}": "a", "**": "zz", "[!x]y": "ay", "w(1)+.$": "w11x"}


def make_decoys(tree):
    for d in tree.dirs:
        twin = GLOB_DECOYS.get(os.path.basename(d))
        if twin:
            dd = os.path.join(os.path.dirname(d), twin)
            os.makedirs(dd, exist_ok=True)
            write(os.path.join(dd, tree.name + ".py"), "MARK = 'decoy:module'\nSIB = None\n")
            os.makedirs(os.path.join(dd, tree.name), exist_ok=True)
            write(os.path.join(dd, tree.name, "__init__.py"), "MARK = 'decoy:package'\nSIB = None\n")


def glob_layouts(rng, per_name):
    """chains in which one directory (the base, a middle one or the deepest) carries a pattern-like name"""
    out = []
    k3 = ["none", "module", "package"]
    for g in GLOB_DIRNAMES:
        shapes = [[g, "d1"], ["base", g], ["base", g, "d2"], ["base", "d1", g]]
        for dirnames in shapes:
            allk = [list(k) for k in itertools.product(k3, repeat=len(dirnames))]
            for kinds in (allk if len(allk) <= per_name else rng.sample(allk, per_name)):
                out.append((kinds, dirnames))
    return out


# ---- module BODIES with import-time behaviour (the text appended to a candidate's source; MARK and the sibling import
# come first, so what follows cannot disturb them)
HELPER = "helpercoll"  # another collection: `helpercoll.py` at level 0 of the tree and in a side directory next to it
BODIES = ["plain", "reload_up", "reload_self", "reload_other_up", "reload_other_side", "rebind", "delete", "chdir", "chdir_stay"]
_RELOAD = ("from invoke.loader import FilesystemLoader as _FL\n"
           "from invoke.exceptions import CollectionNotFound as _CNF\n"
           "try:\n"
           "    _m, _p = _FL(start=%r).load(%r)\n"
           "    INNER = [getattr(_m, 'MARK', None), _p, getattr(_m, 'INNER', None)]\n"
           "except _CNF:\n"
           "    INNER = ['notfound', None, None]\n"
           "except RecursionError:\n"
           "    raise\n"
           "except Exception as _e:\n"
           "    INNER = ['exc:' + type(_e).__name__, None, None]\n")


def body_text(tree, lvl, variant):
    """import-time behaviour of the candidate at level `lvl`"""
    up = tree.dirs[lvl - 1] if lvl > 0 else tree.root
    if variant == "reload_up":      # a nested project: load the same-named collection of the enclosing project
        return _RELOAD % (up, tree.name)
    if variant == "reload_self":    # ... or from its own directory once more (guarded against endless recursion)
        return ("import builtins as _b\n"
                "if getattr(_b, '_verif_c20_depth', 0) < 2:\n"
                "    _b._verif_c20_depth = getattr(_b, '_verif_c20_depth', 0) + 1\n"
                "    try:\n" + "".join("        " + l + "\n" for l in (_RELOAD % (tree.dirs[lvl], tree.name)).splitlines()) +
                "    finally:\n"
                "        _b._verif_c20_depth -= 1\n")
    if variant == "reload_other_up":
        return _RELOAD % (tree.dirs[lvl], HELPER)
    if variant == "reload_other_side":
        return _RELOAD % (os.path.join(tree.root, "side"), HELPER)
    if variant == "rebind":         # swaps itself out of sys.modules while executing
        return ("import sys as _s, types as _t\n"
                "_imp = _t.ModuleType(__name__)\n"
                "_imp.MARK = 'impostor'\n"
                "_imp.__file__ = __file__\n"
                "_s.modules[__name__] = _imp\n")
    if variant == "delete":
        return "import sys as _s\n_s.modules.pop(__name__, None)\n"
    if variant == "chdir":
        return "import os as _os\n_c = _os.getcwd()\n_os.chdir(%r)\n_os.chdir(_c)\n" % tree.root
    if variant == "chdir_stay":
        return "import os as _os\n_os.chdir(%r)\n" % tree.root
    return ""


def apply_bodies(tree, bodies):
    """bodies: {level (str or int): variant}"""
    write(os.path.join(tree.dirs[0], HELPER + ".py"), "MARK = '0:other'\n")
    os.makedirs(os.path.join(tree.root, "side"), exist_ok=True)
    write(os.path.join(tree.root, "side", HELPER + ".py"), "MARK = 'side:other'\n")
    for lvl, variant in bodies.items():
        lvl = int(lvl)
        extra = body_text(tree, lvl, variant)
        for f in (os.path.join(tree.dirs[lvl], tree.name + ".py"), os.path.join(tree.dirs[lvl], tree.name, "__init__.py")):
            if os.path.isfile(f) and extra:
                with open(f, "a") as fh:
                    fh.write(extra)


def oracle_bodies(tree, bodies, r):
    """re-entrant loads obey the same rule: what a module loaded at import time is again the nearest candidate at or
    above the directory it started from, with that directory as project location"""
    if r["r"] != "ok" or not r.get("mark") or ":" not in r["mark"]:
        return None

    def check(lvl, inner, depth):
        variant = bodies.get(str(lvl), bodies.get(lvl, "plain"))
        if variant not in ("reload_up", "reload_self", "reload_other_up", "reload_other_side") or depth > 8:
            return None
        if inner is None:
            return None if variant == "reload_self" else "the module of level %d did not record its import-time load" % lvl
        if variant == "reload_other_up":
            want = ("0:other", tree.dirs[0])
        elif variant == "reload_other_side":
            want = ("side:other", os.path.join(tree.root, "side"))
        else:
            frm = lvl if variant == "reload_self" else lvl - 1
            strict, _len = (expected_levels(tree.kinds, frm) if frm >= 0 else (None, None))
            if strict is None:
                if inner[0] == "notfound" or candidate_above(tree):
                    return None
                return "import-time load from level %d found %r although nothing is at or above it" % (frm, inner[0])
            if inner[0] not in ("%d:module" % strict, "%d:package" % strict):
                return ("the collection loaded at import time by the module of level %d (from level %d) is %r, the nearest "
                        "candidate there is level %d" % (lvl, frm, inner[0], strict))
            if inner[1] is None or os.path.abspath(inner[1]) != tree.dirs[strict]:
                return "import-time load reported project directory %r, expected %r" % (inner[1], tree.dirs[strict])
            return check(strict, inner[2], depth + 1)
        if inner[0] != want[0] or inner[1] is None or os.path.abspath(inner[1]) != want[1]:
            return "import-time load of the other collection gave %r, expected %r" % (inner[:2], list(want))
        return None

    return check(int(r["mark"].split(":")[0]), r.get("inner"), 0)


class Tree:
    """base/d1/d2/...; level 0 is base itself.  `dirnames` (optional) gives the directories other names - in
    particular the collection's own name: then the directory of level i IS the entry `name/` of level i-1 (whose kind
    must be package, both or baredir), and a module inside it is `name/name.py`"""

    def __init__(self, kinds, name, dirnames=None):
        self.kinds, self.name = list(kinds), name
        self.dirnames = list(dirnames) if dirnames else ["base"] + ["d%d" % i for i in range(1, len(kinds))]
        self.root = os.path.realpath(tempfile.mkdtemp(prefix="verif_c20_"))
        try:
            self.dirs = [os.path.join(self.root, self.dirnames[0])]
            os.mkdir(self.dirs[0])
            for i in range(1, len(kinds)):
                self.dirs.append(os.path.join(self.dirs[-1], self.dirnames[i]))
                os.mkdir(self.dirs[-1])
            for lvl, (d, k) in enumerate(zip(self.dirs, kinds)):
                put_candidate(d, lvl, k, name)
            for lvl, d in enumerate(self.dirs):  # last: a level that is also the `name/` entry of the level above keeps ITS marker
                write(os.path.join(d, "sibmark.py"), "LEVEL = %d\n" % lvl)
                write(os.path.join(d, "invoke.yaml"), "marker: L%d\n" % lvl)
        except BaseException:
            shutil.rmtree(self.root, ignore_errors=True)  # nothing is left behind when building the tree fails half-way
            raise

    def close(self):
        shutil.rmtree(self.root, ignore_errors=True)
        for k in [k for k in sys.path_importer_cache if k.startswith(self.root)]:
            sys.path_importer_cache.pop(k, None)

    def layout(self):
        """what the model is told about the filesystem: every directory from / down to the deepest level"""
        lay = {}
        a = self.dirs[0]
        above = []
        while True:
            a = os.path.dirname(a)
            above.append(a)
            if a == "/":
                break
        for a in above:
            ents = [e for e in (self.name + ".py", self.name) if os.path.lexists(os.path.join(a, e))]
            lay[a] = ents
            if os.path.isdir(os.path.join(a, self.name)):
                lay[os.path.join(a, self.name)] = ["__init__.py"] if os.path.exists(os.path.join(a, self.name, "__init__.py")) else []
        for d in self.dirs:
            lay[d] = sorted(os.listdir(d))
            sub = os.path.join(d, self.name)
            if os.path.isdir(sub):
                lay[sub] = sorted(os.listdir(sub))
        return lay


def start_args(tree, s, form, rng):
    """-> (start argument or None, cwd)"""
    start = tree.dirs[s]
    if form == "abs":
        return start, tree.root
    if form == "trailing":
        return start + "/", tree.root
    if form == "none":
        return None, start
    if form in ("rel", "dotrel"):
        c = rng.randrange(s + 1)
        rel = os.path.relpath(start, tree.dirs[c])
        if form == "dotrel":
            rel = "./" + rel + "/"
        return rel, tree.dirs[c]
    if form in ("relup", "absup"):
        # `..` steps out of deeper directories: preferably out of one that holds a candidate (which is NOT at or above the start)
        c = rng.randrange(s, len(tree.dirs))
        holding = [i for i in range(s + 1, len(tree.dirs)) if tree.kinds[i] in ("module", "package", "both")]
        if holding and rng.random() < 0.8:
            c = rng.choice(holding)
        ups = "/".join([".."] * (c - s))
        if form == "relup":
            return ups or ".", tree.dirs[c]
        return tree.dirs[c] + ("/" + ups if ups else "/."), tree.root
    raise ValueError(form)


_DECOY = []


def decoy_dir():
    if not _DECOY:
        import atexit
        import shutil
        import tempfile
        d = tempfile.mkdtemp(prefix="c20-decoy-")
        with open(os.path.join(d, "sibmark.py"), "w") as f:
            f.write("LEVEL = -1\n")
        atexit.register(shutil.rmtree, d, True)
        _DECOY.append(d)
    return _DECOY[0]


@contextlib.contextmanager
def clean_imports(name, cwd):
    old_cwd = os.getcwd()
    old_path = list(sys.path)
    old_dwb = sys.dont_write_bytecode
    drop = (name, "sibmark", "psib", HELPER)
    # a collection may be named like a module the process already has (json, __main__): the loader binds
    # sys.modules[name] to what it loads; whatever was there before is put back afterwards
    saved = {m: sys.modules[m] for m in sys.modules if m in drop or m.startswith(name + ".")}
    for m in saved:
        del sys.modules[m]
    importlib.invalidate_caches()
    os.chdir(cwd)
    # a same-named module elsewhere on the import path (as a PYTHONPATH entry or an earlier project
    # would leave it) must not be taken for the loaded module's sibling
    sys.path.append(decoy_dir())
    try:
        yield
    finally:
        os.chdir(old_cwd)
        sys.path[:] = old_path
        sys.dont_write_bytecode = old_dwb
        for m in [m for m in sys.modules if m in drop or m.startswith(name + ".")]:
            del sys.modules[m]
        sys.modules.update(saved)


def run_loader(startarg, name, cwd):
    from invoke.loader import FilesystemLoader
    from invoke.exceptions import CollectionNotFound

    with clean_imports(name, cwd):
        before = list(sys.path)
        try:
            mod, parent = FilesystemLoader(start=startarg).load(name)
            added = [p for p in sys.path if p not in before]
            # a module that loads further collections while it is imported adds their directories as well: report the
            # entry that belongs to THIS module's file if it is among the new ones
            own = [p for p in added if p == os.path.dirname(str(getattr(mod, "__file__", "")))]
            added = own + [p for p in added if p not in own]
            return {"r": "ok", "file": mod.__file__, "parent": parent, "mark": getattr(mod, "MARK", None),
                    "sib": getattr(mod, "SIB", None), "inner": getattr(mod, "INNER", None),
                    "syspath": added[0] if added else None,
                    "syspath_first": bool(added) and sys.path[0] == added[0]}
        except CollectionNotFound:
            return {"r": "notfound"}
        except Exception as e:  # noqa
            return {"r": "exc", "type": type(e).__name__, "detail": str(e)[:200]}


def run_program(startarg, name, cwd):
    from invoke import Program

    out, err = io.StringIO(), io.StringIO()
    with clean_imports(name, cwd):
        argv = ["inv"] + (["-r", startarg] if startarg is not None else []) + ["-c", name, "probe"]
        p = Program()
        res = {"r": "ok"}
        try:
            with contextlib.redirect_stdout(out), contextlib.redirect_stderr(err):
                p.run(argv, exit=False)
        except BaseException as e:  # noqa
            res = {"r": "exc", "type": type(e).__name__, "detail": str(e)[:200]}
        ran = [l.split(" ") for l in out.getvalue().splitlines() if l.startswith("PROBE-RAN ")]
        res["ran"] = ran[0][1:] if ran else None
        try:
            res["marker"] = p.config.get("marker", None)
        except Exception:  # noqa
            res["marker"] = None
        return res


# ------------------------------------------------------------------ oracle (states the property)

def expected_levels(kinds, s):
    """nearest level at or above the start with a candidate: (strict reading, lenient reading incl. bare dirs)"""
    strict = lenient = None
    for i in range(s, -1, -1):
        if strict is None and kinds[i] in ("module", "package", "both"):
            strict = i
        if lenient is None and kinds[i] in ("module", "package", "both", "baredir"):
            lenient = i
    return strict, lenient


def candidate_above(tree):
    a = tree.dirs[0]
    while a != "/":
        a = os.path.dirname(a)
        if os.path.isfile(os.path.join(a, tree.name + ".py")) or os.path.isfile(os.path.join(a, tree.name, "__init__.py")):
            return True
    return False


def oracle_loader(tree, s, r):
    strict, lenient = expected_levels(tree.kinds, s)
    if r["r"] == "exc":
        return "loading raised %s (%s)" % (r["type"], r.get("detail"))
    if r["r"] == "notfound":
        if strict is None:
            return None
        return "CollectionNotFound although level %d (at or above the start level %d) holds a %s" % (strict, s, tree.kinds[strict])
    # something was loaded
    mark = r.get("mark") or ""
    try:
        lvl, kind = mark.split(":")
        lvl = int(lvl)
    except ValueError:
        if mark == "impostor":
            return ("the object returned is a stand-in the module bound to sys.modules[%r] while it was imported, not the module "
                    "defined by %r" % (tree.name, r.get("file")))
        if strict is None and candidate_above(tree):
            return None  # something outside the generated tree: not constrained here
        return "loaded %r which is not part of the layout" % r.get("file")
    if lvl not in (strict, lenient):
        return "loaded the %s of level %d, the nearest candidate at or above start level %d is level %s" % (kind, lvl, s, strict)
    if tree.kinds[lvl] not in ("both",) and tree.kinds[lvl] != kind:
        return "loaded a %s at level %d where the layout has a %s" % (kind, lvl, tree.kinds[lvl])
    want_file = os.path.join(tree.dirs[lvl], tree.name + ".py") if kind == "module" else os.path.join(tree.dirs[lvl], tree.name, "__init__.py")
    if os.path.abspath(r["file"]) != want_file:
        return "module.__file__ is %r, expected %r" % (r["file"], want_file)
    if os.path.abspath(r["parent"]) != tree.dirs[lvl]:
        return "project directory reported as %r, the directory containing the %s is %r" % (r["parent"], kind, tree.dirs[lvl])
    if r.get("sib") != lvl:
        return "the sibling module imported by the loaded %s is level %r's, not level %d's" % (kind, r.get("sib"), lvl)
    return None


def oracle_program(tree, s, r):
    strict, lenient = expected_levels(tree.kinds, s)
    if r["r"] == "exc":
        return "Program.run raised %s (%s)" % (r["type"], r.get("detail"))
    if r["ran"] is None:
        if strict is None:
            return None
        return "Program did not run the task although level %d holds a %s" % (strict, tree.kinds[strict])
    try:
        lvl = int(r["ran"][0].split(":")[0])
    except ValueError:
        return None
    if strict is None and lvl != lenient:
        return None if candidate_above(tree) else "Program ran a task from outside the layout"
    if lvl not in (strict, lenient):
        return "Program loaded level %d, the nearest candidate is level %s" % (lvl, strict)
    want = "L%d" % lvl
    if r["ran"][1] != want or r["marker"] != want:
        return ("project-level configuration read from the wrong place: marker=%r (task saw %r), the invoke.yaml next to the "
                "loaded collection says %r" % (r["marker"], r["ran"][1], want))
    return None


# ------------------------------------------------------------------ virtual layouts (find() only; adds the root directory)

class _VPath:
    sep = "/"

    def __init__(self, fs):
        self._fs = fs

    def join(self, *a):
        return posixpath.join(*a)

    def abspath(self, p):
        return posixpath.normpath(posixpath.join(self._fs.cwd, p))

    def exists(self, p):
        return self._fs.exists(p)

    def __getattr__(self, n):
        return getattr(posixpath, n)


class _VOS:
    sep = "/"

    def __init__(self, dirs, cwd):
        self.dirs, self.cwd, self.path = dirs, cwd, _VPath(self)

    def listdir(self, p):
        if p == "":
            raise FileNotFoundError(p)
        p = posixpath.normpath(p)
        if p not in self.dirs:
            raise FileNotFoundError(p)
        return list(self.dirs[p])

    def exists(self, p):
        p = posixpath.normpath(p)
        if p in self.dirs:
            return True
        d, b = posixpath.split(p)
        return d in self.dirs and b in self.dirs[d]

    def getcwd(self):
        return self.cwd

    def __getattr__(self, n):
        return getattr(os, n)


def vfind(dirs, start, name, cwd="/"):
    """FilesystemLoader.find on a virtual filesystem: invoke.loader's `os` is replaced for the call"""
    import invoke.loader as L
    from invoke.exceptions import CollectionNotFound

    if not hasattr(L, "os"):
        return {"r": "unsupported"}
    old = L.os
    L.os = _VOS(dirs, cwd)
    try:
        try:
            spec = L.FilesystemLoader(start=start).find(name)
        except CollectionNotFound:
            return {"r": "notfound"}
        except Exception as e:  # noqa
            return {"r": "exc", "type": type(e).__name__, "detail": str(e)[:200]}
        if spec is None:
            return {"r": "none"}
        return {"r": "ok", "file": spec.origin, "pkg": bool(spec.submodule_search_locations)}
    finally:
        L.os = old


_SHIM_OK = None


def shim_ok():
    """the virtual filesystem is only used when find() demonstrably goes through it"""
    global _SHIM_OK
    if _SHIM_OK is None:
        try:
            a = vfind({"/": ["q7"], "/q7": ["zz", "vprobe.py"], "/q7/zz": []}, "/q7/zz", "vprobe")
            b = vfind({"/": ["q7"], "/q7": ["zz"], "/q7/zz": []}, "/q7/zz", "vprobe")
            _SHIM_OK = a == {"r": "ok", "file": "/q7/vprobe.py", "pkg": False} and b == {"r": "notfound"}
        except Exception:  # noqa
            _SHIM_OK = False
    return _SHIM_OK


def vcase_dirs(case):
    """virtual case: chain /v1/v2/... ; kinds[0] is the ROOT directory"""
    name, kinds = case["name"], case["kinds"]
    dirs, chain = {}, ["/"]
    for i in range(1, len(kinds)):
        chain.append(posixpath.join(chain[-1], "v%d" % i))
    for i, (d, k) in enumerate(zip(chain, kinds)):
        ents = []
        if i + 1 < len(chain):
            ents.append("v%d" % (i + 1))
        if k in ("module", "both"):
            ents.append(name + ".py")
        if k in ("package", "both", "baredir"):
            ents.append(name)
            dirs[posixpath.join(d, name)] = ["__init__.py"] if k != "baredir" else []
        dirs[d] = ents
    return dirs, chain


def oracle_virtual(case, r):
    kinds, s = case["kinds"], case["start"]
    dirs, chain = vcase_dirs(case)
    strict, lenient = expected_levels(kinds, s)
    if r["r"] in ("exc", "none"):
        return "find() raised/returned %s" % (r.get("type") or "None")
    if r["r"] == "notfound":
        if strict is None:
            return None
        why = "CollectionNotFound although %s (at or above the start %s) holds a %s" % (chain[strict], chain[s], kinds[strict])
        return why
    d = posixpath.dirname(r["file"]) if not r["pkg"] else posixpath.dirname(posixpath.dirname(r["file"]))
    if d not in chain:
        return "found %r outside the layout" % r["file"]
    lvl = chain.index(d)
    if lvl not in (strict, lenient):
        return "found %s, the nearest candidate at or above %s is %s" % (d, chain[s], None if strict is None else chain[strict])
    return None


# ------------------------------------------------------------------ model side

def enc_chars(s):
    return ".".join(str(ord(c)) for c in s)


def enc_path(p):
    comps = [c for c in p.split("/") if c]
    return "/".join(enc_chars(c) for c in comps) or "-"


def model_line(name, cwd, eff_start, layout):
    raw = "/".join(enc_chars(c) if c else "e" for c in eff_start.split("/"))
    lay = ";".join("%s:%s" % (enc_path(d), ",".join(enc_chars(e) for e in ents)) for d, ents in sorted(layout.items()))
    return "load %s %s %d %s %s" % (enc_chars(name), enc_path(cwd), 1 if eff_start.startswith("/") else 0, raw, lay or "-")


def canon_impl(r):
    if r["r"] == "ok":
        # what was loaded says itself whether it is the module or the package of its level (a collection may be called
        # `__init__`: then the plain module is `<dir>/__init__.py`); the file name is only the fallback
        mark = r.get("mark") or ""
        kind = mark.split(":")[1] if mark.count(":") == 1 and mark.split(":")[1] in ("module", "package") else (
            "package" if os.path.basename(r["file"]) == "__init__.py" else "module")
        return "%s %s %s %s" % (kind, enc_path(os.path.abspath(r["file"])), enc_path(r["syspath"] or "?"), enc_path(os.path.abspath(r["parent"])))
    if r["r"] == "notfound":
        return "notfound"
    return "exc:" + r.get("type", "?")


def canon_impl_virtual(r, name):
    if r["r"] == "ok":
        f = r["file"]
        d = posixpath.dirname(f)
        if r["pkg"]:
            return "package %s %s %s" % (enc_path(f), enc_path(d), enc_path(posixpath.dirname(d)))
        return "module %s %s %s" % (enc_path(f), enc_path(d), enc_path(d))
    if r["r"] == "notfound":
        return "notfound"
    if r["r"] == "none":
        return "importerror"
    return "exc:" + r.get("type", "?")


# ------------------------------------------------------------------ histories on ONE loader object
# The property speaks about the start point in effect AT THE TIME OF THE CALL and about the layout as it is then.
# A history uses one (or several interleaved) FilesystemLoader object(s) many times: a loader without explicit start
# from several working directories in sequence, a loader with an explicit start (argument, trailing separator,
# tasks.search_root, relative) after os.chdir, `.start` read in between, `find` and `load`, two collection names in a
# row, candidates appearing / disappearing between the calls.  After every call the oracle above is evaluated for the
# start point and the layout of THAT call.  A case = (chains, loaders, explicit list of steps).

class View:
    """one chain of a forest, for one collection name, as the oracles above want to see a tree"""

    def __init__(self, forest, ci, name):
        self.root, self.dirs, self.kinds, self.name = forest.root, forest.dirs[ci], forest.kinds[ci][name], name


class Forest:
    """<tmp>/base<i>/d1/d2/...: one or two chains; every level may hold candidates for BOTH collection names"""

    def __init__(self, chains):
        self.kinds = [{n: list(ch.get(n) or ["none"] * len(ch[NAMES[0]])) for n in NAMES} for ch in chains]
        self.root = os.path.realpath(tempfile.mkdtemp(prefix="verif_c20_"))
        try:
            self.dirs = []
            for ci, ch in enumerate(self.kinds):
                dirs = [os.path.join(self.root, "base%d" % ci)]
                os.mkdir(dirs[0])
                for i in range(1, len(ch[NAMES[0]])):
                    dirs.append(os.path.join(dirs[-1], "d%d" % i))
                    os.mkdir(dirs[-1])
                for lvl, d in enumerate(dirs):
                    write(os.path.join(d, "sibmark.py"), "LEVEL = %d\n" % lvl)
                    write(os.path.join(d, "invoke.yaml"), "marker: c%d-L%d\n" % (ci, lvl))
                    for n in NAMES:
                        put_candidate(d, lvl, ch[n][lvl], n)
                self.dirs.append(dirs)
        except BaseException:
            shutil.rmtree(self.root, ignore_errors=True)
            raise

    def close(self):
        shutil.rmtree(self.root, ignore_errors=True)
        for k in [k for k in sys.path_importer_cache if k.startswith(self.root)]:
            sys.path_importer_cache.pop(k, None)

    def change(self, ci, lvl, name, kind):
        del_candidate(self.dirs[ci][lvl], name)
        put_candidate(self.dirs[ci][lvl], lvl, kind, name)
        self.kinds[ci][name][lvl] = kind

    def layout(self):
        lay = {}
        a = self.root
        while a != "/":
            a = os.path.dirname(a)
            lay[a] = [e for n in NAMES for e in (n + ".py", n) if os.path.lexists(os.path.join(a, e))]
            for n in NAMES:
                if os.path.isdir(os.path.join(a, n)):
                    lay[os.path.join(a, n)] = ["__init__.py"] if os.path.exists(os.path.join(a, n, "__init__.py")) else []
        lay[self.root] = sorted(os.listdir(self.root))
        for dirs in self.dirs:
            for d in dirs:
                lay[d] = sorted(os.listdir(d))
                for n in NAMES:
                    if os.path.isdir(os.path.join(d, n)):
                        lay[os.path.join(d, n)] = sorted(os.listdir(os.path.join(d, n)))
        return lay


@contextlib.contextmanager
def hist_env(cwd):
    """one call of a history: the process is in `cwd`; import state (sys.path, the modules a load leaves behind)
    is reset around it - the histories are about the state of the LOADER object"""
    with clean_imports(NAMES[0], cwd):
        drop = tuple(NAMES)
        for m in [m for m in sys.modules if m in drop or m.startswith(tuple(n + "." for n in NAMES))]:
            del sys.modules[m]
        try:
            yield
        finally:
            for m in [m for m in sys.modules if m in drop or m.startswith(tuple(n + "." for n in NAMES))]:
                del sys.modules[m]


def loader_start(forest, spec):
    """-> (start argument or None, constructor kwargs maker, (ci, lvl) of the explicit start or None, designated cwd or None)"""
    st = spec["start"]
    if st is None:
        return None, None, None
    kind = st[0]
    if kind in ("abs", "trailing", "config"):
        ci, lvl = st[1], st[2]
        return forest.dirs[ci][lvl] + ("/" if kind == "trailing" else ""), (ci, lvl), None
    if kind == "rel":  # relative start: only ever used from the working directory it was written for
        ci, lvl, cl = st[1], st[2], st[3]
        rel = os.path.relpath(forest.dirs[ci][lvl], forest.dirs[ci][cl])
        return rel, (ci, lvl), (ci, cl)
    raise ValueError(kind)


def make_loader(forest, spec):
    from invoke import Config
    from invoke.loader import FilesystemLoader
    start, _, _ = loader_start(forest, spec)
    if spec["start"] is not None and spec["start"][0] == "config":
        return FilesystemLoader(config=Config(overrides={"tasks": {"search_root": start}}))
    return FilesystemLoader(start=start) if start is not None else FilesystemLoader()


def call_load(loader, name):
    from invoke.exceptions import CollectionNotFound
    before = list(sys.path)
    try:
        mod, parent = loader.load(name)
        added = [p for p in sys.path if p not in before]
        return {"r": "ok", "file": mod.__file__, "parent": parent, "mark": getattr(mod, "MARK", None),
                "sib": getattr(mod, "SIB", None), "syspath": added[0] if added else None}
    except CollectionNotFound:
        return {"r": "notfound"}
    except Exception as e:  # noqa
        return {"r": "exc", "type": type(e).__name__, "detail": str(e)[:200]}


def call_find(loader, name):
    from invoke.exceptions import CollectionNotFound
    try:
        spec = loader.find(name)
    except CollectionNotFound:
        return {"r": "notfound"}
    except Exception as e:  # noqa
        return {"r": "exc", "type": type(e).__name__, "detail": str(e)[:200]}
    if spec is None:
        return {"r": "none"}
    return {"r": "ok", "file": spec.origin, "pkg": bool(spec.submodule_search_locations)}


def oracle_find(view, s, r):
    strict, lenient = expected_levels(view.kinds, s)
    if r["r"] in ("exc", "none"):
        return "find() raised/returned %s (%s)" % (r.get("type") or "None", r.get("detail"))
    if r["r"] == "notfound":
        if strict is None:
            return None
        return "CollectionNotFound although level %d (at or above the start level %d) holds a %s" % (strict, s, view.kinds[strict])
    f = os.path.abspath(r["file"])
    d = os.path.dirname(os.path.dirname(f)) if r["pkg"] else os.path.dirname(f)
    if d not in view.dirs:
        if strict is None and candidate_above(view):
            return None
        return "found %r which is not at or above the start directory %r" % (r["file"], view.dirs[s])
    lvl = view.dirs.index(d)
    if lvl not in (strict, lenient):
        return "found %r (level %d), the nearest candidate at or above start level %d is level %s" % (r["file"], lvl, s, strict)
    want = os.path.join(d, view.name, "__init__.py") if r["pkg"] else os.path.join(d, view.name + ".py")
    if f != want or not os.path.isfile(f):
        return "found %r, expected %r" % (r["file"], want)
    return None


def project_marker(parent):
    """the project-level configuration found when `parent` is taken as the project location"""
    from invoke import Config
    try:
        c = Config()
        c.set_project_location(parent)
        c.load_project()
        return c.get("marker", None)
    except Exception as e:  # noqa
        return "raised %s" % type(e).__name__


def gen_loader_history(rng):
    weights = [("none", 40), ("module", 25), ("package", 20), ("both", 5), ("baredir", 10)]
    pool = [k for k, w in weights for _ in range(w)]
    for _try in range(20):
        nch = rng.choice([1, 2, 2])
        chains = []
        for _ in range(nch):
            levels = rng.choice([2, 3, 3, 4])
            chains.append({n: [rng.choice(pool) for _ in range(levels)] for n in NAMES})
        spots = [(ci, l) for ci, ch in enumerate(chains) for l, k in enumerate(ch[NAMES[0]]) if k in ("module", "package", "both")]
        if len(spots) >= 2:
            break
    places = [(ci, l) for ci, ch in enumerate(chains) for l in range(len(ch[NAMES[0]]))]
    loaders = [{"start": None}]
    r = rng.random()
    if r < 0.65:
        ci, lvl = rng.choice(places)
        kind = rng.choice(["abs", "abs", "trailing", "config", "rel"])
        if kind == "rel":
            loaders.append({"start": ["rel", ci, lvl, rng.randrange(len(chains[ci][NAMES[0]]))]})
        else:
            loaders.append({"start": [kind, ci, lvl]})
    if rng.random() < 0.25:
        loaders.append({"start": None})
    steps = []
    kinds = [{n: list(ch[n]) for n in NAMES} for ch in chains]
    for _ in range(rng.randint(4, 10)):
        r = rng.random()
        if r < 0.12:
            ci, lvl = rng.choice(places)
            n = rng.choice(NAMES)
            cur = kinds[ci][n][lvl]
            new = rng.choice(["module", "package"]) if cur == "none" else ("none" if cur in ("module", "package") else None)
            if new is None:
                continue
            kinds[ci][n][lvl] = new
            steps.append({"op": "change", "chain": ci, "level": lvl, "name": n, "kind": new})
            continue
        j = 0 if (len(loaders) == 1 or rng.random() < 0.5) else rng.randrange(1, len(loaders))
        st = loaders[j]["start"]
        cwd = list(rng.choice(places))
        if st is not None and st[0] == "rel":
            cwd = [st[1], st[3]]
        if r < 0.22:
            steps.append({"op": "start", "loader": j, "cwd": cwd})
        else:
            steps.append({"op": "load" if rng.random() < 0.7 else "find", "loader": j, "cwd": cwd,
                          "name": NAMES[0] if rng.random() < 0.6 else rng.choice(NAMES[1:])})
    return {"kind": "history", "chains": chains, "loaders": loaders, "steps": steps}


def history_features(case):
    """what a history exercises (computed from the case alone)"""
    f = set()
    last = {}  # loader -> (cwd, name) of its previous call
    used = set()
    changed_since = {}
    for st in case["steps"]:
        if st["op"] == "change":
            for j in used:
                changed_since[j] = True
            continue
        j = st["loader"]
        explicit = case["loaders"][j]["start"] is not None
        if st["op"] == "start":
            f.add("start_read_then_used" if not explicit else "start_read_explicit")
            last.setdefault(j, (tuple(st["cwd"]), None))
            used.add(j)
            continue
        prev = last.get(j)
        if prev is not None:
            if prev[0] != tuple(st["cwd"]):
                f.add("explicit_start_loader_reused_after_chdir" if explicit else "nostart_loader_reused_in_other_cwd")
                if not explicit and prev[0][0] != st["cwd"][0]:
                    f.add("nostart_loader_reused_in_other_chain")
            if prev[1] is not None and prev[1] != st["name"]:
                f.add("loader_asked_for_other_name")
            if changed_since.pop(j, False):
                f.add("layout_changed_between_calls_of_one_loader")
        if len(used | {j}) > 1:
            f.add("loaders_interleaved")
        last[j] = (tuple(st["cwd"]), st["name"])
        used.add(j)
        f.add("op_" + st["op"])
    return f


def run_loader_history(case, want_model=False):
    """-> (index of the first failing step or None, why, model lines [(line, expected answers, modes)], stats)"""
    forest = Forest(case["chains"])
    old_cwd = os.getcwd()
    stats = {}
    try:
        os.chdir(forest.root)  # loaders are created somewhere else than where they are used
        try:
            loaders = [make_loader(forest, sp) for sp in case["loaders"]]
        finally:
            os.chdir(old_cwd)
        starts = [loader_start(forest, sp) for sp in case["loaders"]]
        msteps = [["fs=%s" % enc_layout(forest.layout())] for _ in loaders]
        mcwd = [None for _ in loaders]
        answers = [[] for _ in loaders]
        for k, st in enumerate(case["steps"]):
            if st["op"] == "change":
                forest.change(st["chain"], st["level"], st["name"], st["kind"])
                importlib.invalidate_caches()
                if want_model:
                    lay = "fs=%s" % enc_layout(forest.layout())
                    for ms in msteps:
                        ms.append(lay)
                continue
            j = st["loader"]
            loader = loaders[j]
            ci, lvl = st["cwd"]
            cwd = forest.dirs[ci][lvl]
            if mcwd[j] != cwd:
                msteps[j].append("cd=%s" % enc_path(cwd))
                mcwd[j] = cwd
            if st["op"] == "start":
                with hist_env(cwd):
                    getattr(loader, "start", None)
                msteps[j].append("start")
                continue
            # the start point in effect now: the explicit one, else the working directory of THIS call
            eci, elvl = starts[j][1] if starts[j][1] is not None else (ci, lvl)
            view = View(forest, eci, st["name"])
            with hist_env(cwd):
                if st["op"] == "load":
                    r = call_load(loader, st["name"])
                else:
                    r = call_find(loader, st["name"])
            why = oracle_loader(view, elvl, r) if st["op"] == "load" else oracle_find(view, elvl, r)
            if why is None and st["op"] == "load" and r["r"] == "ok" and os.path.abspath(r["parent"]) in view.dirs:
                plvl = view.dirs.index(os.path.abspath(r["parent"]))
                got = project_marker(r["parent"])
                if got != "c%d-L%d" % (eci, plvl):
                    why = ("project-level configuration read from the wrong place: marker %r, the invoke.yaml next to the "
                           "loaded collection says %r" % (got, "c%d-L%d" % (eci, plvl)))
            stats["result:" + r["r"]] = stats.get("result:" + r["r"], 0) + 1
            if why:
                what = "no explicit start" if starts[j][1] is None else "explicit start %r" % (starts[j][0],)
                msg = ("step %d: loader #%d (%s) used for the %s time, %s(%r) with working directory %s: %s"
                       % (k, j, what, nth(sum(1 for x in case["steps"][:k + 1] if x.get("loader") == j and x["op"] in ("load", "find"))),
                          st["op"], st["name"], os.path.relpath(cwd, forest.root), why))
                return k, msg.replace(forest.root, "<tmp>"), [], stats
            msteps[j].append("load=%s" % enc_chars(st["name"]))
            if st["op"] == "load":
                answers[j].append(canon_impl(r))
            else:
                answers[j].append("notfound" if r["r"] == "notfound" else
                                  "%s %s" % ("package" if r["pkg"] else "module", enc_path(os.path.abspath(r["file"]))))
        lines = []
        if want_model:
            for j, sp in enumerate(case["loaders"]):
                if not answers[j]:
                    continue
                start = starts[j][0]
                enc_start = "-" if start is None else "%d,%s" % (1 if start.startswith("/") else 0,
                                                                 "/".join(enc_chars(c) if c else "e" for c in start.split("/")))
                lines.append(("hist %s %s" % (enc_start, " ".join(msteps[j])), answers[j]))
        return None, None, lines, stats
    finally:
        os.chdir(old_cwd)
        forest.close()


def nth(n):
    return {1: "1st", 2: "2nd", 3: "3rd"}.get(n, "%dth" % n)


def enc_layout(layout):
    return ";".join("%s:%s" % (enc_path(d), ",".join(enc_chars(e) for e in ents)) for d, ents in sorted(layout.items())) or "-"


def run_histories(ctx, out, lines, pending):
    rng = ctx.rng
    for _ in range(ctx.n(160, 2500)):
        case = gen_loader_history(rng)
        feats = history_features(case)
        for f in feats:
            out.hist["hist:" + f] += 1
        out.hist["histories"] += 1
        out.case(case, bool(feats & {"nostart_loader_reused_in_other_cwd", "explicit_start_loader_reused_after_chdir"}))
        try:
            at, why, mlines, stats = run_loader_history(case, want_model=ctx.model_ok)
        except Exception as e:  # noqa
            at, why, mlines, stats = len(case["steps"]) - 1, "history raised %s: %s" % (type(e).__name__, e), [], {}
        for k, v in stats.items():
            out.hist["hist:" + k] += v
        if why:
            out.hist["oracle:history"] += 1
            out.fail(dict(case, steps=case["steps"][:at + 1]), "[history on one loader] " + why)
            continue
        for line, answers in mlines:
            lines.append(line)
            pending.append((case, answers))


# ------------------------------------------------------------------ replay

def replay(case):
    if case.get("kind") == "virtual":
        if not shim_ok():
            return True, "virtual filesystem shim not effective on this code base; case not decidable"
        dirs, chain = vcase_dirs(case)
        r = vfind(dirs, chain[case["start"]], case["name"])
        why = oracle_virtual(case, r)
        return why is None, why or "ok %s" % r
    if case.get("kind") == "history":
        at, why, _, _ = run_loader_history(case)
        return why is None, why or "ok (history of %d steps on %d loader object(s))" % (len(case["steps"]), len(case["loaders"]))
    import random
    tree = Tree(case["kinds"], case["name"], case.get("dirnames"))
    try:
        if case.get("bodies") is not None:
            apply_bodies(tree, case["bodies"])
        if case.get("decoys"):
            make_decoys(tree)
        rng = random.Random(case.get("sub", 0))
        startarg, cwd = start_args(tree, case["start"], case["form"], rng)
        r = run_loader(startarg, case["name"], cwd)
        why = oracle_loader(tree, case["start"], r)
        if why is None and case.get("bodies") is not None:
            why = oracle_bodies(tree, case["bodies"], r)
        if why is None and case.get("program"):
            rp = run_program(startarg, case["name"], cwd)
            why = oracle_program(tree, case["start"], rp)
        return why is None, why or "ok %s" % {k: v for k, v in r.items() if k in ("r", "mark", "sib")}
    finally:
        tree.close()


# ------------------------------------------------------------------ run

def run(ctx):
    import random
    out = Outcome()
    rng = ctx.rng
    drv = LeanDriver("drv_loader")
    big = ctx.thorough or ctx.escalated
    layouts = []
    for depth in range(0, (4 if big else 2) + 1):
        for kinds in itertools.product(KINDS, repeat=depth + 1):
            layouts.append(list(kinds))
    n_exh = len(layouts)
    for _ in range(ctx.n(60, 0)):
        depth = rng.choice([3, 3, 4, 4])
        layouts.append([rng.choice(KINDS) for _ in range(depth + 1)])
    out.exhaustive = True
    lines, pending = [], []
    prog_every = 7 if big else 5
    counter = 0
    layouts = [(k, None, None) for k in layouts] + [(k, d, None) for k, d in named_layouts(rng, ctx.n(70, 1200), 2 if not big else 3)]
    for sname in SPECIAL_NAMES:  # every special name: all layouts of depth <= 1, a few deeper ones, a few with named directories
        for depth in (0, 1):
            for kinds in itertools.product(KINDS, repeat=depth + 1):
                layouts.append((list(kinds), None, sname))
        for _ in range(ctx.n(4, 40)):
            layouts.append(([rng.choice(KINDS) for _ in range(rng.choice([3, 4]))], None, sname))
        layouts += [(k, d, sname) for k, d in named_layouts(rng, ctx.n(4, 40), 0)]
    for li, (kinds, dirnames, fixed_name) in enumerate(layouts):
        name = fixed_name or NAMES[li % len(NAMES)]
        if dirnames is not None:
            # `__init__`: a module inside a directory of that name would turn the directory into a package of the level above
            own = name if name != "__init__" else "<other>"
            dirnames = [own if d == "<name>" else d for d in dirnames]
            dirnames = [(NAMES[(li + 1) % len(NAMES)] if NAMES[(li + 1) % len(NAMES)] not in (name, "__init__") else "mycoll")
                        if d == "<other>" else d for d in dirnames]
        tree = Tree(kinds, name, dirnames)
        try:
            lay = tree.layout()
            for s in range(len(kinds)):
                forms = FORMS
                if big and len(kinds) == 5:
                    forms = ["abs"] + rng.sample(FORMS[1:], 2)
                if dirnames is not None or fixed_name is not None:
                    forms = ["abs", "none"] + rng.sample(["trailing", "rel", "dotrel", "relup", "absup"], 2)
                for form in forms:
                    sub = rng.randrange(1 << 30)
                    startarg, cwd = start_args(tree, s, form, random.Random(sub))
                    counter += 1
                    case = {"kind": "tree", "kinds": kinds, "name": name, "start": s, "form": form, "sub": sub,
                            "program": counter % prog_every == 0}
                    if dirnames is not None:
                        case["dirnames"] = dirnames
                        out.hist["named_dirs"] += 1
                        for i in range(len(kinds)):
                            if dirnames[i] == name and kinds[i] in ("module", "both") and i <= s:
                                out.hist["named_dirs:module_in_dir_named_like_it_at_or_above_start"] += 1
                                break
                    r = run_loader(startarg, name, cwd)
                    why = oracle_loader(tree, s, r)
                    out.case(case, any(k != "none" for k in kinds))
                    out.hist["form:" + form] += 1
                    if name in SPECIAL_NAMES or name == "__init__":
                        out.hist["special_name:%s" % name] += 1
                        out.hist["special_name:%s:%s" % (name, r["r"] if r["r"] != "ok" else r["mark"].split(":")[1] if r.get("mark") else "ok?")] += 1
                    if "." in name:
                        out.hist["dotted_name"] += 1
                        out.hist["dotted_name:" + (r["r"] if r["r"] != "ok" else r["mark"].split(":")[1] if r.get("mark") else "ok?")] += 1
                    out.hist["result:" + (r["r"] if r["r"] != "ok" else r["mark"].split(":")[1] if r.get("mark") else "ok?")] += 1
                    strict, lenient = expected_levels(kinds, s)
                    if strict is not None and any(k != "none" for k in kinds[strict + 1:s + 1] + kinds[:strict]):
                        out.hist["shadowing_or_baredir_on_the_way"] += 1
                    if why is None and case["program"]:
                        rp = run_program(startarg, name, cwd)
                        why = oracle_program(tree, s, rp)
                        out.hist["program_runs"] += 1
                    if why:
                        out.fail(case, why)
                    eff = startarg if startarg else cwd
                    lines.append(model_line(name, cwd, eff, lay))
                    pending.append((case, canon_impl(r)))
        finally:
            tree.close()
    # directories with pattern-like names on the way up (and decoys the pattern would match next to them)
    for li, (kinds, dirnames) in enumerate(glob_layouts(rng, ctx.n(9, 27))):
        name = NAMES[li % 2]
        tree = Tree(kinds, name, dirnames)
        try:
            make_decoys(tree)
            lay = tree.layout()
            for s in range(len(kinds)):
                for form in ["abs", "none", rng.choice(["trailing", "rel", "dotrel", "relup", "absup"])]:
                    sub = rng.randrange(1 << 30)
                    startarg, cwd = start_args(tree, s, form, random.Random(sub))
                    counter += 1
                    case = {"kind": "tree", "kinds": kinds, "name": name, "start": s, "form": form, "sub": sub,
                            "program": counter % (3 * prog_every) == 0, "dirnames": dirnames, "decoys": True}
                    r = run_loader(startarg, name, cwd)
                    why = oracle_loader(tree, s, r)
                    out.case(case, any(k != "none" for k in kinds))
                    out.hist["pattern_like_dirnames"] += 1
                    strict = expected_levels(kinds, s)[0]
                    gl = [i for i, d in enumerate(dirnames) if d in GLOB_DECOYS]
                    if strict is not None and any(i <= s for i in gl):
                        out.hist["pattern_like_dirnames:candidate_found_through_or_in_such_a_directory"
                                 if any(strict <= i for i in gl) else "pattern_like_dirnames:start_below_candidate_above"] += 1
                    if why is None and case["program"]:
                        rp = run_program(startarg, name, cwd)
                        why = oracle_program(tree, s, rp)
                        out.hist["program_runs"] += 1
                    if why:
                        out.fail(case, why)
                    lines.append(model_line(name, cwd, startarg if startarg else cwd, lay))
                    pending.append((case, canon_impl(r)))
        finally:
            tree.close()
    # module bodies with import-time behaviour (re-entrant loads of the same / another collection, sys.modules rebinding,
    # cwd changes): every layout of depth <= 2 (thorough <= 3) over {none, module, package, both} x body assignments
    bk = ["none", "module", "package", "both"]
    blayouts = [list(k) for depth in range(0, (3 if big else 2) + 1) for k in itertools.product(bk, repeat=depth + 1)]
    for li, kinds in enumerate(blayouts):
        cand = [i for i, k in enumerate(kinds) if k != "none"]
        if not cand:
            continue
        assigns = [dict((str(i), "reload_up") for i in cand)]  # a chain of nested projects, each loading the enclosing one
        for _ in range(ctx.n(2, 6)):
            assigns.append(dict((str(i), rng.choice(BODIES)) for i in cand))
        for bodies in assigns:
            name = NAMES[li % 2]
            tree = Tree(kinds, name)
            try:
                apply_bodies(tree, bodies)
                lay = tree.layout()
                for s in range(len(kinds)):
                    if expected_levels(kinds, s)[0] is None and rng.random() < 0.7:
                        continue
                    for form in (["abs", rng.choice(FORMS[1:])] if (big or rng.random() < 0.4) else [rng.choice(FORMS)]):
                        sub = rng.randrange(1 << 30)
                        startarg, cwd = start_args(tree, s, form, random.Random(sub))
                        counter += 1
                        case = {"kind": "tree", "kinds": kinds, "name": name, "start": s, "form": form, "sub": sub,
                                "program": counter % (2 * prog_every) == 0, "bodies": bodies}
                        r = run_loader(startarg, name, cwd)
                        why = oracle_loader(tree, s, r) or oracle_bodies(tree, bodies, r)
                        out.case(case, True)
                        out.hist["bodies"] += 1
                        strict = expected_levels(kinds, s)[0]
                        if strict is not None:
                            out.hist["bodies:nearest=" + bodies.get(str(strict), "plain")] += 1
                            if bodies.get(str(strict)) in ("reload_up", "reload_self") and r.get("inner") and ":" in str(r["inner"][0]):
                                out.hist["bodies:reentrant_same_name_load_found_a_farther_module"] += 1
                        if why is None and case["program"]:
                            rp = run_program(startarg, name, cwd)
                            why = oracle_program(tree, s, rp)
                            out.hist["program_runs"] += 1
                        if why:
                            out.fail(case, why)
                        lines.append(model_line(name, cwd, startarg if startarg else cwd, lay))
                        pending.append((case, canon_impl(r)))
            finally:
                tree.close()
    # virtual layouts: the root directory takes part
    if shim_ok():
        vk = ["none", "module", "package", "baredir"]
        for depth in range(0, (3 if big else 2) + 1):
            for kinds in itertools.product(vk, repeat=depth + 1):
                for s in range(depth + 1):
                    case = {"kind": "virtual", "kinds": list(kinds), "name": NAMES[(depth + s) % len(NAMES)], "start": s}
                    dirs, chain = vcase_dirs(case)
                    for startarg, cwd in ((chain[s], "/"), (posixpath.relpath(chain[s], chain[s // 2]), chain[s // 2])):
                        r = vfind(dirs, startarg, case["name"], cwd)
                        why = oracle_virtual(case, r)
                        out.case(dict(case, rel=startarg), any(k != "none" for k in kinds))
                        out.hist["virtual"] += 1
                        if kinds[0] != "none":
                            out.hist["virtual_candidate_in_root"] += 1
                        if why:
                            out.hist["oracle:virtual"] += 1
                            out.fail(case, why)
                        lines.append(model_line(case["name"], cwd, startarg, dirs))
                        pending.append((case, canon_impl_virtual(r, case["name"])))
    else:
        ctx.notes.append("virtual filesystem shim not effective (invoke.loader no longer uses its module-level os); root cases skipped")
    run_histories(ctx, out, lines, pending)
    model = drv.run(lines) if (ctx.model_ok and lines) else [None] * len(lines)
    for (case, impl), m in zip(pending, model):
        if m is None:
            continue
        out.traces += 1
        if isinstance(impl, list):  # a history on one loader object: one answer per load/find, in order
            got = m.split("|") if m else []
            want = impl
            if len(got) == len(want):
                got = [g if len(w.split(" ")) != 2 else " ".join(g.split(" ")[:2]) for g, w in zip(got, want)]  # find: kind + file
            if got != want:
                out.disagree(case, "|".join(want), m)
            continue
        mres, _, hyp = m.rpartition(" ")
        out.hist["theorem_hyp_dirs_listable:" + hyp] += 1
        if impl != mres:
            out.disagree(case, impl, mres)
    out.extra["exhaustive_layouts"] = n_exh
    return out


def named_layouts(rng, nrandom, maxdepth):
    """layouts whose directories carry the collection's own name (`<name>`), the other collection's name or a plain one:
    all chains in which EVERY directory below the base is `<name>/` (so level i is the entry `<name>/` of level i-1, whose
    kind is therefore package, both or baredir; `<name>/<name>.py`, `<name>/<name>/<name>.py`, a module next to / inside a
    package of that name), plus random mixtures"""
    out = []
    dirish = ["package", "both", "baredir"]
    for depth in range(1, maxdepth + 1):
        for upper in itertools.product(dirish, repeat=depth):
            for last in KINDS:
                for base in (["base"] if depth > 1 else ["base", "<name>"]):
                    out.append((list(upper) + [last], [base] + ["<name>"] * depth))
    for _ in range(nrandom):
        levels = rng.choice([2, 3, 3, 4, 4])
        dirnames = [rng.choices(["base", "<name>", "<other>"], [60, 30, 10])[0]]
        kinds = []
        for i in range(1, levels):
            dirnames.append(rng.choices(["d%d" % i, "<name>", "<other>"], [35, 50, 15])[0])
        for i in range(levels):
            if dirnames[i] == "<name>":
                kinds.append(rng.choices(KINDS, [15, 45, 15, 15, 10])[0])
            else:
                kinds.append(rng.choice(KINDS))
        for i in range(1, levels):
            if dirnames[i] == "<name>":  # the directory exists as an entry of the level above
                kinds[i - 1] = {"none": "baredir", "module": "both"}.get(kinds[i - 1], kinds[i - 1])
        out.append((kinds, dirnames))
    return out


WROOT = {"kind": "virtual", "kinds": ["module", "none", "none"], "name": "tasks", "start": 2}

LEVEL_TEXT = ("Lean 4 proof (find_nearest, find_kind, find_complete, not_found, never_import_error, project_dir_rule, "
              "relative_start_resolved) that for every filesystem, working directory, start argument and collection name the "
              "modelled FilesystemLoader.find/Loader.load reports the nearest directory at or above the start that holds "
              "name.py or name/__init__.py, with the project directory being that directory; completeness (find_complete) is proved at full strength incl. the filesystem root "
              "(the pre-repair rule survives as a counterexample theorem); over HISTORIES on one loader object (chdir, "
              "filesystem changes, loads, reads of .start) every answer depends only on the construction-time start and on the "
              "working directory and filesystem at the time of the call (history_load_depends_only_on_current_world), a loader "
              "without explicit start walks up from the working directory of the call (default_start_is_cwd_of_the_call, "
              "history_load_is_nearest_of_current_cwd), one with an explicit absolute start ignores it "
              "(explicit_absolute_start_ignores_cwd) - the same histories are replayed on one real FilesystemLoader and on "
              "the model (driver op hist). The model is tied to invoke.loader on every "
              "run by a differential check on real temporary directory trees (all layouts up to the bound x all start "
              "directories x six start forms), a Program-level check of the project invoke.yaml, and a direct oracle "
              "('first ancestor containing it')")
TECHNIQUE = "Lean 4 theorems over all filesystems/paths (induction on the reversed start path) + correspondence on real temp trees + oracle"
