"""Entry point: run.py <ID> <quick|thorough>   |   run.py --replay <file>

One pipeline for every property (DESIGN.md 1.2).  A property module `props/cXX.py` provides

  ID, PROPS (list of Props/*.lean files), TARGETS (extra lake targets, e.g. the driver exe),
  GENERATED (list of extractor names from tools/extract.py), RULE, TRUSTED, ASSUMPTIONS,
  run(ctx) -> common.Outcome        correspondence + always-on oracle on the REAL code
  replay(case) -> (holds: bool, detail)   the oracle on one case (real code)
  optional: match_known(entry, failure) -> bool
"""
import importlib
import json
import os
import sys
import time
import traceback

sys.path.insert(0, os.path.dirname(os.path.abspath(__file__)))
import common  # noqa: E402
from common import Ctx, Outcome  # noqa: E402,F401

sys.path.insert(0, os.path.join(common.VERIF, "tools"))


def load(pid):
    return importlib.import_module("props." + pid.lower())


def do_replay(path):
    payload = json.load(open(path))
    pid = payload["property"]
    mod = load(pid)
    if "case" not in payload or payload.get("case") is None:
        print("replay %s: no concrete failing input was found; broken obligation: %s" % (pid, payload.get("broken")))
        return 1
    holds, detail = mod.replay(payload["case"])
    print("replay %s: property %s on this case: %s" % (pid, "HOLDS" if holds else "FAILS", detail))
    return 0 if holds else 1


def main(argv):
    if len(argv) >= 2 and argv[0] == "--replay":
        return do_replay(argv[1])
    if len(argv) < 2:
        print(__doc__)
        return 2
    pid, tier = argv[0].upper(), argv[1]
    if tier not in ("quick", "thorough"):
        tier = os.environ.get("VERIF_TIER", "quick")
    seed = int(os.environ.get("VERIF_SEED", "0") or 0)
    t0 = time.time()
    os.environ[common.GUARD] = "1"
    mod = load(pid)
    ctx = Ctx(pid, tier, seed)
    broken = []  # proof obligations / correspondence items that no longer check
    generated_diff = []

    # 1. translate -------------------------------------------------------------------------
    import extract

    with common.BuildLock():
        try:
            generated_diff = extract.regenerate(getattr(mod, "GENERATED", []))
        except extract.Mismatch as e:
            broken.append("translator_mismatch: %s" % e)
        except Exception as e:  # the code under test may be arbitrarily broken
            broken.append("translator_error: %r" % e)
        if generated_diff:
            ctx.escalated = True
            ctx.notes.append("generated tables changed: %s" % generated_diff)
        # 2. build --------------------------------------------------------------------------
        targets = [p[:-5].replace("/", ".") for p in mod.PROPS] + list(getattr(mod, "TARGETS", []))
        ok, log = common.lake_build(targets)
        if not ok:
            ctx.model_ok = False
            first = [l for l in log.splitlines() if "error" in l][:6]
            broken.append("lake build failed: " + " | ".join(first))
            # the drivers may still build even if a table obligation fails
            drv = [t for t in getattr(mod, "TARGETS", [])]
            if drv:
                okd, _ = common.lake_build(drv)
                ctx.model_ok = okd
        # 3. audit --------------------------------------------------------------------------
        aud = {"theorems": [], "examples": 0, "axioms": {}, "problems": []}
        leanchecker = None
        if ok:
            aud = common.audit(pid, mod.PROPS, getattr(mod, "DRIVER_ROOTS", ()))
            for p in aud["problems"]:
                broken.append("audit: " + p)
            if tier == "thorough":
                # independent re-check of the compiled proofs by the toolchain's .olean checker
                mods = [p[:-5].replace("/", ".") for p in mod.PROPS]
                rc, o, e = common.sh(["lake", "env", "leanchecker"] + mods, cwd=common.LEAN, timeout=3000)
                leanchecker = "ok" if rc == 0 else "FAILED: " + (o + e)[-400:]
                if rc != 0:
                    broken.append("audit: leanchecker rejected the compiled proofs: " + (o + e)[-300:])

    # 4. correspond + oracle ----------------------------------------------------------------
    limit = int(os.environ.get("VERIF_RUN_TIMEOUT", "3600" if tier == "thorough" else "900"))
    try:
        out = common.with_timeout(mod.run, limit, ctx)
    except common.Hang:
        # the code under test blocks the harness (e.g. a run that never returns): not an infrastructure error
        out = Outcome()
        broken.append("harness did not finish within %ds: some execution of the code under test does not return" % limit)
    except Exception:
        # harness crash on the real code = the code no longer supports the modelled interface
        tb = traceback.format_exc()
        out = Outcome()
        broken.append("harness error: " + tb[-1500:])
    for d in out.disagreements[:3]:
        broken.append("correspondence: model and implementation differ on %s" % json.dumps(d, default=str)[:600])

    # 5. known findings ---------------------------------------------------------------------
    known = common.known_findings(pid)
    matcher = getattr(mod, "match_known", None)
    unlisted = []
    for f in out.oracle_failures:
        if matcher and any(e.get("status") == "known" and matcher(e, f) for e in known):
            continue
        unlisted.append(f)
    for e in known:
        if e.get("status") == "known":
            try:
                holds, detail = mod.replay(e["witness"])
            except Exception as ex:
                holds, detail = False, repr(ex)
            if not holds:
                print("KNOWN-FINDING: property=%s %s" % (pid, e["what"]))
            else:
                ctx.notes.append("known finding %s no longer reproduces" % e.get("id"))
        elif e.get("status") == "fixed":
            try:
                holds, detail = mod.replay(e["witness"])
            except Exception as ex:
                holds, detail = False, repr(ex)
            if not holds:
                unlisted.insert(0, {"case": e["witness"], "why": "fixed finding %s is back: %s" % (e.get("id"), detail)})

    # 6. adjudicate -------------------------------------------------------------------------
    violation = None
    if unlisted:
        f = unlisted[0]
        # prefer the smallest failing case
        f = min(unlisted[:50], key=lambda x: len(json.dumps(x["case"], default=str)))
        path = common.write_replay(pid, {"property": pid, "case": f["case"], "why": f["why"], "broken": broken,
                                         "seed": seed, "tier": tier})
        violation = "VIOLATION property=%s replay=%s" % (pid, path)
    elif broken:
        path = common.write_replay(pid, {"property": pid, "case": None, "broken": broken, "seed": seed, "tier": tier,
                                         "disagreements": out.disagreements[:5]})
        violation = "VIOLATION property=%s replay=%s no-failing-input-found" % (pid, path)

    n_table = int(out.extra.get("table_obligations", 0))
    obligations = len(aud["theorems"]) + aud["examples"] + n_table
    discharged = obligations if not [b for b in broken if b.startswith(("lake", "audit"))] else 0
    cov = {
        "obligations": max(obligations, 1),
        "discharged": discharged,
        "checker_cmd": "cd lean && lake build %s && lake env lean .lake/audit/%s.lean  (#print axioms)" % (" ".join(targets), pid),
        "trusted_base": mod.TRUSTED,
        "theorems": aud["theorems"],
        "nonvacuity_examples": aud["examples"],
        "axioms": aud["axioms"],
        "evaluations": out.evaluations,
        "distinct_nontrivial": len(out.distinct),
        "rule": mod.RULE,
        "samples": out.samples[:6] or ["(no cases)"],
        "traces_validated_against_impl": out.traces,
        "disagreements": len(out.disagreements),
        "oracle_failures": len(out.oracle_failures),
        "oracle_failures_matching_known_findings": len(out.oracle_failures) - len([u for u in unlisted if u in out.oracle_failures]),
        "histogram": dict(out.hist),
        "exhaustive": bool(out.exhaustive),
        "generated_diff": generated_diff,
        "leanchecker": leanchecker,
        "broken": broken,
        "notes": ctx.notes,
    }
    cov.update({k: v for k, v in out.extra.items() if k not in cov})
    common.write_evidence(pid, tier, seed, time.time() - t0, cov, mod.ASSUMPTIONS, 1 if violation else 0)
    if violation:
        print(violation)
        for b in broken[:5]:
            print("  broken:", b[:400])
        return 1
    print("OK property=%s tier=%s theorems=%d examples=%d cases=%d distinct=%d traces=%d wall=%.1fs" % (
        pid, tier, len(aud["theorems"]), aud["examples"], out.evaluations, len(out.distinct), out.traces, time.time() - t0))
    return 0


def _exit(code):
    try:
        import atexit
        atexit._run_exitfuncs()  # temp-dir clean-ups registered by the property modules
    except Exception:
        pass
    sys.stdout.flush()
    sys.stderr.flush()
    os._exit(code)  # abandoned (hung) daemon threads and children must not keep the check alive


if __name__ == "__main__":
    import faulthandler
    import signal
    faulthandler.register(signal.SIGUSR1, all_threads=True)  # kill -USR1 <pid> prints every thread's stack
    try:
        _exit(main(sys.argv[1:]))
    except SystemExit as e:
        _exit(e.code if isinstance(e.code, int) else 2)
    except Exception:
        traceback.print_exc()
        _exit(2)
