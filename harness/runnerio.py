"""Shared correspondence machinery for the runner properties (C02, C08, C13, C14):
random (options, environment script, schedule) cases executed on the gated REAL Runner
(harness/gate.py) and on the Lean transition system (Driver/Runner.lean), compared observation by
observation."""
import binascii

import gate
from common import LeanDriver

TEXT_PIECES = [b"ab", b"c", b"xyz", b"caf\xc3", b"\xa9!", b"\xe2\x82", b"\xac", b"\xff", b"hello\n", b"\xf0\x9f", b"\x98\x80",
               b"0123456789", b"E", b"FG", b"\n"]


def hexs(b):
    return binascii.hexlify(b).decode()


def gen_case(rng, focus=None):
    """focus in {None, 'output', 'stdin', 'timer', 'fault'} biases the options."""
    has_in = rng.random() < (0.9 if focus == "stdin" else 0.4)
    has_t = rng.random() < (0.9 if focus == "timer" else 0.35)
    warn = rng.random() < 0.5
    pty = rng.random() < 0.25
    echo_opt = rng.choice([0, 0, 1, 2])
    in_tty = rng.random() < 0.4
    hold = rng.random() < (0.25 if focus in ("timer", None) else 0.1)
    start_fails = rng.random() < 0.03
    read_size = rng.choice([1000, 1000, 3, 2, 1])
    outc = [rng.choice(TEXT_PIECES) for _ in range(rng.randint(0, 4 if focus != "stdin" else 2))]
    errc = [rng.choice(TEXT_PIECES) for _ in range(rng.randint(0, 2))]
    ins = None
    if has_in:
        # "~" = not ready, "$" = EOF; the rest is data, control characters included (they are ordinary input text)
        ins = [rng.choice(["h", "i", "é", "~", "~", "$", "!", "xy", "\x04", "\x03", "\x00", "\x1a"]) for _ in range(rng.randint(0, 5))]
    rc = rng.choice([0, 0, 0, 3, 1, -15])
    actors = ["main", "out"] + ([] if pty else ["err"]) + (["stdin"] if has_in else []) + (["timer"] if has_t else [])
    envacts = ["wo"] * len(outc) + ["we"] * len(errc) + ["x%d" % rc]
    if rng.random() < 0.15:
        envacts.append("co")
    if rng.random() < (0.5 if focus == "fault" else 0.08):
        envacts.append(rng.choice(["fo", "fe", "fo", "fe", "bo", "be"]))
    if rng.random() < (0.3 if focus == "fault" else 0.08):
        envacts.append("int")
    rng.shuffle(envacts)
    if rng.random() < 0.5:  # typical: writes before exit
        envacts.sort(key=lambda t: 1 if t.startswith("x") else 0)
    sched, ei = [], 0
    for _ in range(rng.randint(3, 45)):
        if ei < len(envacts) and rng.random() < 0.3:
            sched.append(envacts[ei])
            ei += 1
        else:
            sched.append(rng.choice(actors))
    complete = rng.random() < 0.85
    if complete:
        sched += envacts[ei:]
        if hold:
            sched += ["co", "ce"]
        comp = ["out"] + ([] if pty else ["err"]) + (["stdin"] if has_in else []) + ["main"]
        if has_t and rng.random() < 0.3:
            comp.append("timer")
        sched += comp * rng.choice([12, 30])
    return {"has_in": has_in, "has_t": has_t, "warn": warn, "pty": pty, "echo_opt": echo_opt, "in_tty": in_tty,
            "hold": hold, "start_fails": start_fails, "read_size": read_size,
            "out": [hexs(c) for c in outc], "err": [hexs(c) for c in errc], "ins": ins, "sched": sched,
            "hide": rng.choice([True, True, False, "out", "err", "both", None]), "explicit": rng.random() < 0.4,
            "async": rng.random() < 0.25, "async_cfg": rng.random() < 0.4}


def hidden_flags(c):
    """(stdout hidden, stderr hidden): `hide` only applies to streams that were not given explicitly"""
    if c.get("explicit", True):
        return False, False
    h = True if c.get("async") else c.get("hide")  # "Always hide if async"
    return h in (True, "both", "out", "stdout"), h in (True, "both", "err", "stderr")


def model_line(c):
    ho, he = hidden_flags(c)
    flags = ",".join(str(int(x)) for x in (c["has_in"], c["has_t"], c["warn"], c["pty"])) + \
        ",%d,%d,%d,%d,%d,%d,%d,%d" % (c["echo_opt"], int(c["in_tty"]), int(c["hold"]), int(c["start_fails"]), c["read_size"], int(ho), int(he),
                                      int(c.get("async", False))) + ",%d" % c.get("joins", 1)
    ins = ",".join("~" if x == "~" else "$" if x == "$" else hexs(x.encode()) for x in (c["ins"] or []))
    return "|".join([flags, ",".join(c["out"]), ",".join(c["err"]), ins, ",".join(c["sched"])])


def run_impl(c):
    in_script = None
    if c["has_in"]:
        in_script = [None if x == "~" else "" if x == "$" else x for x in c["ins"]]
    kw = {"hide": c["hide"], "warn": c["warn"]}
    if c["has_t"]:
        kw["timeout"] = 5
    kw["echo_stdin"] = {0: None, 1: True, 2: False}[c["echo_opt"]]
    return gate.run_schedule(c["sched"], out=[binascii.unhexlify(x) for x in c["out"]],
                             err=[binascii.unhexlify(x) for x in c["err"]], in_script=in_script, in_tty=c["in_tty"],
                             pty=c["pty"], hold_open=c["hold"], start_fails=c["start_fails"], read_size=c["read_size"],
                             explicit_streams=c.get("explicit", True), asynchronous=c.get("async", False), joins=c.get("joins", 1),
                             async_via_config=bool(c.get("async") and c.get("async_cfg")), **kw)


def codes(s):
    return ".".join(str(ord(ch)) for ch in s)


def outcome_of(c, r):
    if r is None:
        return "pending"
    if r[0] == "return":
        return "return:%d" % r[3]
    name = r[1]
    if name in ("CommandTimedOut", "UnexpectedExit"):
        return "raise:%s:%d" % (name, r[4])
    if name == "ThreadException":
        return "raise:ThreadException"
    if name == "OSError" and c["start_fails"]:
        return "raise:StartFailed"
    return "raise:" + name


def impl_obs(c, o):
    """canonical observation tuple of the implementation, aligned with the driver's output fields"""
    outcome = outcome_of(c, o.get("result"))
    return {
        "earlier": ";".join(outcome_of(c, r) for r in o.get("earlier_results", [])),
        "outcome": outcome,
        "stdout": codes(o["cap"][0]), "stderr": codes(o["cap"][1]),
        "child_stdin": hexs(o["child_stdin"]), "closes": str(o["closes"]), "kills": str(o["kills"]),
        "kills_after_return": str(o["kills_after_return"]),
        "main": "done" if o["main_done"] else "notdone",
        "alive": "".join(a + "," for a in o["alive"]),
    }


def model_obs(line_out):
    f = line_out.split("|")
    if len(f) != 15:
        return {"bad": line_out}
    return {"earlier": f[14], "mirror_out": f[12], "mirror_err": f[13], "outcome": f[0], "stdout": f[3], "stderr": f[4], "child_stdin": f[5], "closes": f[6], "kills": f[7],
            "kills_after_return": f[8], "main": f[10], "alive": f[11], "echoed": f[9], "cap_out_hex": f[1], "cap_err_hex": f[2]}


COMPARED = ["outcome", "earlier", "stdout", "stderr", "child_stdin", "closes", "kills", "kills_after_return", "main", "alive"]


def run_cases(ctx, out, cases, oracle=None):
    """Run every case on both sides; record disagreements; call oracle(case, impl_raw, impl_obs) -> why|None."""
    drv = LeanDriver("drv_runner")
    model = drv.run([model_line(c) for c in cases]) if ctx.model_ok else [None] * len(cases)
    for c, m in zip(cases, model):
        try:
            o = run_impl(c)
        except gate.Deadlock as e:
            out.hist["harness_deadlock"] += 1
            out.disagree(c, "DEADLOCK %s" % e, m)
            if out.hist["harness_deadlock"] >= 4:
                out.fail(c, "[hang] a thread of the real Runner never reached its next gate (4 schedules): %s" % e)
                break
            continue
        io_ = impl_obs(c, o)
        nontrivial = bool(c["out"] or c["err"] or c["ins"])
        out.case(c, nontrivial)
        out.hist["outcome:" + io_["outcome"].split(":")[0] + ":" + (io_["outcome"].split(":")[1] if ":" in io_["outcome"] else "")] += 1
        if m is not None:
            mo = model_obs(m)
            out.traces += 1
            diff = [k for k in COMPARED if mo.get(k) != io_[k]]
            # mirrors: stderr always; stdout unless the echo of stdin shares the stream
            io_["mirror_err"] = codes(o["mirror"][1])
            if mo.get("mirror_err") != io_["mirror_err"] and not c["start_fails"]:
                diff.append("mirror_err")
            if not c["has_in"]:
                io_["mirror_out"] = codes(o["mirror"][0])
                if mo.get("mirror_out") != io_["mirror_out"] and not c["start_fails"]:
                    diff.append("mirror_out")
            if not diff and c["hide"] in (True, "out", "both") and not c.get("explicit", True) and c["has_in"] and not c["start_fails"]:
                # stdout hidden: the out stream shows exactly the echoed input
                if codes(o["mirror"][0]) != codes(bytes.fromhex(mo["echoed"]).decode("utf-8", "replace")):
                    diff = ["echoed"]
                    io_["echoed"] = codes(o["mirror"][0])
            if diff:
                out.disagree(c, {k: io_.get(k) for k in diff}, {k: mo.get(k) for k in diff})
        if oracle:
            why = oracle(c, o, io_)
            if why:
                out.fail(c, why)
    return out
