"""Nested-settings codec shared by the C03 / C16 harnesses (protocol of lean/Driver/ValCodec.lean).

JSON-serialisable "tagged" trees are used inside cases: a dict is a section, a 2-element list [tag, value] is a
leaf with tag n(one) b(ool) i(nt) s(tr) l(ist) t(uple) f(loat).  `build` turns a tagged tree into real Python data.
"""


import collections
import enum


# value TYPES: instances of subclasses of the built-in leaf types (tagged specs {"$sub"-style} in cases: ["L"|"T"|"NT"|"I"|"S"|"F"|"E", v])
class HostList(list):
    pass


class Pair(tuple):
    pass


Endpoint = collections.namedtuple("Endpoint", "host")


class Port(int):
    pass


class Name(str):
    pass


class Ratio(float):
    pass


class Level(enum.IntEnum):
    LOW = 1
    HIGH = 2


def enc_chars(s):
    return ".".join(str(ord(c)) for c in s)


def enc_str(s):
    return enc_chars(s) if s else "-"


def enc_leaf(v):
    if v is None:
        return ["N"]
    if v is True:
        return ["T"]
    if v is False:
        return ["F"]
    if type(v) is int:
        return ["I%d" % v]
    if isinstance(v, str):  # (a str subclass is a str setting: overridden verbatim)
        return ["S" + enc_chars(v)]
    if isinstance(v, (list, tuple)):  # (subclasses of list / tuple are list / tuple settings: rejected)
        return ["L%d" % len(v)] + ["E" + enc_chars(repr(x)) for x in v]
    if type(v) is float:
        return ["O1"]
    return ["O2"]


def is_dict(v):
    return isinstance(v, dict)


def enc_val(v, canon):
    if is_dict(v):
        out = ["D%d" % len(v)]
        keys = sorted(v) if canon else list(v)
        for k in keys:
            out.append("K" + enc_chars(k))
            out += enc_val(v[k], canon)
        return out
    return enc_leaf(v)


def enc_tree(d, canon=False):
    """token stream of a nested dict; canon=True sorts keys (what the Lean drivers print)"""
    return ",".join(enc_val(d, canon))


def enc_environ(env):
    if not env:
        return "-"
    return ";".join(enc_chars(k) + ":" + enc_chars(v) for k, v in env.items())


def build(t):
    """tagged tree -> Python data"""
    if isinstance(t, dict):
        return {k: build(v) for k, v in t.items()}
    tag, v = t
    if tag == "L":
        return HostList(v)
    if tag == "T":
        return Pair(v)
    if tag == "NT":
        return Endpoint(*v)
    if tag == "I":
        return Port(v)
    if tag == "S":
        return Name(v)
    if tag == "F":
        return Ratio(v)
    if tag == "E":
        return Level(v)
    if tag == "n":
        return None
    if tag == "t":
        return tuple(v)
    if tag == "l":
        return list(v)
    if tag == "f":
        return float(v)
    return v


def tag(v):
    """Python data -> tagged tree"""
    if isinstance(v, dict):
        return {k: tag(x) for k, x in v.items()}
    for cls, tg in ((HostList, "L"), (Endpoint, "NT"), (Pair, "T")):
        if isinstance(v, cls):
            return [tg, list(v)]
    if isinstance(v, Level):
        return ["E", int(v)]
    if isinstance(v, Port):
        return ["I", int(v)]
    if isinstance(v, Name):
        return ["S", str(v)]
    if isinstance(v, Ratio):
        return ["F", float(v)]
    if v is None:
        return ["n", None]
    if isinstance(v, bool):
        return ["b", v]
    if isinstance(v, int):
        return ["i", v]
    if isinstance(v, str):
        return ["s", v]
    if isinstance(v, tuple):
        return ["t", list(v)]
    if isinstance(v, list):
        return ["l", list(v)]
    if isinstance(v, float):
        return ["f", v]
    raise TypeError(v)


def is_mapping(obj):
    """dict or config proxy, decided on the TYPE (a setting may be named `keys` / `items` / `get` and shadow the proxied dict
    method of that name on the instance)"""
    t = type(obj)
    return isinstance(obj, dict) or (all(hasattr(t, m) for m in ("__getitem__", "__iter__", "__len__"))
                                     and not isinstance(obj, (str, bytes, list, tuple, set, frozenset, int, float, enum.Enum)))


def plain(obj):
    """deep plain-dict copy of a Config / DataProxy / dict through item access and iteration only"""
    if is_mapping(obj):
        return {k: plain(obj[k]) for k in iter(obj)}
    return obj


def leaves(t, pre=()):
    for k, v in t.items():
        if isinstance(v, dict):
            yield from leaves(v, pre + (k,))
        else:
            yield pre + (k,), v


def sections(t, pre=()):
    for k, v in t.items():
        if isinstance(v, dict):
            yield pre + (k,)
            yield from sections(v, pre + (k,))


def typed(v):
    """value with its exact type (True != 1, (1,) != [1])"""
    return (type(v).__name__, repr(v))
