import Invoke.Model.Collection
import Invoke.Model.CollectionOps
import Driver.Util
/-! Line protocol for the `Collection` model (C10, C17).

    One line = one tree plus its queries, TAB-separated:  `<tree>\t<q1>\t<q2>…` ↦ `<r1>\t<r2>…`.
    tree  := '(' name ';' ad ';' default ';' cfg ';' tasks ';' aliases ';' '[' (key '=' tree)* ']' ')'
             name/default: `~` = None;  tasks `key:id&…`;  aliases `alias>key&…`
    cfg   := '{' (key ':' val (',' key ':' val)*)? '}' ;  val := cfg | i<int> | b0 | b1 | n | s<codes>
    query := N | P | F | T | J | W | U | D | L<name> | C<name> | X<0|1><name> | M<ad>;<name|~>;<mod>;<cfg>
           | H<step>('|'<step>)*   (C17: a history on the tree; answer = the lookups' answers joined by '|')
    step  := 'l' addr '@' name | 'c' addr '@' cfg | 't' addr '@' key ':' id ':' alias(','alias)* ':' <0|1>
           | 'k' addr '@' key ':' <0|1> ':' tree ;   addr := binding keys joined by '.' (empty = the tree itself) -/
open Inv Inv.Coll Drv

def S (t : List Char) : String := String.ofList t

def sortStr (l : List String) : List String := (l.toArray.qsort (· < ·)).toList

def tw (p : Char → Bool) (cs : List Char) : List Char × List Char := (cs.takeWhile p, cs.dropWhile p)

partial def parseVal (cs : List Char) : Option (Val × List Char) :=
  match cs with
  | 'i' :: r =>
    let (tok, rest) := tw (fun c => c.isDigit || c == '-') r
    some (.leaf (.i (S tok).toInt!), rest)
  | 'b' :: '0' :: r => some (.leaf (.b false), r)
  | 'b' :: '1' :: r => some (.leaf (.b true), r)
  | 'n' :: r => some (.leaf .none, r)
  | 's' :: r =>
    let (tok, rest) := tw (fun c => c.isDigit || c == '.') r
    some (.leaf (.s (decChars (S tok))), rest)
  | '{' :: '}' :: r => some (.dict [], r)
  | '{' :: r => go r []
  | _ => none
where go (cs : List Char) (acc : KVs) : Option (Val × List Char) :=
  let (k, r) := tw (· != ':') cs
  match parseVal (r.drop 1) with
  | none => none
  | some (v, rest) =>
    match rest with
    | ',' :: r => go r (acc ++ [(k, v)])
    | '}' :: r => some (.dict (acc ++ [(k, v)]), r)
    | _ => none

def parseCfg (cs : List Char) : Option (KVs × List Char) :=
  match parseVal cs with
  | some (.dict d, r) => some (d, r)
  | _ => none

def field (cs : List Char) : List Char × List Char :=
  let (f, r) := tw (· != ';') cs
  (f, r.drop 1)

def splitC (c : Char) (t : List Char) : List (List Char) :=
  if t.isEmpty then [] else (S t |>.splitOn (String.singleton c)).map String.toList

def optName (t : List Char) : Option CName := if t = ['~'] then none else some t

partial def parseColl (cs : List Char) : Option (Coll × List Char) :=
  match cs with
  | '(' :: r =>
    let (nm, r) := field r
    let (ad, r) := field r
    let (df, r) := field r
    match parseCfg r with
    | none => none
    | some (cfg, r) =>
      let r := r.drop 1
      let (ts, r) := field r
      let (als, r) := field r
      let tasks := (splitC '&' ts).filterMap fun t =>
        match splitC ':' t with
        | [k, id] => some (k, (S id).toNat!)
        | [id] => some ([], (S id).toNat!)
        | _ => none
      let aliases := (splitC '&' als).filterMap fun a =>
        match S a |>.splitOn ">" with
        | [x, y] => some (x.toList, y.toList)
        | _ => none
      match r with
      | '[' :: r =>
        let rec kids (r : List Char) (acc : List (CName × Coll)) : Option (List (CName × Coll) × List Char) :=
          match r with
          | ']' :: ')' :: rest => some (acc, rest)
          | _ =>
            let (k, r2) := tw (· != '=') r
            match parseColl (r2.drop 1) with
            | some (c, rest) => kids rest (acc ++ [(k, c)])
            | none => none
        match kids r [] with
        | some (cl, rest) => some (.mk (optName nm) (ad == ['1']) tasks aliases cl (optName df) cfg, rest)
        | none => none
      | _ => none
  | _ => none

def showLeaf : Leaf → String
  | .none => "n"
  | .b v => if v then "b1" else "b0"
  | .i v => s!"i{v}"
  | .s v => "s" ++ encChars v
  | .l _ => "l"
  | .obj t => s!"o{t}"

partial def showVal : Val → String
  | .leaf l => showLeaf l
  | .dict kvs =>
    "{" ++ ",".intercalate (sortStr (kvs.map fun (k, v) => S k ++ ":" ++ showVal v)) ++ "}"

def showCfg (d : KVs) : String := showVal (.dict d)

def dotted (p : List CName) : String := S (joinDot p)

def showEntry (e : Entry) : String := dotted e.1 ++ "=" ++ ",".intercalate (sortStr (e.2.map dotted))

def showEntries (es : List Entry) : String := ";".intercalate (sortStr (es.map showEntry))

/-- flat listing: collection-name shortcuts among the aliases (prefixes of the name) are not compared -/
def showFlatEntry (e : Entry) : String :=
  let nm := dotted e.1
  nm ++ "=" ++ ",".intercalate (sortStr ((e.2.map dotted).filter fun a => !(nm.startsWith (a ++ "."))))

def showErr : LErr → String
  | .key => "ERR key"
  | .value => "ERR value"
  | .ambiguous => "ERR ambiguous"

def showLookup : Except LErr (Nat × KVs) → String
  | .ok (t, cfg) => s!"OK {t} {showCfg cfg}"
  | .error e => showErr e

def showNLine : NLine → String
  | .task anc nm star als =>
    -- the default marker is not compared
    "t:" ++ "/".intercalate (anc.map S) ++ ":" ++ S nm ++ ":" ++ (if star then "" else "") ++
      ",".intercalate (sortStr (als.map S))
  | .coll anc nm => "c:" ++ "/".intercalate (anc.map S) ++ ":" ++ S nm

def showOpt : Option CName → String
  | none => "~"
  | some n => S n

partial def showJ : JNode → String
  | .mk nm d ts cs =>
    "{" ++ showOpt nm ++ "|" ++ showOpt d ++ "|" ++
      ";".intercalate (sortStr (ts.map fun (n, als) => S n ++ "=" ++ ",".intercalate (sortStr (als.map S)))) ++ "|[" ++
      ",".intercalate (sortStr (cs.map showJ)) ++ "]}"

partial def showColl : Coll → String
  | .mk nm ad ts als cs d cfg =>
    "(" ++ showOpt nm ++ ";" ++ (if ad then "1" else "0") ++ ";" ++ showOpt d ++ ";" ++ showCfg cfg ++ ";" ++
      "&".intercalate (sortStr (ts.map fun (k, id) => S k ++ ":" ++ toString id)) ++ ";" ++
      "&".intercalate (sortStr (als.map fun (a, k) => S a ++ ">" ++ S k)) ++ ";[" ++
      "".intercalate (sortStr (cs.map fun (k, c) => S k ++ "=" ++ showColl c)) ++ "])"

def addrOf (t : List Char) : List CName := if t.isEmpty then [] else splitOnDot t

/-- one step of a history (`Model/CollectionOps.lean`) -/
def parseHStep (s : String) : Option HStep :=
  match s.toList with
  | kind :: r =>
    let (ad, rest) := tw (· != '@') r
    let addr := addrOf ad
    let body := rest.drop 1
    match kind with
    | 'l' => some (.look addr (splitOnDot body))
    | 'c' => (parseCfg body).map fun (cfg, _) => .op (.configure addr cfg)
    | 't' =>
      match (S body).splitOn ":" with
      | [key, id, als, d] => some (.op (.addTask addr key.toList id.toNat! (splitC ',' als.toList) (d == "1")))
      | _ => none
    | 'k' =>
      let (key, r1) := tw (· != ':') body
      let (d, r2) := tw (· != ':') (r1.drop 1)
      (parseColl (r2.drop 1)).map fun (sub, _) => .op (.addColl addr key sub (d == ['1']))
    | _ => none
  | [] => none

def query (c : Coll) (q : String) : String :=
  match q.toList with
  | ['N'] => showEntries (taskNames c)
  | ['P'] => if parserOk c then "ok" else "dup"
  | ['F'] => ";".intercalate (sortStr ((flatListing c).map showFlatEntry))
  | ['T'] => ";".intercalate (sortStr ((nestedListing c).map showNLine))
  | ['J'] => showJ (serialized c)
  | ['W'] => if wf c then "1" else "0"
  | ['U'] => if uniformDash c.autoDash c then "1" else "0"
  | ['D'] => match defaultTaskName c with | some p => dotted p | none => "~"
  | 'L' :: nm => showLookup (getitem c nm)
  | 'C' :: nm =>
    match cliTask c (splitOnDot nm) with
    | none => "REJ"
    | some (.ok (t, _)) => s!"RUN {t}"
    | some (.error e) => showErr e
  | 'X' :: ad :: nm => S (transform (ad == '1') nm)
  | 'M' :: r =>
    let (ad, r) := field r
    let (gv, r) := field r
    let (md, r) := field r
    match parseCfg r with
    | none => "bad-cfg"
    | some (cfg, _) =>
      match fromModule c (optName gv) md (ad == ['1']) cfg with
      | .ok c' => showColl c'
      | .error e => showErr e
  | 'H' :: r =>
    let steps := ((S r).splitOn "|").map parseHStep
    if steps.any Option.isNone then "bad-history"
    else "|".intercalate ((runHist c (steps.filterMap id)).map showLookup)
  | _ => "bad-query"

def step (line : String) : String :=
  match line.splitOn "\t" with
  | [] => "bad-op"
  | tree :: qs =>
    match parseColl tree.toList with
    | some (c, _) => "\t".intercalate (qs.map (query c))
    | none => "bad-tree"

def main : IO Unit := mainLoop step
