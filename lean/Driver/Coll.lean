import Driver.Util
/-! stub: replaced by the owner of this driver -/
def main : IO Unit := Drv.mainLoop (fun _ => "bad-op")
