import Invoke.Model.Config
import Invoke.Model.ConfigCache
import Driver.Util
/-! Line-protocol driver for the `Config` model (C06, C11, C19).

One input line = one HISTORY over a growing list of configuration objects:
  `<obj>:<OP> <args…>` joined by `;`.  Output: per operation `<result>#<view of obj 0>#<view of obj 1>…`
joined by `|`.

Values: `n` | `b0` `b1` | `i-12` | `sabc` | `l+x+y` (list of strings) | `{k:v,k:v}`; `-` = absent argument.
Paths: `-` (root) or steps joined by `.`, a step prefixed with `@` uses attribute syntax. -/
open Inv Drv

partial def parseVal (cs : List Char) : Option (Val × List Char) :=
  match cs with
  | 'n' :: r => some (.leaf .none, r)
  | 'b' :: '0' :: r => some (.leaf (.b false), r)
  | 'b' :: '1' :: r => some (.leaf (.b true), r)
  | 'i' :: r =>
    let tok := r.takeWhile (fun c => c.isDigit || c == '-')
    some (.leaf (.i (String.ofList tok).toInt!), r.drop tok.length)
  | 's' :: r =>
    let tok := r.takeWhile (fun c => c.isAlphanum)
    some (.leaf (.s tok), r.drop tok.length)
  | 'l' :: r => goL r []
  | '{' :: '}' :: r => some (.dict [], r)
  | '{' :: r => go r []
  | _ => none
where
  goL (cs : List Char) (acc : List (List Char)) : Option (Val × List Char) :=
    match cs with
    | '+' :: r =>
      let tok := r.takeWhile (fun c => c.isAlphanum)
      goL (r.drop tok.length) (acc ++ [tok])
    | _ => some (.leaf (.l acc), cs)
  go (cs : List Char) (acc : KVs) : Option (Val × List Char) :=
    let k := cs.takeWhile (· != ':')
    match parseVal (cs.drop (k.length + 1)) with
    | none => none
    | some (v, rest) =>
      match rest with
      | ',' :: r => go r (acc ++ [(k, v)])
      | '}' :: r => some (.dict (acc ++ [(k, v)]), r)
      | _ => none

def keyLt (a b : Key) : Bool := String.ofList a < String.ofList b

partial def showVal : Val → String
  | .leaf .none => "n"
  | .leaf (.b v) => if v then "b1" else "b0"
  | .leaf (.i v) => s!"i{v}"
  | .leaf (.s v) => "s" ++ String.ofList v
  | .leaf (.l xs) => "l" ++ String.join (xs.map fun x => "+" ++ String.ofList x)
  | .leaf (.obj t) => s!"o{t}"
  | .dict kvs =>
    let kvs := kvs.toArray.qsort (fun a b => keyLt a.1 b.1) |>.toList
    "{" ++ ",".intercalate (kvs.map fun (k, v) => String.ofList k ++ ":" ++ showVal v) ++ "}"

def pv (s : String) : Val := match parseVal s.toList with | some (v, _) => v | none => .leaf .none
def pd (s : String) : KVs := match pv s with | .dict d => d | _ => []
def pvOpt (s : String) : Option Val := if s == "-" then none else some (pv s)
def pdOpt (s : String) : Option KVs := if s == "-" then none else some (pd s)

def stepOf (s : String) : Step :=
  if s.startsWith "@" then ((s.drop 1).toString.toList, true) else (s.toList, false)
def pathOf (s : String) : List Step := if s == "-" then [] else (s.splitOn ".").map stepOf

def showErr : CErr → String
  | .key _ => "E:key" | .typ _ => "E:typ" | .value _ => "E:value" | .attr _ => "E:attr"
  | .ambiguousMerge => "E:ambiguousMerge" | .ambiguousEnv => "E:ambiguousEnv" | .uncastable => "E:uncastable"

def showKeys (ks : List Key) : String :=
  ",".intercalate ((ks.toArray.qsort keyLt).toList.map String.ofList)

def showOut : Out → String
  | .none => "-"
  | .val v => "v" ++ showVal v
  | .bool b => if b then "B1" else "B0"
  | .nat n => s!"N{n}"
  | .keys ks => "K" ++ showKeys ks
  | .pair k v => "P" ++ String.ofList k ++ "=" ++ showVal v

def showView (c : Cfg) : String :=
  match c.view with | .ok v => showVal (.dict v) | .error e => "!" ++ showErr e

/-- `VAR=value,VAR=value` (prefix already stripped) -/
def parseEnv (s : String) : List (List Char × List Char) :=
  if s == "-" then [] else
  (s.splitOn ",").map fun kv =>
    match kv.splitOn "=" with
    | [k, v] => (k.toList, v.toList)
    | [k] => (k.toList, [])
    | _ => ([], [])

def parseOp (ws : List String) : Option (List Step × Op) :=
  match ws with
  | ["GI", p, k] => some (pathOf p, .getItem k.toList)
  | ["GA", p, k] => some (pathOf p, .getAttr k.toList)
  | ["GET", p, k] => some (pathOf p, .get k.toList)
  | ["SI", p, k, v] => some (pathOf p, .setItem k.toList (pv v))
  | ["SA", p, k, v] => some (pathOf p, .setAttr k.toList (pv v))
  | ["DI", p, k] => some (pathOf p, .delItem k.toList)
  | ["DA", p, k] => some (pathOf p, .delAttr k.toList)
  | ["POP", p, k, d] => some (pathOf p, .pop k.toList (pvOpt d))
  | ["PI", p, k] => some (pathOf p, .popitem (if k == "-" then none else some k.toList))
  | ["CLR", p] => some (pathOf p, .clear)
  | ["SD", p, k, d] => some (pathOf p, .setdefault k.toList (pvOpt d))
  | ["UPD", p, m, kw] => some (pathOf p, .update (pdOpt m) (pd kw))
  | ["HAS", p, k] => some (pathOf p, .contains k.toList)
  | ["LEN", p] => some (pathOf p, .len)
  | ["KEYS", p] => some (pathOf p, .keys)
  | ["ITEMS", p] => some (pathOf p, .items)
  | _ => none

def slotOf (s : String) : Option Slot := Slot.all.find? (fun x => x.name == s)

def setAt (objs : List Cfg) (i : Nat) (c : Cfg) : List Cfg := objs.set i c

/-- returns (objects', result text) -/
def runOp (objs : List Cfg) (i : Nat) (ws : List String) : List Cfg × String :=
  let cur : Cfg := objs.getD i {}
  let fin (r : Except CErr Cfg) (okText : String) : List Cfg × String :=
    match r with
    | .ok c' => (setAt objs i c', okText)
    | .error e => (objs, showErr e)
  match ws with
  | ["NEW", d, o] =>
    let c : Cfg := { defaults := pd d, overrides := pd o }
    (match c.view with
     | .ok _ => (objs ++ [c], "-")
     | .error e => (objs ++ [c], showErr e))
  | ["NEWF", d, o, sy, us, pr, rt] =>
    let c : Cfg := { defaults := pd d, overrides := pd o, system := pd sy, user := pd us, project := pd pr, runtime := pd rt }
    (match c.view with
     | .ok _ => (objs ++ [c], "-")
     | .error e => (objs ++ [c], showErr e))
  | ["LOAD", s, d] =>
    (match slotOf s with
     | some sl => fin (cur.load sl (pd d)) "-"
     | none => (objs, "bad-slot"))
  | ["LOADU", s, d] =>
    (match slotOf s with
     | some sl => (setAt objs i (cur.loadUnmerged sl (pd d)), "-")
     | none => (objs, "bad-slot"))
  | ["MERGE"] => fin cur.remerge "-"
  | ["ENV", e] => fin (cur.loadShellEnv (parseEnv e)) "-"
  | ["TASK", noneFlag, cfgs, e] =>
    let cs := if cfgs == "-" then [] else (cfgs.splitOn "/").map pd
    fin (cur.taskStep (noneFlag == "1") cs (parseEnv e)) "-"
  | ["CLONE", into] =>
    (match cur.clone (match pdOpt into with | some d => d | none => []) with
     | .ok c' => (objs ++ [c'], "-")
     | .error e => (objs, showErr e))
  | ["UPDP", p, m, kw] =>
    -- `update(<another Config>)` (known finding C06-update-from-proxy): the argument is iterated as a sequence of
    -- pairs, i.e. over its KEY STRINGS: key "xy…" sets self["x"] = "y", a key shorter than 2 raises IndexError
    let path := pathOf p
    (match cur.apply path .len with
     | .error e => (objs, showErr e)
     | .ok _ =>
       -- the writes made before the failing key stay (the real loop has already performed them)
       let rec go (c : Cfg) (ks : List Key) : Cfg × Option String :=
         match ks with
         | [] => (c, none)
         | k :: rest => match k with
           | a :: b :: _ => (match c.apply path (.setItem [a] (.leaf (.s [b]))) with
               | .ok (c', _) => go c' rest
               | .error e => (c, some (showErr e)))
           | _ => (c, some "E:IndexError")
       match go cur (keys (pd m)) with
       | (c1, some e) => (setAt objs i c1, e)
       | (c1, none) => (match c1.apply path (.update none (pd kw)) with
           | .ok (c2, o) => (setAt objs i c2, showOut o)
           | .error e => (setAt objs i c1, showErr e)))
  | _ =>
    match parseOp ws with
    | none => (objs, "bad-op")
    | some (path, op) =>
      match cur.apply path op with
      | .ok (c', o) => (setAt objs i c', showOut o)
      | .error e => (objs, showErr e)

/-- `frozen[i]` = the (stale) view object `i` keeps showing after an unmerged load, until its next operation that
    merges.  A root-level `del` of a key that the STALE view does not have raises KeyError / AttributeError in
    `del self._config[key]` before anything is tracked or merged: nothing changes, the object stays unmerged. -/
def runHistory (ops : List String) : String :=
  let rec go (objs : List Cfg) (frozen : List (Option KVs)) (ops : List String) (acc : List String) : List String :=
    match ops with
    | [] => acc.reverse
    | o :: rest =>
      let (idx, body) := match o.splitOn ":" with
        | i :: r => (i.toNat?.getD 0, ":".intercalate r)
        | [] => (0, "")
      let ws := body.splitOn " "
      let cur : Cfg := objs.getD idx {}
      let before : Option KVs := match frozen.getD idx none with
        | some v => some v
        | none => (match cur.view with | .ok v => some v | .error _ => none)
      let staleMiss : Option String := match frozen.getD idx none, ws with
        | some fv, ["DI", "-", k] => if (lookup k.toList fv).isNone then some "E:key" else none
        | some fv, ["DA", "-", k] => if (lookup k.toList fv).isNone then some "E:attr" else none
        | _, _ => none
      let (objs', res) := match staleMiss with
        | some e => (objs, e)
        | none => runOp objs idx ws
      let frozen1 := frozen ++ List.replicate (objs'.length - frozen.length) none
      let keep := ws.head? == some "LOADU" || staleMiss.isSome
      let frozen' := frozen1.set idx (if keep then before else none)
      let shown := (objs'.zip frozen').map fun (c, f) => match f with
        | some v => showVal (.dict v)
        | none => showView c
      let line := "#".intercalate (res :: shown)
      go objs' frozen' rest (line :: acc)
  "|".intercalate (go [] [] ops [])

/-! ### cached model (`Model/ConfigCache.lean`): histories with held proxy handles; lines start with `C ` -/

open Inv.Cache in
def showViewC (s : CState) : String := showVal (.dict s.view)

open Inv.Cache in
/-- (objects, handles (id, object, handle)) -> op words -> (objects', handles', result) -/
def runOpC (objs : List CState) (hs : List (Nat × Nat × Handle)) (i : Nat) (ws : List String) :
    List CState × List (Nat × Nat × Handle) × String :=
  let cur : CState := objs.getD i {}
  let fin (r : Except CErr CState) : List CState × List (Nat × Nat × Handle) × String :=
    match r with
    | .ok s' => (objs.set i s', hs, "-")
    | .error e => (objs, hs, showErr e)
  let finOut (r : Except CErr (CState × Out)) : List CState × List (Nat × Nat × Handle) × String :=
    match r with
    | .ok (s', o) => (objs.set i s', hs, showOut o)
    | .error e => (objs, hs, showErr e)
  match ws with
  | ["NEW", d, o] =>
    (match CState.new { defaults := pd d, overrides := pd o } with
     | .ok s => (objs ++ [s], hs, "-")
     | .error e => (objs ++ [{}], hs, showErr e))
  | ["LOAD", sl, d] =>
    (match slotOf sl with
     | some x => fin (loadC cur x (pd d))
     | none => (objs, hs, "bad-slot"))
  | ["LOADU", sl, d] =>
    (match slotOf sl with
     | some x => (objs.set i (loadUnmergedC cur x (pd d)), hs, "-")
     | none => (objs, hs, "bad-slot"))
  | ["MERGE"] => fin (rebuild cur)
  | ["ENV", e] => fin (shellEnvC cur (parseEnv e))
  | ["CLONE", into] =>
    (match cloneC cur (match pdOpt into with | some d => d | none => []) with
     | .ok s => (objs ++ [s], hs, "-")
     | .error e => (objs, hs, showErr e))
  | ["HOLD", h, p] =>
    (match hold cur (pathOf p) with
     | .ok hd => (objs, (h.toNat?.getD 0, i, hd) :: hs.filter (fun x => x.1 != h.toNat?.getD 0),
                  s!"N{(Inv.Heap.cellAt cur.heap hd.addr).length}")
     | .error e => (objs, hs.filter (fun x => x.1 != h.toNat?.getD 0), showErr e))
  | ["UPDP", p, m, kw] =>
    let path := pathOf p
    (match applyRoot cur path .len with
     | .error e => (objs, hs, showErr e)
     | .ok _ =>
       let rec go (c : CState) (ks : List Key) : CState × Option String :=
         match ks with
         | [] => (c, none)
         | k :: rest => match k with
           | a :: b :: _ => (match applyRoot c path (.setItem [a] (.leaf (.s [b]))) with
               | .ok (c', _) => go c' rest
               | .error e => (c, some (showErr e)))
           | _ => (c, some "E:IndexError")
       match go cur (keys (pd m)) with
       | (c1, some e) => (objs.set i c1, hs, e)
       | (c1, none) => (match applyRoot c1 path (.update none (pd kw)) with
           | .ok (c2, o) => (objs.set i c2, hs, showOut o)
           | .error e => (objs.set i c1, hs, showErr e)))
  | "HOP" :: h :: rest =>
    (match hs.find? (fun x => x.1 == h.toNat?.getD 0) with
     | none => (objs, hs, "E:key")
     | some (_, _, hd) =>
       match parseOp rest with
       | none => (objs, hs, "bad-op")
       | some (_, op) => finOut (applyHandle cur hd op))
  | _ =>
    match parseOp ws with
    | none => (objs, hs, "bad-op")
    | some (path, op) => finOut (applyRoot cur path op)

def runHistoryC (ops : List String) : String :=
  let rec go (objs : List Inv.Cache.CState) (hs : List (Nat × Nat × Inv.Cache.Handle)) (ops : List String)
      (acc : List String) : List String :=
    match ops with
    | [] => acc.reverse
    | o :: rest =>
      let (idx, body) := match o.splitOn ":" with
        | i :: r => (i.toNat?.getD 0, ":".intercalate r)
        | [] => (0, "")
      let (objs', hs', res) := runOpC objs hs idx (body.splitOn " ")
      let line := "#".intercalate (res :: objs'.map showViewC)
      go objs' hs' rest (line :: acc)
  "|".intercalate (go [] [] ops [])

def step (line : String) : String :=
  if line.startsWith "C " then runHistoryC ((line.drop 2).toString.splitOn ";") else runHistory (line.splitOn ";")

def main : IO Unit := mainLoop step
