import Invoke.Model.Env
import Driver.ValCodec
/-! drv_env: line-protocol driver over `Model/Env.lean` (C16).
    load <prefix> <environ> <tree>   -> ok <env-level tree> | err:<ExceptionClass>
    crawl <tree>                      -> ok VAR=k/k/k;...    | err:AmbiguousEnvVar
    cast <leaf> <chars>               -> ok <leaf> | err:<ExceptionClass>
    int <chars> / upper <chars>       -> CPython `int(s)` / `s.upper()` on ASCII -/
open Inv Drv Drv.VC

def encPath (p : List Key) : String := "/".intercalate (p.map encChars)

def step (line : String) : String :=
  match line.splitOn " " with
  | ["load", pre, env, tree] =>
    match decTree tree with
    | none => "bad-tree"
    | some c => match loadEnv (decStr pre) (decEnviron env) c with
      | .ok d => "ok " ++ encTree d
      | .error e => "err:" ++ errName e
  | ["crawl", tree] =>
    match decTree tree with
    | none => "bad-tree"
    | some c => match crawl [] c [] with
      | .ok vars => "ok " ++ ";".intercalate (vars.map (fun e => encChars e.1 ++ "=" ++ encPath e.2))
      | .error e => "err:" ++ errName e
  | ["cast", leaf, s] =>
    match decLeaf leaf with
    | none => "bad-leaf"
    | some old => match castLeaf old (decStr s) with
      | .ok l => "ok " ++ ",".intercalate (encLeaf l)
      | .error e => "err:" ++ errName e
  | ["int", s] => match pyInt (decStr s) with
    | some n => "ok " ++ toString n
    | none => "err:ValueError"
  | ["upper", s] => "ok " ++ encChars ((decStr s).map upperChar)
  | "hist" :: toks => histStep toks
  | _ => "bad-op"

def main : IO Unit := mainLoop step
