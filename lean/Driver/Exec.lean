import Invoke.Model.Executor
import Driver.Util
/-! Line-protocol driver for the `Executor` model (C04).

    exec <dd:0|1> <dflt:idx|-> <tasks|-> <req|->
      tasks = `;`-separated, task number i is the i-th entry: `cls:key:sig:pre:post`, sig = `pk~ko~V~K`: positional-or-keyword and keyword-only
      parameters (`+`-separated `name=default` | `name!`), V/K = 1 iff the body takes `*rest` / `**kw`
      pre/post = `,`-separated calls `idx/pos/kw` (may only refer to EARLIER tasks)
      pos = `+`-separated values, kw = `+`-separated `name=value`
      value = `i<int>` | `s<char codes>`; name = char codes (decimal, `.`-separated)
      req = `,`-separated `idx/kw`
    answer: `<log> | <results> | <hyp>` with log = `,`-separated `id/pos/kw` (kw sorted by name),
      results = `,`-separated `key=index`, hyp = 1 iff the decidable hypotheses of
      `effective_args_dedupe` hold for the expansion -/
open Inv.Exec Drv

def splitNE (s : String) (sep : String) : List String := if s.isEmpty then [] else s.splitOn sep

def decVal (s : String) : AVal :=
  if s.startsWith "i" then .int ((s.drop 1).toString.toInt?.getD 0) else .str (decChars (s.drop 1).toString)

def decKW (s : String) : KW :=
  (splitNE s "+").map (fun kv => match kv.splitOn "=" with
    | [k, v] => (decChars k, decVal v)
    | _ => ([], .int 0))

def decPos (s : String) : List AVal := (splitNE s "+").map decVal

def decCall (built : Array TaskT) (s : String) : Option CallT :=
  match s.splitOn "/" with
  | [i, p, k] => (i.toNat?.bind (fun n => built[n]?)).map (fun t => (t, ⟨decPos p, decKW k⟩))
  | _ => none

def decCalls (built : Array TaskT) (s : String) : Option (List CallT) :=
  (splitNE s ",").mapM (decCall built)

def decParam (s : String) : Param :=
  match s.splitOn "=" with
  | [k, v] => ⟨decChars k, some (decVal v)⟩
  | _ => ⟨decChars ((s.dropEnd 1).toString), none⟩

def decSig (sg : String) : Sig :=
  match sg.splitOn "~" with
  | [pk, ko, v, k] => ⟨(splitNE pk "+").map decParam, (splitNE ko "+").map decParam, v == "1", k == "1"⟩
  | _ => .plain []

def decSigs (s : String) : List Sig :=
  (splitNE s ";").map (fun e => match e.splitOn ":" with
    | [_, _, sg, _, _] => decSig sg
    | _ => .plain [])

def decTasks (s : String) : Option (Array TaskT) :=
  (splitNE s ";").foldlM (fun (built : Array TaskT) e =>
    match e.splitOn ":" with
    | [c, k, _, pre, post] => do
      let cls ← c.toNat?
      let key ← k.toNat?
      let p ← decCalls built pre
      let q ← decCalls built post
      pure (built.push (.mk built.size key cls p q))
    | _ => none) #[]

def decReq (built : Array TaskT) (s : String) : Option (List (TaskT × KW)) :=
  (splitNE s ",").mapM (fun r => match r.splitOn "/" with
    | [i, k] => (i.toNat?.bind (fun n => built[n]?)).map (fun t => (t, decKW k))
    | _ => none)

def encVal : AVal → String
  | .int i => "i" ++ toString i
  | .str s => "s" ++ encChars s
  | .compound k ps => "c" ++ toString k ++ "." ++ ".".intercalate (ps.map toString)

def ltChars : List Char → List Char → Bool
  | [], [] => false
  | [], _ :: _ => true
  | _ :: _, [] => false
  | a :: as, b :: bs => a.toNat < b.toNat || (a == b && ltChars as bs)

def insSorted (kv : Name × AVal) : KW → KW
  | [] => [kv]
  | x :: r => if ltChars kv.1 x.1 then kv :: x :: r else x :: insSorted kv r

def sortKW (kw : KW) : KW := kw.foldr insSorted []

def encOcc (o : Occ) : String :=
  toString o.id ++ "/" ++ "+".intercalate (o.args.pos.map encVal) ++ "/" ++
    "+".intercalate ((sortKW o.args.kw).map (fun kv => encChars kv.1 ++ "=" ++ encVal kv.2))

def hypOk (sig : Nat → Sig) (l : List Occ) : Bool :=
  l.all (fun c => wellCalled (sig c.id) c.args && l.all (fun d => (c.cls == d.cls) == (c.id == d.id)))

def opt (s : String) : String := if s == "-" then "" else s

def step (line : String) : String :=
  match line.splitOn " " with
  | ["exec", dd, dflt, tasks, req] =>
    match decTasks (opt tasks) with
    | none => "bad-tasks"
    | some built =>
      match decReq built (opt req) with
      | none => "bad-req"
      | some rq =>
        let d : Option TaskT := if dflt == "-" then none else (dflt.toNat?.bind (fun n => built[n]?))
        let sigs := decSigs (opt tasks)
        let sig : Nat → Sig := fun i => sigs.getD i (.plain [])
        let r := execute sig (dd == "1") d rq
        ",".intercalate (r.1.map encOcc) ++ " | " ++
          ",".intercalate (r.2.map (fun kv => toString kv.1 ++ "=" ++ toString kv.2)) ++ " | " ++
          (if hypOk sig (expand (normalize d rq)) then "1" else "0")
  | _ => "bad-op"

def main : IO Unit := mainLoop step
