import Invoke.Model.Exit
import Driver.Util
/-! Line-protocol driver for C05 (`drv_exit`).

    wait E <code>            → "<wait status> <returncodePty>"        (encodeWait + decoding)
    wait S <sig> <core 0|1>  → same for a signal death
    rc <status>              → returncodePty of an arbitrary status ("none" when neither exited nor signaled)
    fin|join <threadExns> <watcherErrs> <timeoutSet 0|1> <timerFired 0|1> <code> <warn 0|1>
                             → "<kind> <exited|none|-> <ok 0|1|->"   (sync path / Promise.join)
    prog success | prog ue <n> | prog exit <code|none> <hasMessage 0|1> | prog parse  → exit status -/
open Inv Inv.Generated Drv

def showOptInt : Option Int → String
  | some i => toString i
  | none => "none"

def b01 (s : String) : Bool := s == "1"

def showKind : FinKind → String
  | .threadException => "ThreadException"
  | .failure => "Failure"
  | .commandTimedOut => "CommandTimedOut"
  | .unexpectedExit => "UnexpectedExit"
  | .returned => "return"

def showDecision (d : Decision) : String :=
  match d.result? with
  | none => showKind d.kind ++ " - -"
  | some r => showKind d.kind ++ " " ++ showOptInt r.exited ++ " " ++ (if r.ok then "1" else "0")

def finIn (th wa ts tf code warn : String) : Option FinIn := do
  let th ← th.toNat?
  let wa ← wa.toNat?
  let code ← code.toInt?
  pure { threadExns := th, watcherErrs := wa, timeoutSet := b01 ts, timerFired := b01 tf, code := code, warn := b01 warn, payload := 0 }

def step (line : String) : String :=
  match line.splitOn " " with
  | ["wait", "E", c] =>
    match c.toNat? with
    | some c => let st := encodeWait (.exited c); toString st ++ " " ++ showOptInt (returncodePty st)
    | none => "bad-arg"
  | ["wait", "S", s, core] =>
    match s.toNat? with
    | some s => let st := encodeWait (.signaled s (b01 core)); toString st ++ " " ++ showOptInt (returncodePty st)
    | none => "bad-arg"
  | ["rc", st] =>
    match st.toNat? with
    | some st => showOptInt (returncodePty st)
    | none => "bad-arg"
  | ["fin", th, wa, ts, tf, code, warn] =>
    match finIn th wa ts tf code warn with
    | some i => showDecision (runSync i)
    | none => "bad-arg"
  | ["join", th, wa, ts, tf, code, warn] =>
    match finIn th wa ts tf code warn with
    | some i => showDecision (makePromise i).join
    | none => "bad-arg"
  | ["prog", "success"] => showOptInt (programExit exitCodeMap .success)
  | ["prog", "parse"] => showOptInt (programExit exitCodeMap .parseError)
  | ["prog", "ue", n] =>
    match n.toInt? with
    | some n => showOptInt (programExit exitCodeMap (.unexpectedExit n))
    | none => "bad-arg"
  | ["prog", "exit", c, m] =>
    if c == "none" then showOptInt (programExit exitCodeMap (.exit none (b01 m)))
    else match c.toInt? with
      | some c => showOptInt (programExit exitCodeMap (.exit (some c) (b01 m)))
      | none => "bad-arg"
  | _ => "bad-op"

def main : IO Unit := mainLoop step
