import Invoke.Model.Loader
import Driver.Util
/-! Line-protocol driver for the `Loader` model (C20).

    load <name> <cwd> <abs:0|1> <raw> <layout>
      name  = char codes (decimal, `.`-separated)
      cwd   = `/`-separated components (each char codes), `-` = the root
      raw   = the start argument split at `/`: `/`-separated components, an empty component is `e`
      layout = `;`-separated directories `path:entries`, entries `,`-separated names
    answer: `module|package <file> <sys.path entry> <project dir>`, `notfound` or `importerror`,
      followed by ` h<0|1>`: 1 iff every directory from the start up to the root is listed (hypothesis of `find_complete`) -/
open Inv.Loader Drv

def splitNE (s : String) (sep : String) : List String := if s.isEmpty then [] else s.splitOn sep

def decPath (s : String) : Path := if s == "-" then [] else (s.splitOn "/").map decChars

def decRaw (s : String) : List Name :=
  if s == "-" then [] else (s.splitOn "/").map (fun c => if c == "e" then [] else decChars c)

def decLayout (s : String) : Layout :=
  (splitNE s ";").filterMap (fun e => match e.splitOn ":" with
    | [p, es] => some (decPath p, (splitNE es ",").map decChars)
    | _ => none)

def encPath (p : Path) : String := if p.isEmpty then "-" else "/".intercalate (p.map encChars)

def prefixesNE : Path → List Path
  | [] => []
  | c :: r => [c] :: (prefixesNE r).map (fun x => c :: x)

def step (line : String) : String :=
  match line.splitOn " " with
  | ["load", name, cwd, ab, raw, lay] =>
    let fs := fsOf (decLayout (if lay == "-" then "" else lay))
    let nm := decChars name
    let p := absPath (decPath cwd) (ab == "1") (decRaw raw)
    let hyp := if ([] :: prefixesNE p).all (fun d => (fs.ls d).isSome) then " h1" else " h0"
    (match loadFrom fs (decPath cwd) (ab == "1") (decRaw raw) nm with
     | .ok l =>
       (match find fs (decPath cwd) (ab == "1") (decRaw raw) nm with
        | .package _ => "package " | _ => "module ") ++
       encPath l.file ++ " " ++ encPath l.sysPath ++ " " ++ encPath l.parent
     | .collectionNotFound => "notfound"
     | .importError => "importerror") ++ hyp
  | _ => "bad-op"

def main : IO Unit := mainLoop step
