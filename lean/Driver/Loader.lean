import Invoke.Model.Loader
import Driver.Util
/-! Line-protocol driver for the `Loader` model (C20).

    load <name> <cwd> <abs:0|1> <raw> <layout>
      name  = char codes (decimal, `.`-separated)
      cwd   = `/`-separated components (each char codes), `-` = the root
      raw   = the start argument split at `/`: `/`-separated components, an empty component is `e`
      layout = `;`-separated directories `path:entries`, entries `,`-separated names
    answer: `module|package <file> <sys.path entry> <project dir>`, `notfound` or `importerror`,
      followed by ` h<0|1>`: 1 iff every directory from the start up to the root is listed (hypothesis of `find_complete`)

    hist <start> <step> <step> …      a history on ONE loader object (`runLoader`)
      start = `-` (no explicit start) or `<abs:0|1>,<raw>`
      step  = `cd=<path>` | `fs=<layout>` | `load=<name>` | `start`
      answer: the answers of the `load` steps (as above, without the hypothesis flag) joined by `|` -/
open Inv.Loader Drv

def splitNE (s : String) (sep : String) : List String := if s.isEmpty then [] else s.splitOn sep

def decPath (s : String) : Path := if s == "-" then [] else (s.splitOn "/").map decChars

def decRaw (s : String) : List Name :=
  if s == "-" then [] else (s.splitOn "/").map (fun c => if c == "e" then [] else decChars c)

def decLayout (s : String) : Layout :=
  (splitNE s ";").filterMap (fun e => match e.splitOn ":" with
    | [p, es] => some (decPath p, (splitNE es ",").map decChars)
    | _ => none)

def encPath (p : Path) : String := if p.isEmpty then "-" else "/".intercalate (p.map encChars)

def prefixesNE : Path → List Path
  | [] => []
  | c :: r => [c] :: (prefixesNE r).map (fun x => c :: x)

def showLoad (isPkg : Bool) : LoadR → String
  | .ok l => (if isPkg then "package " else "module ") ++ encPath l.file ++ " " ++ encPath l.sysPath ++ " " ++ encPath l.parent
  | .collectionNotFound => "notfound"
  | .importError => "importerror"

def decStart (s : String) : LoaderObj :=
  if s == "-" then ⟨none⟩ else
    match s.splitOn "," with
    | [ab, raw] => ⟨some (ab == "1", decRaw raw)⟩
    | _ => ⟨none⟩

def decLStep (s : String) : Option LStep :=
  if s == "start" then some .readStart
  else if s.startsWith "cd=" then some (.chdir (decPath (s.drop 3).toString))
  else if s.startsWith "fs=" then
    let lay := (s.drop 3).toString
    some (.setFs (fsOf (decLayout (if lay == "-" then "" else lay))))
  else if s.startsWith "load=" then some (.load (decChars (s.drop 5).toString))
  else none

/-- is the thing found by each `load` of the history a package? (only the module/package tag of the answer
    line; the answers themselves come from `runLoader`) -/
def histKinds (l : LoaderObj) : World → List LStep → List Bool
  | _, [] => []
  | w, .load name :: r => (match l.findAt w.fs w.cwd name with | .package _ => true | _ => false) :: histKinds l w r
  | w, s :: r => histKinds l (s.after w) r

def step (line : String) : String :=
  match line.splitOn " " with
  | "hist" :: start :: steps =>
    let ss := steps.map decLStep
    if ss.any Option.isNone then "bad-step"
    else
      let sl := ss.filterMap id
      let l := decStart start
      let w : World := ⟨fsOf [], []⟩
      "|".intercalate (List.zipWith showLoad (histKinds l w sl) (runLoader l w sl))
  | ["load", name, cwd, ab, raw, lay] =>
    let fs := fsOf (decLayout (if lay == "-" then "" else lay))
    let nm := decChars name
    let p := absPath (decPath cwd) (ab == "1") (decRaw raw)
    let hyp := if ([] :: prefixesNE p).all (fun d => (fs.ls d).isSome) then " h1" else " h0"
    (match loadFrom fs (decPath cwd) (ab == "1") (decRaw raw) nm with
     | .ok l =>
       (match find fs (decPath cwd) (ab == "1") (decRaw raw) nm with
        | .package _ => "package " | _ => "module ") ++
       encPath l.file ++ " " ++ encPath l.sysPath ++ " " ++ encPath l.parent
     | .collectionNotFound => "notfound"
     | .importError => "importerror") ++ hyp
  | _ => "bad-op"

def main : IO Unit := mainLoop step
