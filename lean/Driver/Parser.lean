import Invoke.Model.Program
import Invoke.Lemmas.ParserWF
import Driver.Util
/-! Line-protocol driver for the argv parser model (C07) and the two-pass Program parse (C18).

  One input line = one parser specification + a batch of argvs, one output line = the batch of outcomes.

    P <initial> <registry> <ign> <argvs>      Parser(contexts, initial, ignore_unknown).parse_argv for each argv
    G <core> <registry> <argvs>               Program: core pass, task pass, _update_core_context, overrides

  encoding (every string as decimal char codes joined by '.', "" = empty string):
    ctx      = <name or ~>|<alias,alias>|<spec;spec>          initial "~" = None
    spec     = names(,)/kind/default/pos/opt/inc/attr(~ = none)
    default  = n | s:<str> | i:<int> | b:0|1 | l:<str,str>
    registry = ctx&ctx   ("~" = empty)
    argvs    = argv;argv   argv = tok,tok ("~" = empty list)
  output: W<0|1>;<outcome>;<outcome>...    (W = the spec satisfies the decidable WF predicate of the C07 theorems)
    outcome  = OK:<ctx>&<ctx>:U<tok,tok>:R<str>  |  E:parse:<kind>  |  E:other:<cls>:<site>  |  E:fuel
    ctx      = <name or ~>{key=val,key=val}      val = N | s<str> | i<int> | b0|b1 | l<n>[/<str>]*   -/
open Inv Drv

def decTok (s : String) : Tok := decChars s
def decOptTok (s : String) : Option Tok := if s == "~" then none else some (decTok s)
def decList (sep : String) (s : String) : List String := if s == "" then [] else s.splitOn sep

def decKind : String → Kind | "int" => .int | "bool" => .bool | "list" => .list | _ => .str

def decDefault (s : String) : PVal :=
  match s.splitOn ":" with
  | ["n"] => .none
  | ["s", v] => .s (decTok v)
  | ["i", v] => match v.toInt? with | some n => .i n | none => .none
  | ["b", v] => .b (v == "1")
  | ["l", v] => .l ((decList "," v).map decTok)
  | _ => .none

def decSpec (s : String) : ArgSpec :=
  match s.splitOn "/" with
  | [names, kind, dflt, pos, opt, inc, attr] =>
    { names := (names.splitOn ",").map decTok, kind := decKind kind, default := decDefault dflt,
      positional := pos == "1", optional := opt == "1", incrementable := inc == "1",
      attrName := decOptTok attr }
  | _ => { names := [] }

def decCtx (s : String) : Except Err Ctx :=
  match s.splitOn "|" with
  | [name, aliases, specs] =>
    Ctx.ofSpecs (decOptTok name) ((decList "," aliases).map decTok) ((decList ";" specs).map decSpec)
  | _ => .error (.other "Bad" "ctx")

def decRegistry (s : String) : Except Err (List Ctx) :=
  if s == "~" then .ok [] else (s.splitOn "&").mapM decCtx

def decArgv (s : String) : List Tok := if s == "~" then [] else (s.splitOn ",").map decTok
def decArgvs (s : String) : List (List Tok) := (s.splitOn ";").map decArgv

def showVal : PVal → String
  | .none => "N"
  | .s v => "s" ++ encChars v
  | .i v => "i" ++ toString v
  | .b v => if v then "b1" else "b0"
  | .l v => "l" ++ toString v.length ++ String.join (v.map fun x => "/" ++ encChars x)

def showName (n : Option Tok) : String := match n with | some t => encChars t | none => "~"

def showArg (a : Arg) : String :=
  encChars (a.spec.attrName.getD (a.spec.names.headD [])) ++ "=" ++ showVal a.value

def showCtx (c : Ctx) : String := showName c.name ++ "{" ++ ",".intercalate (c.args.map showArg) ++ "}"

def showToks (ts : List Tok) : String := ",".intercalate (ts.map encChars)

def showErr : Err → String
  | .parse k _ => "E:parse:" ++ k
  | .other c s => "E:other:" ++ c ++ ":" ++ s
  | .fuel => "E:fuel"

def showResult : Except Err PResult → String
  | .ok r => "OK:" ++ "&".intercalate (r.contexts.map showCtx) ++ ":U" ++ showToks r.unparsed ++ ":R" ++ encChars r.remainder
  | .error e => showErr e

def showB (b : Bool) : String := if b then "1" else "0"

def showOverrides (o : Overrides) : String :=
  "w" ++ showB o.warn ++ "p" ++ showB o.pty ++ "e" ++ showB o.echo ++ "d" ++ showB o.dry ++ "x" ++ showB o.dedupeOff ++
  "/h" ++ showVal o.hide ++ "/t" ++ showVal o.timeout

def showProg : Except Err ProgResult → String
  | .ok r => "OK:" ++ showCtx r.core ++ ":" ++ "&".intercalate (r.tasks.map showCtx) ++ ":U" ++ showToks r.unparsed ++
             ":R" ++ encChars r.remainder ++ ":O" ++ showOverrides (overrides r.core)
  | .error e => showErr e

def step (line : String) : String :=
  match line.splitOn " " with
  | ["P", ini, reg, ign, argvs] =>
    let initial : Except Err (Option Ctx) := if ini == "~" then .ok none else (decCtx ini).map some
    match initial, decRegistry reg with
    | .ok i, .ok r =>
      let w := showB (specWF i r)
      ";".intercalate (("W" ++ w) :: (decArgvs argvs).map fun a => showResult (parseArgv i r (ign == "1") a))
    | .error e, _ => "BADSPEC " ++ showErr e
    | _, .error e => "BADSPEC " ++ showErr e
  | ["G", core, reg, argvs] =>
    match decCtx core, decRegistry reg with
    | .ok c, .ok r =>
      let w := showB (specWF (some c) r)
      ";".intercalate (("W" ++ w) :: (decArgvs argvs).map fun a => showProg (programParse c r a))
    | .error e, _ => "BADSPEC " ++ showErr e
    | _, .error e => "BADSPEC " ++ showErr e
  | _ => "bad-op"

def main : IO Unit := mainLoop step
