import Invoke.Model.RunnerIO
import Invoke.Model.Decode
import Invoke.Model.Encode
import Invoke.Model.Terminal
import Invoke.Model.Rejoin
import Driver.Util
open Inv Drv

def hexVal (c : Char) : Nat :=
  if c.isDigit then c.toNat - '0'.toNat else if 'a' ≤ c ∧ c ≤ 'f' then c.toNat - 'a'.toNat + 10 else 0
def unhex : List Char → List Nat
  | a :: b :: r => (hexVal a * 16 + hexVal b) :: unhex r
  | _ => []
def hexDigit (n : Nat) : Char := if n < 10 then Char.ofNat (n + '0'.toNat) else Char.ofNat (n - 10 + 'a'.toNat)
def hex (bs : List Nat) : String := String.ofList (bs.flatMap fun b => [hexDigit (b / 16), hexDigit (b % 16)])
def splitNE (s : String) (sep : String) : List String := if s == "" then [] else s.splitOn sep
def decChunk (s : String) : Chunk := unhex s.toList
def parseIn (s : String) : InItem := if s == "~" then .notReady else if s == "$" then .eof else .data (decChunk s)

def parseEv (t : String) : Option Ev :=
  match t with
  | "main" => some (.act .main) | "out" => some (.act .out) | "err" => some (.act .err)
  | "stdin" => some (.act .stdin) | "timer" => some (.act .timer)
  | "wo" => some (.env .writeOut) | "we" => some (.env .writeErr)
  | "co" => some (.env .closeOut) | "ce" => some (.env .closeErr)
  | "int" => some (.env .interrupt) | "fo" => some (.env .faultOut) | "fe" => some (.env .faultErr)
  | "bo" => some (.env .faultOut) | "be" => some (.env .faultErr)
  | _ => if t.startsWith "x" then (t.drop 1).toString.toInt?.map (fun rc => .env (.exit rc)) else none

def showOutcome : Outcome → String
  | .pending => "pending" | .ret e => s!"return:{e}" | .timedOut e => s!"raise:CommandTimedOut:{e}"
  | .unexpected e => s!"raise:UnexpectedExit:{e}" | .threadExc => "raise:ThreadException" | .startFailed => "raise:StartFailed"

/-- decoded text of a capture list: incremental decoder, flushed only if the reader saw EOF -/
def textOf (cap : List Chunk) (pc : RdPc) : String :=
  let r := utf8.runChunks utf8.init cap
  encChars (r.2 ++ (if pc = .done then utf8.flush r.1 else []))

def b (x : String) : Bool := x == "1"

def step' (line : String) : String :=
  match line.splitOn "|" with
  | ["D", chunks] => encChars (utf8.decodeIncremental ((splitNE chunks ",").map decChunk))
  | ["U", chunks] => encChars (utf8.decodeUnflushed ((splitNE chunks ",").map decChunk))   -- live text after these reads
  | ["T", spec] =>
    -- isTty,fg,echo,icanon,vmin,vtime,raise  ->  touches,duringCbreak,restored,raised
    match (match spec.splitOn "," with
           | [it, fg, ec, ic, vm, vt, rz] => [it, fg, ec, ic, vm, vt, rz, "0"]
           | l => l) with
    | [it, fg, ec, ic, vm, vt, rz, bd] =>
      let t : TtyEnv := { isTty := b it, foreground := b fg,
                          attrs := { echo := b ec, icanon := b ic, vmin := vm.toNat?.getD 0, vtime := vt.toNat?.getD 0, rest := 0 } }
      -- what the body does to the terminal while the bracket is open: bit 1 ECHO on, bit 2 ICANON on, bit 4 VMIN/VTIME := 5/2
      let m := bd.toNat?.getD 0
      let edit (a : TtyAttrs) : TtyAttrs :=
        { a with echo := a.echo || (m % 2 == 1), icanon := a.icanon || (m / 2 % 2 == 1),
                 vmin := if m / 4 % 2 == 1 then 5 else a.vmin, vtime := if m / 4 % 2 == 1 then 2 else a.vtime }
      let r := characterBuffered (stdSetcbreak id) (fun a => (edit a, b rz)) t
      let sh (x : Bool) : String := if x then "1" else "0"
      ",".intercalate [sh (touches t), sh (cbreakAlreadySet r.during), sh (r.after == t.attrs), sh r.raised]
    | _ => "bad-tty"
  | ["R", chunks] =>
    -- byte-mode input pipeline: incremental UTF-8 decode of the reads (never flushed), then UTF-8 encode of the text
    hex (utf8enc.encodeWhole ((utf8.decodeUnflushed ((splitNE chunks ",").map decChunk)).map Char.toNat))
  | ["E", enc, mode, pieces] =>
    -- pieces: `;`-separated pieces of `.`-separated decimal code points; mode i = one encoder, p = per piece
    let ps : List (List Nat) := (splitNE pieces ";").map fun p => (splitNE p ".").filterMap String.toNat?
    let E? : Option Encoder := match enc with
      | "utf-8" => some utf8enc | "latin-1" => some latin1enc | "utf-16" => some utf16enc | "utf-8-sig" => some utf8sigenc
      | _ => none
    match E? with
    | some E => hex (if mode == "p" then E.encodePerPiece ps else E.encodeIncremental ps)
    | none => "bad-encoding"
  | ["W", chunks] => encChars (utf8.decodeWhole ((splitNE chunks ",").map decChunk).flatten)
  | [flags, outc, errc, ins, sched] =>
    match (match flags.splitOn "," with
           | [hi, ht, w, p, eo, tty, ho, sf, rs, hdo, hde] => [hi, ht, w, p, eo, tty, ho, sf, rs, hdo, hde, "0", "1"]
           | [hi, ht, w, p, eo, tty, ho, sf, rs, hdo, hde, asy] => [hi, ht, w, p, eo, tty, ho, sf, rs, hdo, hde, asy, "1"]
           | l => l) with
    | [hi, ht, w, p, eo, tty, ho, sf, rs, hdo, hde, asy, jn] =>
      let e : Bool := effEcho (if eo == "1" then some true else if eo == "2" then some false else none) (b p) (b tty)
      let s0 := S.init (b hi) (b ht) (b w) (b p) e ((splitNE outc ",").map decChunk) ((splitNE errc ",").map decChunk)
                  ((splitNE ins ",").map parseIn) (b ho) (b sf) (rs.toNat?.getD 1000) (b asy)
      let s0 : S := { s0 with hideOut := b hdo, hideErr := b hde }
      -- `jn` joins of one promise: a main-thread token that finds the previous join over re-enters `_finish`
      let rj := ((splitNE sched ",").filterMap parseEv).foldl (fun (acc : S × Nat × List String) ev =>
        let (s, left, outs) := acc
        if ev = .act .main && s.mainPc = .done && left > 0 && !s.startFails then (rejoin s, left - 1, outs ++ [showOutcome s.outcome])
        else (evStep s ev, left, outs)) (s0, (jn.toNat?.getD 1) - 1, [])
      let s := rj.1
      let alive := (if s.outPc = .read then "out," else "") ++ (if !s.pty && s.errPc = .read then "err," else "")
                   ++ (if s.hasStdin && s.inPc ≠ .done then "stdin," else "")
      "|".intercalate [(if s.mainPc = .done then showOutcome s.outcome else "pending"), hex s.capOut.flatten, hex s.capErr.flatten,
        textOf s.capOut s.outPc, textOf s.capErr s.errPc, hex s.childBytes, toString s.closeCount,
        toString s.kills, toString s.killsAfterReturn, hex s.echoed.flatten,
        (if s.mainPc = .done then "done" else "notdone"), alive, textOf s.mirOut s.outPc, textOf s.mirErr s.errPc,
        ";".intercalate rj.2.2]
    | _ => "bad-flags"
  | _ => "bad-op"

def main : IO Unit := mainLoop step'
