import Invoke.Model.RunOpts
import Invoke.Model.Context
import Driver.Util
/-! Line-protocol driver for C15 (`drv_runopts`).

  values  V := N | F | T | I<int> | S<chars> | X<id> | M<k~v;k~v…> | L<n>        (chars = decimal code points joined by '.')
  dicts      := key=V,key=V…   ("-" = empty)
  run <cmd chars> <kwargs> <config overrides of run.*> <timeouts.command : V> <parent env : M…>
      → ok echo=… start=… shell=… startenv=… env=… hide=… out=… err=… in=… timeout=… opts=…   |   err <kind>
  hide <V> <out_stream V> <err_stream V>  → a+b | - | ValueError
  cwd <list of paths>                     → chars of Context.cwd
  ctx <prompt chars> <sudo.user: N|S…> <tokens joined by ','> → events, raised flag and final stacks
      tokens: R<cmd> run | Q<cmd> run that raises | U<cmd>/<user kwarg A|N|S…>/<env names> sudo | O observe
              | X<k> raise (k: 0 Exception, 1 KeyboardInterrupt, 2 SystemExit, 3 GeneratorExit)
              | GC<path> / GP<prefix> the same blocks held open by a suspended generator and left by close()
              | C<path> open cd | P<prefix> open prefix | Y open try | E close block
  resp <password kwarg A|N|S…> <sudo.password N|S…> → chars written by the sudo auto-responder -/
open Inv Inv.Generated Drv

def encStr (s : String) : String := encChars s.toList
def decStr (s : String) : String := String.ofList (decChars s)

def decV (s : String) : V :=
  let body := (s.drop 1).toString
  if s == "N" then .none
  else if s == "F" then .false
  else if s == "T" then .true
  else if s.startsWith "I" then .int (body.toInt?.getD 0)
  else if s.startsWith "S" then .str (decStr body)
  else if s.startsWith "X" then .stream (body.toNat?.getD 0)
  else if s.startsWith "L" then .list (body.toNat?.getD 0)
  else if s.startsWith "M" then
    .mapping (if body.isEmpty then [] else (body.splitOn ";").map (fun kv =>
      match kv.splitOn "~" with
      | [k, v] => (decStr k, decStr v)
      | _ => ("?", "?")))
  else .none

def encEnv (e : EnvMap) : String :=
  ";".intercalate ((e.mergeSort (fun a b => a.1 ≤ b.1)).map (fun kv => encStr kv.1 ++ "~" ++ encStr kv.2))

def encV : V → String
  | .none => "N"
  | .false => "F"
  | .true => "T"
  | .int i => "I" ++ toString i
  | .str s => "S" ++ encStr s
  | .stream i => "X" ++ toString i
  | .list n => "L" ++ toString n
  | .mapping kvs => "M" ++ encEnv kvs

def decKW (s : String) : KW :=
  if s == "-" then [] else (s.splitOn ",").filterMap (fun kv =>
    match kv.splitOn "=" with
    | [k, v] => some (k, decV v)
    | _ => none)

def b01 (b : Bool) : String := if b then "1" else "0"

def encHide (h : List String) : String := if h.isEmpty then "-" else "+".intercalate h

def showErr : RunErr → String
  | .typeError => "err TypeError"
  | .asyncDisown => "err ValueError"
  | .badHide => "err ValueError"

def encOpts (o : KW) : String :=
  ",".intercalate (((o.filter (fun p => p.1 != "hide")).mergeSort (fun a b => a.1 ≤ b.1)).map (fun p => p.1 ++ "=" ++ encV p.2))

def showRun (r : RunOut) : String :=
  let u := r.unified
  "ok echo=" ++ b01 r.echoed ++
  " start=" ++ (match r.started with | none => "-" | some s => "c" ++ encChars s.command) ++
  " shell=" ++ (match r.started with | none => "-" | some s => encV s.shell) ++
  " startenv=" ++ (match r.started with | none => "-" | some s => "e" ++ encEnv s.env) ++
  " env=" ++ encEnv r.env ++
  " hide=" ++ encHide u.hide ++
  " out=" ++ encV u.outStream ++ " err=" ++ encV u.errStream ++ " in=" ++ encV u.inStream ++
  " timeout=" ++ encV u.timeout ++ " opts=" ++ encOpts u.opts

/-- lists of strings: elements prefixed by 'e', joined by ';' ("" = empty list) -/
def decStrs (s : String) : List Str :=
  if s.isEmpty then [] else (s.splitOn ";").map (fun t => decChars (t.drop 1).toString)
def encStrs (xs : List Str) : String := ";".intercalate (xs.map (fun x => "e" ++ encChars x))

instance : Inhabited Prog := ⟨.done⟩

def decKind (s : String) : ExcKind :=
  if s == "1" then .keyboardInterrupt else if s == "2" then .systemExit else if s == "3" then .generatorExit
  else if s == "4" then .failure else .exception

def showKind : Option ExcKind → String
  | none => "-"
  | some .exception => "Exception"
  | some .keyboardInterrupt => "KeyboardInterrupt"
  | some .systemExit => "SystemExit"
  | some .generatorExit => "GeneratorExit"
  | some .failure => "Failure"

partial def parseSeq : List String → Prog × List String
  | [] => (.done, [])
  | t :: rest =>
    let body := (t.drop 1).toString
    if t == "E" then (.done, rest)
    else if t == "O" then let (k, r) := parseSeq rest; (.obs k, r)
    else if t.startsWith "X" then let (_, r) := parseSeq rest; (.raise (decKind body), r)
    else if t.startsWith "R" then let (k, r) := parseSeq rest; (.run (decChars body) k, r)
    else if t.startsWith "Q" then let (_, r) := parseSeq rest; (.run (decChars body) (.raise .failure), r)
    else if t.startsWith "U" then
      let (k, r) := parseSeq rest
      match body.splitOn "/" with
      | [c, u, e] =>
        let ukw : Option (Option Str) :=
          if u == "A" then none else if u == "N" then some none else some (some (decChars (u.drop 1).toString))
        (.sudo (decChars c) ukw (decStrs (e.replace ":" ";")) k, r)
      | _ => (.done, r)
    else if t.startsWith "C" || t.startsWith "GC" then
      let (b, r1) := parseSeq rest
      let (k, r2) := parseSeq r1
      (.cd (decChars (if t.startsWith "G" then (t.drop 2).toString else body)) b k, r2)
    else if t.startsWith "P" || t.startsWith "GP" then
      let (b, r1) := parseSeq rest
      let (k, r2) := parseSeq r1
      (.pfx (decChars (if t.startsWith "G" then (t.drop 2).toString else body)) b k, r2)
    else if t == "Y" then
      let (b, r1) := parseSeq rest
      let (k, r2) := parseSeq r1
      (.catch b k, r2)
    else (.done, rest)

def showEv : Ev → String
  | .ran c => "r" ++ encChars c
  | .stacks p c => "s" ++ encStrs p ++ "/" ++ encStrs c

def showExec (o : ExecOut) : String :=
  "|".intercalate (o.log.map showEv) ++ " raised=" ++ showKind o.raised ++ " final=" ++ encStrs o.ctx.prefixes ++ "/" ++ encStrs o.ctx.cwds

def step (line : String) : String :=
  match line.splitOn " " with
  | ["run", cmd, kw, cfg, ct, penv] =>
    match runBody (decV penv).asEnv (decKW cfg) (decV ct) (decKW kw) (decChars cmd) with
    | .error e => showErr e
    | .ok r => showRun r
  | ["hide", v, o, e] =>
    match normalizeHide (decV v) (decV o) (decV e) with
    | none => "ValueError"
    | some h => encHide h
  | ["cwd", ps] => encChars (cwdOf (decStrs ps))
  | ["ctx", prompt, user, toks] =>
    let u : Option Str := if user == "N" then none else some (decChars (user.drop 1).toString)
    let prog := (parseSeq (if toks.isEmpty then [] else toks.splitOn ",")).1
    showExec (exec { prompt := decChars prompt, user := u, password := none } { prefixes := [], cwds := [] } prog)
  | ["resp", kw, cfg] =>
    let dec (x : String) : Option Str := if x == "N" then none else some (decChars (x.drop 1).toString)
    encChars (sudoResponse (popKw (if kw == "A" then none else some (dec kw)) (dec cfg)))
  | _ => "bad-op"

def main : IO Unit := mainLoop step
