import Invoke.Model.TaskSig
import Driver.Util
/-! Line-protocol driver for C09 (`drv_sig`).

    input : `sig <params>|<positional>|<optional>|<iterable>|<incrementable>|<auto>|<help>|<ignore>[|<argv>]`
      params        `;`-separated `name=default`, default one of `E` (none given) `N` `S<codes>` `I<int>` `B0|B1`
                    `L<codes>+<codes>…` (`L` = empty list); names are written verbatim (identifier characters)
      positional    `-` (not given) or `,`-separated names (`` = empty list)
      help          `,`-separated keys; auto / ignore `0|1`
      argv          optional, `,`-separated tokens as decimal char codes (`.`-separated): parsed by the shared parser model
    output: `<args> # <context>[ # <kwargs after parse>]`, or `EXC <class>` in place of a part -/
open Inv Drv

def T (s : String) : Tok := s.toList
def S (t : Tok) : String := String.ofList t
def splitNE (s sep : String) : List String := if s == "" then [] else s.splitOn sep
def b01 (b : Bool) : String := if b then "1" else "0"

def parseDef (s : String) : PyDefault :=
  if s == "E" then .empty
  else if s == "N" then .none
  else if s.startsWith "S" then .str (decChars (s.drop 1).toString)
  else if s.startsWith "I" then .int ((s.drop 1).toString.toInt?.getD 0)
  else if s == "B1" then .bool true
  else if s == "B0" then .bool false
  else if s.startsWith "L" then .list ((splitNE (s.drop 1).toString "+").map decChars)
  else .empty

def parseParam (p : String) : Param :=
  match p.splitOn "=" with
  | [n, d] => { name := T n, default := parseDef d }
  | _ => { name := T "BAD", default := .empty }

def showPV : PVal → String
  | .none => "N"
  | .s v => "S" ++ encChars v
  | .i v => "I" ++ toString v
  | .b v => if v then "B1" else "B0"
  | .l xs => "L" ++ "+".intercalate (xs.map encChars)

def showKind : Kind → String
  | .str => "str" | .int => "int" | .bool => "bool" | .list => "list"

def showSpec (a : ArgSpec) (help : Bool) : String :=
  "/".intercalate [",".intercalate (a.names.map S), showKind a.kind, showPV a.default, b01 a.positional,
    b01 a.optional, b01 a.incrementable, (match a.attrName with | some n => S n | none => ""), b01 help]

def errClass : Err → String
  | .other cls _ => "EXC " ++ cls
  | .parse _ _ => "EXC ParseError"
  | .fuel => "EXC fuel"

def nameAt (c : Ctx) (i : Nat) : String :=
  match c.args[i]? with
  | some a => S a.spec.pyName
  | none => "?"

def showKw (c : Ctx) : String :=
  ",".intercalate (c.asKwargs.map (fun kv => S kv.1 ++ "=" ++ showPV kv.2))

def showCtx (c : Ctx) : String :=
  "flags=" ++ ",".intercalate (c.flags.map (fun f => S f.1 ++ ">" ++ nameAt c f.2)) ++
  " inv=" ++ ",".intercalate (c.inverse.map (fun f => S f.1 ++ ">" ++ S f.2)) ++
  " pos=" ++ ",".intercalate (c.positionalNames.map S) ++
  " kw=" ++ showKw c

/-- help flag of the argument called `n` (parameters are looked up by python name) -/
def helpOf (o : TaskOpts) (ps : List Param) (n : Tok) : Bool :=
  match (ps.zip (helpFlags o.help ps)).find? (fun ph => ph.1.name = n) with
  | some ph => ph.2
  | none => false

def parseOpts (pos opt iter inc auto help ign : String) : TaskOpts :=
  { positional := if pos == "-" then none else some ((splitNE pos ",").map T)
    optional := (splitNE opt ",").map T
    iterable := (splitNE iter ",").map T
    incrementable := (splitNE inc ",").map T
    autoShort := auto == "1"
    help := (splitNE help ",").map T
    ignoreUnknownHelp := ign == "1" }

def runSig (ps : List Param) (o : TaskOpts) (argv : Option (List Tok)) : String :=
  match getArguments o ps with
  | .error e => errClass e
  | .ok args =>
    let sa := ";".intercalate (args.map (fun a => showSpec a (helpOf o ps a.pyName)))
    match Ctx.ofSpecsChecked (some (T "t")) [] args with
    | .error e => sa ++ " # " ++ errClass e
    | .ok c =>
      let base := sa ++ " # " ++ showCtx c
      match argv with
      | none => base
      | some av =>
        match parseArgv none [c] false (T "t" :: av) with
        | .error e => base ++ " # " ++ errClass e
        | .ok r =>
          match r.contexts with
          | [c'] => base ++ " # " ++ showKw c'
          | _ => base ++ " # ?"

def step (line : String) : String :=
  match line.splitOn " " with
  | ["sig", rest] =>
    match rest.splitOn "|" with
    | [params, pos, opt, iter, inc, auto, help, ign] =>
      runSig ((splitNE params ";").map parseParam) (parseOpts pos opt iter inc auto help ign) none
    | [params, pos, opt, iter, inc, auto, help, ign, argv] =>
      runSig ((splitNE params ";").map parseParam) (parseOpts pos opt iter inc auto help ign)
        (some ((splitNE argv ",").map decChars))
    | _ => "bad-op"
  | _ => "bad-op"

def main : IO Unit := mainLoop step
