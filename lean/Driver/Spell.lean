import Invoke.Lemmas.SpellSigKwargs
import Driver.Util
/-! Line-protocol driver for C01 (`drv_spell`).  One case per line, everything textual is encoded as decimal
    character codes separated by '.', so any token/value can be transported:

      P <ign 0|1> <init ctx | -> <ctx+ctx+… | _> <argv: t<enc>,t<enc>… | _> <chain | _>

      ctx   = <name enc | _>~<alias,alias… | _>~<spec;spec… | _>
      spec  = <name,name…>/<str|int|bool|list>/<n | s<enc> | i<int> | b0 | b1 | l>/<pos 0|1>/<opt 0|1>/<inc 0|1>/<attr enc | _>
      chain = call+call+…        call = <tname enc>[,item]*
      item  = S:<flag>:<value> | E:<flag>:<value> | G:<flagchar enc>:<value> | T:<flag> | I:<noflag> |
              B:<chars> | P:<value> | O:<flag>

    Two optional further fields carry the SIGNATURE-level description of the same case (composition theorem
    `parse_spelling_from_signatures`):

      <sigs: decl+decl…>   decl  = <name enc>~<param;param… | _>~<optional names | _>~<iterable | _>~<incrementable | _>~<auto 0|1>
                           param = <name enc>:<e | n | s<enc> | i<int> | b0 | b1>
      <schain: call+call…> call  = <tname enc>[,sitem]*
                           sitem = LS:<pn>:<v> | LE:<pn>:<v> | SS:<pn>:<v> | SE:<pn>:<v> | SG:<pn>:<v> | FL:<pn> | FS:<pn> |
                                   NF:<pn> | B:<pn>;<pn>… | P:<pn>:<v> | BL:<pn> | BS:<pn>

    Output: `<parse result> # cov=<0|1> thm=<0|1> sig=<0|1>`; `sig` = the case satisfies ALL hypotheses of the
    composition theorem (registry = contexts `mkCtx` builds from the signatures, identifiers well-formed,
    `sigChainOKb`, argv = rendered signature-level chain); `cov` = the case satisfies the hypotheses of the proved theorem
    (`chainOKb`, no `--` token, argv = rendered chain); `thm` = the theorem's conclusion was observed on this
    case (always 1 when cov=1 — a sanity check of the statement, not a proof step). -/
open Inv Drv

def parseKind : String → Kind | "int" => .int | "bool" => .bool | "list" => .list | _ => .str

def parseDefault (s : String) : PVal :=
  if s == "n" then .none
  else if s == "l" then .l []
  else if s == "b1" then .b true
  else if s == "b0" then .b false
  else if s.startsWith "s" then .s (decChars (s.drop 1).toString)
  else if s.startsWith "i" then (match (s.drop 1).toString.toInt? with | some n => .i n | none => .none)
  else .none

def optEnc (s : String) : Option Tok := if s == "_" then none else some (decChars s)
def listEnc (s : String) (sep : String) : List String := if s == "_" then [] else s.splitOn sep

def parseSpec (s : String) : ArgSpec :=
  match s.splitOn "/" with
  | [names, kind, dflt, pos, opt, inc, attr] =>
    { names := (names.splitOn ",").map decChars, kind := parseKind kind, default := parseDefault dflt,
      positional := pos == "1", optional := opt == "1", incrementable := inc == "1", attrName := optEnc attr }
  | _ => { names := ["BAD".toList] }

def parseCtx (s : String) : Except Err Ctx :=
  match s.splitOn "~" with
  | [name, aliases, specs] =>
    Ctx.ofSpecs (optEnc name) ((listEnc aliases ",").map decChars) ((listEnc specs ";").map parseSpec)
  | _ => .error (.other "Bad" "ctx")

def showVal : PVal → String
  | .none => "None"
  | .s v => "s" ++ encChars v
  | .i v => s!"i{v}"
  | .b v => if v then "b1" else "b0"
  | .l v => "l[" ++ ",".intercalate (v.map encChars) ++ "]"

def showCtx (c : Ctx) : String :=
  let kv := c.args.map fun a => (encChars (a.spec.attrName.getD (a.spec.names.headD [])), showVal a.value)
  let kv := kv.toArray.qsort (fun a b => a.1 < b.1) |>.toList
  encChars (c.name.getD []) ++ "{" ++ ";".intercalate (kv.map fun (k, v) => k ++ "=" ++ v) ++ "}"

def showResult : Except Err PResult → String
  | .ok r => "OK " ++ " ".intercalate (r.contexts.map showCtx) ++ " U[" ++ ",".intercalate (r.unparsed.map encChars) ++
      "] R[" ++ encChars r.remainder ++ "]"
  | .error (.parse k _) => s!"ERR parse:{k}"
  | .error (.other c _) => s!"ERR other:{c}"
  | .error .fuel => "ERR fuel"

def parseArgvField (s : String) : List Tok :=
  (listEnc s ",").map fun t => decChars (t.drop 1).toString

/-- resolve one textual item against the evolving context (indices are looked up, not trusted) -/
def resolveItem (c : Ctx) (s : String) : Option Item :=
  match s.splitOn ":" with
  | ["S", fl, v] => (assoc? (decChars fl) c.flags).map fun i => .spaced (decChars fl) (decChars v) i
  | ["E", fl, v] => (assoc? (decChars fl) c.flags).map fun i => .eq (decChars fl) (decChars v) i
  | ["G", x, v] =>
    match decChars x, decChars v with
    | [xc], y :: w => (assoc? ['-', xc] c.flags).map fun i => .glued xc y w i
    | _, _ => none
  | ["T", fl] => (assoc? (decChars fl) c.flags).map fun i => .toggle (decChars fl) i
  | ["O", fl] => (assoc? (decChars fl) c.flags).map fun i => .optBare (decChars fl) i
  | ["I", nofl] =>
    (assoc? (decChars nofl) c.inverse).bind fun fl => (assoc? fl c.flags).map fun i => .inverse (decChars nofl) i
  | ["P", v] => c.firstMissing.map fun j => .pos (decChars v) j
  | ["B", cs] =>
    match decChars cs with
    | x :: rest =>
      (assoc? ['-', x] c.flags).bind fun i =>
        let step (acc : Option (Ctx × List (Char × Nat))) (ch : Char) : Option (Ctx × List (Char × Nat)) :=
          acc.bind fun (cc, ps) => (assoc? ['-', ch] cc.flags).map fun k => (cc.updArg k Arg.seen, ps ++ [(ch, k)])
        (rest.foldl step (some (c.updArg i Arg.seen, []))).map fun (_, ps) => .block x i ps
    | [] => none
  | _ => none

def resolveItems : Ctx → List String → Option (List Item)
  | _, [] => some []
  | c, s :: r =>
    match resolveItem c s with
    | none => none
    | some it => (resolveItems (it.apply c) r).map (it :: ·)

def resolveCall (reg : List Ctx) (s : String) : Option Call :=
  match s.splitOn "," with
  | [] => none
  | tn :: items =>
    let t := decChars tn
    match reg.find? (fun c => c.name = some t || c.aliases.contains t) with
    | none => none
    | some c => (resolveItems c items).map fun its => { tname := t, ctx := c, items := its }

def resolveChain (reg : List Ctx) (s : String) : Option (List Call) :=
  if s == "_" then none else (s.splitOn "+").mapM (resolveCall reg)

def allOk {α} : List (Except Err α) → Except Err (List α)
  | [] => .ok []
  | x :: r => match x, allOk r with
    | .ok a, .ok as => .ok (a :: as)
    | .error e, _ => .error e
    | _, .error e => .error e

def parsePyDefault (s : String) : PyDefault :=
  if s == "e" then .empty
  else if s == "n" then .none
  else if s == "b1" then .bool true
  else if s == "b0" then .bool false
  else if s.startsWith "s" then .str (decChars (s.drop 1).toString)
  else if s.startsWith "i" then (match (s.drop 1).toString.toInt? with | some n => .int n | none => .none)
  else .none

def parseParam (s : String) : Param :=
  match s.splitOn ":" with
  | [n, d] => { name := decChars n, default := parsePyDefault d }
  | _ => { name := [], default := .none }

def parseDecl (s : String) : Option TaskDecl :=
  match s.splitOn "~" with
  | [name, params, opt, iter, inc, auto] =>
    some { name := decChars name,
           params := (listEnc params ";").map parseParam,
           opts := { optional := (listEnc opt ",").map decChars, iterable := (listEnc iter ",").map decChars,
                     incrementable := (listEnc inc ",").map decChars, autoShort := auto == "1" } }
  | _ => none

def parseSItem (s : String) : Option SItem :=
  match s.splitOn ":" with
  | ["LS", pn, v] => some (.longSpaced (decChars pn) (decChars v))
  | ["LE", pn, v] => some (.longEq (decChars pn) (decChars v))
  | ["SS", pn, v] => some (.shortSpaced (decChars pn) (decChars v))
  | ["SE", pn, v] => some (.shortEq (decChars pn) (decChars v))
  | ["SG", pn, v] => match decChars v with | y :: w => some (.shortGlued (decChars pn) y w) | [] => none
  | ["FL", pn] => some (.flagLong (decChars pn))
  | ["FS", pn] => some (.flagShort (decChars pn))
  | ["NF", pn] => some (.noFlag (decChars pn))
  | ["B", pns] => match (pns.splitOn ";").map decChars with | q :: r => some (.block q r) | [] => none
  | ["P", pn, v] => some (.pos (decChars pn) (decChars v))
  | ["BL", pn] => some (.bareLong (decChars pn))
  | ["BS", pn] => some (.bareShort (decChars pn))
  | _ => none

def parseSCall (s : String) : Option SCall :=
  match s.splitOn "," with
  | [] => none
  | tn :: items => (items.mapM parseSItem).map fun its => { tname := decChars tn, items := its }

/-- are ALL hypotheses of `parse_spelling_from_signatures` satisfied (decidably) by this case? -/
def sigCovered (ic : Option Ctx) (reg : List Ctx) (toks : List Tok) (sigs schain : String) : Bool :=
  match (listEnc sigs "+").mapM parseDecl, (listEnc schain "+").mapM parseSCall with
  | some decls, some ch =>
    let built := decls.length == reg.length &&
      (decls.zip reg).all fun (d, c) => match d.ctx? with | .ok c' => decide (c' = c) | .error _ => false
    let good := decls.all fun d => d.params.all (fun p => pyIdent p.name && decide (dashedName p.name ≠ [])) && !isFlag d.name
    built && good && sigChainOKb ic decls ch && noSentinelB toks && decide (renderChain decls ch = toks)
  | _, _ => false

def stepCase (ign init ctxs argv chain : String) (sig : Option (String × String)) : String :=
  let icE : Except Err (Option Ctx) := if init == "-" then .ok none else (parseCtx init).map some
  match icE, allOk ((listEnc ctxs "+").map parseCtx) with
  | .ok ic, .ok reg =>
    let toks := parseArgvField argv
    let res := parseArgv ic reg (ign == "1") toks
    let (cov, thm) :=
      match resolveChain reg chain with
      | none => (false, true)
      | some calls =>
        let cov := chainOKb ic reg ic calls && noSentinelB toks && decide (calls.flatMap Call.toks = toks)
        let expect : Except Err PResult :=
          .ok { contexts := ic.toList ++ calls.map Call.result, unparsed := [], remainder := [] }
        (cov, !cov || showResult res == showResult expect)
    let sg := match sig with
      | some (sigs, schain) => if sigs == "_" || schain == "_" then false else sigCovered ic reg toks sigs schain
      | none => false
    -- a case covered by the signature-level theorem must also be accepted by the parser (sanity of the statement)
    let thm := thm && (!sg || (match res with | .ok r => r.unparsed.isEmpty | .error _ => false))
    showResult res ++ " # cov=" ++ (if cov then "1" else "0") ++ " thm=" ++ (if thm then "1" else "0") ++
      " sig=" ++ (if sg then "1" else "0")
  | .error _, _ => "BADSPEC"
  | _, .error _ => "BADSPEC"

def step (line : String) : String :=
  match line.splitOn " " with
  | ["P", ign, init, ctxs, argv, chain] => stepCase ign init ctxs argv chain none
  | ["P", ign, init, ctxs, argv, chain, sigs, schain] => stepCase ign init ctxs argv chain (some (sigs, schain))
  | _ => "bad-op"

def main : IO Unit := mainLoop step
