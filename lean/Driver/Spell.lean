import Invoke.Lemmas.SpellCheck
import Driver.Util
/-! Line-protocol driver for C01 (`drv_spell`).  One case per line, everything textual is encoded as decimal
    character codes separated by '.', so any token/value can be transported:

      P <ign 0|1> <init ctx | -> <ctx+ctx+… | _> <argv: t<enc>,t<enc>… | _> <chain | _>

      ctx   = <name enc | _>~<alias,alias… | _>~<spec;spec… | _>
      spec  = <name,name…>/<str|int|bool|list>/<n | s<enc> | i<int> | b0 | b1 | l>/<pos 0|1>/<opt 0|1>/<inc 0|1>/<attr enc | _>
      chain = call+call+…        call = <tname enc>[,item]*
      item  = S:<flag>:<value> | E:<flag>:<value> | G:<flagchar enc>:<value> | T:<flag> | I:<noflag> |
              B:<chars> | P:<value> | O:<flag>

    Output: `<parse result> # cov=<0|1> thm=<0|1>`; `cov` = the case satisfies the hypotheses of the proved theorem
    (`chainOKb`, no `--` token, argv = rendered chain); `thm` = the theorem's conclusion was observed on this
    case (always 1 when cov=1 — a sanity check of the statement, not a proof step). -/
open Inv Drv

def parseKind : String → Kind | "int" => .int | "bool" => .bool | "list" => .list | _ => .str

def parseDefault (s : String) : PVal :=
  if s == "n" then .none
  else if s == "l" then .l []
  else if s == "b1" then .b true
  else if s == "b0" then .b false
  else if s.startsWith "s" then .s (decChars (s.drop 1).toString)
  else if s.startsWith "i" then (match (s.drop 1).toString.toInt? with | some n => .i n | none => .none)
  else .none

def optEnc (s : String) : Option Tok := if s == "_" then none else some (decChars s)
def listEnc (s : String) (sep : String) : List String := if s == "_" then [] else s.splitOn sep

def parseSpec (s : String) : ArgSpec :=
  match s.splitOn "/" with
  | [names, kind, dflt, pos, opt, inc, attr] =>
    { names := (names.splitOn ",").map decChars, kind := parseKind kind, default := parseDefault dflt,
      positional := pos == "1", optional := opt == "1", incrementable := inc == "1", attrName := optEnc attr }
  | _ => { names := ["BAD".toList] }

def parseCtx (s : String) : Except Err Ctx :=
  match s.splitOn "~" with
  | [name, aliases, specs] =>
    Ctx.ofSpecs (optEnc name) ((listEnc aliases ",").map decChars) ((listEnc specs ";").map parseSpec)
  | _ => .error (.other "Bad" "ctx")

def showVal : PVal → String
  | .none => "None"
  | .s v => "s" ++ encChars v
  | .i v => s!"i{v}"
  | .b v => if v then "b1" else "b0"
  | .l v => "l[" ++ ",".intercalate (v.map encChars) ++ "]"

def showCtx (c : Ctx) : String :=
  let kv := c.args.map fun a => (encChars (a.spec.attrName.getD (a.spec.names.headD [])), showVal a.value)
  let kv := kv.toArray.qsort (fun a b => a.1 < b.1) |>.toList
  encChars (c.name.getD []) ++ "{" ++ ";".intercalate (kv.map fun (k, v) => k ++ "=" ++ v) ++ "}"

def showResult : Except Err PResult → String
  | .ok r => "OK " ++ " ".intercalate (r.contexts.map showCtx) ++ " U[" ++ ",".intercalate (r.unparsed.map encChars) ++
      "] R[" ++ encChars r.remainder ++ "]"
  | .error (.parse k _) => s!"ERR parse:{k}"
  | .error (.other c _) => s!"ERR other:{c}"
  | .error .fuel => "ERR fuel"

def parseArgvField (s : String) : List Tok :=
  (listEnc s ",").map fun t => decChars (t.drop 1).toString

/-- resolve one textual item against the evolving context (indices are looked up, not trusted) -/
def resolveItem (c : Ctx) (s : String) : Option Item :=
  match s.splitOn ":" with
  | ["S", fl, v] => (assoc? (decChars fl) c.flags).map fun i => .spaced (decChars fl) (decChars v) i
  | ["E", fl, v] => (assoc? (decChars fl) c.flags).map fun i => .eq (decChars fl) (decChars v) i
  | ["G", x, v] =>
    match decChars x, decChars v with
    | [xc], y :: w => (assoc? ['-', xc] c.flags).map fun i => .glued xc y w i
    | _, _ => none
  | ["T", fl] => (assoc? (decChars fl) c.flags).map fun i => .toggle (decChars fl) i
  | ["O", fl] => (assoc? (decChars fl) c.flags).map fun i => .optBare (decChars fl) i
  | ["I", nofl] =>
    (assoc? (decChars nofl) c.inverse).bind fun fl => (assoc? fl c.flags).map fun i => .inverse (decChars nofl) i
  | ["P", v] => c.firstMissing.map fun j => .pos (decChars v) j
  | ["B", cs] =>
    match decChars cs with
    | x :: rest =>
      (assoc? ['-', x] c.flags).bind fun i =>
        let step (acc : Option (Ctx × List (Char × Nat))) (ch : Char) : Option (Ctx × List (Char × Nat)) :=
          acc.bind fun (cc, ps) => (assoc? ['-', ch] cc.flags).map fun k => (cc.updArg k Arg.seen, ps ++ [(ch, k)])
        (rest.foldl step (some (c.updArg i Arg.seen, []))).map fun (_, ps) => .block x i ps
    | [] => none
  | _ => none

def resolveItems : Ctx → List String → Option (List Item)
  | _, [] => some []
  | c, s :: r =>
    match resolveItem c s with
    | none => none
    | some it => (resolveItems (it.apply c) r).map (it :: ·)

def resolveCall (reg : List Ctx) (s : String) : Option Call :=
  match s.splitOn "," with
  | [] => none
  | tn :: items =>
    let t := decChars tn
    match reg.find? (fun c => c.name = some t || c.aliases.contains t) with
    | none => none
    | some c => (resolveItems c items).map fun its => { tname := t, ctx := c, items := its }

def resolveChain (reg : List Ctx) (s : String) : Option (List Call) :=
  if s == "_" then none else (s.splitOn "+").mapM (resolveCall reg)

def allOk {α} : List (Except Err α) → Except Err (List α)
  | [] => .ok []
  | x :: r => match x, allOk r with
    | .ok a, .ok as => .ok (a :: as)
    | .error e, _ => .error e
    | _, .error e => .error e

def step (line : String) : String :=
  match line.splitOn " " with
  | ["P", ign, init, ctxs, argv, chain] =>
    let icE : Except Err (Option Ctx) := if init == "-" then .ok none else (parseCtx init).map some
    match icE, allOk ((listEnc ctxs "+").map parseCtx) with
    | .ok ic, .ok reg =>
      let toks := parseArgvField argv
      let res := parseArgv ic reg (ign == "1") toks
      let (cov, thm) :=
        match resolveChain reg chain with
        | none => (false, true)
        | some calls =>
          let cov := chainOKb ic reg ic calls && noSentinelB toks && decide (calls.flatMap Call.toks = toks)
          let expect : Except Err PResult :=
            .ok { contexts := ic.toList ++ calls.map Call.result, unparsed := [], remainder := [] }
          (cov, !cov || showResult res == showResult expect)
      showResult res ++ " # cov=" ++ (if cov then "1" else "0") ++ " thm=" ++ (if thm then "1" else "0")
    | .error _, _ => "BADSPEC"
    | _, .error _ => "BADSPEC"
  | _ => "bad-op"

def main : IO Unit := mainLoop step
