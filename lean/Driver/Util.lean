/-! Line-protocol helpers shared by the drivers (no Mathlib). -/
namespace Drv

/-- decimal char codes separated by '.' ("" = empty) -/
def decChars (s : String) : List Char :=
  if s.isEmpty then [] else (s.splitOn ".").filterMap (fun t => t.toNat?.map Char.ofNat)

def encChars (cs : List Char) : String :=
  ".".intercalate (cs.map (fun c => toString c.toNat))

partial def loop (h : IO.FS.Stream) (out : IO.FS.Stream) (f : String → String) : IO Unit := do
  let line ← h.getLine
  if line.isEmpty then return ()
  let l := if line.endsWith "\n" then (line.dropEnd 1).toString else line
  out.putStrLn (f l)
  loop h out f

def mainLoop (f : String → String) : IO Unit := do
  let i ← IO.getStdin
  let o ← IO.getStdout
  loop i o f
  o.flush

end Drv
