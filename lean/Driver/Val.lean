import Invoke.Model.Levels
import Invoke.Model.Env
import Driver.ValCodec
/-! drv_val: line-protocol driver over `Model/Val.lean` + `Model/Levels.lean` (C03).
    merge <base> <updates>            -> ok <tree> | err:AmbiguousMergeError          (`merge_dicts`)
    view <prefix> <environ> <defaults> <collection> <system> <user> <project> <runtime> <overrides> <modsAtEnvLoad> <modsFinal>
         -> ok <view tree> <env-level tree> tc=<0|1> | err:<ExceptionClass>
       (the env level is computed by `loadEnv` from the merged view at the time `load_shell_env` ran)
    suffix <s1,s2,…>                  -> the suffix read when exactly these candidate files exist | none -/
open Inv Drv Drv.VC

def levelsOf (d c s u p r o m : KVs) : Levels := fun l => match l with
  | .defaults => d | .collection => c | .system => s | .user => u | .project => p
  | .env => [] | .runtime => r | .overrides => o | .modifications => m

def fsOf (present : List String) (s : String) : Option KVs := if present.contains s then some [] else none

def step (line : String) : String :=
  match line.splitOn " " with
  | ["merge", a, b] =>
    match decTree a, decTree b with
    | some x, some y => match mergeKVs x y with
      | .ok m => "ok " ++ encTree m
      | .error e => "err:" ++ errName e
    | _, _ => "bad-tree"
  | ["view", pre, env, d, c, s, u, p, r, o, m1, m2] =>
    match decTree d, decTree c, decTree s, decTree u, decTree p, decTree r, decTree o, decTree m1, decTree m2 with
    | some d, some c, some s, some u, some p, some r, some o, some m1, some m2 =>
      let L := levelsOf d c s u p r o m1
      match viewE L with
      | .error e => "err:" ++ errName e
      | .ok v => match loadEnv (decStr pre) (decEnviron env) v with
        | .error e => "err:" ++ errName e
        | .ok ev =>
          let L' := (L.set .env ev).set .modifications m2
          match viewE L' with
          | .error e => "err:" ++ errName e
          | .ok v' => "ok " ++ encTree v' ++ " " ++ encTree ev ++ " tc=" ++ (if typeConsistentB L' then "1" else "0")
    | _, _, _, _, _, _, _, _, _ => "bad-tree"
  | ["suffix", present] =>
    match chosenFile (fsOf (if present == "-" then [] else present.splitOn ",")) with
    | some (s, _) => s
    | none => "none"
  | "hist" :: toks => histStep toks
  | _ => "bad-op"

def main : IO Unit := mainLoop step
