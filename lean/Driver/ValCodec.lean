import Invoke.Model.Levels
import Driver.Util
/-! Token codec for nested settings shared by `drv_val` and `drv_env`.

    A tree is a ','-separated token stream in preorder: `D<n>` (dict with n entries, each `K<chars>` + value),
    leaves `N` | `T` | `F` | `I<int>` | `S<chars>` | `L<n>` followed by n `E<chars>` | `O<tag>`;
    `<chars>` = decimal character codes joined by '.'.  Output is the same format with keys sorted. -/
namespace Drv.VC
open Inv Drv

def rest1 (s : String) : String := (s.drop 1).toString

def decInt (s : String) : Int :=
  if s.startsWith "-" then - (Int.ofNat ((rest1 s).toNat?.getD 0)) else Int.ofNat (s.toNat?.getD 0)

partial def takeElems : Nat → List String → List (List Char) → Option (List (List Char) × List String)
  | 0, ts, acc => some (acc.reverse, ts)
  | n + 1, t :: ts, acc => if t.startsWith "E" then takeElems n ts (decChars (rest1 t) :: acc) else none
  | _, [], _ => none

mutual
partial def parseVal : List String → Option (Val × List String)
  | [] => none
  | t :: ts =>
    if t == "N" then some (.leaf .none, ts)
    else if t == "T" then some (.leaf (.b true), ts)
    else if t == "F" then some (.leaf (.b false), ts)
    else if t.startsWith "I" then some (.leaf (.i (decInt (rest1 t))), ts)
    else if t.startsWith "S" then some (.leaf (.s (decChars (rest1 t))), ts)
    else if t.startsWith "O" then some (.leaf (.obj ((rest1 t).toNat?.getD 0)), ts)
    else if t.startsWith "L" then
      match takeElems ((rest1 t).toNat?.getD 0) ts [] with
      | some (xs, ts') => some (.leaf (.l xs), ts')
      | none => none
    else if t.startsWith "D" then
      match parseEntries ((rest1 t).toNat?.getD 0) ts [] with
      | some (kvs, ts') => some (.dict kvs, ts')
      | none => none
    else none
partial def parseEntries : Nat → List String → KVs → Option (KVs × List String)
  | 0, ts, acc => some (acc.reverse, ts)
  | _ + 1, [], _ => none
  | n + 1, t :: ts, acc =>
    if t.startsWith "K" then
      match parseVal ts with
      | some (v, ts') => parseEntries n ts' ((decChars (rest1 t), v) :: acc)
      | none => none
    else none
end

/-- a whole tree argument (must be a dict) -/
def decTree (s : String) : Option KVs :=
  match parseVal (s.splitOn ",") with
  | some (.dict kvs, []) => some kvs
  | _ => none

def decLeaf (s : String) : Option Leaf :=
  match parseVal (s.splitOn ",") with
  | some (.leaf l, []) => some l
  | _ => none

def keyLt (a b : List Char) : Bool := (a.map Char.toNat) < (b.map Char.toNat)

def insertSorted (e : Key × Val) : KVs → KVs
  | [] => [e]
  | x :: r => if keyLt e.1 x.1 then e :: x :: r else x :: insertSorted e r

def sortKVs (m : KVs) : KVs := m.foldl (fun acc e => insertSorted e acc) []

def encLeaf : Leaf → List String
  | .none => ["N"]
  | .b true => ["T"]
  | .b false => ["F"]
  | .i n => ["I" ++ toString n]
  | .s cs => ["S" ++ encChars cs]
  | .l xs => ("L" ++ toString xs.length) :: xs.map (fun x => "E" ++ encChars x)
  | .obj t => ["O" ++ toString t]

mutual
partial def encVal : Val → List String
  | .leaf l => encLeaf l
  | .dict kvs => ("D" ++ toString kvs.length) :: encEntries (sortKVs kvs)
partial def encEntries : KVs → List String
  | [] => []
  | (k, v) :: r => ("K" ++ encChars k) :: (encVal v ++ encEntries r)
end

def encTree (m : KVs) : String := ",".intercalate (encVal (.dict m))

def errName : CErr → String
  | .key _ => "KeyError" | .typ _ => "TypeError" | .value _ => "ValueError" | .attr _ => "AttributeError"
  | .ambiguousMerge => "AmbiguousMergeError" | .ambiguousEnv => "AmbiguousEnvVar" | .uncastable => "UncastableEnvVar"

/-- `name:value;name:value` (chars encoded), `-` = empty environment -/
def decEnviron (s : String) : List (List Char × List Char) :=
  if s == "-" then [] else
  (s.splitOn ";").filterMap (fun e => match e.splitOn ":" with
    | [n, v] => some (decChars n, decChars v)
    | _ => none)

/-- `-` = empty string -/
def decStr (s : String) : List Char := if s == "-" then [] else decChars s

/-! ### histories on ONE configuration object (`hist <prefix> <op> <op> …`)

    ops: `<l>=<tree>` replaces the content of level l (d c s u p r o m = defaults collection system user project
    runtime overrides modifications); `<l>u=<tree>` replaces it with merge=False (cache untouched), `g` is `merge()`;
    `<l>=-` unloads it without re-merging (`set_*(None)` + `load_*()`);
    `e=<environ>` is `load_shell_env()` under that environment (prints the view
    after it, or `err:<Class>` and stops); `v` prints the current view.  Printed items are joined by '|'. -/

def levelOfCode (c : String) : Option Level :=
  if c == "d" then some .defaults else if c == "c" then some .collection else if c == "s" then some .system
  else if c == "u" then some .user else if c == "p" then some .project else if c == "r" then some .runtime
  else if c == "o" then some .overrides else if c == "m" then some .modifications else none

def histRun (pre : List Char) : List String → LoadSt → List String → List String
  | [], _, acc => acc.reverse
  | op :: rest, st, acc =>
    if op == "v" then histRun pre rest st (("ok " ++ encTree st.cache) :: acc)
    else if op == "g" then histRun pre rest st.remerge acc
    else match op.splitOn "=" with
      | [code, arg] =>
        if code == "e" then
          match st.loadShellEnv pre (decEnviron arg) with
          | .error e => (("err:" ++ errName e) :: acc).reverse
          | .ok st' => histRun pre rest st' (("ok " ++ encTree st'.cache) :: acc)
        else if code.length == 2 && code.endsWith "u" then
          match levelOfCode (code.dropEnd 1).toString, (if arg == "-" then some [] else decTree arg) with
          | some l, some t => histRun pre rest (st.loadUnmerged l t) acc
          | _, _ => ("bad-op" :: acc).reverse
        else if arg == "-" then
          match levelOfCode code with
          | some l => histRun pre rest (st.unload l) acc
          | none => ("bad-op" :: acc).reverse
        else match levelOfCode code, decTree arg with
          | some l, some t => histRun pre rest (st.load l t) acc
          | _, _ => ("bad-op" :: acc).reverse
      | _ => ("bad-op" :: acc).reverse

def histStep (toks : List String) : String :=
  match toks with
  | pre :: ops => "|".intercalate (histRun (decStr pre) ops LoadSt.init [])
  | [] => "bad-op"

end Drv.VC
