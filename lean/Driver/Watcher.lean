import Invoke.Model.Watcher
import Driver.Util
open Inv Drv

def decCls (s : String) : Cls :=
  if s == "A" then .any
  else if s.startsWith "L" then .lit ((decChars (s.drop 1).toString).headD 'x')
  else .oneOf (decChars (s.drop 1).toString)

def decPat (s : String) : Pat := (s.splitOn ",").map decCls
def decChunks (s : String) : List (List Char) := (s.splitOn "|").map decChars

def step (line : String) : String :=
  match line.splitOn " " with
  | ["resp", p, cs] =>
    ",".intercalate ((runChunksTrace (submit (decPat p)) 0 [] (decChunks cs)).map toString)
  | ["fail", p, s, cs] =>
    ",".intercalate ((frun (decPat p) (decPat s) {} [] (decChunks cs)).map
      (fun o => match o with | some n => toString n | none => "!"))
  | _ => "bad-op"

def main : IO Unit := mainLoop step
