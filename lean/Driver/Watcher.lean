import Invoke.Model.Watcher
import Driver.Util
open Inv Drv

def decCls (s : String) : Cls :=
  if s == "A" then .any
  else if s.startsWith "L" then .lit ((decChars (s.drop 1).toString).headD 'x')
  else .oneOf (decChars (s.drop 1).toString)

/-- one pattern token: a class, or `class*n` = that class n times (run-length, for long patterns) -/
def decTok (s : String) : List Cls :=
  match s.splitOn "*" with
  | [c, n] => List.replicate (n.toNat?.getD 1) (decCls c)
  | _ => [decCls s]

def decPat (s : String) : Pat := ((s.splitOn ",").map decTok).flatten
def decChunks (s : String) : List (List Char) := (s.splitOn "|").map decChars

def decPats (s : String) : List Pat := if s == "-" then [] else (s.splitOn ";").map decPat
def decKw (s : String) : Option (List Pat) := if s == "~" then none else some (decPats s)

/-- `r:<kw>:<chunks>` = Context.run, `s:<prompt pattern>:<kw>:<chunks>` = Context.sudo;
    kw = `~` (no watchers= kwarg), `-` (empty list) or patterns separated by `;` -/
def decCmd (s : String) : Cmd :=
  match s.splitOn ":" with
  | ["r", kw, cs] => { sudo := none, kw := decKw kw, chunks := decChunks cs }
  | ["s", p, kw, cs] => { sudo := some (decPat p), kw := decKw kw, chunks := decChunks cs }
  | _ => { sudo := none, chunks := [] }

def step (line : String) : String :=
  match line.splitOn " " with
  | ["resp", p, cs] =>
    ",".intercalate ((runChunksTrace (submit (decPat p)) 0 [] (decChunks cs)).map toString)
  | ["fail", p, s, cs] =>
    ",".intercalate ((frun (decPat p) (decPat s) {} [] (decChunks cs)).map
      (fun o => match o with | some n => toString n | none => "!"))
  | "hist" :: conf :: cmds =>
    "/".intercalate ((history (decPats conf) (cmds.map decCmd)).map
      (fun r => ",".intercalate (r.map toString)))
  | _ => "bad-op"

def main : IO Unit := mainLoop step
