-- Root of the `Invoke` library: models, lemmas, property theorems.
import Invoke.Props.C12
