-- Root of the `Invoke` library (written by tools/mkmanifest.py): every property file.
import Invoke.Props.C12
