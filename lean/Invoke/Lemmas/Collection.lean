import Invoke.Model.Collection
import Invoke.Lemmas.Val
/-! Lemmas about namespace trees (`Model/Collection.lean`) for C10 and C17: an induction principle for
    the nested inductive `Coll`, unfolding equations of the mutually recursive model functions in terms
    of `assoc` / `flatMap`, `transform` is last-wins (`transform_comp`), lookup along a chain of
    collections (`twc_chain`), the fold of `merge_dicts` along a path (`mergeAlong*`), replacing
    sub-trees off the lookup path (`graft_off_path`), and the agreement of `task_names` with lookup
    (`entry_names_agree`, `accepted_resolves`, `resolves_accepted`).  Core Lean only.
    The small specification vocabulary used by the property statements (`IsChain`, `Holds`,
    `mergeAlong`, `leafAlong`, `graft`, `visits`, `resolves`, `canonical`, …) is defined here too. -/
namespace Inv
namespace Coll

/-- induction over namespace trees: a property holds for a collection if it holds for all its
    sub-collections -/
theorem ind {P : Coll → Prop}
    (h : ∀ nm ad ts als cs d cfg, (∀ k c, (k, c) ∈ cs → P c) → P (.mk nm ad ts als cs d cfg)) :
    ∀ c, P c := by
  intro c
  refine Coll.rec (motive_1 := P) (motive_2 := fun l => ∀ k c, (k, c) ∈ l → P c)
    (motive_3 := fun p => P p.2) ?_ ?_ ?_ ?_ c
  · intro nm ad ts als cs d cfg ih; exact h nm ad ts als cs d cfg ih
  · intro k c hm; cases hm
  · intro hd tl ihd itl k c hm
    cases hm with
    | head => exact ihd
    | tail _ hm' => exact itl k c hm'
  · intro k c ih; exact ih

theorem assoc_mem {β : Type} {k : CName} {l : List (CName × β)} {v : β} (h : assoc k l = some v) : (k, v) ∈ l := by
  induction l with
  | nil => simp [assoc] at h
  | cons hd tl ih =>
    obtain ⟨k', v'⟩ := hd
    by_cases hk : k = k'
    · subst hk; simp [assoc] at h; subst h; exact List.mem_cons_self
    · simp [assoc, hk] at h; exact List.mem_cons_of_mem _ (ih h)

theorem twcKids_eq (cs : List (CName × Coll)) (x : CName) (rest : List CName) :
    twcKids cs x rest = match assoc x cs with | some sub => sub.twc rest | none => .error .key := by
  induction cs with
  | nil => simp [twcKids, assoc]
  | cons hd tl ih =>
    obtain ⟨k, c⟩ := hd
    by_cases hk : x = k
    · subst hk; simp [twcKids, assoc]
    · simp [twcKids, assoc, hk, ih]

theorem dtnKids_eq (cs : List (CName × Coll)) (d : CName) :
    dtnKids cs d = (assoc d cs).map defaultTaskName := by
  induction cs with
  | nil => simp [dtnKids, assoc]
  | cons hd tl ih =>
    obtain ⟨k, c⟩ := hd
    by_cases hk : d = k
    · subst hk; simp [dtnKids, assoc]
    · simp [dtnKids, assoc, hk, ih]

def kidEntries (ad : Bool) (kc : CName × Coll) : List Entry :=
  (taskNames kc.2).map (prefixEntry ad kc.1 kc.2.default (defaultTaskName kc.2))

theorem taskNamesKids_eq (ad : Bool) (cs : List (CName × Coll)) :
    taskNamesKids ad cs = cs.flatMap (kidEntries ad) := by
  induction cs with
  | nil => simp [taskNamesKids]
  | cons hd tl ih => obtain ⟨k, c⟩ := hd; simp [taskNamesKids, kidEntries, ih]

theorem taskNames_mk (nm ad ts als cs d cfg) :
    taskNames (.mk nm ad ts als cs d cfg) = ts.map (ownEntry als) ++ cs.flatMap (kidEntries ad) := by
  simp [taskNames, taskNamesKids_eq]

theorem xfAux_cons2 (fr to : Char) (b : Bool) (c n : Char) (rest : List Char) :
    xfAux fr to b (c :: n :: rest) = xfChar fr to b c n :: xfAux fr to (c = '.') (n :: rest) := by
  rw [xfAux]

theorem xfChar_dot (fr to : Char) (hf : fr ≠ '.') (ht : to ≠ '.') (b : Bool) (c n : Char) :
    xfChar fr to b c n = '.' ↔ c = '.' := by
  unfold xfChar
  by_cases hc : (!b && decide (c = fr) && decide (n ≠ '.')) = true
  · rw [if_pos hc]
    have hn : c = fr := by
      simp only [Bool.and_eq_true, decide_eq_true_eq] at hc; exact hc.1.2
    constructor
    · intro h; exact absurd h ht
    · intro h; rw [hn] at h; exact absurd h hf
  · rw [if_neg hc]

/-- the head of the output is a dot iff the head of the input is -/
theorem xfAux_head (fr to : Char) (hf : fr ≠ '.') (ht : to ≠ '.') (b : Bool) (n : Char) (rest : List Char) :
    ∃ n1 rest1, xfAux fr to b (n :: rest) = n1 :: rest1 ∧ (n1 = '.' ↔ n = '.') := by
  cases rest with
  | nil => exact ⟨n, [], by simp [xfAux], Iff.rfl⟩
  | cons m r => exact ⟨_, _, xfAux_cons2 fr to b n m r, xfChar_dot fr to hf ht b n m⟩

theorem xfChar_comp (f1 t1 f2 t2 : Char)
    (hrel : (f2 = f1 ∧ t2 = t1) ∨ (f2 = t1 ∧ t2 = f1)) (b : Bool) (c n n1 : Char) (hdot : n1 = '.' ↔ n = '.') :
    xfChar f2 t2 b (xfChar f1 t1 b c n) n1 = xfChar f2 t2 b c n := by
  unfold xfChar
  cases b with
  | true => simp
  | false =>
    by_cases hnd : n = '.'
    · have : n1 = '.' := hdot.mpr hnd
      simp [hnd, this]
    · have : n1 ≠ '.' := fun e => hnd (hdot.mp e)
      simp only [Bool.not_false, Bool.true_and, ne_eq, hnd, this, not_false_eq_true, decide_true, Bool.and_true,
        decide_eq_true_eq]
      rcases hrel with ⟨h1, h2⟩ | ⟨h1, h2⟩
      · rw [h1, h2]
        by_cases hc : c = f1
        · simp [hc]
        · simp [hc]
      · rw [h1, h2]
        by_cases hc : c = f1
        · simp [hc]
        · simp only [hc, if_false]

/-- the second pass wins: normalising an already normalised name (with either setting) gives the
    same as normalising the original -/
theorem xfAux_comp (f1 t1 f2 t2 : Char) (hf1 : f1 ≠ '.') (ht1 : t1 ≠ '.')
    (hrel : (f2 = f1 ∧ t2 = t1) ∨ (f2 = t1 ∧ t2 = f1)) (l : List Char) :
    ∀ b, xfAux f2 t2 b (xfAux f1 t1 b l) = xfAux f2 t2 b l := by
  induction l with
  | nil => intro b; simp [xfAux]
  | cons c tl ih =>
    intro b
    cases tl with
    | nil => simp [xfAux]
    | cons n rest =>
      rw [xfAux_cons2 f1 t1 b c n rest]
      obtain ⟨n1, rest1, htail, hdot⟩ := xfAux_head f1 t1 hf1 ht1 (c = '.') n rest
      have ih' := ih (decide (c = '.'))
      rw [htail] at ih' ⊢
      rw [xfAux_cons2 f2 t2 b _ n1 rest1, xfAux_cons2 f2 t2 b c n rest]
      have hc1dot : decide (xfChar f1 t1 b c n = '.') = decide (c = '.') := by
        have := xfChar_dot f1 t1 hf1 ht1 b c n
        by_cases h : c = '.'
        · have h' := this.mpr h
          rw [decide_eq_true h', decide_eq_true h]
        · have h' : xfChar f1 t1 b c n ≠ '.' := fun e => h (this.mp e)
          rw [decide_eq_false h', decide_eq_false h]
      rw [hc1dot, ih', xfChar_comp f1 t1 f2 t2 hrel b c n n1 hdot]

theorem transform_comp (a b : Bool) (x : CName) : transform a (transform b x) = transform a x := by
  cases a <;> cases b <;> simp only [transform, if_true, if_false, Bool.false_eq_true] <;>
    apply xfAux_comp <;> decide

theorem transform_idem (a : Bool) (x : CName) : transform a (transform a x) = transform a x :=
  transform_comp a a x

/-! ### association lists -/

theorem assoc_none_iff {β : Type} (k : CName) (l : List (CName × β)) : assoc k l = none ↔ k ∉ l.map (·.1) := by
  induction l with
  | nil => simp [assoc]
  | cons hd tl ih =>
    obtain ⟨k', v'⟩ := hd
    by_cases hk : k = k'
    · subst hk; simp [assoc]
    · simp [assoc, hk, ih]

theorem hasKey_iff {β : Type} (k : CName) (l : List (CName × β)) : hasKey k l = true ↔ k ∈ l.map (·.1) := by
  unfold hasKey
  cases h : assoc k l with
  | none => simp [(assoc_none_iff k l).mp h]
  | some v =>
    simp only [Option.isSome_some, true_iff]
    exact List.mem_map.mpr ⟨(k, v), assoc_mem h, rfl⟩

theorem assoc_of_mem_nodup {β : Type} {k : CName} {v : β} {l : List (CName × β)}
    (hnd : (l.map (·.1)).Nodup) (hm : (k, v) ∈ l) : assoc k l = some v := by
  induction l with
  | nil => cases hm
  | cons hd tl ih =>
    obtain ⟨k', v'⟩ := hd
    simp only [List.map_cons, List.nodup_cons] at hnd
    rcases List.mem_cons.mp hm with h | h
    · cases h; simp [assoc]
    · have hne : k ≠ k' := by
        intro e; subst e
        exact hnd.1 (List.mem_map.mpr ⟨(k, v), h, rfl⟩)
      simp only [assoc, hne, if_false]
      exact ih hnd.2 h

/-! ### transform: length, emptiness -/

theorem xfAux_length (fr to : Char) (l : List Char) : ∀ b, (xfAux fr to b l).length = l.length := by
  induction l with
  | nil => intro b; simp [xfAux]
  | cons c tl ih =>
    intro b
    cases tl with
    | nil => simp [xfAux]
    | cons n rest => rw [xfAux_cons2]; simp [ih]

theorem transform_length (a : Bool) (x : CName) : (transform a x).length = x.length := by
  unfold transform; split <;> exact xfAux_length _ _ _ _

theorem transform_eq_nil (a : Bool) (x : CName) : transform a x = [] ↔ x = [] := by
  rw [← List.length_eq_zero_iff, transform_length, List.length_eq_zero_iff]

theorem isEmptyName_map (a : Bool) (p : List CName) : isEmptyName (p.map (transform a)) = isEmptyName p := by
  unfold isEmptyName
  cases p with
  | nil => simp
  | cons x r =>
    cases r with
    | nil =>
      by_cases hx : x = []
      · subst hx; simp [transform, xfAux]
      · have : transform a x ≠ [] := fun e => hx ((transform_eq_nil a x).mp e)
        simp [hx, this]
    | cons y r' => simp

theorem map_transform_comp (a b : Bool) (p : List CName) :
    (p.map (transform b)).map (transform a) = p.map (transform a) := by
  rw [List.map_map]; congr 1; funext x; exact transform_comp a b x

/-- `IsChain c [c₁,…,cₙ]`: c₁ is a sub-collection of c, c₂ of c₁, … -/
inductive IsChain : Coll → List Coll → Prop
  | nil (c : Coll) : IsChain c []
  | cons {c : Coll} {k : CName} {c' : Coll} {rest : List Coll} :
      assoc k c.colls = some c' → IsChain c' rest → IsChain c (c' :: rest)

/-- the last collection of a chain starting at `c` (the holder of the task) -/
def lastOf : Coll → List Coll → Coll
  | c, [] => c
  | _, x :: r => lastOf x r

/-- the task `t` is bound (under some name or alias) in collection `h` -/
def Holds (h : Coll) (t : Nat) : Prop := ∃ k, lexGet (h.aliases.length + 1) h.tasks h.aliases k = some t

/-- fold of `merge_dicts` over the configurations along a path, root first: the innermost
    configuration is the base and each outer collection is merged over it, the root last -/
def mergeAlong : List KVs → Except LErr KVs
  | [] => .ok []
  | [x] => .ok x
  | outer :: y :: rest =>
    match mergeAlong (y :: rest) with
    | .error e => .error e
    | .ok inner =>
      match mergeKVs inner outer with
      | .ok m => .ok m
      | .error _ => .error .ambiguous

theorem mergeOuter_ok {ours : KVs} {r : Except LErr (Nat × KVs)} {t : Nat} {cfg : KVs}
    (h : mergeOuter ours r = .ok (t, cfg)) : ∃ inner, r = .ok (t, inner) ∧ mergeKVs inner ours = .ok cfg := by
  cases r with
  | error e => simp [mergeOuter] at h
  | ok v =>
    obtain ⟨t', inner⟩ := v
    simp only [mergeOuter] at h
    cases hm : mergeKVs inner ours with
    | error e => simp [hm] at h
    | ok m =>
      simp [hm] at h
      obtain ⟨h1, h2⟩ := h
      subst h1; subst h2
      exact ⟨inner, rfl, hm⟩

theorem twc_mk (nm ad ts als cs dflt cfg) (path : List CName) :
    twc (.mk nm ad ts als cs dflt cfg) path =
      match stepName dflt path with
      | .error e => .error e
      | .ok p =>
        match p.map (transform ad) with
        | [] => .error .key
        | [x] =>
          if hasKey x cs then mergeOuter cfg (twcKids cs x [[]])
          else lexResult cfg (lexGet (als.length + 1) ts als x)
        | x :: rest => mergeOuter cfg (twcKids cs x rest) := by
  rw [twc]; rfl

theorem isChain_step {nm ad ts als cs dflt cfg} {x : CName} {sub : Coll} {chain : List Coll}
    (ha : assoc x cs = some sub) (hc : IsChain sub chain) :
    IsChain (.mk nm ad ts als cs dflt cfg) (sub :: chain) :=
  IsChain.cons (k := x) (by simpa [colls] using ha) hc

theorem twc_chain (c : Coll) : ∀ (p : List CName) (t : Nat) (cfg : KVs), c.twc p = .ok (t, cfg) →
    ∃ chain, IsChain c chain ∧ Holds (lastOf c chain) t ∧
      mergeAlong (c.cfg :: chain.map Coll.cfg) = .ok cfg := by
  induction c using ind with
  | h nm ad ts als cs dflt cfg0 ih =>
    intro p t cfg h
    rw [twc_mk] at h
    -- the recursive step, shared by the dotted and the collection-name branch
    have step : ∀ (x : CName) (rest : List CName), mergeOuter cfg0 (twcKids cs x rest) = .ok (t, cfg) →
        ∃ chain, IsChain (.mk nm ad ts als cs dflt cfg0) chain ∧
          Holds (lastOf (.mk nm ad ts als cs dflt cfg0) chain) t ∧
          mergeAlong (cfg0 :: chain.map Coll.cfg) = .ok cfg := by
      intro x rest hm
      obtain ⟨inner, hk, hmerge⟩ := mergeOuter_ok hm
      rw [twcKids_eq] at hk
      cases ha : assoc x cs with
      | none => simp [ha] at hk
      | some sub =>
        simp only [ha] at hk
        obtain ⟨chain, hch, hh, hma⟩ := ih x sub (assoc_mem ha) rest t inner hk
        refine ⟨sub :: chain, isChain_step ha hch, ?_, ?_⟩
        · simpa [lastOf] using hh
        · simp only [List.map_cons, mergeAlong, hma, hmerge]
    cases hs : stepName dflt p with
    | error e => simp [hs] at h
    | ok p' =>
      simp only [hs] at h
      cases hp : p'.map (transform ad) with
      | nil => simp [hp] at h
      | cons x rest =>
        cases rest with
        | nil =>
          simp only [hp] at h
          by_cases hk : hasKey x cs = true
          · simp only [hk, if_true] at h
            exact step x [[]] h
          · simp only [hk] at h
            cases hl : lexGet (als.length + 1) ts als x with
            | none => simp [hl, lexResult] at h
            | some t' =>
              simp [hl, lexResult] at h
              obtain ⟨h1, h2⟩ := h
              subst h1; subst h2
              exact ⟨[], IsChain.nil _, ⟨x, by simpa [lastOf, aliases, tasks] using hl⟩, by simp [mergeAlong, Coll.cfg]⟩
        | cons y rest' =>
          simp only [hp] at h
          exact step x (y :: rest') h

/-- total version of `mergeAlong` -/
def mergeAlongT : List KVs → KVs
  | [] => []
  | [x] => x
  | outer :: y :: rest => mergeT (mergeAlongT (y :: rest)) outer

/-- the setting at key path `p` as seen from the outside: the outermost collection defining it -/
def leafAlong (p : List Key) : List KVs → Option Leaf
  | [] => none
  | outer :: rest => match getLeaf p outer with | some x => some x | none => leafAlong p rest

theorem wf_mergeAlongT (l : List KVs) (hw : ∀ x ∈ l, WF x) : WF (mergeAlongT l) := by
  induction l with
  | nil => exact wf_nil
  | cons o rest ih =>
    cases rest with
    | nil => exact hw o (by simp)
    | cons y r =>
      simp only [mergeAlongT]
      exact wf_mergeT (ih (fun x hx => hw x (List.mem_cons_of_mem _ hx))) (hw o (by simp))

theorem compat_mergeAlongT (l : List KVs) (c : KVs) (hw : ∀ x ∈ l, WF x) (hc : ∀ x ∈ l, Compat x c) :
    Compat (mergeAlongT l) c := by
  induction l with
  | nil => exact compat_nil c
  | cons o rest ih =>
    cases rest with
    | nil => exact hc o (by simp)
    | cons y r =>
      simp only [mergeAlongT]
      exact compat_mergeT_left (hw o (by simp)) (hc o (by simp))
        (ih (fun x hx => hw x (List.mem_cons_of_mem _ hx)) (fun x hx => hc x (List.mem_cons_of_mem _ hx)))

/-- under type consistency along the path the raising fold never raises and equals the total fold -/
theorem mergeAlong_eq_T (l : List KVs) (hw : ∀ x ∈ l, WF x) (hc : l.Pairwise Compat) :
    mergeAlong l = .ok (mergeAlongT l) := by
  induction l with
  | nil => rfl
  | cons o rest ih =>
    cases rest with
    | nil => rfl
    | cons y r =>
      have hpw := List.pairwise_cons.mp hc
      have hrest := ih (fun x hx => hw x (List.mem_cons_of_mem _ hx)) hpw.2
      simp only [mergeAlong, hrest, mergeAlongT]
      have hcomp : Compat (mergeAlongT (y :: r)) o :=
        compat_mergeAlongT (y :: r) o (fun x hx => hw x (List.mem_cons_of_mem _ hx))
          (fun x hx => (hpw.1 x hx).symm)
      rw [mergeKVs_eq_mergeT (hw o (by simp)) hcomp]

/-- at every key path the outermost collection on the path that defines the setting wins; where no
    outer collection defines it the inner value shows through -/
theorem getLeaf_mergeAlongT (p : List Key) (l : List KVs) (hw : ∀ x ∈ l, WF x) (hc : l.Pairwise Compat) :
    getLeaf p (mergeAlongT l) = leafAlong p l := by
  induction l with
  | nil => simp [mergeAlongT, leafAlong]
  | cons o rest ih =>
    cases rest with
    | nil => simp only [mergeAlongT, leafAlong]; cases getLeaf p o <;> simp
    | cons y r =>
      have hpw := List.pairwise_cons.mp hc
      have hcomp : Compat (mergeAlongT (y :: r)) o :=
        compat_mergeAlongT (y :: r) o (fun x hx => hw x (List.mem_cons_of_mem _ hx))
          (fun x hx => (hpw.1 x hx).symm)
      have hrest := ih (fun x hx => hw x (List.mem_cons_of_mem _ hx)) hpw.2
      simp only [mergeAlongT]
      rw [getLeaf_mergeT p _ o (hw o (by simp)) hcomp, hrest]
      rfl

/-! ### lookup is insensitive to a previous normalisation of the name -/

theorem stepName_map (a : Bool) (dflt : Option CName) (p : List CName) :
    stepName dflt (p.map (transform a)) =
      if isEmptyName p then stepName dflt p else .ok (p.map (transform a)) := by
  unfold stepName
  rw [isEmptyName_map]
  by_cases h : isEmptyName p = true
  · simp [h]
  · simp [h]

/-- an outer collection has already normalised the name with ITS setting: no difference -/
theorem twc_transform_invariant (c : Coll) (b : Bool) (p : List CName) :
    c.twc (p.map (transform b)) = c.twc p := by
  cases c with
  | mk nm ad ts als cs dflt cfg =>
    rw [twc_mk, twc_mk, stepName_map]
    by_cases h : isEmptyName p = true
    · simp [h]
    · have hs : stepName dflt p = .ok p := by simp [stepName, h]
      simp only [h, hs, Bool.false_eq_true, if_false, map_transform_comp]

/-! ### sibling sub-trees -/

/-- where a lookup goes first: the sub-collection it descends into and the name it asks there -/
def firstStep (c : Coll) (p : List CName) : Option (CName × List CName) :=
  match stepName c.default p with
  | .error _ => none
  | .ok p' =>
    match p'.map (transform c.autoDash) with
    | [] => none
    | [x] => if hasKey x c.colls then some (x, [[]]) else none
    | x :: rest => some (x, rest)

def replaceKid (k : CName) (new : Coll) : List (CName × Coll) → List (CName × Coll)
  | [] => []
  | (k', c) :: r => if k = k' then (k', new) :: r else (k', c) :: replaceKid k new r

def setKids : Coll → List (CName × Coll) → Coll
  | mk nm ad ts als _ d cfg, cs' => mk nm ad ts als cs' d cfg

/-- replace the sub-tree at address `addr` (a list of binding names) by `new` -/
def graft : List CName → Coll → Coll → Coll
  | [], new, _ => new
  | k :: addr, new, c =>
    match assoc k c.colls with
    | some sub => c.setKids (replaceKid k (graft addr new sub) c.colls)
    | none => c

/-- does the lookup of `p` in `c` pass through the collection at address `addr`? -/
def visits : List CName → Coll → List CName → Bool
  | [], _, _ => true
  | k :: addr, c, p =>
    match firstStep c p with
    | some (x, rest) =>
      x = k && (match assoc k c.colls with | some sub => visits addr sub rest | none => false)
    | none => false

theorem assoc_replaceKid_ne {k x : CName} (new : Coll) (cs : List (CName × Coll)) (h : x ≠ k) :
    assoc x (replaceKid k new cs) = assoc x cs := by
  induction cs with
  | nil => rfl
  | cons hd tl ih =>
    obtain ⟨k', c⟩ := hd
    by_cases hk : k = k'
    · subst hk; simp [replaceKid, assoc, h]
    · by_cases hx : x = k' <;> simp [replaceKid, assoc, hk, hx, ih]

theorem assoc_replaceKid_self {k : CName} (new : Coll) (cs : List (CName × Coll)) {sub : Coll}
    (h : assoc k cs = some sub) : assoc k (replaceKid k new cs) = some new := by
  induction cs with
  | nil => simp [assoc] at h
  | cons hd tl ih =>
    obtain ⟨k', c⟩ := hd
    by_cases hk : k = k'
    · subst hk; simp [replaceKid, assoc]
    · simp only [assoc, hk, if_false] at h
      simp [replaceKid, assoc, hk, ih h]

theorem hasKey_replaceKid (k x : CName) (new : Coll) (cs : List (CName × Coll)) :
    hasKey x (replaceKid k new cs) = hasKey x cs := by
  induction cs with
  | nil => rfl
  | cons hd tl ih =>
    obtain ⟨k', c⟩ := hd
    unfold hasKey at ih ⊢
    by_cases hk : k = k'
    · subst hk; by_cases hx : x = k <;> simp [replaceKid, assoc, hx]
    · by_cases hx : x = k' <;> simp [replaceKid, assoc, hk, hx, ih]

/-- `twc` in terms of `firstStep`: either it descends, or the answer is purely local -/
theorem twc_of_firstStep (nm ad ts als cs dflt cfg) (p : List CName) :
    twc (.mk nm ad ts als cs dflt cfg) p =
      match firstStep (.mk nm ad ts als cs dflt cfg) p with
      | some (x, rest) => mergeOuter cfg (twcKids cs x rest)
      | none =>
        match stepName dflt p with
        | .error e => .error e
        | .ok p' =>
          match p'.map (transform ad) with
          | [x] => lexResult cfg (lexGet (als.length + 1) ts als x)
          | _ => .error .key := by
  rw [twc_mk]
  simp only [firstStep, default, autoDash, colls]
  cases hs : stepName dflt p with
  | error e => rfl
  | ok p' =>
    simp only []
    cases hp : p'.map (transform ad) with
    | nil => rfl
    | cons x rest =>
      cases rest with
      | nil =>
        by_cases hk : hasKey x cs = true
        · simp [hk]
        · simp [hk]
      | cons y r => rfl

theorem firstStep_setKids_replace (nm ad ts als cs dflt cfg) (k : CName) (new : Coll) (p : List CName) :
    firstStep (.mk nm ad ts als (replaceKid k new cs) dflt cfg) p = firstStep (.mk nm ad ts als cs dflt cfg) p := by
  simp only [firstStep, default, autoDash, colls, hasKey_replaceKid]
  rfl

/-- C17 "sibling collections contribute nothing", for every address in the tree: if the lookup of
    `p` does not pass through the collection at `addr`, that whole sub-tree may be replaced by
    anything without changing the task found or its settings -/
theorem graft_off_path (addr : List CName) (new : Coll) :
    ∀ (c : Coll) (p : List CName), visits addr c p = false → (graft addr new c).twc p = c.twc p := by
  induction addr with
  | nil => intro c p h; simp [visits] at h
  | cons k addr ih =>
    intro c p h
    cases c with
    | mk nm ad ts als cs dflt cfg =>
      simp only [graft, colls]
      cases ha : assoc k cs with
      | none => rfl
      | some sub =>
        simp only [setKids]
        rw [twc_of_firstStep, twc_of_firstStep, firstStep_setKids_replace]
        simp only [visits, colls, ha] at h
        cases hf : firstStep (.mk nm ad ts als cs dflt cfg) p with
        | none => rfl
        | some xr =>
          obtain ⟨x, rest⟩ := xr
          simp only [hf] at h
          simp only []
          rw [twcKids_eq, twcKids_eq]
          by_cases hx : x = k
          · subst hx
            simp only [decide_true, Bool.true_and] at h
            rw [assoc_replaceKid_self _ _ ha, ha]
            simp only []
            rw [ih sub rest h]
          · rw [assoc_replaceKid_ne _ _ hx]

/-! ### well-formedness, unpacked -/

structure LocalWF (ad : Bool) (ts : List (CName × Nat)) (als : List (CName × CName))
    (cs : List (CName × Coll)) (dflt : Option CName) : Prop where
  nodup : (localNames ts als cs).Nodup
  good : ∀ k ∈ localNames ts als cs, goodName ad k = true
  tgt : ∀ a ∈ als, hasKey a.2 ts = true
  dflt : defaultOk ts cs dflt = true

theorem localWF_iff (ad ts als cs dflt) : localWF ad ts als cs dflt = true ↔ LocalWF ad ts als cs dflt := by
  unfold localWF
  simp only [Bool.and_eq_true, decide_eq_true_eq, List.all_eq_true]
  constructor
  · rintro ⟨⟨⟨h1, h2⟩, h3⟩, h4⟩
    exact ⟨h1, h2, fun a ha => by simpa [aliasTargetOk] using h3 a ha, h4⟩
  · rintro ⟨h1, h2, h3, h4⟩
    exact ⟨⟨⟨h1, h2⟩, fun a ha => by simpa [aliasTargetOk] using h3 a ha⟩, h4⟩

theorem wfKids_iff (cs : List (CName × Coll)) : wfKids cs = true ↔ ∀ k c, (k, c) ∈ cs → wf c = true := by
  induction cs with
  | nil => simp [wfKids]
  | cons hd tl ih =>
    obtain ⟨k, c⟩ := hd
    simp only [wfKids, Bool.and_eq_true, ih, List.mem_cons, Prod.mk.injEq]
    constructor
    · rintro ⟨h1, h2⟩ k' c' (⟨_, rfl⟩ | h)
      · exact h1
      · exact h2 k' c' h
    · intro h
      exact ⟨h k c (Or.inl ⟨rfl, rfl⟩), fun k' c' hm => h k' c' (Or.inr hm)⟩

theorem wf_mk (nm ad ts als cs dflt cfg) :
    wf (.mk nm ad ts als cs dflt cfg) = true ↔
      LocalWF ad ts als cs dflt ∧ ∀ k c, (k, c) ∈ cs → wf c = true := by
  rw [wf]; simp only [Bool.and_eq_true, localWF_iff, wfKids_iff]

theorem goodName_iff (ad : Bool) (k : CName) :
    goodName ad k = true ↔ k ≠ [] ∧ noDot k = true ∧ transform ad k = k := by
  unfold goodName; simp [and_assoc]

namespace LocalWF
variable {ad : Bool} {ts : List (CName × Nat)} {als : List (CName × CName)} {cs : List (CName × Coll)}
  {dflt : Option CName}

theorem taskKey_good (h : LocalWF ad ts als cs dflt) {n : CName} (hn : n ∈ ts.map (·.1)) : goodName ad n = true :=
  h.good n (by simp only [localNames, List.mem_append]; exact Or.inl (Or.inl hn))
theorem aliasKey_good (h : LocalWF ad ts als cs dflt) {n : CName} (hn : n ∈ als.map (·.1)) : goodName ad n = true :=
  h.good n (by simp only [localNames, List.mem_append]; exact Or.inl (Or.inr hn))
theorem collKey_good (h : LocalWF ad ts als cs dflt) {n : CName} (hn : n ∈ cs.map (·.1)) : goodName ad n = true :=
  h.good n (by simp only [localNames, List.mem_append]; exact Or.inr hn)

theorem parts (h : LocalWF ad ts als cs dflt) :
    (ts.map (·.1)).Nodup ∧ (als.map (·.1)).Nodup ∧ (cs.map (·.1)).Nodup ∧
    (∀ a ∈ ts.map (·.1), ∀ b ∈ als.map (·.1), a ≠ b) ∧
    (∀ a ∈ ts.map (·.1), ∀ b ∈ cs.map (·.1), a ≠ b) ∧
    (∀ a ∈ als.map (·.1), ∀ b ∈ cs.map (·.1), a ≠ b) := by
  have h0 := h.nodup
  unfold localNames at h0
  rw [List.nodup_append] at h0
  obtain ⟨h12, h3, hd⟩ := h0
  rw [List.nodup_append] at h12
  obtain ⟨h1, h2, hd12⟩ := h12
  refine ⟨h1, h2, h3, hd12, ?_, ?_⟩
  · intro a ha b hb; exact hd a (List.mem_append.mpr (Or.inl ha)) b hb
  · intro a ha b hb; exact hd a (List.mem_append.mpr (Or.inr ha)) b hb

theorem task_not_alias (h : LocalWF ad ts als cs dflt) {n : CName} (hn : n ∈ ts.map (·.1)) : assoc n als = none :=
  (assoc_none_iff n als).mpr (fun hb => h.parts.2.2.2.1 n hn n hb rfl)
theorem task_not_coll (h : LocalWF ad ts als cs dflt) {n : CName} (hn : n ∈ ts.map (·.1)) : hasKey n cs = false := by
  cases hk : hasKey n cs with
  | false => rfl
  | true => exact absurd rfl (h.parts.2.2.2.2.1 n hn n ((hasKey_iff n cs).mp hk))
theorem alias_not_coll (h : LocalWF ad ts als cs dflt) {n : CName} (hn : n ∈ als.map (·.1)) : hasKey n cs = false := by
  cases hk : hasKey n cs with
  | false => rfl
  | true => exact absurd rfl (h.parts.2.2.2.2.2 n hn n ((hasKey_iff n cs).mp hk))
end LocalWF

/-! ### the Lexicon under well-formedness -/

theorem lexGet_noalias (f : Nat) (ts : List (CName × Nat)) (als : List (CName × CName)) (n : CName)
    (h : assoc n als = none) : lexGet (f + 1) ts als n = assoc n ts := by
  simp [lexGet, h]

theorem lexGet_alias (f : Nat) (ts : List (CName × Nat)) (als : List (CName × CName)) (a k : CName)
    (h : assoc a als = some k) : lexGet (f + 1) ts als a = lexGet f ts als k := by
  simp [lexGet, h]

/-- an alias resolves to what its target resolves to -/
theorem lexGet_alias_eq {ad ts als cs dflt} (h : LocalWF ad ts als cs dflt) {a k : CName} (hm : (a, k) ∈ als) :
    lexGet (als.length + 1) ts als a = lexGet (als.length + 1) ts als k := by
  have ha : assoc a als = some k := assoc_of_mem_nodup h.parts.2.1 hm
  have hk : k ∈ ts.map (·.1) := (hasKey_iff k ts).mp (h.tgt (a, k) hm)
  have hna := h.task_not_alias hk
  cases hal : als with
  | nil => rw [hal] at hm; cases hm
  | cons hd tl =>
    rw [← hal]
    have hlen : als.length = tl.length + 1 := by rw [hal]; rfl
    rw [hlen, lexGet_alias _ ts als a k ha, lexGet_noalias _ ts als k hna, lexGet_noalias _ ts als k hna]

/-! ### `twc` by the shape of the name -/

theorem isEmptyName_cons2 (x y : CName) (r : List CName) : isEmptyName (x :: y :: r) = false := by
  simp [isEmptyName]

theorem isEmptyName_single {x : CName} (h : x ≠ []) : isEmptyName [x] = false := by
  simp [isEmptyName, h]

/-- a name with at least two components descends into the sub-collection named by the first -/
theorem twc_cons2 (nm ad ts als cs dflt cfg) (x y : CName) (r : List CName) :
    twc (.mk nm ad ts als cs dflt cfg) (x :: y :: r) =
      mergeOuter cfg (match assoc (transform ad x) cs with
        | some sub => sub.twc (y :: r)
        | none => .error .key) := by
  rw [twc_mk]
  simp only [stepName, isEmptyName_cons2, Bool.false_eq_true, if_false, List.map_cons]
  rw [twcKids_eq]
  cases assoc (transform ad x) cs with
  | none => rfl
  | some sub =>
    simp only []
    rw [← List.map_cons, twc_transform_invariant]

/-- a one-component name: a sub-collection's default, or a task / alias of this collection -/
theorem twc_single (nm ad ts als cs dflt cfg) (x : CName) (hx : x ≠ []) :
    twc (.mk nm ad ts als cs dflt cfg) [x] =
      match assoc (transform ad x) cs with
      | some sub => mergeOuter cfg (sub.twc [[]])
      | none => lexResult cfg (lexGet (als.length + 1) ts als (transform ad x)) := by
  rw [twc_mk]
  simp only [stepName, isEmptyName_single hx, Bool.false_eq_true, if_false, List.map_cons, List.map_nil]
  unfold hasKey
  rw [twcKids_eq]
  cases assoc (transform ad x) cs with
  | none => simp
  | some sub => simp

theorem splitOnDot_noDot (d : CName) (h : noDot d = true) : splitOnDot d = [d] := by
  induction d with
  | nil => rfl
  | cons c r ih =>
    have hc : c ≠ '.' := by
      intro e; subst e; simp [noDot] at h
    have hr : noDot r = true := by
      simp only [noDot, List.contains_cons, Bool.not_eq_true', Bool.or_eq_false_iff] at h ⊢
      exact h.2
    simp [splitOnDot, hc, ih hr]

/-- the empty name stands for the default -/
theorem twc_default (nm ad ts als cs cfg) (d : CName) (hd : d ≠ []) (hnd : noDot d = true)
    (p : List CName) (hp : isEmptyName p = true) :
    twc (.mk nm ad ts als cs (some d) cfg) p = twc (.mk nm ad ts als cs (some d) cfg) [d] := by
  rw [twc_mk, twc_mk]
  simp only [stepName, hp, if_true, hd, if_false, splitOnDot_noDot d hnd, isEmptyName_single hd,
    Bool.false_eq_true]

theorem twc_nodefault (nm ad ts als cs cfg) (p : List CName) (hp : isEmptyName p = true) :
    twc (.mk nm ad ts als cs none cfg) p = .error .value := by
  rw [twc_mk]; simp [stepName, hp]

/-! ### `_default_task_name` -/

theorem defaultTaskName_mk (nm ad ts als cs dflt cfg) :
    defaultTaskName (.mk nm ad ts als cs dflt cfg) =
      match dflt with
      | none => none
      | some d =>
        if d = [] then none
        else match assoc d cs with
          | some sub => (defaultTaskName sub).map (fun i => transform ad d :: i.map (transform ad))
          | none => some [d] := by
  conv => lhs; unfold defaultTaskName
  cases dflt with
  | none => rfl
  | some d =>
    simp only []
    by_cases hd : d = []
    · simp [hd]
    · simp only [hd, if_false, dtnKids_eq]
      cases assoc d cs with
      | none => rfl
      | some sub => cases defaultTaskName sub <;> rfl

theorem defaultTaskName_ne_nil (c : Coll) {q : List CName} (h : defaultTaskName c = some q) : q ≠ [] := by
  cases c with
  | mk nm ad ts als cs dflt cfg =>
    rw [defaultTaskName_mk] at h
    cases dflt with
    | none => simp at h
    | some d =>
      simp only [] at h
      by_cases hd : d = []
      · simp [hd] at h
      · simp only [hd, if_false] at h
        cases ha : assoc d cs with
        | none => simp [ha] at h; subst h; simp
        | some sub =>
          simp only [ha] at h
          cases hs : defaultTaskName sub with
          | none => simp [hs] at h
          | some i => simp [hs] at h; subst h; simp

/-! ### descending into a sub-collection (well-formed parent) -/

section kids
variable {nm : Option CName} {ad : Bool} {ts : List (CName × Nat)} {als : List (CName × CName)}
  {cs : List (CName × Coll)} {dflt : Option CName} {cfg : KVs}

theorem kid_key (hW : LocalWF ad ts als cs dflt) {k : CName} {sub : Coll} (hm : (k, sub) ∈ cs) :
    k ≠ [] ∧ noDot k = true ∧ transform ad k = k ∧ assoc k cs = some sub := by
  have hk : k ∈ cs.map (·.1) := List.mem_map.mpr ⟨(k, sub), hm, rfl⟩
  have hg := (goodName_iff ad k).mp (hW.collKey_good hk)
  exact ⟨hg.1, hg.2.1, hg.2.2, assoc_of_mem_nodup hW.parts.2.2.1 hm⟩

/-- `k.q` asks the sub-collection bound as `k` for `q` -/
theorem twc_sub (hW : LocalWF ad ts als cs dflt) {k : CName} {sub : Coll} (hm : (k, sub) ∈ cs)
    (q : List CName) (hq : q ≠ []) :
    twc (.mk nm ad ts als cs dflt cfg) (subName ad k q) = mergeOuter cfg (sub.twc q) := by
  obtain ⟨_, _, hx, ha⟩ := kid_key hW hm
  cases q with
  | nil => exact absurd rfl hq
  | cons y r =>
    simp only [subName, List.map_cons]
    rw [twc_cons2, transform_idem, hx, ha]
    simp only []
    rw [← List.map_cons, twc_transform_invariant]

/-- the bare name of a sub-collection asks it for its default -/
theorem twc_kidname (hW : LocalWF ad ts als cs dflt) {k : CName} {sub : Coll} (hm : (k, sub) ∈ cs) :
    twc (.mk nm ad ts als cs dflt cfg) [k] = mergeOuter cfg (sub.twc [[]]) := by
  obtain ⟨hne, _, hx, ha⟩ := kid_key hW hm
  rw [twc_single _ _ _ _ _ _ _ _ hne, hx, ha]

/-- a task or alias name of this collection -/
theorem twc_local (hW : LocalWF ad ts als cs dflt) {x : CName}
    (hx : x ∈ ts.map (·.1) ∨ x ∈ als.map (·.1)) :
    twc (.mk nm ad ts als cs dflt cfg) [x] = lexResult cfg (lexGet (als.length + 1) ts als x) := by
  have hg : goodName ad x = true := by
    rcases hx with h | h
    · exact hW.taskKey_good h
    · exact hW.aliasKey_good h
  have hnc : hasKey x cs = false := by
    rcases hx with h | h
    · exact hW.task_not_coll h
    · exact hW.alias_not_coll h
  obtain ⟨hne, _, hfix⟩ := (goodName_iff ad x).mp hg
  rw [twc_single _ _ _ _ _ _ _ _ hne, hfix]
  unfold hasKey at hnc
  cases ha : assoc x cs with
  | none => rfl
  | some s => simp [ha] at hnc

theorem default_good (hW : LocalWF ad ts als cs (some d)) : d ≠ [] ∧ noDot d = true ∧ transform ad d = d := by
  have h := hW.dflt
  simp only [defaultOk, Bool.or_eq_true] at h
  have hg : goodName ad d = true := by
    rcases h with h | h
    · exact hW.taskKey_good ((hasKey_iff d ts).mp h)
    · exact hW.collKey_good ((hasKey_iff d cs).mp h)
  exact (goodName_iff ad d).mp hg

end kids

/-- C17/C10: the empty name, i.e. the collection's default followed through default
    sub-collections, finds exactly what the dotted name `_default_task_name` finds -/
theorem twc_default_eq_dtn (c : Coll) : wf c = true → ∀ q, defaultTaskName c = some q → c.twc [[]] = c.twc q := by
  induction c using ind with
  | h nm ad ts als cs dflt cfg ih =>
    intro hwf q hq
    obtain ⟨hW, hkids⟩ := (wf_mk ..).mp hwf
    rw [defaultTaskName_mk] at hq
    cases dflt with
    | none => simp at hq
    | some d =>
      obtain ⟨hd, hnd, hfix⟩ := default_good hW
      simp only [hd, if_false] at hq
      rw [twc_default _ _ _ _ _ _ d hd hnd [[]] (by simp [isEmptyName])]
      cases ha : assoc d cs with
      | none => simp [ha] at hq; subst hq; rfl
      | some sub =>
        simp only [ha] at hq
        have hm := assoc_mem ha
        cases hs : defaultTaskName sub with
        | none => simp [hs] at hq
        | some i =>
          simp [hs] at hq
          subst hq
          have hi := defaultTaskName_ne_nil sub hs
          have := twc_sub (nm := nm) (cfg := cfg) hW hm i hi
          simp only [subName] at this
          rw [this, twc_kidname hW hm, ih d sub hm (hkids d sub hm) i hs]

/-! ### the entries of `task_names` -/

theorem mem_taskNames_mk {nm ad ts als cs dflt cfg} {e : Entry} :
    e ∈ taskNames (.mk nm ad ts als cs dflt cfg) ↔
      (∃ t ∈ ts, e = ownEntry als t) ∨
      (∃ k sub, (k, sub) ∈ cs ∧ ∃ e' ∈ taskNames sub,
        e = prefixEntry ad k sub.default (defaultTaskName sub) e') := by
  rw [taskNames_mk, List.mem_append, List.mem_map, List.mem_flatMap]
  constructor
  · rintro (⟨t, ht, rfl⟩ | ⟨⟨k, sub⟩, hm, he⟩)
    · exact Or.inl ⟨t, ht, rfl⟩
    · simp only [kidEntries, List.mem_map] at he
      obtain ⟨e', he', rfl⟩ := he
      exact Or.inr ⟨k, sub, hm, e', he', rfl⟩
  · rintro (⟨t, ht, rfl⟩ | ⟨k, sub, hm, e', he', rfl⟩)
    · exact Or.inl ⟨t, ht, rfl⟩
    · exact Or.inr ⟨(k, sub), hm, by simp only [kidEntries, List.mem_map]; exact ⟨e', he', rfl⟩⟩

/-- aliases of a task key in a well-formed lexicon: exactly the alias keys pointing at it -/
theorem mem_aliasesOf {ad ts als cs dflt} (hW : LocalWF ad ts als cs dflt) {n : CName} (hn : n ∈ ts.map (·.1))
    (a : CName) : a ∈ aliasesOf als n ↔ (a, n) ∈ als := by
  unfold aliasesOf
  rw [hW.task_not_alias hn]
  simp only [List.mem_map, List.mem_filter, aliasPointsTo, Bool.and_eq_true, decide_eq_true_eq]
  constructor
  · rintro ⟨⟨a', k⟩, ⟨hm, hk, _⟩, rfl⟩
    simp only at hk; subst hk; exact hm
  · intro hm
    refine ⟨(a, n), ⟨hm, rfl, ?_⟩, rfl⟩
    have ha : a ∈ als.map (·.1) := List.mem_map.mpr ⟨(a, n), hm, rfl⟩
    simpa using fun e : a = n => hW.parts.2.2.2.1 n hn a ha e.symm

theorem entry_names_ne_nil (c : Coll) {e : Entry} (he : e ∈ taskNames c) : ∀ q ∈ entryNames e, q ≠ [] := by
  cases c with
  | mk nm ad ts als cs dflt cfg =>
    rcases mem_taskNames_mk.mp he with ⟨t, _, rfl⟩ | ⟨k, sub, _, e', _, rfl⟩
    · intro q hq
      simp only [entryNames, ownEntry, List.mem_cons, List.mem_map] at hq
      rcases hq with rfl | ⟨a, _, rfl⟩ <;> simp
    · intro q hq
      simp only [entryNames, prefixEntry, subName, List.mem_cons, List.mem_append, List.mem_map] at hq
      rcases hq with rfl | ⟨q', _, rfl⟩ | hq
      · simp
      · simp
      · split at hq
        · simp at hq; subst hq; simp
        · simp at hq

/-- what makes a collection's bare name a shortcut: the empty-name lookup in it finds that entry -/
theorem shortcut_default (sub : Coll) (hwf : wf sub = true) {n : List CName}
    (h : isShortcut sub.default (defaultTaskName sub) n = true) : sub.twc [[]] = sub.twc n := by
  simp only [isShortcut, Bool.or_eq_true, decide_eq_true_eq] at h
  rcases h with h | h
  · cases sub with
    | mk nm ad ts als cs dflt cfg =>
      obtain ⟨hW, _⟩ := (wf_mk ..).mp hwf
      cases dflt with
      | none => simp [default] at h
      | some d =>
        simp only [default, decide_eq_true_eq] at h
        subst h
        obtain ⟨hd, hnd, _⟩ := default_good hW
        exact twc_default _ _ _ _ _ _ d hd hnd [[]] (by simp [isEmptyName])
  · exact twc_default_eq_dtn sub hwf n h

/-- C10 `accepted_runs_lookup` = C17 `same_for_alias_and_default_shortcut`: every alias of a
    `task_names` entry - declared alias, `add_task` alias, default-task or default-sub-collection
    shortcut, at any depth - looks up exactly what the primary name looks up: same task, same settings -/
theorem entry_names_agree (c : Coll) : wf c = true → ∀ e ∈ taskNames c, ∀ q ∈ e.2, c.twc q = c.twc e.1 := by
  induction c using ind with
  | h nm ad ts als cs dflt cfg ih =>
    intro hwf e he q hq
    obtain ⟨hW, hkids⟩ := (wf_mk ..).mp hwf
    rcases mem_taskNames_mk.mp he with ⟨⟨n, t⟩, ht, rfl⟩ | ⟨k, sub, hm, e', he', rfl⟩
    · simp only [ownEntry, List.mem_map] at hq ⊢
      obtain ⟨a, ha, rfl⟩ := hq
      have hn : n ∈ ts.map (·.1) := List.mem_map.mpr ⟨(n, t), ht, rfl⟩
      have ham := (mem_aliasesOf hW hn a).mp ha
      have hak : a ∈ als.map (·.1) := List.mem_map.mpr ⟨(a, n), ham, rfl⟩
      rw [twc_local hW (Or.inr hak), twc_local hW (Or.inl hn), lexGet_alias_eq hW ham]
    · have hne := entry_names_ne_nil sub he'
      simp only [prefixEntry, List.mem_append, List.mem_map] at hq ⊢
      rw [twc_sub hW hm e'.1 (hne e'.1 (by simp [entryNames]))]
      rcases hq with ⟨q', hq', rfl⟩ | hq
      · rw [twc_sub hW hm q' (hne q' (by simp [entryNames, hq'])),
          ih k sub hm (hkids k sub hm) e' he' q' hq']
      · split at hq
        · rename_i hs
          simp at hq; subst hq
          rw [twc_kidname hW hm, shortcut_default sub (hkids k sub hm) hs]
        · simp at hq

/-- the lookup finds a task (`coll[name]` does not raise KeyError / ValueError; merging the
    settings found on the way may still raise on a dict-vs-leaf clash) -/
def resolves : Except LErr (Nat × KVs) → Bool
  | .ok _ => true
  | .error .ambiguous => true
  | .error _ => false

theorem resolves_mergeOuter (cfg : KVs) (r : Except LErr (Nat × KVs)) : resolves (mergeOuter cfg r) = resolves r := by
  cases r with
  | error e => rfl
  | ok v =>
    obtain ⟨t, inner⟩ := v
    simp only [mergeOuter]
    cases mergeKVs inner cfg <;> rfl

/-- a canonical dotted name for collection `c`, as components: at least one component, none empty,
    each left unchanged by `c.transform` -/
def canonical (c : Coll) (p : List CName) : Prop := p ≠ [] ∧ ∀ x ∈ p, x ≠ [] ∧ transform c.autoDash x = x

theorem mem_acceptedNames {c : Coll} {p : List CName} : p ∈ acceptedNames c ↔ ∃ e ∈ taskNames c, p = e.1 ∨ p ∈ e.2 := by
  simp only [acceptedNames, List.mem_flatMap, entryNames, List.mem_cons]

/-- every name the parser is given is canonical for the root it was generated from -/
theorem accepted_canonical (c : Coll) : wf c = true → ∀ p ∈ acceptedNames c, canonical c p := by
  induction c using ind with
  | h nm ad ts als cs dflt cfg ih =>
    intro hwf p hp
    obtain ⟨hW, hkids⟩ := (wf_mk ..).mp hwf
    obtain ⟨e, he, hpe⟩ := mem_acceptedNames.mp hp
    have single : ∀ x, goodName ad x = true → canonical (.mk nm ad ts als cs dflt cfg) [x] := by
      intro x hx
      obtain ⟨h1, _, h3⟩ := (goodName_iff ad x).mp hx
      exact ⟨by simp, by intro y hy; simp at hy; subst hy; exact ⟨h1, h3⟩⟩
    rcases mem_taskNames_mk.mp he with ⟨⟨n, t⟩, ht, rfl⟩ | ⟨k, sub, hm, e', he', rfl⟩
    · have hn : n ∈ ts.map (·.1) := List.mem_map.mpr ⟨(n, t), ht, rfl⟩
      rcases hpe with rfl | hpe
      · exact single n (hW.taskKey_good hn)
      · simp only [ownEntry, List.mem_map] at hpe
        obtain ⟨a, ha, rfl⟩ := hpe
        have ham := (mem_aliasesOf hW hn a).mp ha
        exact single a (hW.aliasKey_good (List.mem_map.mpr ⟨(a, n), ham, rfl⟩))
    · obtain ⟨hkne, _, hkfix, _⟩ := kid_key hW hm
      have sub_can : ∀ q, q ∈ acceptedNames sub → canonical (.mk nm ad ts als cs dflt cfg) (subName ad k q) := by
        intro q hq
        have hcq := ih k sub hm (hkids k sub hm) q hq
        refine ⟨by simp [subName], ?_⟩
        intro x hx
        simp only [subName, List.mem_cons, List.mem_map] at hx
        rcases hx with rfl | ⟨y, hy, rfl⟩
        · exact ⟨fun e => hkne ((transform_eq_nil ad k).mp e), transform_idem ad k⟩
        · exact ⟨fun e => (hcq.2 y hy).1 ((transform_eq_nil ad y).mp e), transform_idem ad y⟩
      rcases hpe with rfl | hpe
      · exact sub_can e'.1 (mem_acceptedNames.mpr ⟨e', he', Or.inl rfl⟩)
      · simp only [prefixEntry, List.mem_append, List.mem_map] at hpe
        rcases hpe with ⟨q', hq', rfl⟩ | hpe
        · exact sub_can q' (mem_acceptedNames.mpr ⟨e', he', Or.inr hq'⟩)
        · split at hpe
          · simp at hpe; subst hpe
            exact single k (hW.collKey_good (List.mem_map.mpr ⟨(k, sub), hm, rfl⟩))
          · simp at hpe

/-- C10 (⇒): every name the CLI accepts is resolved by the collection -/
theorem accepted_resolves (c : Coll) : wf c = true → ∀ p ∈ acceptedNames c, resolves (c.twc p) = true := by
  induction c using ind with
  | h nm ad ts als cs dflt cfg ih =>
    intro hwf p hp
    obtain ⟨hW, hkids⟩ := (wf_mk ..).mp hwf
    obtain ⟨e, he, hpe⟩ := mem_acceptedNames.mp hp
    -- aliases look up what the primary name looks up: enough to treat primary names
    have hprim : resolves (twc (.mk nm ad ts als cs dflt cfg) e.1) = true := by
      rcases mem_taskNames_mk.mp he with ⟨⟨n, t⟩, ht, rfl⟩ | ⟨k, sub, hm, e', he', rfl⟩
      · have hn : n ∈ ts.map (·.1) := List.mem_map.mpr ⟨(n, t), ht, rfl⟩
        simp only [ownEntry]
        rw [twc_local hW (Or.inl hn), lexGet_noalias _ _ _ _ (hW.task_not_alias hn),
          assoc_of_mem_nodup hW.parts.1 ht]
        rfl
      · simp only [prefixEntry]
        rw [twc_sub hW hm e'.1 (entry_names_ne_nil sub he' e'.1 (by simp [entryNames])), resolves_mergeOuter]
        exact ih k sub hm (hkids k sub hm) e'.1 (mem_acceptedNames.mpr ⟨e', he', Or.inl rfl⟩)
    rcases hpe with rfl | hpe
    · exact hprim
    · rw [entry_names_agree _ hwf e he p hpe]; exact hprim

/-- if the empty name resolves, `_default_task_name` is the primary name of some entry -/
theorem default_entry (c : Coll) : wf c = true → resolves (c.twc [[]]) = true →
    ∃ e ∈ taskNames c, defaultTaskName c = some e.1 := by
  induction c using ind with
  | h nm ad ts als cs dflt cfg ih =>
    intro hwf hr
    obtain ⟨hW, hkids⟩ := (wf_mk ..).mp hwf
    cases dflt with
    | none => rw [twc_nodefault _ _ _ _ _ _ _ (by simp [isEmptyName])] at hr; simp [resolves] at hr
    | some d =>
      obtain ⟨hd, hnd, hfix⟩ := default_good hW
      rw [twc_default _ _ _ _ _ _ d hd hnd [[]] (by simp [isEmptyName]), twc_single _ _ _ _ _ _ _ _ hd, hfix] at hr
      rw [defaultTaskName_mk]
      simp only [hd, if_false]
      cases ha : assoc d cs with
      | some sub =>
        have hm := assoc_mem ha
        simp only [ha, resolves_mergeOuter] at hr
        obtain ⟨e', he', hdt⟩ := ih d sub hm (hkids d sub hm) hr
        refine ⟨prefixEntry ad d sub.default (defaultTaskName sub) e',
          mem_taskNames_mk.mpr (Or.inr ⟨d, sub, hm, e', he', rfl⟩), ?_⟩
        simp [hdt, prefixEntry, subName]
      | none =>
        simp only [ha] at hr
        have hdk : d ∈ ts.map (·.1) := by
          have h := hW.dflt
          simp only [defaultOk, Bool.or_eq_true] at h
          rcases h with h | h
          · exact (hasKey_iff d ts).mp h
          · unfold hasKey at h; simp [ha] at h
        obtain ⟨⟨d', t⟩, ht, hdd⟩ := List.mem_map.mp hdk
        simp only at hdd; subst hdd
        exact ⟨ownEntry als (d', t), mem_taskNames_mk.mpr (Or.inl ⟨(d', t), ht, rfl⟩), by simp [ownEntry]⟩

/-- C10 (⇐): every canonical name the collection resolves is accepted by the CLI -/
theorem resolves_accepted (c : Coll) : wf c = true → ∀ p, canonical c p → resolves (c.twc p) = true →
    p ∈ acceptedNames c := by
  induction c using ind with
  | h nm ad ts als cs dflt cfg ih =>
    intro hwf p hcan hr
    obtain ⟨hW, hkids⟩ := (wf_mk ..).mp hwf
    obtain ⟨hpne, hcomp⟩ := hcan
    simp only [autoDash] at hcomp
    cases p with
    | nil => exact absurd rfl hpne
    | cons x rest =>
      obtain ⟨hxne, hxfix⟩ := hcomp x (by simp)
      cases rest with
      | nil =>
        rw [twc_single _ _ _ _ _ _ _ _ hxne, hxfix] at hr
        cases ha : assoc x cs with
        | some sub =>
          have hm := assoc_mem ha
          simp only [ha, resolves_mergeOuter] at hr
          obtain ⟨e', he', hdt⟩ := default_entry sub (hkids x sub hm) hr
          refine mem_acceptedNames.mpr ⟨prefixEntry ad x sub.default (defaultTaskName sub) e',
            mem_taskNames_mk.mpr (Or.inr ⟨x, sub, hm, e', he', rfl⟩), Or.inr ?_⟩
          simp [prefixEntry, isShortcut, hdt]
        | none =>
          simp only [ha] at hr
          cases hal : assoc x als with
          | none =>
            rw [lexGet_noalias _ _ _ _ hal] at hr
            cases hts : assoc x ts with
            | none => simp [hts, lexResult, resolves] at hr
            | some t =>
              exact mem_acceptedNames.mpr ⟨ownEntry als (x, t),
                mem_taskNames_mk.mpr (Or.inl ⟨(x, t), assoc_mem hts, rfl⟩), Or.inl rfl⟩
          | some k =>
            have hm := assoc_mem hal
            have hk : k ∈ ts.map (·.1) := (hasKey_iff k ts).mp (hW.tgt (x, k) hm)
            obtain ⟨⟨k', t⟩, ht, hkk⟩ := List.mem_map.mp hk
            simp only at hkk; subst hkk
            refine mem_acceptedNames.mpr ⟨ownEntry als (k', t),
              mem_taskNames_mk.mpr (Or.inl ⟨(k', t), ht, rfl⟩), Or.inr ?_⟩
            simp only [ownEntry, List.mem_map]
            exact ⟨x, (mem_aliasesOf hW hk x).mpr hm, rfl⟩
      | cons y r =>
        rw [twc_cons2, hxfix, resolves_mergeOuter] at hr
        cases ha : assoc x cs with
        | none => simp [ha, resolves] at hr
        | some sub =>
          have hm := assoc_mem ha
          simp only [ha] at hr
          rw [← twc_transform_invariant sub sub.autoDash] at hr
          have hcan' : canonical sub ((y :: r).map (transform sub.autoDash)) := by
            refine ⟨by simp, ?_⟩
            intro z hz
            obtain ⟨w, hw, rfl⟩ := List.mem_map.mp hz
            have := hcomp w (List.mem_cons_of_mem _ hw)
            exact ⟨fun e => this.1 ((transform_eq_nil _ w).mp e), transform_idem _ w⟩
          have hacc := ih x sub hm (hkids x sub hm) _ hcan' hr
          obtain ⟨e', he', hq⟩ := mem_acceptedNames.mp hacc
          have hback : subName ad x ((y :: r).map (transform sub.autoDash)) = x :: y :: r := by
            simp only [subName, hxfix, map_transform_comp]
            congr 1
            have : ∀ z ∈ y :: r, transform ad z = z := fun z hz => (hcomp z (List.mem_cons_of_mem _ hz)).2
            exact (List.map_congr_left (g := id) this).trans (List.map_id _)
          refine mem_acceptedNames.mpr ⟨prefixEntry ad x sub.default (defaultTaskName sub) e',
            mem_taskNames_mk.mpr (Or.inr ⟨x, sub, hm, e', he', rfl⟩), ?_⟩
          rcases hq with hq | hq
          · left; simp only [prefixEntry]; rw [← hq, hback]
          · right
            simp only [prefixEntry, List.mem_append, List.mem_map]
            exact Or.inl ⟨_, hq, hback⟩

/-- C10 HEADLINE: for a well-formed tree, the names accepted on the command line are exactly the
    canonical dotted names the collection itself resolves -/
theorem cli_names_eq_lookup_c (c : Coll) (hW : wf c = true) (p : List CName) (hc : canonical c p) :
    p ∈ acceptedNames c ↔ resolves (c.twc p) = true :=
  ⟨accepted_resolves c hW p, resolves_accepted c hW p hc⟩

/-! ### which task the CLI runs -/

theorem entryHas_iff (n : List CName) (e : Entry) : entryHas n e = true ↔ n = e.1 ∨ n ∈ e.2 := by
  unfold entryHas
  simp only [Bool.or_eq_true, decide_eq_true_eq, List.contains_iff_mem]
  constructor
  · rintro (h | h)
    · exact Or.inl h.symm
    · exact Or.inr h
  · rintro (h | h)
    · exact Or.inl h.symm
    · exact Or.inr h

/-- the CLI knows a token iff it is an accepted name -/
theorem cliTask_isSome_iff (c : Coll) (p : List CName) : (cliTask c p).isSome = true ↔ p ∈ acceptedNames c := by
  unfold cliTask
  rw [mem_acceptedNames]
  cases hf : (taskNames c).find? (entryHas p) with
  | none =>
    simp only [Option.isSome_none, Bool.false_eq_true, false_iff]
    rintro ⟨e, he, hpe⟩
    have := List.find?_eq_none.mp hf e he
    exact this ((entryHas_iff p e).mpr hpe)
  | some e =>
    simp only [Option.isSome_some, true_iff]
    exact ⟨e, List.mem_of_find?_eq_some hf, (entryHas_iff p e).mp (List.find?_some hf)⟩

/-- C10 `accepted_runs_lookup`: the parser context found for an accepted token carries the primary
    name; looking that up gives the very result (task AND settings) of looking up the token itself -/
theorem cliTask_eq_twc (c : Coll) (hW : wf c = true) (p : List CName) (r : Except LErr (Nat × KVs))
    (h : cliTask c p = some r) : r = c.twc p := by
  unfold cliTask at h
  cases hf : (taskNames c).find? (entryHas p) with
  | none => simp [hf] at h
  | some e =>
    simp only [hf, Option.some.injEq] at h
    subst h
    have he := List.mem_of_find?_eq_some hf
    rcases (entryHas_iff p e).mp (List.find?_some hf) with h1 | h2
    · rw [h1]
    · exact (entry_names_agree c hW e he p h2).symm

/-! ### listings -/

theorem flatKids_eq (rad : Bool) (cs : List (CName × Coll)) (anc : List CName) :
    flatKids rad cs anc = cs.flatMap (fun kc => flatPairs rad kc.2 (anc ++ [kc.1])) := by
  induction cs with
  | nil => simp [flatKids]
  | cons hd tl ih => obtain ⟨k, c⟩ := hd; simp [flatKids, ih]

theorem flatPairs_mk (rad : Bool) (nm ad ts als cs dflt cfg) (anc : List CName) :
    flatPairs rad (.mk nm ad ts als cs dflt cfg) anc =
      ts.map (flatTask rad anc als dflt) ++ cs.flatMap (fun kc => flatPairs rad kc.2 (anc ++ [kc.1])) := by
  rw [flatPairs, flatKids_eq]

/-- one task binding of the tree: where it lives, its binding name, whether it is its collection's
    default, and its lexicon aliases (declared on the task or given to `add_task`) -/
structure Binding where
  anc : List CName
  key : CName
  isDefault : Bool
  aliases : List CName
  deriving DecidableEq, Repr

def ownBinding (anc : List CName) (als : List (CName × CName)) (dflt : Option CName) (t : CName × Nat) : Binding :=
  ⟨anc, t.1, dflt = some t.1, aliasesOf als t.1⟩

mutual
/-- all task bindings of the tree, each exactly once, in listing order -/
def bindings : Coll → List CName → List Binding
  | mk _ _ ts als cs dflt _, anc => ts.map (ownBinding anc als dflt) ++ bindingsKids cs anc
def bindingsKids : List (CName × Coll) → List CName → List Binding
  | [], _ => []
  | (k, c) :: r, anc => bindings c (anc ++ [k]) ++ bindingsKids r anc
end

/-- how the flat format prints a binding (`rad` = the root's `auto_dash_names`: everything shown is
    normalised by the root's `transform`) -/
def Binding.flat (rad : Bool) (b : Binding) : Entry :=
  ((b.anc ++ [b.key]).map (transform rad),
   (if b.isDefault && !b.anc.isEmpty then [b.anc.map (transform rad)] else []) ++
     b.aliases.map (fun a => (b.anc ++ [a]).map (transform rad)))

/-- how the nested format prints a binding -/
def Binding.nested (rad : Bool) (b : Binding) : NLine :=
  .task (b.anc.map (transform rad)) (transform rad b.key) b.isDefault (b.aliases.map (transform rad))

def NLine.isTask : NLine → Bool
  | .task .. => true
  | .coll .. => false

mutual
/-- the task records of a JSON listing, in document order -/
def jsonTasks : JNode → List (CName × List CName)
  | .mk _ _ ts cs => ts ++ jsonTasksL cs
def jsonTasksL : List JNode → List (CName × List CName)
  | [] => []
  | j :: r => jsonTasks j ++ jsonTasksL r
end

mutual
theorem flat_eq_bindings (rad : Bool) : ∀ (c : Coll) (anc : List CName),
    flatPairs rad c anc = (bindings c anc).map (Binding.flat rad)
  | mk _ _ ts als cs dflt _, anc => by
    rw [flatPairs, bindings, List.map_append, flatKids_eq_bindings rad cs anc, List.map_map]
    congr 1
theorem flatKids_eq_bindings (rad : Bool) : ∀ (cs : List (CName × Coll)) (anc : List CName),
    flatKids rad cs anc = (bindingsKids cs anc).map (Binding.flat rad)
  | [], _ => by simp [flatKids, bindingsKids]
  | (k, c) :: r, anc => by
    rw [flatKids, bindingsKids, List.map_append, flat_eq_bindings rad c (anc ++ [k]), flatKids_eq_bindings rad r anc]
end

mutual
theorem nested_eq_bindings (rad : Bool) : ∀ (c : Coll) (anc : List CName),
    (nestedPairs rad c anc).filter NLine.isTask = (bindings c anc).map (Binding.nested rad)
  | mk _ _ ts als cs dflt _, anc => by
    rw [nestedPairs, bindings, List.map_append, List.filter_append, nestedKids_eq_bindings rad cs anc, List.map_map]
    congr 1
    induction ts with
    | nil => rfl
    | cons t tl ih => simp only [List.map_cons, List.filter_cons, nestedTask, NLine.isTask, if_true, ih]; rfl
theorem nestedKids_eq_bindings (rad : Bool) : ∀ (cs : List (CName × Coll)) (anc : List CName),
    (nestedKids rad cs anc).filter NLine.isTask = (bindingsKids cs anc).map (Binding.nested rad)
  | [], _ => by simp [nestedKids, bindingsKids]
  | (k, c) :: r, anc => by
    rw [nestedKids, bindingsKids, List.map_append, List.cons_append, List.filter_cons]
    simp only [NLine.isTask, Bool.false_eq_true, if_false, List.filter_append]
    rw [nested_eq_bindings rad c (anc ++ [k]), nestedKids_eq_bindings rad r anc]
end

mutual
theorem json_eq_bindings : ∀ (c : Coll) (anc : List CName),
    jsonTasks (serialized c) = (bindings c anc).map (fun b => (b.key, b.aliases))
  | mk _ _ ts als cs dflt _, anc => by
    rw [serialized, jsonTasks, bindings, List.map_append, jsonKids_eq_bindings cs anc, List.map_map]
    congr 1
theorem jsonKids_eq_bindings : ∀ (cs : List (CName × Coll)) (anc : List CName),
    jsonTasksL (serializedKids cs) = (bindingsKids cs anc).map (fun b => (b.key, b.aliases))
  | [], _ => by simp [serializedKids, jsonTasksL, bindingsKids]
  | (k, c) :: r, anc => by
    rw [serializedKids, jsonTasksL, bindingsKids, List.map_append, json_eq_bindings c (anc ++ [k]),
      jsonKids_eq_bindings r anc]
end

/-- positional correspondence of two lists -/
inductive Pairs {α β : Type} (R : α → β → Prop) : List α → List β → Prop
  | nil : Pairs R [] []
  | cons {a b l l'} : R a b → Pairs R l l' → Pairs R (a :: l) (b :: l')

namespace Pairs
variable {α β γ : Type} {R : α → β → Prop}

theorem append {l₁ l₂ : List α} {m₁ m₂ : List β} (h₁ : Pairs R l₁ m₁) (h₂ : Pairs R l₂ m₂) :
    Pairs R (l₁ ++ l₂) (m₁ ++ m₂) := by
  induction h₁ with
  | nil => exact h₂
  | cons h _ ih => exact .cons h ih

theorem map_map (l : List γ) (f : γ → α) (g : γ → β) (h : ∀ t ∈ l, R (f t) (g t)) :
    Pairs R (l.map f) (l.map g) := by
  induction l with
  | nil => exact .nil
  | cons t tl ih =>
    exact .cons (h t (by simp)) (ih (fun t' ht' => h t' (List.mem_cons_of_mem _ ht')))

theorem flatMap (l : List γ) (f : γ → List α) (g : γ → List β) (h : ∀ t ∈ l, Pairs R (f t) (g t)) :
    Pairs R (l.flatMap f) (l.flatMap g) := by
  induction l with
  | nil => exact .nil
  | cons t tl ih =>
    simp only [List.flatMap_cons]
    exact append (h t (by simp)) (ih (fun t' ht' => h t' (List.mem_cons_of_mem _ ht')))

theorem map_right {δ : Type} {S : α → δ → Prop} {l : List α} {m : List β} (g : β → δ) (h : Pairs R l m)
    (hg : ∀ a b, b ∈ m → R a b → S a (g b)) : Pairs S l (m.map g) := by
  induction h with
  | nil => exact .nil
  | cons hab _ ih =>
    exact .cons (hg _ _ (by simp) hab) (ih (fun a b hb => hg a b (List.mem_cons_of_mem _ hb)))

theorem length_eq {l : List α} {m : List β} (h : Pairs R l m) : l.length = m.length := by
  induction h with
  | nil => rfl
  | cons _ _ ih => simp [ih]
end Pairs

theorem uniformDashKids_iff (ad : Bool) (cs : List (CName × Coll)) :
    uniformDashKids ad cs = true ↔ ∀ k c, (k, c) ∈ cs → uniformDash ad c = true := by
  induction cs with
  | nil => simp [uniformDashKids]
  | cons hd tl ih =>
    obtain ⟨k, c⟩ := hd
    simp only [uniformDashKids, Bool.and_eq_true, ih, List.mem_cons, Prod.mk.injEq]
    constructor
    · rintro ⟨h1, h2⟩ k' c' (⟨_, rfl⟩ | h)
      · exact h1
      · exact h2 k' c' h
    · intro h
      exact ⟨h k c (Or.inl ⟨rfl, rfl⟩), fun k' c' hm => h k' c' (Or.inr hm)⟩

theorem uniformDash_mk (ad : Bool) (nm a ts als cs dflt cfg) :
    uniformDash ad (.mk nm a ts als cs dflt cfg) = true ↔
      a = ad ∧ ∀ k c, (k, c) ∈ cs → uniformDash ad c = true := by
  rw [uniformDash]; simp only [Bool.and_eq_true, decide_eq_true_eq, uniformDashKids_iff]

theorem uniformDash_autoDash {ad : Bool} {c : Coll} (h : uniformDash ad c = true) : c.autoDash = ad := by
  cases c with
  | mk nm a ts als cs dflt cfg => exact ((uniformDash_mk ..).mp h).1

/-- in a tree with one `auto_dash_names` setting the parent's `subtask_name` changes nothing -/
theorem subName_uniform {ad : Bool} {sub : Coll} (hwf : wf sub = true) (hu : sub.autoDash = ad)
    {k : CName} (hk : transform ad k = k) {q : List CName} (hq : q ∈ acceptedNames sub) :
    subName ad k q = k :: q := by
  have hc := accepted_canonical sub hwf q hq
  simp only [subName, hk]
  congr 1
  have : ∀ z ∈ q, transform ad z = z := fun z hz => by rw [← hu]; exact (hc.2 z hz).2
  exact (List.map_congr_left (g := id) this).trans (List.map_id _)

/-- `a` is a proper prefix of `n`: a collection path above the task -/
def ProperPrefix (a n : List CName) : Prop := ∃ s, s ≠ [] ∧ a ++ s = n

/-- how a binding relates to the `task_names` entry at the same position (`anc` = raw binding names of
    the collections above the one producing the entry; `rad` = the root's `auto_dash_names`, whose
    `transform` both the CLI names and the listing apply last): same dotted name; every lexicon alias of
    the binding is an alias of the entry; the entry has no further aliases except collection-name shortcuts -/
def Matches (rad : Bool) (anc : List CName) (b : Binding) (e : Entry) : Prop :=
  (b.anc ++ [b.key]).map (transform rad) = (anc ++ e.1).map (transform rad) ∧
  (∀ a ∈ b.aliases, (b.anc ++ [a]).map (transform rad) ∈ e.2.map (fun q => (anc ++ q).map (transform rad))) ∧
  (∀ q ∈ e.2, (anc ++ q).map (transform rad) ∈ b.aliases.map (fun x => (b.anc ++ [x]).map (transform rad)) ∨
    ProperPrefix ((anc ++ q).map (transform rad)) ((anc ++ e.1).map (transform rad)))

/-- what a parent's `subtask_name` adds is invisible once the root has normalised the name (last wins) -/
theorem subName_norm (rad a : Bool) (anc : List CName) (k : CName) (q : List CName) :
    (anc ++ subName a k q).map (transform rad) = ((anc ++ [k]) ++ q).map (transform rad) := by
  simp only [subName, List.map_append, List.map_cons, List.append_assoc, List.cons_append,
    List.nil_append, transform_comp, map_transform_comp]

theorem bindingsKids_eq (cs : List (CName × Coll)) (anc : List CName) :
    bindingsKids cs anc = cs.flatMap (fun kc => bindings kc.2 (anc ++ [kc.1])) := by
  induction cs with
  | nil => simp [bindingsKids]
  | cons hd tl ih => obtain ⟨k, c⟩ := hd; simp [bindingsKids, ih]

/-- C10 `listing_once` core, for EVERY tree and whatever `auto_dash_names` the collections have: the task
    bindings (= the lines of every listing format) correspond one-to-one, in order, to the `task_names`
    entries (= the parser contexts), names and aliases compared as the root normalises them -/
theorem bindings_match (rad : Bool) (c : Coll) :
    ∀ anc, Pairs (Matches rad anc) (bindings c anc) (taskNames c) := by
  induction c using ind with
  | h nm a ts als cs dflt cfg ih =>
    intro anc
    rw [bindings, bindingsKids_eq, taskNames_mk]
    apply Pairs.append
    · apply Pairs.map_map
      intro t _
      refine ⟨rfl, ?_, ?_⟩
      · intro x hx
        simp only [ownBinding, ownEntry, List.map_map, List.mem_map] at hx ⊢
        exact ⟨x, hx, rfl⟩
      · intro x hx
        simp only [ownEntry, List.mem_map] at hx
        obtain ⟨y, hy, rfl⟩ := hx
        left
        simp only [ownBinding, List.mem_map]
        exact ⟨y, hy, rfl⟩
    · apply Pairs.flatMap
      rintro ⟨k, sub⟩ hm
      have hsub := ih k sub hm (anc ++ [k])
      simp only [kidEntries]
      apply Pairs.map_right _ hsub
      intro b e' he' ⟨h1, h2, h3⟩
      have hne := entry_names_ne_nil sub he'
      refine ⟨?_, ?_, ?_⟩
      · simp only [prefixEntry]; rw [subName_norm, h1]
      · intro x hx
        obtain ⟨q, hq, hqe⟩ := List.mem_map.mp (h2 x hx)
        exact List.mem_map.mpr ⟨subName a k q,
          List.mem_append.mpr (Or.inl (List.mem_map.mpr ⟨q, hq, rfl⟩)), (subName_norm rad a anc k q).trans hqe⟩
      · intro x hx
        simp only [prefixEntry, List.mem_append, List.mem_map] at hx
        simp only [prefixEntry]
        rw [subName_norm rad a anc k e'.1]
        rcases hx with ⟨q, hq, rfl⟩ | hx
        · rw [subName_norm]
          exact h3 q hq
        · split at hx
          · simp at hx; subst hx
            right
            refine ⟨e'.1.map (transform rad), ?_, by simp⟩
            intro e
            exact hne e'.1 (by simp [entryNames]) (List.map_eq_nil_iff.mp e)
          · simp at hx

/-! ### dotted strings ↔ component lists -/

theorem splitOnDot_ne_nil (l : List Char) : splitOnDot l ≠ [] := by
  induction l with
  | nil => simp [splitOnDot]
  | cons c r ih =>
    simp only [splitOnDot]
    split
    · simp
    · split <;> simp

theorem joinDot_cons_cons (x y : CName) (r : List CName) : joinDot (x :: y :: r) = x ++ '.' :: joinDot (y :: r) := rfl

theorem joinDot_splitOnDot (l : List Char) : joinDot (splitOnDot l) = l := by
  induction l with
  | nil => rfl
  | cons c r ih =>
    simp only [splitOnDot]
    by_cases hc : c = '.'
    · subst hc
      simp only [if_true]
      cases hs : splitOnDot r with
      | nil => exact absurd hs (splitOnDot_ne_nil r)
      | cons h t => rw [joinDot_cons_cons, ← hs, ih]; rfl
    · simp only [hc, if_false]
      cases hs : splitOnDot r with
      | nil => exact absurd hs (splitOnDot_ne_nil r)
      | cons h t =>
        simp only []
        rw [hs] at ih
        cases t with
        | nil => simp only [joinDot] at ih ⊢; rw [ih]
        | cons y t' => rw [joinDot_cons_cons] at ih ⊢; rw [List.cons_append, ih]

theorem splitOnDot_append_dot (x : CName) (hx : noDot x = true) (rest : List Char) :
    splitOnDot (x ++ '.' :: rest) = x :: splitOnDot rest := by
  induction x with
  | nil => simp [splitOnDot]
  | cons c r ih =>
    have hc : c ≠ '.' := by intro e; subst e; simp [noDot] at hx
    have hr : noDot r = true := by
      simp only [noDot, List.contains_cons, Bool.not_eq_true', Bool.or_eq_false_iff] at hx ⊢
      exact hx.2
    simp only [List.cons_append, splitOnDot, hc, if_false, ih hr]

theorem splitOnDot_joinDot (p : List CName) (hne : p ≠ []) (hnd : ∀ x ∈ p, noDot x = true) :
    splitOnDot (joinDot p) = p := by
  induction p with
  | nil => exact absurd rfl hne
  | cons x r ih =>
    cases r with
    | nil => simp only [joinDot]; exact splitOnDot_noDot x (hnd x (by simp))
    | cons y r' =>
      rw [joinDot_cons_cons, splitOnDot_append_dot x (hnd x (by simp)),
        ih (by simp) (fun z hz => hnd z (List.mem_cons_of_mem _ hz))]

theorem mem_xfAux_dot (fr to : Char) (hf : fr ≠ '.') (ht : to ≠ '.') (l : List Char) :
    ∀ b, '.' ∈ xfAux fr to b l ↔ '.' ∈ l := by
  induction l with
  | nil => intro b; simp [xfAux]
  | cons c tl ih =>
    intro b
    cases tl with
    | nil => simp [xfAux]
    | cons n rest =>
      rw [xfAux_cons2, List.mem_cons, List.mem_cons, ih]
      have := xfChar_dot fr to hf ht b c n
      constructor
      · rintro (h | h)
        · exact Or.inl (this.mp h.symm).symm
        · exact Or.inr h
      · rintro (h | h)
        · exact Or.inl (this.mpr h.symm).symm
        · exact Or.inr h

theorem noDot_transform (a : Bool) (x : CName) : noDot (transform a x) = noDot x := by
  have h : '.' ∈ transform a x ↔ '.' ∈ x := by
    unfold transform; split <;> exact mem_xfAux_dot _ _ (by decide) (by decide) _ _
  unfold noDot
  by_cases hx : '.' ∈ x
  · have := h.mpr hx; simp [hx, this]
  · have : '.' ∉ transform a x := fun e => hx (h.mp e)
    simp [hx, this]

/-- the components of accepted names contain no dot, so the dotted string determines them -/
theorem accepted_noDot (c : Coll) : wf c = true → ∀ p ∈ acceptedNames c, ∀ x ∈ p, noDot x = true := by
  induction c using ind with
  | h nm ad ts als cs dflt cfg ih =>
    intro hwf p hp
    obtain ⟨hW, hkids⟩ := (wf_mk ..).mp hwf
    obtain ⟨e, he, hpe⟩ := mem_acceptedNames.mp hp
    have single : ∀ x, goodName ad x = true → ∀ y ∈ [x], noDot y = true := by
      intro x hx y hy
      simp at hy; subst hy
      exact ((goodName_iff ad y).mp hx).2.1
    rcases mem_taskNames_mk.mp he with ⟨⟨n, t⟩, ht, rfl⟩ | ⟨k, sub, hm, e', he', rfl⟩
    · have hn : n ∈ ts.map (·.1) := List.mem_map.mpr ⟨(n, t), ht, rfl⟩
      rcases hpe with rfl | hpe
      · exact single n (hW.taskKey_good hn)
      · simp only [ownEntry, List.mem_map] at hpe
        obtain ⟨a, ha, rfl⟩ := hpe
        have ham := (mem_aliasesOf hW hn a).mp ha
        exact single a (hW.aliasKey_good (List.mem_map.mpr ⟨(a, n), ham, rfl⟩))
    · obtain ⟨_, hknd, _, _⟩ := kid_key hW hm
      have sub_ok : ∀ q, q ∈ acceptedNames sub → ∀ x ∈ subName ad k q, noDot x = true := by
        intro q hq x hx
        simp only [subName, List.mem_cons, List.mem_map] at hx
        rcases hx with rfl | ⟨y, hy, rfl⟩
        · rw [noDot_transform]; exact hknd
        · rw [noDot_transform]; exact ih k sub hm (hkids k sub hm) q hq y hy
      rcases hpe with rfl | hpe
      · exact sub_ok e'.1 (mem_acceptedNames.mpr ⟨e', he', Or.inl rfl⟩)
      · simp only [prefixEntry, List.mem_append, List.mem_map] at hpe
        rcases hpe with ⟨q', hq', rfl⟩ | hpe
        · exact sub_ok q' (mem_acceptedNames.mpr ⟨e', he', Or.inr hq'⟩)
        · split at hpe
          · simp at hpe; subst hpe
            exact single k (hW.collKey_good (List.mem_map.mpr ⟨(k, sub), hm, rfl⟩))
          · simp at hpe

/-- the names the parser is keyed by, as strings -/
def acceptedStrings (c : Coll) : List CName := (acceptedNames c).map joinDot

theorem mem_acceptedStrings (c : Coll) (hwf : wf c = true) (n : CName) :
    n ∈ acceptedStrings c ↔ splitOnDot n ∈ acceptedNames c := by
  unfold acceptedStrings
  rw [List.mem_map]
  constructor
  · rintro ⟨p, hp, rfl⟩
    have hc := accepted_canonical c hwf p hp
    rw [splitOnDot_joinDot p hc.1 (accepted_noDot c hwf p hp)]
    exact hp
  · intro h
    exact ⟨splitOnDot n, h, joinDot_splitOnDot n⟩

/-! ### primary names are pairwise distinct -/

theorem nodup_map_of_inj_on {α β : Type} (f : α → β) (l : List α)
    (hinj : ∀ x ∈ l, ∀ y ∈ l, f x = f y → x = y) (h : l.Nodup) : (l.map f).Nodup := by
  induction l with
  | nil => simp
  | cons a tl ih =>
    rw [List.nodup_cons] at h
    rw [List.map_cons, List.nodup_cons]
    refine ⟨?_, ih (fun x hx y hy => hinj x (List.mem_cons_of_mem _ hx) y (List.mem_cons_of_mem _ hy)) h.2⟩
    intro hm
    obtain ⟨b, hb, hfb⟩ := List.mem_map.mp hm
    have := hinj b (List.mem_cons_of_mem _ hb) a (by simp) hfb
    subst this
    exact h.1 hb

/-- two names normalised for the sub-collection that the parent's normalisation maps to the same
    name are the same name (normalisation is last-wins in both directions) -/
theorem map_transform_inj (a s : Bool) : ∀ (q₁ q₂ : List CName),
    (∀ x ∈ q₁, transform s x = x) → (∀ y ∈ q₂, transform s y = y) →
    q₁.map (transform a) = q₂.map (transform a) → q₁ = q₂ := by
  intro q₁
  induction q₁ with
  | nil => intro q₂ _ _ h; cases q₂ with | nil => rfl | cons y r => simp at h
  | cons x r ih =>
    intro q₂ h₁ h₂ h
    cases q₂ with
    | nil => simp at h
    | cons y r' =>
      simp only [List.map_cons, List.cons.injEq] at h
      have hx : x = y := by
        have e1 := h₁ x (by simp)
        have e2 := h₂ y (by simp)
        calc x = transform s x := e1.symm
          _ = transform s (transform a x) := (transform_comp s a x).symm
          _ = transform s (transform a y) := by rw [h.1]
          _ = transform s y := transform_comp s a y
          _ = y := e2
      rw [hx, ih r' (fun z hz => h₁ z (List.mem_cons_of_mem _ hz)) (fun z hz => h₂ z (List.mem_cons_of_mem _ hz)) h.2]

/-- the primary (CLI) names of a collection -/
def primaries (c : Coll) : List (List CName) := (taskNames c).map (·.1)

theorem primaries_mk (nm ad ts als cs dflt cfg) :
    primaries (.mk nm ad ts als cs dflt cfg) =
      ts.map (fun t => [t.1]) ++ cs.flatMap (fun kc => (primaries kc.2).map (subName ad kc.1)) := by
  simp only [primaries, taskNames_mk, List.map_append, List.map_map, List.map_flatMap, kidEntries]
  congr 1

theorem mem_primaries_accepted {c : Coll} {q : List CName} (h : q ∈ primaries c) : q ∈ acceptedNames c := by
  obtain ⟨e, he, rfl⟩ := List.mem_map.mp h
  exact mem_acceptedNames.mpr ⟨e, he, Or.inl rfl⟩

theorem primaries_ne_nil {c : Coll} {q : List CName} (h : q ∈ primaries c) : q ≠ [] := by
  obtain ⟨e, he, rfl⟩ := List.mem_map.mp h
  exact entry_names_ne_nil c he e.1 (by simp [entryNames])

/-- C10: in a well-formed tree no two `task_names` entries have the same primary name.
    Used from `wf`: task keys pairwise distinct, sub-collection keys pairwise distinct and normalised by
    their collection (`transform ad k = k`), hereditarily; plus (through `accepted_canonical`) that
    every key is normalised by its own collection, so that the parent's re-normalisation is injective. -/
theorem primaries_nodup (c : Coll) : wf c = true → (primaries c).Nodup := by
  induction c using ind with
  | h nm ad ts als cs dflt cfg ih =>
    intro hwf
    obtain ⟨hW, hkids⟩ := (wf_mk ..).mp hwf
    rw [primaries_mk, List.nodup_append]
    refine ⟨?_, ?_, ?_⟩
    · -- own tasks
      have : ts.map (fun t => [t.1]) = (ts.map (·.1)).map (fun n => [n]) := by simp [List.map_map]
      rw [this]
      exact nodup_map_of_inj_on _ _ (fun x _ y _ h => by simpa using h) hW.parts.1
    · -- sub-collections: by induction over the list of kids
      have hcs : (cs.map (·.1)).Nodup := hW.parts.2.2.1
      have hfix : ∀ k sub, (k, sub) ∈ cs → transform ad k = k := fun k sub hm => (kid_key hW hm).2.2.1
      clear hW hwf
      induction cs with
      | nil => simp
      | cons hd tl ihl =>
        obtain ⟨k, sub⟩ := hd
        simp only [List.map_cons, List.nodup_cons] at hcs
        rw [List.flatMap_cons, List.nodup_append]
        have hsubwf := hkids k sub (by simp)
        refine ⟨?_, ?_, ?_⟩
        · apply nodup_map_of_inj_on _ _ _ (ih k sub (by simp) hsubwf)
          intro q₁ h₁ q₂ h₂ he
          simp only [subName, List.cons.injEq] at he
          have c₁ := accepted_canonical sub hsubwf q₁ (mem_primaries_accepted h₁)
          have c₂ := accepted_canonical sub hsubwf q₂ (mem_primaries_accepted h₂)
          exact map_transform_inj ad sub.autoDash q₁ q₂ (fun x hx => (c₁.2 x hx).2) (fun y hy => (c₂.2 y hy).2) he.2
        · exact ihl (fun k' c' hm => ih k' c' (List.mem_cons_of_mem _ hm))
            (fun k' c' hm => hkids k' c' (List.mem_cons_of_mem _ hm)) hcs.2
            (fun k' s' hm => hfix k' s' (List.mem_cons_of_mem _ hm))
        · -- names under different sub-collections start with different components
          intro a ha b hb hab
          subst hab
          obtain ⟨q, _, rfl⟩ := List.mem_map.mp ha
          obtain ⟨⟨k', s'⟩, hm', hb'⟩ := List.mem_flatMap.mp hb
          obtain ⟨q', _, hq'⟩ := List.mem_map.mp hb'
          simp only [subName, List.cons.injEq] at hq'
          have hk := hfix k sub (by simp)
          have hk' := hfix k' s' (List.mem_cons_of_mem _ hm')
          rw [hk, hk'] at hq'
          exact hcs.1 (List.mem_map.mpr ⟨(k', s'), hm', hq'.1⟩)
    · -- a task of this collection has one component, a task below has at least two
      intro a ha b hb hab
      subst hab
      obtain ⟨t, _, rfl⟩ := List.mem_map.mp ha
      obtain ⟨⟨k, sub⟩, _, hb'⟩ := List.mem_flatMap.mp hb
      obtain ⟨q, hq, hq'⟩ := List.mem_map.mp hb'
      have := primaries_ne_nil hq
      cases q with
      | nil => exact this rfl
      | cons y r => simp [subName] at hq'

theorem Pairs.map_eq {α β γ : Type} {R : α → β → Prop} {l : List α} {m : List β} (f : α → γ) (g : β → γ)
    (h : Pairs R l m) (hfg : ∀ a b, R a b → f a = g b) : l.map f = m.map g := by
  induction h with
  | nil => rfl
  | cons hab _ ih => simp [hfg _ _ hab, ih]

theorem count_eq_one_of_nodup {α : Type} [BEq α] [LawfulBEq α] (l : List α) (h : l.Nodup) (a : α) (ha : a ∈ l) :
    l.count a = 1 := by
  induction l with
  | nil => cases ha
  | cons x tl ih =>
    rw [List.nodup_cons] at h
    by_cases hx : x = a
    · subst hx
      have : tl.count x = 0 := List.count_eq_zero.mpr h.1
      simp [this]
    · have hat : a ∈ tl := by
        rcases List.mem_cons.mp ha with e | e
        · exact absurd e.symm hx
        · exact e
      rw [List.count_cons_of_ne hx]
      exact ih h.2 hat

/-- the dotted name under which the CLI knows a binding, and its aliases: the binding path as the root
    (`rad` = its `auto_dash_names`) normalises it -/
def Binding.cliName (rad : Bool) (b : Binding) : List CName := (b.anc ++ [b.key]).map (transform rad)
def Binding.cliAliases (rad : Bool) (b : Binding) : List (List CName) :=
  b.aliases.map (fun a => (b.anc ++ [a]).map (transform rad))
def Binding.cli (rad : Bool) (b : Binding) : Entry := (b.cliName rad, b.cliAliases rad)

theorem map_transform_of_canonical {c : Coll} {p : List CName} (h : canonical c p) :
    p.map (transform c.autoDash) = p :=
  (List.map_congr_left (g := id) (fun z hz => (h.2 z hz).2)).trans (List.map_id _)

/-- how a listed binding relates to the parser context at the same position: the listed name is the
    primary name; every listed alias is an alias of the context; the context has no further alias except
    collection-name shortcuts (proper prefixes of the name) -/
def ListedAs (rad : Bool) (b : Binding) (e : Entry) : Prop :=
  b.cliName rad = e.1 ∧ (∀ a ∈ b.cliAliases rad, a ∈ e.2) ∧
  (∀ q ∈ e.2, q ∈ b.cliAliases rad ∨ ProperPrefix q e.1)

/-- for EVERY well-formed tree (mixed `auto_dash_names` included) the bindings correspond one-to-one and
    in order to the `task_names` entries -/
theorem bindings_listed_as (c : Coll) (hW : wf c = true) :
    Pairs (ListedAs c.autoDash) (bindings c []) (taskNames c) := by
  have h := bindings_match c.autoDash c []
  have h' := Pairs.map_right (S := ListedAs c.autoDash) id h (by
    intro b e he ⟨h1, h2, h3⟩
    have hc1 := map_transform_of_canonical (accepted_canonical c hW e.1 (mem_acceptedNames.mpr ⟨e, he, Or.inl rfl⟩))
    have hc2 : ∀ q ∈ e.2, q.map (transform c.autoDash) = q := fun q hq =>
      map_transform_of_canonical (accepted_canonical c hW q (mem_acceptedNames.mpr ⟨e, he, Or.inr hq⟩))
    simp only [List.nil_append] at h1 h2 h3
    refine ⟨by simpa [Binding.cliName, hc1] using h1, ?_, ?_⟩
    · intro a ha
      obtain ⟨x, hx, rfl⟩ := List.mem_map.mp ha
      obtain ⟨q, hq, hqe⟩ := List.mem_map.mp (h2 x hx)
      rw [← hqe, hc2 q hq]; exact hq
    · intro q hq
      have := h3 q hq
      rw [hc2 q hq, hc1] at this
      exact this)
  simpa using h'

/-- in a well-formed tree the dotted binding names, as the root normalises them, are in order the primary
    names of `task_names` -/
theorem bindings_names_eq_primaries (c : Coll) (hW : wf c = true) :
    (bindings c []).map (Binding.cliName c.autoDash) = primaries c := by
  have h := bindings_listed_as c hW
  exact Pairs.map_eq (Binding.cliName c.autoDash) (fun e : Entry => e.1) h (fun _ _ hm => hm.1)

/-! ### the three formats carry the same (name, aliases) pairs -/

/-- the declared aliases in a flat line: those with as many components as the name (a collection-name
    shortcut has fewer) -/
def flatDeclared (e : Entry) : Entry := (e.1, e.2.filter (fun a => a.length == e.1.length))

/-- a nested task line read as dotted name and dotted aliases -/
def NLine.cli : NLine → Entry
  | .task anc n _ als => (anc ++ [n], als.map (fun a => anc ++ [a]))
  | .coll anc n => (anc ++ [n], [])

/-- the last component of a dotted name (what the JSON format shows) -/
def lastComp (p : List CName) : CName := p.getLastD []
def Entry.leaf (e : Entry) : CName × List CName := (lastComp e.1, e.2.map lastComp)

/-- a JSON task record as the root would spell it -/
def normRecord (rad : Bool) (r : CName × List CName) : CName × List CName :=
  (transform rad r.1, r.2.map (transform rad))

theorem lastComp_concat (anc : List CName) (x : CName) : lastComp (anc ++ [x]) = x := by
  simp [lastComp, List.getLastD_eq_getLast?]

theorem flatDeclared_flat (rad : Bool) (b : Binding) : flatDeclared (b.flat rad) = b.cli rad := by
  show ((b.anc ++ [b.key]).map (transform rad),
      List.filter (fun a => a.length == ((b.anc ++ [b.key]).map (transform rad)).length)
      ((if (b.isDefault && !b.anc.isEmpty) = true then [b.anc.map (transform rad)] else []) ++
        b.aliases.map (fun a => (b.anc ++ [a]).map (transform rad)))) = _
  have h1 : (if (b.isDefault && !b.anc.isEmpty) = true then [b.anc.map (transform rad)] else []).filter
      (fun a => a.length == ((b.anc ++ [b.key]).map (transform rad)).length) = [] := by
    split <;> simp
  have h2 : (b.aliases.map (fun a => (b.anc ++ [a]).map (transform rad))).filter
      (fun a => a.length == ((b.anc ++ [b.key]).map (transform rad)).length) =
        b.aliases.map (fun a => (b.anc ++ [a]).map (transform rad)) := by
    apply List.filter_eq_self.mpr
    intro a ha
    obtain ⟨x, _, rfl⟩ := List.mem_map.mp ha
    simp
  rw [List.filter_append, h1, h2]; rfl

theorem nested_cli (rad : Bool) (b : Binding) : (b.nested rad).cli = b.cli rad := by
  simp [Binding.nested, NLine.cli, Binding.cli, Binding.cliName, Binding.cliAliases, List.map_map]

theorem cli_leaf (rad : Bool) (b : Binding) : (b.cli rad).leaf = normRecord rad (b.key, b.aliases) := by
  simp only [Entry.leaf, Binding.cli, Binding.cliName, Binding.cliAliases, normRecord, List.map_append,
    List.map_cons, List.map_nil, lastComp_concat, List.map_map]
  congr 1
  apply List.map_congr_left
  intro a _
  simp [lastComp_concat]

/-- C10 `listings_agree`: for EVERY tree the flat listing (declared aliases), the task lines of the
    nested listing and - spelled as the root spells them - the task records of the JSON listing carry,
    position by position, the same (dotted name, aliases) pairs; the JSON records their last components. -/
theorem listings_agree_all (c : Coll) :
    (flatListing c).map flatDeclared = (bindings c []).map (Binding.cli c.autoDash) ∧
    ((nestedListing c).filter NLine.isTask).map NLine.cli = (bindings c []).map (Binding.cli c.autoDash) ∧
    (jsonTasks (serialized c)).map (normRecord c.autoDash) =
      ((bindings c []).map (Binding.cli c.autoDash)).map Entry.leaf := by
  refine ⟨?_, ?_, ?_⟩
  · rw [flatListing, flat_eq_bindings, List.map_map]
    exact List.map_congr_left (fun b _ => flatDeclared_flat _ b)
  · rw [nestedListing, nested_eq_bindings, List.map_map]
    exact List.map_congr_left (fun b _ => nested_cli _ b)
  · rw [json_eq_bindings c [], List.map_map, List.map_map]
    exact List.map_congr_left (fun b _ => (cli_leaf _ b).symm)

/-- C10 `listing_once`: in EVERY well-formed tree the names shown by the flat listing are exactly the
    primary names of `task_names`, in order, and they are pairwise distinct: every task appears exactly
    once under its primary name. -/
theorem flat_names_once (c : Coll) (hW : wf c = true) :
    (flatListing c).map (·.1) = primaries c ∧ (primaries c).Nodup ∧
    ∀ e ∈ taskNames c, ((flatListing c).map (·.1)).count e.1 = 1 := by
  have hn : (flatListing c).map (·.1) = primaries c := by
    rw [flatListing, flat_eq_bindings, List.map_map, ← bindings_names_eq_primaries c hW]
    exact List.map_congr_left (fun b _ => rfl)
  have hd := primaries_nodup c hW
  refine ⟨hn, hd, ?_⟩
  intro e he
  rw [hn]
  exact count_eq_one_of_nodup _ hd _ (List.mem_map.mpr ⟨e, he, rfl⟩)

/-- the flat listing before the repair "listings show names as normalized by the top-level collection":
    each binding under the raw binding names on its path -/
def flatNamesPinned (c : Coll) : List (List CName) := (bindings c []).map (fun b => b.anc ++ [b.key])

/-! ### the behaviour before the repairs (for the counterexample theorems) -/

def shallowKeep (ours : KVs) (kv : Key × Val) : Key × Val :=
  match Inv.lookup kv.1 ours with
  | some v' => (kv.1, v')
  | none => kv

def shallowNew (inner : KVs) (kv : Key × Val) : Bool := (Inv.lookup kv.1 inner).isNone

/-- `dict(config, **ours)`: what `_task_with_merged_config` did before the repair (top-level keys only) -/
def shallowMerge (inner ours : KVs) : KVs := inner.map (shallowKeep ours) ++ ours.filter (shallowNew inner)

/-- the empty-name branch of `task_with_config` before the repair: `return self[self.default], ours` -
    the task found through the default, but only THIS collection's settings -/
def twcEmptyPinned (c : Coll) : Except LErr (Nat × KVs) :=
  match c.default with
  | none => .error .value
  | some d =>
    match c.twc (splitOnDot d) with
    | .ok (t, _) => .ok (t, c.cfg)
    | .error e => .error e

/-- leaf at a key path of a lookup result (`none` when the lookup fails) -/
def leafOf (r : Except LErr (Nat × KVs)) (kp : List Key) : Option Leaf :=
  match r with
  | .ok (_, cfg) => getLeaf kp cfg
  | .error _ => none

def taskOf (r : Except LErr (Nat × KVs)) : Option Nat :=
  match r with
  | .ok (t, _) => some t
  | .error _ => none

/-- `task_names` before commit "aliases given to add_task are accepted": only the task's own aliases.
    (modelled on a tree whose lexicon aliases are all `add_task` aliases: nothing is listed) -/
def acceptedOwnOnly (c : Coll) : List (List CName) := (taskNames c).map (·.1)

end Coll
end Inv
