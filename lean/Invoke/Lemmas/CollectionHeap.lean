import Invoke.Lemmas.Collection
import Invoke.Lemmas.Hist
/-! Lemmas about the object model of `copy_dict` / `merge_dicts` (`OVal`, end of `Model/Collection.lean`)
    for C17's freshness clause: every dict object in the result of a merge is an object of the base or
    was allocated by the call (`mergeV_addrs`, `mergeL_addrs`, `buildAlong_fresh`), and the object model
    computes exactly the value model (`mergeL_erase`: `merge_dicts` on values; `buildAlong_erase`: the
    fold `Coll.mergeAlong` of C17's headline theorem).  Core Lean only. -/
namespace Inv
namespace OVal

/-! ### addresses -/

theorem addrs_lookupO {k : Key} {base : OKVs} {o : OVal} (h : lookupO k base = some o) :
    ∀ a ∈ addrs o, a ∈ addrsL base := by
  induction base with
  | nil => simp [lookupO] at h
  | cons hd tl ih =>
    obtain ⟨k', v'⟩ := hd
    intro a ha
    by_cases hk : k = k'
    · simp [lookupO, hk] at h; subst h
      simp only [addrsL, List.mem_append]; exact Or.inl ha
    · simp only [lookupO, hk, if_false] at h
      simp only [addrsL, List.mem_append]; exact Or.inr (ih h a ha)

theorem addrsL_insertO (k : Key) (v : OVal) (base : OKVs) :
    ∀ a ∈ addrsL (insertO k v base), a ∈ addrs v ∨ a ∈ addrsL base := by
  induction base with
  | nil => intro a ha; simp [insertO, addrsL] at ha; exact Or.inl ha
  | cons hd tl ih =>
    obtain ⟨k', v'⟩ := hd
    intro a ha
    by_cases hk : k = k'
    · simp only [insertO, hk, if_true, addrsL, List.mem_append] at ha ⊢
      rcases ha with h | h
      · exact Or.inl h
      · exact Or.inr (Or.inr h)
    · simp only [insertO, hk, if_false, addrsL, List.mem_append] at ha ⊢
      rcases ha with h | h
      · exact Or.inr (Or.inl h)
      · rcases ih a h with h' | h'
        · exact Or.inl h'
        · exact Or.inr (Or.inr h')

def oldAddrs : Option OVal → List Nat
  | some o => addrs o
  | none => []

mutual
/-- every dict object in the new value of a key is either an object the base already had, or was
    allocated by this call -/
theorem mergeV_addrs : ∀ (v : OVal) (n : Nat) (old : Option OVal) (w : OVal × Nat), mergeV n old v = some w →
    n ≤ w.2 ∧ ∀ a ∈ addrs w.1, a ∈ oldAddrs old ∨ (n ≤ a ∧ a < w.2)
  | .leaf l, n, old, w, h => by
    cases old with
    | none => simp [mergeV] at h; subst h; simp [addrs]
    | some o =>
      cases o with
      | leaf _ => simp [mergeV] at h; subst h; simp [addrs]
      | dict _ _ => simp [mergeV] at h
  | .dict x u, n, old, w, h => by
    cases old with
    | none =>
      simp only [mergeV] at h
      cases hm : mergeL (n + 1) [] u with
      | none => simp [hm] at h
      | some r =>
        simp [hm] at h; subst h
        obtain ⟨h1, h2⟩ := mergeL_addrs u (n + 1) [] r hm
        refine ⟨by simp only; omega, ?_⟩
        intro a ha
        simp only [addrs, List.mem_cons] at ha
        right
        rcases ha with rfl | ha
        · simp only; omega
        · rcases h2 a ha with h' | h'
          · simp [addrsL] at h'
          · simp only; omega
    | some o =>
      cases o with
      | leaf _ => simp [mergeV] at h
      | dict b bk =>
        simp only [mergeV] at h
        cases hm : mergeL n bk u with
        | none => simp [hm] at h
        | some r =>
          simp [hm] at h; subst h
          obtain ⟨h1, h2⟩ := mergeL_addrs u n bk r hm
          refine ⟨h1, ?_⟩
          intro a ha
          simp only [addrs, List.mem_cons] at ha
          rcases ha with rfl | ha
          · left; simp [oldAddrs, addrs]
          · rcases h2 a ha with h' | h'
            · left; simp only [oldAddrs, addrs, List.mem_cons]; exact Or.inr h'
            · right; exact h'
theorem mergeL_addrs : ∀ (upd : OKVs) (n : Nat) (base : OKVs) (w : OKVs × Nat), mergeL n base upd = some w →
    n ≤ w.2 ∧ ∀ a ∈ addrsL w.1, a ∈ addrsL base ∨ (n ≤ a ∧ a < w.2)
  | [], n, base, w, h => by
    simp [mergeL] at h; subst h; exact ⟨Nat.le_refl _, fun a ha => Or.inl ha⟩
  | (k, v) :: r, n, base, w, h => by
    simp only [mergeL] at h
    cases hv : mergeV n (lookupO k base) v with
    | none => simp [hv] at h
    | some w1 =>
      simp only [hv] at h
      obtain ⟨h1, h2⟩ := mergeV_addrs v n (lookupO k base) w1 hv
      obtain ⟨h3, h4⟩ := mergeL_addrs r w1.2 (insertO k w1.1 base) w h
      refine ⟨Nat.le_trans h1 h3, ?_⟩
      intro a ha
      rcases h4 a ha with h' | h'
      · rcases addrsL_insertO k w1.1 base a h' with h'' | h''
        · rcases h2 a h'' with h5 | h5
          · left
            cases hl : lookupO k base with
            | none => simp [hl, oldAddrs] at h5
            | some o => rw [hl] at h5; exact addrs_lookupO hl a h5
          · right; omega
        · exact Or.inl h''
      · right; omega
end

/-- C17 `configuration_fresh` (object model): whatever the stored configuration objects on the path
    are, every dict object reachable from the mapping `task_with_config` returns was allocated during
    the call (its address is at or above the allocation counter `n₀` at the start of the call) -/
theorem buildAlong_fresh : ∀ (cfgs : List OVal) (n₀ : Nat) (r : OVal × Nat), buildAlong n₀ cfgs = some r →
    n₀ ≤ r.2 ∧ ∀ a ∈ addrs r.1, n₀ ≤ a ∧ a < r.2
  | [], _, _, h => by simp [buildAlong] at h
  | [x], n₀, r, h => by
    simp only [buildAlong, copyO] at h
    obtain ⟨h1, h2⟩ := mergeV_addrs x n₀ none r h
    refine ⟨h1, ?_⟩
    intro a ha
    rcases h2 a ha with h' | h'
    · simp [oldAddrs] at h'
    · exact h'
  | outer :: y :: rest, n₀, r, h => by
    simp only [buildAlong] at h
    cases hb : buildAlong n₀ (y :: rest) with
    | none => simp [hb] at h
    | some r1 =>
      simp only [hb] at h
      cases hc : copyO r1.2 outer with
      | none => simp [hc] at h
      | some ours =>
        simp only [hc] at h
        obtain ⟨i1, i2⟩ := buildAlong_fresh (y :: rest) n₀ r1 hb
        obtain ⟨c1, _⟩ := mergeV_addrs outer r1.2 none ours hc
        obtain ⟨m1, m2⟩ := mergeV_addrs ours.1 ours.2 (some r1.1) r h
        refine ⟨by omega, ?_⟩
        intro a ha
        rcases m2 a ha with h' | h'
        · have := i2 a h'; omega
        · omega

theorem lookup_eraseL (k : Key) (b : OKVs) : Inv.lookup k (eraseL b) = (lookupO k b).map erase := by
  induction b with
  | nil => rfl
  | cons hd tl ih =>
    obtain ⟨k', v⟩ := hd
    by_cases hk : k = k' <;> simp [eraseL, Inv.lookup, lookupO, hk, ih]

theorem eraseL_insertO (k : Key) (v : OVal) (b : OKVs) :
    eraseL (insertO k v b) = Inv.insert k (erase v) (eraseL b) := by
  induction b with
  | nil => rfl
  | cons hd tl ih =>
    obtain ⟨k', v'⟩ := hd
    by_cases hk : k = k' <;> simp [eraseL, Inv.insert, insertO, hk, ih]

/-- what the object-level merge computes, seen as values, is `merge_dicts` on values -/
def Agrees (r : Option (OKVs × Nat)) (e : Except CErr KVs) : Prop :=
  match r with
  | some w => e = .ok (eraseL w.1)
  | none => ∃ x, e = .error x

theorem mergeL_erase : ∀ (upd : OKVs) (n : Nat) (base : OKVs),
    Agrees (mergeL n base upd) (mergeKVs (eraseL base) (eraseL upd))
  | [], n, base => by simp [mergeL, eraseL, Agrees, mergeKVs.eq_1]
  | (k, .leaf l) :: r, n, base => by
    simp only [mergeL, eraseL, erase]
    cases ho : lookupO k base with
    | none =>
      have hl : Inv.lookup k (eraseL base) = none := by rw [lookup_eraseL, ho]; rfl
      rw [mergeKVs.eq_7 _ _ _ _ hl]
      simp only [mergeV]
      have := mergeL_erase r n (insertO k (.leaf l) base)
      rw [eraseL_insertO] at this
      exact this
    | some o =>
      cases o with
      | leaf l' =>
        have hl : Inv.lookup k (eraseL base) = some (.leaf l') := by rw [lookup_eraseL, ho]; rfl
        rw [mergeKVs.eq_5 _ _ _ _ _ hl]
        simp only [mergeV]
        have := mergeL_erase r n (insertO k (.leaf l) base)
        rw [eraseL_insertO] at this
        exact this
      | dict b bk =>
        have hl : Inv.lookup k (eraseL base) = some (.dict (eraseL bk)) := by rw [lookup_eraseL, ho]; rfl
        rw [mergeKVs.eq_3 _ _ _ _ _ hl]
        simp only [mergeV]
        exact ⟨_, rfl⟩
  | (k, .dict x u) :: r, n, base => by
    simp only [mergeL, eraseL, erase]
    cases ho : lookupO k base with
    | none =>
      have hl : Inv.lookup k (eraseL base) = none := by rw [lookup_eraseL, ho]; rfl
      rw [mergeKVs.eq_6 _ _ _ _ hl]
      simp only [mergeV]
      have hu := mergeL_erase u (n + 1) []
      simp only [eraseL] at hu
      cases hm : mergeL (n + 1) [] u with
      | none =>
        rw [hm] at hu
        obtain ⟨e, he⟩ := hu
        simp only [Option.map_none, he, Except.map]
        exact ⟨_, rfl⟩
      | some w =>
        rw [hm] at hu
        simp only [Agrees] at hu
        simp only [Option.map_some, hu, Except.map]
        have := mergeL_erase r w.2 (insertO k (.dict n w.1) base)
        rw [eraseL_insertO] at this
        exact this
    | some o =>
      cases o with
      | leaf l' =>
        have hl : Inv.lookup k (eraseL base) = some (.leaf l') := by rw [lookup_eraseL, ho]; rfl
        rw [mergeKVs.eq_4 _ _ _ _ _ hl]
        simp only [mergeV]
        exact ⟨_, rfl⟩
      | dict b bk =>
        have hl : Inv.lookup k (eraseL base) = some (.dict (eraseL bk)) := by rw [lookup_eraseL, ho]; rfl
        rw [mergeKVs.eq_2 _ _ _ _ _ hl]
        simp only [mergeV]
        have hu := mergeL_erase u n bk
        cases hm : mergeL n bk u with
        | none =>
          rw [hm] at hu
          obtain ⟨e, he⟩ := hu
          simp only [Option.map_none, he, Except.map]
          exact ⟨_, rfl⟩
        | some w =>
          rw [hm] at hu
          simp only [Agrees] at hu
          simp only [Option.map_some, hu, Except.map]
          have := mergeL_erase r w.2 (insertO k (.dict b w.1) base)
          rw [eraseL_insertO] at this
          exact this

/-- the settings a (top-level) configuration object stands for -/
def cfgOf : OVal → KVs
  | .dict _ kvs => eraseL kvs
  | .leaf _ => []

/-- a stored configuration: a dict object whose value is a well-formed dict -/
def IsCfg (x : OVal) : Prop := ∃ a kvs, x = .dict a kvs ∧ WF (eraseL kvs)

/-- `copy_dict` of a stored configuration succeeds, yields a dict object, and the copy has the same value -/
theorem copyO_cfg {x : OVal} (hx : IsCfg x) (n : Nat) :
    ∃ kvs' n', copyO n x = some (.dict n kvs', n') ∧ eraseL kvs' = cfgOf x := by
  obtain ⟨a, kvs, rfl, hw⟩ := hx
  simp only [copyO, mergeV, cfgOf]
  have h := mergeL_erase kvs (n + 1) []
  simp only [eraseL] at h
  have hc : mergeKVs [] (eraseL kvs) = .ok (eraseL kvs) := Hist.copyDict_id hw
  rw [hc] at h
  cases hm : mergeL (n + 1) [] kvs with
  | none => rw [hm] at h; obtain ⟨e, he⟩ := h; cases he
  | some w =>
    rw [hm] at h
    simp only [Agrees, Except.ok.injEq] at h
    exact ⟨w.1, w.2, rfl, h.symm⟩

/-- the object model computes the value model: building the result from the stored configuration
    objects along the path gives a dict object whose value is the fold of `merge_dicts` along the path
    (`Coll.mergeAlong`, the right-hand side of C17's headline theorem), and fails exactly when that fails -/
theorem buildAlong_erase : ∀ (cfgs : List OVal) (n : Nat), (∀ x ∈ cfgs, IsCfg x) → cfgs ≠ [] →
    match buildAlong n cfgs with
    | some r => (∃ a kvs, r.1 = .dict a kvs) ∧ Coll.mergeAlong (cfgs.map cfgOf) = .ok (cfgOf r.1)
    | none => Coll.mergeAlong (cfgs.map cfgOf) = .error .ambiguous
  | [], _, _, hne => absurd rfl hne
  | [x], n, hc, _ => by
    obtain ⟨kvs', n', h1, h2⟩ := copyO_cfg (hc x (by simp)) n
    simp only [buildAlong, h1, List.map_cons, List.map_nil, Coll.mergeAlong]
    refine ⟨⟨_, _, rfl⟩, ?_⟩
    show _ = Except.ok (eraseL kvs')
    rw [h2]
  | outer :: y :: rest, n, hc, _ => by
    have ih := buildAlong_erase (y :: rest) n (fun x hx => hc x (List.mem_cons_of_mem _ hx)) (by simp)
    simp only [buildAlong, List.map_cons, Coll.mergeAlong]
    cases hb : buildAlong n (y :: rest) with
    | none =>
      rw [hb] at ih
      simp only [List.map_cons] at ih
      simp only [ih]
    | some r1 =>
      rw [hb] at ih
      simp only [List.map_cons] at ih
      obtain ⟨⟨b, bk, hr1⟩, hin⟩ := ih
      obtain ⟨kvs', n', h1, h2⟩ := copyO_cfg (hc outer (by simp)) r1.2
      have hin' : Coll.mergeAlong (cfgOf y :: List.map cfgOf rest) = .ok (eraseL bk) := by
        rw [hin, hr1]; rfl
      simp only [h1, hin', hr1, mergeV]
      have hm := mergeL_erase kvs' n' bk
      rw [h2] at hm
      cases hl : mergeL n' bk kvs' with
      | none =>
        rw [hl] at hm
        obtain ⟨e, he⟩ := hm
        simp only [Option.map_none, he]
      | some w =>
        rw [hl] at hm
        simp only [Agrees] at hm
        simp only [Option.map_some, hm]
        exact ⟨⟨_, _, rfl⟩, rfl⟩

/-- what a SHALLOW copy (`dict(stored)`) would be: a new top-level object holding the very same nested objects -/
def shallowCopyO (n : Nat) : OVal → OVal
  | .dict _ kvs => .dict n kvs
  | .leaf l => .leaf l

end OVal
end Inv
