import Invoke.Model.CollectionOps
import Invoke.Lemmas.Collection
/-! Lemmas about histories on one namespace tree (`Model/CollectionOps.lean`, C17): the trace semantics
    splits at any point into "apply the mutations so far, then go on" (`runHist_append`), updating the
    collection at an address is a `graft` (`updAt_eq_graft`), hence invisible to lookups that do not
    pass through that address, and the collection found at the address afterwards is the updated one. -/
namespace Inv
namespace Coll

theorem applyOps_nil (c : Coll) : applyOps [] c = c := rfl

theorem applyOps_cons (o : TreeOp) (ops : List TreeOp) (c : Coll) : applyOps (o :: ops) c = applyOps ops (o.apply c) := rfl

theorem opsOf_nil : opsOf [] = [] := rfl

theorem opsOf_op (o : TreeOp) (r : List HStep) : opsOf (.op o :: r) = o :: opsOf r := rfl

theorem opsOf_look (a n : List CName) (r : List HStep) : opsOf (.look a n :: r) = opsOf r := rfl

theorem opsOf_append (a b : List HStep) : opsOf (a ++ b) = opsOf a ++ opsOf b := by
  simp [opsOf, List.filterMap_append]

/-- a history splits anywhere: the answers of the second part are those of a history started on the tree
    produced by the mutations of the first part (the lookups of the first part leave no trace) -/
theorem runHist_append (pre post : List HStep) : ∀ c : Coll,
    runHist c (pre ++ post) = runHist c pre ++ runHist (applyOps (opsOf pre) c) post := by
  induction pre with
  | nil => intro c; simp [runHist, opsOf_nil, applyOps_nil]
  | cons s r ih =>
    intro c
    cases s with
    | op o => simp only [List.cons_append, runHist, opsOf_op, applyOps_cons]; exact ih (o.apply c)
    | look a n => simp only [List.cons_append, runHist, opsOf_look, List.cons.injEq, true_and]; exact ih c

theorem setKid_eq_replaceKid (k : CName) (new : Coll) (cs : List (CName × Coll)) :
    setKid k new cs = replaceKid k new cs := by
  induction cs with
  | nil => rfl
  | cons hd tl ih => obtain ⟨k', c⟩ := hd; simp only [setKid, replaceKid, ih]

theorem subAt_cons (k : CName) (addr : List CName) (nm ad ts als cs d cfg) :
    subAt (k :: addr) (.mk nm ad ts als cs d cfg) =
      match assoc k cs with | some s => subAt addr s | none => none := rfl

/-- updating the collection at an existing address is grafting the updated collection there -/
theorem updAt_eq_graft (f : Coll → Coll) (addr : List CName) : ∀ (c sub : Coll), subAt addr c = some sub →
    updAt f addr c = graft addr (f sub) c := by
  induction addr with
  | nil => intro c sub h; simp only [subAt, Option.some.injEq] at h; subst h; rfl
  | cons k addr ih =>
    intro c sub h
    cases c with
    | mk nm ad ts als cs d cfg =>
      rw [subAt_cons] at h
      cases ha : assoc k cs with
      | none => simp [ha] at h
      | some s =>
        simp only [ha] at h
        simp only [updAt, graft, colls, ha, setKids, setKid_eq_replaceKid, ih s sub h]

/-- … and a no-op when the address does not exist -/
theorem updAt_none (f : Coll → Coll) (addr : List CName) : ∀ (c : Coll), subAt addr c = none → updAt f addr c = c := by
  induction addr with
  | nil => intro c h; simp [subAt] at h
  | cons k addr ih =>
    intro c h
    cases c with
    | mk nm ad ts als cs d cfg =>
      rw [subAt_cons] at h
      cases ha : assoc k cs with
      | none => simp only [updAt, ha]
      | some s =>
        simp only [ha] at h
        have hs := ih s h
        simp only [updAt, ha, hs]
        congr 1
        clear ih h hs
        induction cs with
        | nil => rfl
        | cons hd tl iht =>
          obtain ⟨k', c'⟩ := hd
          by_cases hk : k = k'
          · subst hk
            simp only [assoc, if_true, Option.some.injEq] at ha
            subst ha
            simp [setKid]
          · simp only [assoc, hk, if_false] at ha
            simp [setKid, hk, iht ha]

/-- a lookup that does not pass through `addr` does not notice ANY update made there -/
theorem updAt_off_path (f : Coll → Coll) (addr : List CName) (c : Coll) (p : List CName)
    (h : visits addr c p = false) : (updAt f addr c).twc p = c.twc p := by
  cases hs : subAt addr c with
  | none => rw [updAt_none f addr c hs]
  | some sub => rw [updAt_eq_graft f addr c sub hs]; exact graft_off_path addr (f sub) c p h

/-- the collection found at `addr` after the update is the updated one -/
theorem subAt_updAt (f : Coll → Coll) (addr : List CName) : ∀ (c sub : Coll), subAt addr c = some sub →
    subAt addr (updAt f addr c) = some (f sub) := by
  induction addr with
  | nil => intro c sub h; simp only [subAt, Option.some.injEq] at h; subst h; rfl
  | cons k addr ih =>
    intro c sub h
    cases c with
    | mk nm ad ts als cs d cfg =>
      rw [subAt_cons] at h
      cases ha : assoc k cs with
      | none => simp [ha] at h
      | some s =>
        simp only [ha] at h
        simp only [updAt, ha, subAt_cons, setKid_eq_replaceKid, assoc_replaceKid_self _ _ ha]
        exact ih s sub h

theorem cfg_configureHere (opts : KVs) (s : Coll) (m : KVs) (h : mergeKVs s.cfg opts = .ok m) :
    (configureHere opts s).cfg = m := by
  cases s with
  | mk nm ad ts als cs d cfg =>
    simp only [Coll.cfg] at h
    simp only [configureHere, h, Coll.cfg]

end Coll
end Inv
