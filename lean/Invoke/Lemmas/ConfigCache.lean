import Invoke.Model.ConfigCache
import Invoke.Lemmas.ConfigHeap
/-! The cached model's abstraction: materialising a tree as fresh dict objects and reading the object
    graph back gives the tree (`read_mat`), so after every `merge()` the cache reachable from the root
    IS `Cfg.view` (`rebuild_synced`); local writes through proxies keep the heap closed. -/
namespace Inv.Cache
open Inv Inv.Heap

/-- the tree is shallow enough for `g` units of read / materialisation fuel -/
def fitsEntries (p : KVs → Bool) : KVs → Bool
  | [] => true
  | (_, .leaf _) :: rest => fitsEntries p rest
  | (_, .dict t) :: rest => p t && fitsEntries p rest

def fits : Nat → KVs → Bool
  | 0, _ => false
  | g + 1, t => fitsEntries (fits g) t

theorem readEntries_congr {rd rd' : Nat → KVs} (d : HDict) (h : ∀ k b, (k, HVal.ref b) ∈ d → rd b = rd' b) :
    readEntries rd d = readEntries rd' d := by
  induction d with
  | nil => rfl
  | cons e rest ih =>
    obtain ⟨k, v⟩ := e
    cases v with
    | leaf x => simp only [readEntries]; rw [ih (fun k' b hm => h k' b (List.mem_cons_of_mem _ hm))]
    | ref a =>
      simp only [readEntries]
      rw [h k a (List.mem_cons_self ..), ih (fun k' b hm => h k' b (List.mem_cons_of_mem _ hm))]

/-- reading below the old size of a closed heap does not see later allocations -/
theorem readObj_append (g : Nat) : ∀ {h ext : Heap} {a : Nat}, Closed h → a < h.length →
    readObj g (h ++ ext) a = readObj g h a := by
  induction g with
  | zero => intro h ext a _ _; rfl
  | succ g ih =>
    intro h ext a hc ha
    simp only [readObj, cellAt_append_left ha]
    exact readEntries_congr _ (fun k b hm => ih hc (hc a k b hm))

theorem closed_alloc {h : Heap} {d : HDict} (hc : Closed h) (hd : ∀ k b, (k, HVal.ref b) ∈ d → b < h.length + 1) :
    Closed (alloc h d).1 := by
  intro a k b hm
  have hl : (alloc h d).1.length = h.length + 1 := by simp [alloc]
  rw [hl]
  by_cases ha : a < h.length
  · rw [show (alloc h d).1 = h ++ [⟨.own, d⟩] from rfl, cellAt_append_left ha] at hm
    exact Nat.lt_succ_of_lt (hc a k b hm)
  · by_cases he : a = h.length
    · rw [he] at hm; simp [alloc, cellAt] at hm; exact hd k b hm
    · have : (alloc h d).1.length ≤ a := by rw [hl]; omega
      rw [cellAt_ge this] at hm; simp at hm

/-- what a materialising function guarantees (for trees satisfying `P`) -/
def MvSpec (mv : Heap → KVs → Heap × Nat) (P : KVs → Bool) : Prop :=
  ∀ h t, Closed h → P t = true →
    (∃ ext, (mv h t).1 = h ++ ext) ∧ Closed (mv h t).1 ∧ (mv h t).2 < (mv h t).1.length ∧
    ∀ g, fits g t = true → readObj g (mv h t).1 (mv h t).2 = t

theorem matEntries_spec {mv : Heap → KVs → Heap × Nat} {P : KVs → Bool} (hmv : MvSpec mv P) (t : KVs) :
    ∀ h, Closed h → fitsEntries P t = true →
      (∃ ext, (matEntries mv h t).1 = h ++ ext) ∧ Closed (matEntries mv h t).1 ∧
      (∀ k b, (k, HVal.ref b) ∈ (matEntries mv h t).2 → b < (matEntries mv h t).1.length) ∧
      ∀ g, fitsEntries (fits g) t = true → ∀ ext', readEntries (readObj g ((matEntries mv h t).1 ++ ext')) (matEntries mv h t).2 = t := by
  induction t with
  | nil =>
    intro h hc _
    exact ⟨⟨[], by simp [matEntries]⟩, hc, by intro k b hm; simp [matEntries] at hm, by intro g _ ext'; rfl⟩
  | cons e rest ih =>
    intro h hc hf
    obtain ⟨k, v⟩ := e
    cases v with
    | leaf x =>
      simp only [fitsEntries] at hf
      obtain ⟨⟨ext, i1⟩, i2, i3, i4⟩ := ih h hc hf
      refine ⟨⟨ext, i1⟩, i2, ?_, ?_⟩
      · intro k' b hm
        simp only [matEntries, List.mem_cons, Prod.mk.injEq] at hm
        rcases hm with hm | hm
        · cases hm.2
        · exact i3 k' b hm
      · intro g hg ext'
        simp only [fitsEntries] at hg
        simp only [matEntries, readEntries]
        rw [i4 g hg ext']
    | dict t0 =>
      simp only [fitsEntries, Bool.and_eq_true] at hf
      obtain ⟨⟨ext1, c1⟩, c2, c3, c4⟩ := hmv h t0 hc hf.1
      obtain ⟨⟨ext2, i1⟩, i2, i3, i4⟩ := ih (mv h t0).1 c2 hf.2
      have e1 : (matEntries mv h ((k, .dict t0) :: rest)).1 = (matEntries mv (mv h t0).1 rest).1 := rfl
      have e2 : (matEntries mv h ((k, .dict t0) :: rest)).2 = (k, .ref (mv h t0).2) :: (matEntries mv (mv h t0).1 rest).2 := rfl
      rw [e1, e2]
      have hlen : (mv h t0).2 < (matEntries mv (mv h t0).1 rest).1.length := by
        rw [i1]; simp; omega
      refine ⟨⟨ext1 ++ ext2, by rw [i1, c1, List.append_assoc]⟩, i2, ?_, ?_⟩
      · intro k' b hm
        simp only [List.mem_cons, Prod.mk.injEq] at hm
        rcases hm with hm | hm
        · have hb : b = (mv h t0).2 := by injection hm.2
          rw [hb]; exact hlen
        · exact i3 k' b hm
      · intro g hg ext'
        simp only [fitsEntries, Bool.and_eq_true] at hg
        simp only [readEntries]
        rw [i4 g hg.2 ext']
        have : readObj g ((matEntries mv (mv h t0).1 rest).1 ++ ext') (mv h t0).2 = t0 := by
          rw [i1, List.append_assoc, readObj_append g c2 c3]
          exact c4 g hg.1
        rw [this]

theorem matDict_spec (f : Nat) : MvSpec (matDict f) (fits f) := by
  induction f with
  | zero => intro h t _ hp; simp [fits] at hp
  | succ f ih =>
    intro h t hc hp
    simp only [fits] at hp
    obtain ⟨⟨ext, i1⟩, i2, i3, i4⟩ := matEntries_spec ih t h hc hp
    have e : matDict (f + 1) h t = alloc (matEntries (matDict f) h t).1 (matEntries (matDict f) h t).2 := rfl
    rw [e]
    refine ⟨⟨ext ++ [⟨.own, (matEntries (matDict f) h t).2⟩], ?_⟩, ?_, by simp [alloc], ?_⟩
    · show (matEntries (matDict f) h t).1 ++ _ = _
      rw [i1, List.append_assoc]
    · exact closed_alloc i2 (fun k b hm => Nat.lt_succ_of_lt (i3 k b hm))
    · intro g hg
      cases g with
      | zero => simp [fits] at hg
      | succ g =>
        simp only [fits] at hg
        simp only [readObj, alloc, cellAt, List.getElem?_append_right (Nat.le_refl _), Nat.sub_self,
          List.getElem?_cons_zero]
        exact i4 g hg [⟨.own, (matEntries (matDict f) h t).2⟩]

/-- MATERIALISE, THEN READ: the tree comes back -/
theorem read_mat (f g : Nat) (h : Heap) (t : KVs) (hc : Closed h) (hf : fits f t = true) (hg : fits g t = true) :
    readObj g (matDict f h t).1 (matDict f h t).2 = t :=
  (matDict_spec f h t hc hf).2.2.2 g hg

/-! ### the cache after `merge()` is the pure view -/

/-- the cache is in step with the levels: what is reachable from the root address reads as `Cfg.view` -/
def Synced (s : CState) : Prop := ∃ v, s.cfg.view = .ok v ∧ s.view = v

theorem rebuild_spec {s s' : CState} (hc : Closed s.heap) (h : rebuild s = .ok s') :
    s'.cfg = s.cfg ∧ ∃ v, s.cfg.view = .ok v ∧ (fits FUEL v = true → s'.view = v ∧ Closed s'.heap ∧ s'.root < s'.heap.length) := by
  unfold rebuild at h
  split at h
  · simp at h
  · rename_i v hv
    simp only [Except.ok.injEq] at h
    subst h
    refine ⟨rfl, v, hv, ?_⟩
    intro hf
    obtain ⟨_, c2, c3, c4⟩ := matDict_spec FUEL s.heap v hc hf
    exact ⟨c4 FUEL hf, c2, c3⟩

theorem rebuild_synced {s s' : CState} (hc : Closed s.heap) (h : rebuild s = .ok s')
    (hf : ∀ v, s.cfg.view = .ok v → fits FUEL v = true) : Synced s' ∧ Closed s'.heap := by
  obtain ⟨he, v, hv, hrest⟩ := rebuild_spec hc h
  obtain ⟨h1, h2, _⟩ := hrest (hf v hv)
  exact ⟨⟨v, by rw [he]; exact hv, h1⟩, h2⟩

/-! ### local writes keep the heap closed -/

theorem closed_setD {h : Heap} (hc : Closed h) (a : Nat) {d : HDict} (hd : ∀ k b, (k, HVal.ref b) ∈ d → b < h.length) :
    Closed (setD h a d) := by
  intro x k b hm
  have hlen : (setD h a d).length = h.length := by
    unfold setD; split <;> simp
  rw [hlen]
  unfold setD at hm
  split at hm
  · rename_i c hca
    by_cases hx : x = a
    · subst hx
      have hax : x < h.length := by
        rcases Nat.lt_or_ge x h.length with h1 | h1
        · exact h1
        · rw [List.getElem?_eq_none h1] at hca; cases hca
      simp [cellAt, List.getElem?_set, hax] at hm
      exact hd k b hm
    · simp only [cellAt, List.getElem?_set, Ne.symm hx, if_false] at hm
      exact hc x k b hm
  · exact hc x k b hm

theorem closed_erase {h : Heap} (hc : Closed h) (a : Nat) (k : Key) : Closed (setD h a (eraseH k (cellAt h a))) :=
  closed_setD hc a (fun k' b hm => hc a k' b (mem_eraseH hm))

theorem matVal_spec (h : Heap) (v : Val) (hc : Closed h) (hf : match v with | .leaf _ => True | .dict t => fits FUEL t = true) :
    (∃ ext, (matVal h v).1 = h ++ ext) ∧ Closed (matVal h v).1 ∧
    (∀ b, (matVal h v).2 = .ref b → b < (matVal h v).1.length) := by
  cases v with
  | leaf x => exact ⟨⟨[], by simp [matVal]⟩, hc, by intro b hb; simp [matVal] at hb⟩
  | dict t =>
    obtain ⟨c1, c2, c3, _⟩ := matDict_spec FUEL h t hc hf
    refine ⟨c1, c2, ?_⟩
    intro b hb
    simp only [matVal, HVal.ref.injEq] at hb
    rw [← hb]; exact c3

theorem closed_local_set {h : Heap} (hc : Closed h) (a : Nat) (k : Key) (v : Val)
    (hf : match v with | .leaf _ => True | .dict t => fits FUEL t = true) :
    Closed (setD (matVal h v).1 a (insertH k (matVal h v).2 (cellAt (matVal h v).1 a))) := by
  obtain ⟨_, c2, c3⟩ := matVal_spec h v hc hf
  apply closed_setD c2
  intro k' b hm
  rcases mem_insertH hm with h1 | h1
  · simp only [Prod.mk.injEq] at h1
    exact c3 b h1.2.symm
  · exact c2 a k' b h1

/-! ### the primitives of the cached model in terms of the pure ones -/

/-- every readable view of the configuration is shallow enough for the model's fuel -/
def FitsView (c : Cfg) : Prop := ∀ v, c.view = .ok v → fits FUEL v = true

def FitsVal : Val → Prop
  | .leaf _ => True
  | .dict t => fits FUEL t = true

theorem fitsVal_iff (v : Val) : FitsVal v ↔ (match v with | .leaf _ => True | .dict t => fits FUEL t = true) := by
  cases v <;> rfl

/-- a write through ANY proxy object (`a` arbitrary: current or detached) is the pure `_modify`, after which
    the rebuilt cache reads as the new pure view -/
theorem setAt_spec {s s' : CState} {a : Nat} {pre : List Key} {k : Key} {v : Val} (hc : Closed s.heap)
    (hv : FitsVal v) (h : setAt s a pre k v = .ok s') :
    ∃ c', s.cfg.modify (pre ++ [k]) v = .ok c' ∧ s'.cfg = c' ∧ (FitsView c' → Synced s' ∧ Closed s'.heap) := by
  unfold setAt at h
  simp only [] at h
  split at h
  · simp at h
  · rename_i c' hm
    refine ⟨c', hm, ?_, ?_⟩
    · exact (rebuild_spec (closed_local_set hc a k v ((fitsVal_iff v).mp hv)) h).1
    · intro hf
      exact rebuild_synced (closed_local_set hc a k v ((fitsVal_iff v).mp hv)) h hf

/-- a deletion through any proxy object, when no ancestor of the path is already marked deleted -/
theorem delAt_spec {s s' : CState} {a : Nat} {pre : List Key} {k : Key} (hc : Closed s.heap)
    (hne : leafOnWay s.cfg.dels (pre ++ [k]) = false) (h : delAt s a pre k = .ok s') :
    ∃ c', s.cfg.remove (pre ++ [k]) = .ok c' ∧ s'.cfg = c' ∧ (FitsView c' → Synced s' ∧ Closed s'.heap) := by
  unfold delAt at h
  simp only [hne, Bool.false_eq_true, if_false] at h
  split at h
  · simp at h
  · rename_i c' hm
    refine ⟨c', hm, ?_, ?_⟩
    · exact (rebuild_spec (closed_erase hc a k) h).1
    · intro hf
      exact rebuild_synced (closed_erase hc a k) h hf

theorem loadC_spec {s s' : CState} {sl : Slot} {data : KVs} (hc : Closed s.heap) (h : loadC s sl data = .ok s') :
    s'.cfg = s.cfg.set sl data ∧ (FitsView (s.cfg.set sl data) → Synced s' ∧ Closed s'.heap) := by
  unfold loadC at h
  have hc' : Closed ({ s with cfg := s.cfg.set sl data } : CState).heap := hc
  exact ⟨(rebuild_spec hc' h).1, fun hf => rebuild_synced hc' h hf⟩

theorem new_spec {c : Cfg} {s : CState} (h : CState.new c = .ok s) : s.cfg = c ∧ (FitsView c → Synced s ∧ Closed s.heap) := by
  unfold CState.new at h
  have hc : Closed ({ cfg := c } : CState).heap := by intro a k b hm; simp [cellAt] at hm
  exact ⟨(rebuild_spec hc h).1, fun hf => rebuild_synced hc h hf⟩

/-- reads leave the state alone -/
theorem applyAt_read {s s' : CState} {a : Nat} {pre : List Key} {o : Out} (k : Key)
    (h : applyAt s a pre (.getItem k) = .ok (s', o) ∨ applyAt s a pre (.getAttr k) = .ok (s', o) ∨
         applyAt s a pre (.get k) = .ok (s', o) ∨ applyAt s a pre (.contains k) = .ok (s', o) ∨
         applyAt s a pre .len = .ok (s', o) ∨ applyAt s a pre .keys = .ok (s', o) ∨ applyAt s a pre .items = .ok (s', o)) :
    s' = s := by
  unfold applyAt at h
  rcases h with h | h | h | h | h | h | h <;> simp only [] at h
  · split at h <;> simp at h; exact h.1.symm
  · split at h <;> simp at h; exact h.1.symm
  · split at h <;> simp at h <;> exact h.1.symm
  · simp at h; exact h.1.symm
  · simp at h; exact h.1.symm
  · simp at h; exact h.1.symm
  · simp at h; exact h.1.symm

end Inv.Cache
