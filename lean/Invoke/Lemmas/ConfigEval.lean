import Invoke.Lemmas.ConfigOps
/-! Unconditional unfolding rules for the nested-recursive functions (`mergeT`, `mergeKVs`, `obl`), so
    that `simp` can EVALUATE the model on concrete configurations (counterexamples, non-vacuity
    examples): use `simp [eval_simps…]` with `mergeT_cons`, `mergeKVs_cons`, `obl_cons`. -/
namespace Inv.Hist
open Inv

/-- the value `mergeT` inserts for one update entry -/
def mergeVal (old : Option Val) (v : Val) : Val :=
  match old, v with
  | some (.dict b), .dict u => .dict (mergeT b u)
  | _, .dict u => .dict (mergeT [] u)
  | _, .leaf x => .leaf x

theorem mergeT_cons (base : KVs) (k : Key) (v : Val) (rest : KVs) :
    mergeT base ((k, v) :: rest) = mergeT (insert k (mergeVal (lookup k base) v) base) rest := by
  conv => lhs; unfold mergeT
  rfl

/-- one step of `merge_dicts` -/
def mergeStep (base : KVs) (k : Key) (v : Val) : Except CErr KVs :=
  match lookup k base, v with
  | some (.dict b), .dict u => (mergeKVs b u).map fun m => insert k (.dict m) base
  | some (.dict _), .leaf _ => .error .ambiguousMerge
  | some (.leaf _), .dict _ => .error .ambiguousMerge
  | some (.leaf _), .leaf _ => .ok (insert k v base)
  | none, .dict u => (mergeKVs [] u).map fun m => insert k (.dict m) base
  | none, .leaf _ => .ok (insert k v base)

theorem mergeKVs_cons (base : KVs) (k : Key) (v : Val) (rest : KVs) :
    mergeKVs base ((k, v) :: rest) =
      (match mergeStep base k v with
       | .error e => .error e
       | .ok b' => mergeKVs b' rest) := by
  conv => lhs; unfold mergeKVs
  rfl

@[simp] theorem mergeKVs_nil (base : KVs) : mergeKVs base [] = .ok base := by unfold mergeKVs; rfl

/-- the base `obl` continues with after one mark -/
def oblStep (base : KVs) (k : Key) (v : Val) : KVs :=
  match v, lookup k base with
  | .dict d, some (.dict b) => insert k (.dict (obl b d)) base
  | .dict _, _ => base
  | .leaf _, _ => erase k base

theorem obl_cons (base : KVs) (k : Key) (v : Val) (rest : KVs) :
    obl base ((k, v) :: rest) = obl (oblStep base k v) rest := by
  conv => lhs; unfold obl
  rfl

end Inv.Hist
