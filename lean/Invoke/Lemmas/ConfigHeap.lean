import Invoke.Model.ConfigHeap
/-! Frame reasoning on the heap model (C11): every write performed by `copy_dict`, `merge_dicts`,
    `obliterate`, `excise`, the `_modify` / `_remove` walks and `Config.merge()` goes to a dict object the
    configuration owns or has just allocated (`Evo.src`: caller-held objects keep their contents), and
    the object graph produced by `copy_dict` is fresh (`Above`, `copy_fresh`). -/
namespace Inv.Heap
open Inv

/-! ### basic facts about cells -/

theorem cellAt_of_get {h : Heap} {a : Nat} {c : Cell} (hc : h[a]? = some c) : cellAt h a = c.d := by
  simp [cellAt, hc]

theorem ownerAt_of_get {h : Heap} {a : Nat} {c : Cell} (hc : h[a]? = some c) : ownerAt h a = c.owner := by
  simp [ownerAt, hc]

theorem cellAt_ge {h : Heap} {a : Nat} (ha : h.length ≤ a) : cellAt h a = [] := by
  simp [cellAt, List.getElem?_eq_none ha]

theorem get_of_lt {h : Heap} {a : Nat} (ha : a < h.length) : ∃ c, h[a]? = some c :=
  ⟨h[a], List.getElem?_eq_getElem ha⟩

/-- all references in a dict point to existing objects the configuration owns -/
def RefsOwn (h : Heap) (d : HDict) : Prop := ∀ k b, (k, HVal.ref b) ∈ d → b < h.length ∧ ownerAt h b = .own

/-- objects the configuration owns reference only objects it owns -/
def HInv (h : Heap) : Prop := ∀ (a : Nat) (c : Cell), h[a]? = some c → c.owner = Owner.own → RefsOwn h c.d

/-- how the heap may evolve: it grows, owner tags of existing objects stay, new objects are `own`, and
    objects tagged `src` (caller-held data) keep their contents -/
structure Evo (h h' : Heap) : Prop where
  len : h.length ≤ h'.length
  owner : ∀ a, a < h.length → ownerAt h' a = ownerAt h a
  src : ∀ a, a < h.length → ownerAt h a = .src → cellAt h' a = cellAt h a
  fresh : ∀ a, h.length ≤ a → a < h'.length → ownerAt h' a = .own

theorem Evo.refl (h : Heap) : Evo h h :=
  ⟨Nat.le_refl _, fun _ _ => rfl, fun _ _ _ => rfl, fun a h1 h2 => absurd h2 (Nat.not_lt.mpr h1)⟩

theorem Evo.trans {a b c : Heap} (h1 : Evo a b) (h2 : Evo b c) : Evo a c := by
  refine ⟨Nat.le_trans h1.len h2.len, ?_, ?_, ?_⟩
  · intro x hx; rw [h2.owner x (Nat.lt_of_lt_of_le hx h1.len), h1.owner x hx]
  · intro x hx hs
    rw [h2.src x (Nat.lt_of_lt_of_le hx h1.len) (by rw [h1.owner x hx]; exact hs), h1.src x hx hs]
  · intro x hx hx'
    by_cases hb : x < b.length
    · rw [h2.owner x hb]; exact h1.fresh x hx hb
    · exact h2.fresh x (Nat.not_lt.mp hb) hx'

theorem RefsOwn.mono {h h' : Heap} {d : HDict} (hr : RefsOwn h d) (he : Evo h h') : RefsOwn h' d := by
  intro k b hm
  obtain ⟨h1, h2⟩ := hr k b hm
  exact ⟨Nat.lt_of_lt_of_le h1 he.len, by rw [he.owner b h1]; exact h2⟩

theorem refsOwn_nil (h : Heap) : RefsOwn h [] := by intro k b hm; simp at hm

theorem mem_insertH {k : Key} {v : HVal} {d : HDict} {k' : Key} {v' : HVal} (hm : (k', v') ∈ insertH k v d) :
    (k', v') = (k, v) ∨ (k', v') ∈ d := by
  induction d with
  | nil => simp [insertH] at hm; exact .inl (by simp [hm])
  | cons hd tl ih =>
    obtain ⟨k2, v2⟩ := hd
    by_cases hk : k = k2
    · simp only [insertH, hk, if_true, List.mem_cons] at hm
      rcases hm with hm | hm
      · exact .inl (by rw [hm, hk])
      · exact .inr (List.mem_cons_of_mem _ hm)
    · simp only [insertH, hk, if_false, List.mem_cons] at hm
      rcases hm with hm | hm
      · exact .inr (by rw [hm]; exact List.mem_cons_self ..)
      · rcases ih hm with h1 | h1
        · exact .inl h1
        · exact .inr (List.mem_cons_of_mem _ h1)

theorem mem_eraseH {k : Key} {d : HDict} {kv : Key × HVal} (hm : kv ∈ eraseH k d) : kv ∈ d := by
  induction d with
  | nil => exact hm
  | cons hd tl ih =>
    obtain ⟨k2, v2⟩ := hd
    by_cases hk : k = k2
    · simp only [eraseH, hk, if_true] at hm; exact List.mem_cons_of_mem _ hm
    · simp only [eraseH, hk, if_false, List.mem_cons] at hm
      rcases hm with hm | hm
      · rw [hm]; exact List.mem_cons_self ..
      · exact List.mem_cons_of_mem _ (ih hm)

theorem mem_of_lookupH {k : Key} {d : HDict} {v : HVal} (h : lookupH k d = some v) : (k, v) ∈ d := by
  induction d with
  | nil => simp [lookupH] at h
  | cons hd tl ih =>
    obtain ⟨k2, v2⟩ := hd
    by_cases hk : k = k2
    · simp only [lookupH, hk, if_true, Option.some.injEq] at h
      rw [hk, h]; exact List.mem_cons_self ..
    · simp only [lookupH, hk, if_false] at h
      exact List.mem_cons_of_mem _ (ih h)

/-- a value that may be stored into an owned dict: a leaf, or a reference to an owned object -/
def ValOwn (h : Heap) : HVal → Prop
  | .leaf _ => True
  | .ref b => b < h.length ∧ ownerAt h b = .own

theorem refsOwn_insertH {h : Heap} {d : HDict} (hr : RefsOwn h d) (k : Key) {v : HVal} (hv : ValOwn h v) :
    RefsOwn h (insertH k v d) := by
  intro k' b hm
  rcases mem_insertH hm with h1 | h1
  · simp only [Prod.mk.injEq] at h1
    rw [← h1.2] at hv; exact hv
  · exact hr k' b h1

theorem refsOwn_eraseH {h : Heap} {d : HDict} (hr : RefsOwn h d) (k : Key) : RefsOwn h (eraseH k d) :=
  fun k' b hm => hr k' b (mem_eraseH hm)

theorem refsOwn_cellAt {h : Heap} (hi : HInv h) {a : Nat} (ha : a < h.length) (ho : ownerAt h a = .own) :
    RefsOwn h (cellAt h a) := by
  obtain ⟨c, hc⟩ := get_of_lt ha
  rw [cellAt_of_get hc]
  exact hi a c hc (by rw [← ownerAt_of_get hc]; exact ho)

/-! ### the two primitives -/

theorem alloc_spec {h : Heap} (hi : HInv h) {d : HDict} (hd : RefsOwn h d) :
    HInv (alloc h d).1 ∧ Evo h (alloc h d).1 ∧ (alloc h d).2 = h.length ∧
      (alloc h d).2 < (alloc h d).1.length ∧ ownerAt (alloc h d).1 (alloc h d).2 = .own := by
  have he : Evo h (h ++ [⟨.own, d⟩]) := by
    refine ⟨by simp, ?_, ?_, ?_⟩
    · intro a ha; simp [ownerAt, List.getElem?_append_left ha]
    · intro a ha _; simp [cellAt, List.getElem?_append_left ha]
    · intro a ha ha'
      have : a = h.length := by simp at ha'; omega
      subst this; simp [ownerAt]
  refine ⟨?_, he, rfl, by simp [alloc], by simp [alloc, ownerAt]⟩
  intro a c hc ho
  by_cases ha : a < h.length
  · rw [show (alloc h d).1 = h ++ [⟨.own, d⟩] from rfl, List.getElem?_append_left ha] at hc
    exact (hi a c hc ho).mono he
  · have hlen : a < (h ++ [(⟨.own, d⟩ : Cell)]).length := by
      rcases Nat.lt_or_ge a (h ++ [(⟨.own, d⟩ : Cell)]).length with h1 | h1
      · exact h1
      · rw [show (alloc h d).1 = h ++ [⟨.own, d⟩] from rfl, List.getElem?_eq_none h1] at hc; simp at hc
    have : a = h.length := by simp at hlen; omega
    subst this
    simp [alloc] at hc
    rw [← hc]; exact hd.mono he

theorem setD_spec {h : Heap} (hi : HInv h) {a : Nat} (ha : a < h.length) (ho : ownerAt h a = .own) {d : HDict}
    (hd : RefsOwn h d) : HInv (setD h a d) ∧ Evo h (setD h a d) ∧ (setD h a d).length = h.length := by
  obtain ⟨c0, hc0⟩ := get_of_lt ha
  have hco : c0.owner = .own := by rw [← ownerAt_of_get hc0]; exact ho
  have hs : setD h a d = h.set a { c0 with d := d } := by simp [setD, hc0]
  have hlen : (setD h a d).length = h.length := by rw [hs]; simp
  have hown : ∀ x, ownerAt (setD h a d) x = ownerAt h x := by
    intro x
    rw [hs]
    by_cases hx : x = a
    · have hget : h[a] = c0 := by
        have := List.getElem?_eq_getElem ha
        rw [hc0] at this; exact (Option.some.inj this).symm
      rw [hx]; simp [ownerAt, ha, hget]
    · simp [ownerAt, List.getElem?_set, Ne.symm hx]
  have he : Evo h (setD h a d) := by
    refine ⟨by rw [hlen]; exact Nat.le_refl _, fun x _ => hown x, ?_, ?_⟩
    · intro x _ hsx
      have hx : x ≠ a := by intro e; subst e; rw [ho] at hsx; cases hsx
      rw [hs]; simp [cellAt, List.getElem?_set, Ne.symm hx]
    · intro x h1 h2; rw [hlen] at h2; omega
  refine ⟨?_, he, hlen⟩
  intro x c hc hoc
  rw [hs] at hc
  by_cases hx : x = a
  · subst hx
    simp [List.getElem?_set, ha] at hc
    rw [← hc]; exact hd.mono he
  · simp [List.getElem?_set, Ne.symm hx] at hc
    exact (hi x c hc hoc).mono he

/-! ### specifications of the heap functions -/

/-- a function producing a new owned object -/
def CpSpec (cp : Heap → Nat → Heap × Nat) : Prop :=
  ∀ h a, HInv h → HInv (cp h a).1 ∧ Evo h (cp h a).1 ∧ (cp h a).2 < (cp h a).1.length ∧
    ownerAt (cp h a).1 (cp h a).2 = .own

/-- a function mutating the object graph below an owned object `b` -/
def MgSpec (mg : Heap → Nat → Nat → Heap) : Prop :=
  ∀ h b u, HInv h → b < h.length → ownerAt h b = .own → HInv (mg h b u) ∧ Evo h (mg h b u)

theorem copyEntries_spec {cp : Heap → Nat → Heap × Nat} (hcp : CpSpec cp) (ents : HDict) :
    ∀ h, HInv h → HInv (copyEntries cp h ents).1 ∧ Evo h (copyEntries cp h ents).1 ∧
      RefsOwn (copyEntries cp h ents).1 (copyEntries cp h ents).2 := by
  induction ents with
  | nil => intro h hi; exact ⟨hi, Evo.refl h, refsOwn_nil h⟩
  | cons e rest ih =>
    intro h hi
    obtain ⟨k, v⟩ := e
    cases v with
    | leaf x =>
      obtain ⟨i1, i2, i3⟩ := ih h hi
      refine ⟨i1, i2, ?_⟩
      intro k' b hm
      simp only [copyEntries, List.mem_cons, Prod.mk.injEq] at hm
      rcases hm with hm | hm
      · cases hm.2
      · exact i3 k' b hm
    | ref b0 =>
      obtain ⟨c1, c2, c3, c4⟩ := hcp h b0 hi
      obtain ⟨i1, i2, i3⟩ := ih (cp h b0).1 c1
      have e1 : (copyEntries cp h ((k, .ref b0) :: rest)).1 = (copyEntries cp (cp h b0).1 rest).1 := rfl
      rw [e1]
      refine ⟨i1, c2.trans i2, ?_⟩
      intro k' b hm
      simp only [copyEntries, List.mem_cons, Prod.mk.injEq] at hm
      rcases hm with hm | hm
      · have hb : b = (cp h b0).2 := by injection hm.2
        rw [hb]
        exact ⟨Nat.lt_of_lt_of_le c3 i2.len, by rw [i2.owner _ c3]; exact c4⟩
      · exact i3 k' b hm

theorem hcopy_spec (f : Nat) : CpSpec (hcopy f) := by
  induction f with
  | zero =>
    intro h a hi
    obtain ⟨a1, a2, _, a4, a5⟩ := alloc_spec hi (refsOwn_nil h)
    exact ⟨a1, a2, a4, a5⟩
  | succ f ih =>
    intro h a hi
    obtain ⟨i1, i2, i3⟩ := copyEntries_spec ih (cellAt h a) h hi
    obtain ⟨a1, a2, _, a4, a5⟩ := alloc_spec i1 i3
    exact ⟨a1, i2.trans a2, a4, a5⟩

theorem mergeOne_spec {mg : Heap → Nat → Nat → Heap} {cp : Heap → Nat → Heap × Nat} (hmg : MgSpec mg) (hcp : CpSpec cp)
    (h : Heap) (b : Nat) (k : Key) (v : HVal) (hi : HInv h) (hb : b < h.length) (ho : ownerAt h b = .own) :
    HInv (mergeOne mg cp h b k v) ∧ Evo h (mergeOne mg cp h b k v) := by
  cases v with
  | leaf x =>
    obtain ⟨s1, s2, _⟩ := setD_spec hi hb ho (refsOwn_insertH (refsOwn_cellAt hi hb ho) k (v := .leaf x) trivial)
    exact ⟨s1, s2⟩
  | ref uc =>
    simp only [mergeOne]
    have fallback : HInv (setD (cp h uc).1 b (insertH k (.ref (cp h uc).2) (cellAt (cp h uc).1 b))) ∧
        Evo h (setD (cp h uc).1 b (insertH k (.ref (cp h uc).2) (cellAt (cp h uc).1 b))) := by
      obtain ⟨c1, c2, c3, c4⟩ := hcp h uc hi
      have hb' : b < (cp h uc).1.length := Nat.lt_of_lt_of_le hb c2.len
      have ho' : ownerAt (cp h uc).1 b = .own := by rw [c2.owner b hb]; exact ho
      obtain ⟨s1, s2, _⟩ := setD_spec c1 hb' ho'
        (refsOwn_insertH (refsOwn_cellAt c1 hb' ho') k (v := .ref (cp h uc).2) ⟨c3, c4⟩)
      exact ⟨s1, c2.trans s2⟩
    cases hl : lookupH k (cellAt h b) with
    | none => exact fallback
    | some bv =>
      cases bv with
      | leaf y => exact fallback
      | ref bc =>
        obtain ⟨r1, r2⟩ := refsOwn_cellAt hi hb ho k bc (mem_of_lookupH hl)
        exact hmg h bc uc hi r1 r2

theorem mergeEntries_spec {mg : Heap → Nat → Nat → Heap} {cp : Heap → Nat → Heap × Nat} (hmg : MgSpec mg)
    (hcp : CpSpec cp) (b : Nat) (ents : HDict) : ∀ h, HInv h → b < h.length → ownerAt h b = .own →
      HInv (mergeEntries mg cp h b ents) ∧ Evo h (mergeEntries mg cp h b ents) := by
  induction ents with
  | nil => intro h hi _ _; exact ⟨hi, Evo.refl h⟩
  | cons e rest ih =>
    intro h hi hb ho
    obtain ⟨k, v⟩ := e
    obtain ⟨m1, m2⟩ := mergeOne_spec hmg hcp h b k v hi hb ho
    obtain ⟨i1, i2⟩ := ih _ m1 (Nat.lt_of_lt_of_le hb m2.len) (by rw [m2.owner b hb]; exact ho)
    exact ⟨i1, m2.trans i2⟩

theorem hmerge_spec (f : Nat) : MgSpec (hmerge f) := by
  induction f with
  | zero => intro h b u hi _ _; exact ⟨hi, Evo.refl h⟩
  | succ f ih => intro h b u hi hb ho; exact mergeEntries_spec ih (hcopy_spec f) b _ h hi hb ho

theorem oblOne_spec {ob : Heap → Nat → Nat → Heap} (hob : MgSpec ob)
    (h : Heap) (b : Nat) (k : Key) (v : HVal) (hi : HInv h) (hb : b < h.length) (ho : ownerAt h b = .own) :
    HInv (oblOne ob h b k v) ∧ Evo h (oblOne ob h b k v) := by
  cases v with
  | leaf x =>
    obtain ⟨s1, s2, _⟩ := setD_spec hi hb ho (refsOwn_eraseH (refsOwn_cellAt hi hb ho) k)
    exact ⟨s1, s2⟩
  | ref dd =>
    simp only [oblOne]
    cases hl : lookupH k (cellAt h b) with
    | none => exact ⟨hi, Evo.refl h⟩
    | some bv =>
      cases bv with
      | leaf y => exact ⟨hi, Evo.refl h⟩
      | ref bc =>
        obtain ⟨r1, r2⟩ := refsOwn_cellAt hi hb ho k bc (mem_of_lookupH hl)
        exact hob h bc dd hi r1 r2

theorem oblEntries_spec {ob : Heap → Nat → Nat → Heap} (hob : MgSpec ob) (b : Nat) (ents : HDict) :
    ∀ h, HInv h → b < h.length → ownerAt h b = .own →
      HInv (oblEntries ob h b ents) ∧ Evo h (oblEntries ob h b ents) := by
  induction ents with
  | nil => intro h hi _ _; exact ⟨hi, Evo.refl h⟩
  | cons e rest ih =>
    intro h hi hb ho
    obtain ⟨k, v⟩ := e
    obtain ⟨m1, m2⟩ := oblOne_spec hob h b k v hi hb ho
    obtain ⟨i1, i2⟩ := ih _ m1 (Nat.lt_of_lt_of_le hb m2.len) (by rw [m2.owner b hb]; exact ho)
    exact ⟨i1, m2.trans i2⟩

theorem hobl_spec (f : Nat) : MgSpec (hobl f) := by
  induction f with
  | zero => intro h b u hi _ _; exact ⟨hi, Evo.refl h⟩
  | succ f ih => intro h b u hi hb ho; exact oblEntries_spec ih b _ h hi hb ho

theorem hexcise_spec (p : List Key) : ∀ (h : Heap) (d : Nat), HInv h → d < h.length → ownerAt h d = .own →
    HInv (hexcise h d p) ∧ Evo h (hexcise h d p) := by
  induction p with
  | nil => intro h d hi _ _; exact ⟨hi, Evo.refl h⟩
  | cons k rest ih =>
    intro h d hi hd ho
    cases rest with
    | nil =>
      obtain ⟨s1, s2, _⟩ := setD_spec hi hd ho (refsOwn_eraseH (refsOwn_cellAt hi hd ho) k)
      exact ⟨s1, s2⟩
    | cons k2 r =>
      simp only [hexcise]
      cases hl : lookupH k (cellAt h d) with
      | none => exact ⟨hi, Evo.refl h⟩
      | some v => cases v with
        | leaf y => exact ⟨hi, Evo.refl h⟩
        | ref dd =>
          obtain ⟨r1, r2⟩ := refsOwn_cellAt hi hd ho k dd (mem_of_lookupH hl)
          exact ih h dd hi r1 r2

theorem ValOwn.mono {h h' : Heap} {v : HVal} (hv : ValOwn h v) (he : Evo h h') : ValOwn h' v := by
  cases v with
  | leaf x => trivial
  | ref b => exact ⟨Nat.lt_of_lt_of_le hv.1 he.len, by rw [he.owner b hv.1]; exact hv.2⟩

/-- allocate an empty dict and hook it into the owned dict `m` under key `k` -/
theorem hook_spec {h : Heap} (hi : HInv h) {m : Nat} (hm : m < h.length) (ho : ownerAt h m = .own) (k : Key) :
    let a := alloc h []
    let h2 := setD a.1 m (insertH k (.ref a.2) (cellAt a.1 m))
    HInv h2 ∧ Evo h h2 ∧ a.2 < h2.length ∧ ownerAt h2 a.2 = .own := by
  intro a h2
  obtain ⟨a1, a2, _, a4, a5⟩ := alloc_spec hi (refsOwn_nil h)
  have hm' : m < a.1.length := Nat.lt_of_lt_of_le hm a2.len
  have ho' : ownerAt a.1 m = .own := by rw [a2.owner m hm]; exact ho
  obtain ⟨s1, s2, s3⟩ := setD_spec a1 hm' ho' (refsOwn_insertH (refsOwn_cellAt a1 hm' ho') k (v := .ref a.2) ⟨a4, a5⟩)
  exact ⟨s1, a2.trans s2, by rw [s3]; exact a4, by rw [s2.owner _ a4]; exact a5⟩

theorem hsetPath_spec (p : List Key) : ∀ (h : Heap) (m : Nat) (v : HVal), HInv h → m < h.length →
    ownerAt h m = .own → ValOwn h v → HInv (hsetPath h m p v) ∧ Evo h (hsetPath h m p v) := by
  induction p with
  | nil => intro h m v hi _ _ _; exact ⟨hi, Evo.refl h⟩
  | cons k rest ih =>
    intro h m v hi hm ho hv
    cases rest with
    | nil =>
      obtain ⟨s1, s2, _⟩ := setD_spec hi hm ho (refsOwn_insertH (refsOwn_cellAt hi hm ho) k hv)
      exact ⟨s1, s2⟩
    | cons k2 r =>
      simp only [hsetPath]
      have fresh : HInv (hsetPath (setD (alloc h []).1 m (insertH k (.ref (alloc h []).2) (cellAt (alloc h []).1 m)))
            (alloc h []).2 (k2 :: r) v) ∧
          Evo h (hsetPath (setD (alloc h []).1 m (insertH k (.ref (alloc h []).2) (cellAt (alloc h []).1 m)))
            (alloc h []).2 (k2 :: r) v) := by
        obtain ⟨g1, g2, g3, g4⟩ := hook_spec hi hm ho k
        obtain ⟨i1, i2⟩ := ih _ _ v g1 g3 g4 (hv.mono g2)
        exact ⟨i1, g2.trans i2⟩
      cases hl : lookupH k (cellAt h m) with
      | none => exact fresh
      | some x => cases x with
        | leaf y => exact fresh
        | ref mm =>
          obtain ⟨r1, r2⟩ := refsOwn_cellAt hi hm ho k mm (mem_of_lookupH hl)
          exact ih h mm v hi r1 r2 hv

theorem hmarkDel_spec (p : List Key) : ∀ (h : Heap) (d : Nat), HInv h → d < h.length → ownerAt h d = .own →
    HInv (hmarkDel h d p) ∧ Evo h (hmarkDel h d p) := by
  induction p with
  | nil => intro h d hi _ _; exact ⟨hi, Evo.refl h⟩
  | cons k rest ih =>
    intro h d hi hd ho
    cases rest with
    | nil =>
      obtain ⟨s1, s2, _⟩ := setD_spec hi hd ho (refsOwn_insertH (refsOwn_cellAt hi hd ho) k (v := .leaf .none) trivial)
      exact ⟨s1, s2⟩
    | cons k2 r =>
      simp only [hmarkDel]
      cases hl : lookupH k (cellAt h d) with
      | none =>
        obtain ⟨g1, g2, g3, g4⟩ := hook_spec hi hd ho k
        obtain ⟨i1, i2⟩ := ih _ _ g1 g3 g4
        exact ⟨i1, g2.trans i2⟩
      | some x => cases x with
        | leaf y => exact ⟨hi, Evo.refl h⟩
        | ref dd =>
          obtain ⟨r1, r2⟩ := refsOwn_cellAt hi hd ho k dd (mem_of_lookupH hl)
          exact ih h dd hi r1 r2

/-! ### the configuration object -/

/-- the journal objects exist and are owned by the configuration -/
structure HCfg.Owned (h : Heap) (c : HCfg) : Prop where
  mods : c.mods < h.length ∧ ownerAt h c.mods = .own
  dels : c.dels < h.length ∧ ownerAt h c.dels = .own

theorem HCfg.Owned.mono {h h' : Heap} {c : HCfg} (ho : HCfg.Owned h c) (he : Evo h h') : HCfg.Owned h' c :=
  ⟨⟨Nat.lt_of_lt_of_le ho.mods.1 he.len, by rw [he.owner _ ho.mods.1]; exact ho.mods.2⟩,
   ⟨Nat.lt_of_lt_of_le ho.dels.1 he.len, by rw [he.owner _ ho.dels.1]; exact ho.dels.2⟩⟩

theorem mergeLevelsH_spec (f : Nat) (cache : Nat) (ls : List Nat) : ∀ h, HInv h → cache < h.length →
    ownerAt h cache = .own → HInv (mergeLevelsH f h cache ls) ∧ Evo h (mergeLevelsH f h cache ls) := by
  induction ls with
  | nil => intro h hi _ _; exact ⟨hi, Evo.refl h⟩
  | cons l rest ih =>
    intro h hi hc ho
    obtain ⟨m1, m2⟩ := hmerge_spec f h cache l hi hc ho
    obtain ⟨i1, i2⟩ := ih _ m1 (Nat.lt_of_lt_of_le hc m2.len) (by rw [m2.owner _ hc]; exact ho)
    exact ⟨i1, m2.trans i2⟩

theorem merge_spec (f : Nat) (h : Heap) (c : HCfg) (hi : HInv h) :
    HInv (c.merge f h).1 ∧ Evo h (c.merge f h).1 := by
  obtain ⟨a1, a2, _, a4, a5⟩ := alloc_spec hi (refsOwn_nil h)
  obtain ⟨m1, m2⟩ := mergeLevelsH_spec f (alloc h []).2 (c.levels ++ [c.mods]) _ a1 a4 a5
  obtain ⟨o1, o2⟩ := hobl_spec f _ (alloc h []).2 c.dels m1 (Nat.lt_of_lt_of_le a4 m2.len)
    (by rw [m2.owner _ a4]; exact a5)
  exact ⟨o1, (a2.trans m2).trans o2⟩

theorem modify_spec (f : Nat) (h : Heap) (c : HCfg) (p : List Key) (v : HVal) (hi : HInv h) (hc : HCfg.Owned h c)
    (hv : ValOwn h v) : HInv (c.modify f h p v).1 ∧ Evo h (c.modify f h p v).1 := by
  obtain ⟨e1, e2⟩ := hexcise_spec p h c.dels hi hc.dels.1 hc.dels.2
  have hc' := hc.mono e2
  obtain ⟨s1, s2⟩ := hsetPath_spec p _ c.mods v e1 hc'.mods.1 hc'.mods.2 (hv.mono e2)
  obtain ⟨m1, m2⟩ := merge_spec f _ c s1
  exact ⟨m1, (e2.trans s2).trans m2⟩

theorem remove_spec (f : Nat) (h : Heap) (c : HCfg) (p : List Key) (hi : HInv h) (hc : HCfg.Owned h c) :
    HInv (c.remove f h p).1 ∧ Evo h (c.remove f h p).1 := by
  obtain ⟨e1, e2⟩ := hmarkDel_spec p h c.dels hi hc.dels.1 hc.dels.2
  obtain ⟨m1, m2⟩ := merge_spec f _ c e1
  exact ⟨m1, e2.trans m2⟩

/-! ### freshness of the copy -/

/-- objects at addresses `≥ n` reference only objects at addresses `≥ n` -/
def Above (n : Nat) (h : Heap) : Prop := ∀ a, n ≤ a → ∀ k b, (k, HVal.ref b) ∈ cellAt h a → n ≤ b

theorem cellAt_append_left {h ext : Heap} {a : Nat} (ha : a < h.length) : cellAt (h ++ ext) a = cellAt h a := by
  simp [cellAt, List.getElem?_append_left ha]

theorem above_alloc {n : Nat} {h : Heap} {d : HDict} (hn : n ≤ h.length) (ha : Above n h)
    (hd : ∀ k b, (k, HVal.ref b) ∈ d → n ≤ b) : Above n (alloc h d).1 := by
  intro a hna k b hm
  by_cases hl : a < h.length
  · rw [show (alloc h d).1 = h ++ [⟨.own, d⟩] from rfl, cellAt_append_left hl] at hm
    exact ha a hna k b hm
  · by_cases he : a = h.length
    · rw [he] at hm
      simp [alloc, cellAt] at hm
      exact hd k b hm
    · have : (alloc h d).1.length ≤ a := by simp [alloc]; omega
      rw [cellAt_ge this] at hm; simp at hm

/-- a copying function only appends, and what it appends lives above any `n` below the old size -/
def CpFresh (cp : Heap → Nat → Heap × Nat) : Prop :=
  ∀ h a n, n ≤ h.length → Above n h →
    Above n (cp h a).1 ∧ h.length ≤ (cp h a).2 ∧ ∃ ext, (cp h a).1 = h ++ ext

theorem copyEntries_fresh {cp : Heap → Nat → Heap × Nat} (hcp : CpFresh cp) (ents : HDict) :
    ∀ h n, n ≤ h.length → Above n h →
      Above n (copyEntries cp h ents).1 ∧ (∀ k b, (k, HVal.ref b) ∈ (copyEntries cp h ents).2 → n ≤ b) ∧
      ∃ ext, (copyEntries cp h ents).1 = h ++ ext := by
  induction ents with
  | nil => intro h n _ ha; exact ⟨ha, by intro k b hm; simp [copyEntries] at hm, [], by simp [copyEntries]⟩
  | cons e rest ih =>
    intro h n hn ha
    obtain ⟨k, v⟩ := e
    cases v with
    | leaf x =>
      obtain ⟨i1, i2, i3⟩ := ih h n hn ha
      refine ⟨i1, ?_, i3⟩
      intro k' b hm
      simp only [copyEntries, List.mem_cons, Prod.mk.injEq] at hm
      rcases hm with hm | hm
      · cases hm.2
      · exact i2 k' b hm
    | ref b0 =>
      obtain ⟨c1, c2, ext1, c3⟩ := hcp h b0 n hn ha
      have hn' : n ≤ (cp h b0).1.length := by rw [c3]; simp; omega
      obtain ⟨i1, i2, ext2, i3⟩ := ih (cp h b0).1 n hn' c1
      have e1 : (copyEntries cp h ((k, .ref b0) :: rest)).1 = (copyEntries cp (cp h b0).1 rest).1 := rfl
      rw [e1]
      refine ⟨i1, ?_, ext1 ++ ext2, by rw [i3, c3, List.append_assoc]⟩
      intro k' b hm
      simp only [copyEntries, List.mem_cons, Prod.mk.injEq] at hm
      rcases hm with hm | hm
      · have hb : b = (cp h b0).2 := by injection hm.2
        rw [hb]; omega
      · exact i2 k' b hm

theorem hcopy_fresh (f : Nat) : CpFresh (hcopy f) := by
  induction f with
  | zero =>
    intro h a n hn ha
    exact ⟨above_alloc hn ha (by intro k b hm; simp at hm), Nat.le_refl _, [⟨.own, []⟩], rfl⟩
  | succ f ih =>
    intro h a n hn ha
    obtain ⟨i1, i2, ext, i3⟩ := copyEntries_fresh ih (cellAt h a) h n hn ha
    have hn' : n ≤ (copyEntries (hcopy f) h (cellAt h a)).1.length := by rw [i3]; simp; omega
    refine ⟨above_alloc hn' i1 i2, ?_, ext ++ [⟨.own, (copyEntries (hcopy f) h (cellAt h a)).2⟩], ?_⟩
    · show h.length ≤ (copyEntries (hcopy f) h (cellAt h a)).1.length
      rw [i3]; simp
    · show (copyEntries (hcopy f) h (cellAt h a)).1 ++ _ = _
      rw [i3, List.append_assoc]

/-- reachability through dict references -/
inductive Reach (h : Heap) : Nat → Nat → Prop
  | refl (a : Nat) : Reach h a a
  | step {a b c : Nat} {k : Key} : (k, HVal.ref b) ∈ cellAt h a → Reach h b c → Reach h a c

theorem reach_above {n : Nat} {h : Heap} (ha : Above n h) {a b : Nat} (hr : Reach h a b) (hna : n ≤ a) : n ≤ b := by
  induction hr with
  | refl a => exact hna
  | step hm _ ih => exact ih (ha _ hna _ _ hm)

/-- every reference of the heap points to an existing object -/
def Closed (h : Heap) : Prop := ∀ a k b, (k, HVal.ref b) ∈ cellAt h a → b < h.length

theorem reach_below {h ext : Heap} (hc : Closed h) {a b : Nat} (hr : Reach (h ++ ext) a b) (ha : a < h.length) :
    b < h.length := by
  induction hr with
  | refl a => exact ha
  | step hm _ ih =>
    rw [cellAt_append_left ha] at hm
    exact ih (hc _ _ _ hm)

theorem above_self (h : Heap) : Above h.length h := by
  intro a ha k b hm
  rw [cellAt_ge ha] at hm; simp at hm

end Inv.Heap
