import Invoke.Lemmas.ConfigType
/-! Path-level reading of a merge and of a stack of levels under type consistency ("the highest level
    defining the path wins"), used for `clone(into=Subclass)`. -/
namespace Inv.Hist
open Inv

/-- the first defined of two readings -/
def orE (a b : Option Node) : Option Node :=
  match a with
  | some x => some x
  | none => b

@[simp] theorem orE_some (x : Node) (b : Option Node) : orE (some x) b = some x := rfl
@[simp] theorem orE_none (b : Option Node) : orE none b = b := rfl
@[simp] theorem orE_none_right (a : Option Node) : orE a none = a := by cases a <;> rfl
theorem orE_assoc (a b c : Option Node) : orE (orE a b) c = orE a (orE b c) := by cases a <;> rfl

/-- at every key path the update level wins, otherwise the base shows through (type-consistent levels) -/
theorem node_mergeT (p : List Key) : ∀ (b u : KVs), WF u → Compat b u →
    node p (mergeT b u) = orE (node p u) (node p b) := by
  induction p with
  | nil => intro b u _ _; simp
  | cons k rest ih =>
    intro b u hu hc
    rw [node_cons, node_cons, node_cons, lookup_mergeT' k b u hu.nodup]
    cases hku : lookup k u with
    | none => simp [mergeAt]
    | some uv =>
      cases uv with
      | leaf x =>
        cases hkb : lookup k b with
        | none => simp [mergeAt]
        | some bv => cases bv with
          | leaf y => cases rest <;> simp [mergeAt]
          | dict bb => exact absurd (hc.dl hkb hku) id
      | dict uu =>
        cases hkb : lookup k b with
        | none =>
          simp only [mergeAt, nodeO_dict, nodeO_none, orE_none_right]
          rw [ih [] uu (hu.sub hku) (compat_nil _)]
          cases rest <;> simp
        | some bv => cases bv with
          | leaf y => exact absurd (hc.ld hkb hku) id
          | dict bb =>
            simp only [mergeAt, nodeO_dict]
            exact ih bb uu (hu.sub hku) (hc.dd hkb hku)

/-- reading of a stack of levels (later = higher precedence) -/
def nodeStack (p : List Key) : List KVs → Option Node
  | [] => none
  | l :: ls => orE (nodeStack p ls) (node p l)

theorem node_mergeLevelsT (p : List Key) (ls : List KVs) : ∀ acc, ChainCompat acc ls →
    node p (mergeLevelsT acc ls) = orE (nodeStack p ls) (node p acc) := by
  induction ls with
  | nil => intro acc _; simp [mergeLevelsT, nodeStack]
  | cons l rest ih =>
    intro acc h
    simp only [mergeLevelsT, nodeStack]
    rw [ih _ h.2.2, node_mergeT p acc l h.1 h.2.1, orE_assoc]

/-- the view of a type-consistent configuration, path by path: deleted if a prefix is marked, else the
    modifications, else the lower levels -/
theorem node_viewT (p : List Key) (b m d : KVs) (hb : WF b) (hm : WF m) (hd : WF d) (hc : Compat b m) :
    node p (viewT b m d) = if marked d p then none else orE (node p m) (node p b) := by
  unfold viewT
  rw [node_obl p _ d (wf_mergeT hb hm) hd, node_mergeT p b m hm hc]

theorem node_cfg_viewT (c : Cfg) (hc : TypeOK c) (p : List Key) :
    node p c.viewT = if marked c.dels p then none else orE (node p c.mods) (node p c.baseT) :=
  node_viewT p c.baseT c.mods c.dels (wf_baseT hc.lower) hc.mods hc.dels hc.base_mods

/-- the configuration `clone(into=…)` produces: the original with its defaults level merged ON TOP of
    the target class's global defaults -/
def intoCfg (c : Cfg) (into : KVs) : Cfg := { c with defaults := mergeT into c.defaults }

theorem node_baseT_into (c : Cfg) (into : KVs) (hc : TypeOK c) (hk : TypeOK (intoCfg c into))
    (hci : Compat into c.defaults) (p : List Key) :
    node p (intoCfg c into).baseT = orE (node p c.baseT) (node p into) := by
  cases p with
  | nil => simp
  | cons k rest =>
    have h1 := ((chainCompat_append c.lower c.mods []).mp hc.chain).1
    have h2 := ((chainCompat_append (intoCfg c into).lower (intoCfg c into).mods []).mp hk.chain).1
    have hwd : WF c.defaults := hc.lower _ (by simp [Cfg.lower])
    unfold Cfg.baseT
    rw [node_mergeLevelsT _ _ _ h1, node_mergeLevelsT _ _ _ h2]
    simp only [Cfg.lower, intoCfg, nodeStack, node_cons_nil, orE_none_right]
    rw [node_mergeT _ into c.defaults hwd hci]
    simp only [orE_assoc]

/-- READING OF `clone(into=Subclass)`, path by path: a path under a deletion mark stays absent;
    otherwise whatever the original reads wins, and only where the original reads nothing the
    subclass's global defaults become visible. -/
theorem node_into_viewT (c : Cfg) (into : KVs) (hc : TypeOK c) (hk : TypeOK (intoCfg c into))
    (hci : Compat into c.defaults) (p : List Key) :
    node p (intoCfg c into).viewT = if marked c.dels p then none else orE (node p c.viewT) (node p into) := by
  rw [node_cfg_viewT _ hk, node_cfg_viewT _ hc, node_baseT_into c into hc hk hci]
  simp only [intoCfg]
  by_cases hm : marked c.dels p = true
  · simp [hm]
  · simp [hm, orE_assoc]

theorem cloneWith_into (names : List String) (hall : ∀ s ∈ Cfg.dataSlots, s ∈ names) (c : Cfg) (into : KVs)
    (hc : TypeOK c) (hk : TypeOK (intoCfg c into)) (hci : Compat into c.defaults) :
    Cfg.cloneWith names c into = .ok (intoCfg c into) := by
  unfold Cfg.cloneWith
  rw [cloneSlots_complete names hall c (typeOK_get hc)]
  have hwd : WF c.defaults := typeOK_get hc .defaults
  have hv := view_eq hk
  simp only [intoCfg] at hv
  simp only [mergeKVs_eq_mergeT hwd hci, hv, intoCfg]

end Inv.Hist
