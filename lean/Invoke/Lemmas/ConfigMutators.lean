import Invoke.Lemmas.ConfigType
/-! Every DataProxy operation of the model, as the list of effective edits (`opEdits`) it performs on
    the journal: `clear` is a sequence of deletions, `update` a sequence of writes (mapping first, then
    keyword arguments), `popitem` / `pop` one deletion, `setdefault` of an absent key one write. -/
namespace Inv.Hist
open Inv

theorem jvalid_append_list (a : List Edit) : ∀ (j : Journal) (b : List Edit),
    JValid j a → JValid (journalOf j a) b → JValid j (a ++ b) := by
  induction a with
  | nil => intro j b _ h; exact h
  | cons e rest ih =>
    intro j b h hb
    cases e with
    | set p v =>
      exact ⟨h.1, h.2.1, h.2.2.1, h.2.2.2.1, ih _ b h.2.2.2.2 (by simpa [journalOf] using hb)⟩
    | del p => exact ⟨h.1, ih _ b h.2 (by simpa [journalOf] using hb)⟩

/-! ### the side condition of a write only concerns the parent path -/

theorem leafOnWay_last (q : List Key) (k1 k2 : Key) : ∀ d : KVs,
    leafOnWay d (q ++ [k1]) = leafOnWay d (q ++ [k2]) := by
  induction q with
  | nil => intro d; simp [leafOnWay]
  | cons k0 q' ih =>
    intro d
    cases q' with
    | nil => simp [leafOnWay]
    | cons a r =>
      simp only [List.cons_append, leafOnWay]
      cases lookup k0 d with
      | none => rfl
      | some v => cases v with
        | leaf x => rfl
        | dict dd => simpa using ih dd

/-- excising one key of a section from the marks keeps the parent path unmarked -/
theorem leafOnWay_erasePath_sibling (q : List Key) (k1 k2 : Key) : ∀ d : KVs, WF d →
    leafOnWay d (q ++ [k1]) = false → leafOnWay (erasePath d (q ++ [k1])) (q ++ [k2]) = false := by
  induction q with
  | nil => intro d _ _; simp [leafOnWay]
  | cons k0 q' ih =>
    intro d hd h
    simp only [List.cons_append] at h ⊢
    cases hq1 : q' ++ [k1] with
    | nil => simp at hq1
    | cons a r1 =>
      cases hq2 : q' ++ [k2] with
      | nil => simp at hq2
      | cons a' r2 =>
        rw [hq1] at h
        obtain ⟨hl, hs⟩ := (leafOnWay_cons2 d k0 a r1).mp h
        rw [leafOnWay_cons2]
        have hlk := lookup_erasePath k0 k0 (a :: r1) d hd.nodup
        simp only [if_true] at hlk
        cases hd0 : lookup k0 d with
        | none =>
          rw [hd0] at hlk
          exact ⟨by intro x; rw [hlk]; simp, by simp [subDict, hlk]⟩
        | some v =>
          cases v with
          | leaf x => exact absurd hd0 (hl x)
          | dict dd =>
            rw [hd0] at hlk
            refine ⟨by intro x; rw [hlk]; simp, ?_⟩
            rw [subDict_of_dict hlk, ← hq2, ← hq1]
            apply ih dd (hd.sub hd0)
            rw [hq1]; rw [subDict_of_dict hd0] at hs; exact hs

/-! ### sequences of writes / deletions below one section -/

def setEdits (pre : List Key) (kvs : KVs) : List Edit := kvs.map (fun kv => Edit.set (pre ++ [kv.1]) kv.2)
def delEdits (pre : List Key) (ks : List Key) : List Edit := ks.map (fun k => Edit.del (pre ++ [k]))

theorem modifyAll_journal (pre : List Key) (kvs : KVs) : ∀ (c c' : Cfg), WF c.mods → WF c.dels →
    (∀ k v, (k, v) ∈ kvs → WFV v) → (∀ k, leafOnWay c.dels (pre ++ [k]) = false) →
    c.modifyAll pre kvs = .ok c' →
      jOf c' = journalOf (jOf c) (setEdits pre kvs) ∧ c'.lower = c.lower ∧ JValid (jOf c) (setEdits pre kvs) ∧
      (∀ k, leafOnWay c'.dels (pre ++ [k]) = false) ∧ WF c'.mods ∧ WF c'.dels := by
  induction kvs with
  | nil =>
    intro c c' hm hd _ hl h
    simp only [Cfg.modifyAll, Except.ok.injEq] at h
    subst h
    exact ⟨rfl, rfl, trivial, hl, hm, hd⟩
  | cons kv rest ih =>
    intro c c' hm hd hv hl h
    obtain ⟨k, v⟩ := kv
    simp only [Cfg.modifyAll] at h
    split at h
    · simp at h
    · rename_i c1 h1
      obtain ⟨he, hmods⟩ := modify_spec h1
      have hwv : WFV v := hv k v (List.mem_cons_self ..)
      have hm1 : WF c1.mods := by rw [he]; exact wf_setPath hm _ hwv
      have hd1 : WF c1.dels := by rw [he]; exact wf_erasePath hd _
      have hl1 : ∀ k', leafOnWay c1.dels (pre ++ [k']) = false := by
        intro k'; rw [he]; exact leafOnWay_erasePath_sibling pre k k' c.dels hd (hl k)
      obtain ⟨i1, i2, i3, i4, i5, i6⟩ := ih c1 c' hm1 hd1 (fun a b hab => hv a b (List.mem_cons_of_mem _ hab)) hl1 h
      have hj1 : jOf c1 = Edit.toJournal (jOf c) (.set (pre ++ [k]) v) := by rw [he]; rfl
      refine ⟨?_, ?_, ?_, i4, i5, i6⟩
      · rw [i1, hj1]; rfl
      · rw [i2, he]; rfl
      · refine ⟨by simp, hwv, hl k, hmods, ?_⟩
        rw [← hj1]; exact i3

theorem removeAll_journal (pre : List Key) (ks : List Key) : ∀ (c c' : Cfg),
    c.removeAll pre ks = .ok c' →
      jOf c' = journalOf (jOf c) (delEdits pre ks) ∧ c'.lower = c.lower ∧ JValid (jOf c) (delEdits pre ks) := by
  induction ks with
  | nil =>
    intro c c' h
    simp only [Cfg.removeAll, Except.ok.injEq] at h
    subst h
    exact ⟨rfl, rfl, trivial⟩
  | cons k rest ih =>
    intro c c' h
    simp only [Cfg.removeAll] at h
    split at h
    · simp at h
    · rename_i c1 h1
      have he := remove_spec h1
      obtain ⟨i1, i2, i3⟩ := ih c1 c' h
      have hj1 : jOf c1 = Edit.toJournal (jOf c) (.del (pre ++ [k])) := by rw [he]; rfl
      refine ⟨?_, ?_, ?_⟩
      · rw [i1, hj1]; rfl
      · rw [i2, he]; rfl
      · refine ⟨by simp, ?_⟩
        rw [← hj1]; exact i3

/-! ### every operation as its edits -/

/-- the positional mapping of `update`, `{}` when absent -/
def posList (pos : Option KVs) : KVs := match pos with | some m => m | none => []

/-- the key `popitem` removes: the one the implementation chose, else the last one -/
def popKey (sub : KVs) (chosen : Option Key) : Option Key :=
  match chosen with | some k => some k | none => lastKey sub

/-- the effective edits of a (successful) operation at the proxy whose section is `sub`, key path `pre` -/
def opEdits (sub : KVs) (pre : List Key) : Op → List Edit
  | .setItem k v => [.set (pre ++ [k]) v]
  | .setAttr k v => [.set (pre ++ [k]) v]
  | .delItem k => [.del (pre ++ [k])]
  | .delAttr k => [.del (pre ++ [k])]
  | .pop k _ => (match lookup k sub with | some _ => [.del (pre ++ [k])] | none => [])
  | .popitem chosen => (match popKey sub chosen with | some k => [.del (pre ++ [k])] | none => [])
  | .clear => delEdits pre (keys sub)
  | .setdefault k dflt => (match lookup k sub with
      | some _ => []
      | none => [.set (pre ++ [k]) (match dflt with | some d => d | none => .leaf .none)])
  | .update pos kw => setEdits pre (posList pos) ++ setEdits pre kw
  | _ => []

/-- the values an operation writes are leaves or well-formed dicts -/
def OpWF : Op → Prop
  | .setItem _ v => WFV v
  | .setAttr _ v => WFV v
  | .setdefault _ (some d) => WFV d
  | .update pos kw => (∀ k v, (k, v) ∈ posList pos → WFV v) ∧ (∀ k v, (k, v) ∈ kw → WFV v)
  | _ => True

theorem withOut_ok {o o' : Out} {r : Except CErr Cfg} {c' : Cfg} (h : withOut o r = .ok (c', o')) : r = .ok c' := by
  unfold withOut at h
  split at h
  · simp at h
  · simp at h; rw [h.1]

theorem single_set {c c' : Cfg} (hc : TypeOK c) (path : List Step) (sub : KVs) (k : Key) (v : Val) (hv : WFV v)
    (hnav : nav c.viewT path = .ok sub) (h : c.modify (path.map Prod.fst ++ [k]) v = .ok c') :
    jOf c' = journalOf (jOf c) [.set (path.map Prod.fst ++ [k]) v] ∧ c'.lower = c.lower ∧
      JValid (jOf c) [.set (path.map Prod.fst ++ [k]) v] := by
  obtain ⟨a, b, d⟩ := modify_journal hc path sub k v hv hnav h
  exact ⟨a, b, d⟩

theorem single_del {c c' : Cfg} (p : List Key) (hp : p ≠ []) (h : c.remove p = .ok c') :
    jOf c' = journalOf (jOf c) [.del p] ∧ c'.lower = c.lower ∧ JValid (jOf c) [.del p] := by
  obtain ⟨a, b, d⟩ := remove_journal p hp h
  exact ⟨a, b, d⟩

theorem no_edit (c : Cfg) : jOf c = journalOf (jOf c) [] ∧ c.lower = c.lower ∧ JValid (jOf c) [] :=
  ⟨rfl, rfl, trivial⟩

/-- EVERY operation of the model, when it succeeds on a type-consistent configuration, is exactly its
    list of effective edits on the journal, leaves the lower levels alone, and the edits are valid on
    every base. -/
theorem apply_edits {c c' : Cfg} {o : Out} (hc : TypeOK c) (path : List Step) (sub : KVs) (op : Op)
    (hnav : nav c.viewT path = .ok sub) (hw : OpWF op) (h : c.apply path op = .ok (c', o)) :
    jOf c' = journalOf (jOf c) (opEdits sub (path.map Prod.fst) op) ∧ c'.lower = c.lower ∧
      JValid (jOf c) (opEdits sub (path.map Prod.fst) op) := by
  have hne : ∀ k, path.map Prod.fst ++ [k] ≠ [] := by intro k; simp
  unfold Cfg.apply at h
  simp only [view_eq hc, hnav] at h
  cases op with
  | getItem k =>
    simp only [] at h
    split at h <;> simp at h
    rw [← h.1]; exact no_edit c
  | getAttr k =>
    simp only [] at h
    split at h <;> simp at h
    rw [← h.1]; exact no_edit c
  | get k =>
    simp only [] at h
    split at h <;> simp at h <;> (rw [← h.1]; exact no_edit c)
  | contains k => simp at h; rw [← h.1]; exact no_edit c
  | len => simp at h; rw [← h.1]; exact no_edit c
  | keys => simp at h; rw [← h.1]; exact no_edit c
  | items => simp at h; rw [← h.1]; exact no_edit c
  | setItem k v => exact single_set hc path sub k v hw hnav (withOut_ok h)
  | setAttr k v => exact single_set hc path sub k v hw hnav (withOut_ok h)
  | delItem k =>
    simp only [] at h
    split at h
    · simp at h
    · exact single_del _ (hne k) (withOut_ok h)
  | delAttr k =>
    simp only [] at h
    split at h
    · simp at h
    · exact single_del _ (hne k) (withOut_ok h)
  | pop k dflt =>
    simp only [] at h
    cases hl : lookup k sub with
    | some x =>
      simp only [hl] at h
      simp only [opEdits, hl]
      exact single_del _ (hne k) (withOut_ok h)
    | none =>
      simp only [hl] at h
      simp only [opEdits, hl]
      cases dflt with
      | none => simp at h
      | some d => simp at h; rw [← h.1]; exact no_edit c
  | popitem chosen =>
    cases chosen with
    | some k0 =>
      simp only [] at h
      simp only [opEdits, popKey]
      split at h
      · simp at h
      · exact single_del _ (hne k0) (withOut_ok h)
    | none =>
      simp only [] at h
      simp only [opEdits, popKey]
      cases hlk : lastKey sub with
      | none => simp [hlk] at h
      | some k0 =>
        simp only [hlk] at h ⊢
        split at h
        · simp at h
        · exact single_del _ (hne k0) (withOut_ok h)
  | clear => exact removeAll_journal _ _ c c' (withOut_ok h)
  | setdefault k dflt =>
    cases dflt with
    | none =>
      simp only [] at h
      cases hl : lookup k sub with
      | some x =>
        simp only [hl] at h
        simp only [opEdits, hl]
        simp at h; rw [← h.1]; exact no_edit c
      | none =>
        simp only [hl] at h
        simp only [opEdits, hl]
        exact single_set hc path sub k _ trivial hnav (withOut_ok h)
    | some d =>
      simp only [] at h
      cases hl : lookup k sub with
      | some x =>
        simp only [hl] at h
        simp only [opEdits, hl]
        simp at h; rw [← h.1]; exact no_edit c
      | none =>
        simp only [hl] at h
        simp only [opEdits, hl]
        exact single_set hc path sub k _ hw hnav (withOut_ok h)
  | update pos kw =>
    have hval := nav_valid (path.map Prod.fst) ['x'] c.baseT c.mods c.dels (wf_baseT hc.lower) hc.mods hc.dels
      (nav_node path _ _ hnav)
    have hl : ∀ k, leafOnWay c.dels (path.map Prod.fst ++ [k]) = false := by
      intro k; rw [leafOnWay_last _ k ['x']]; exact hval.1
    have fin : ∀ m, (∀ k v, (k, v) ∈ m → WFV v) →
        (match c.modifyAll (path.map Prod.fst) m with
         | .error e => (Except.error e : Except CErr (Cfg × Out))
         | .ok c1 => withOut Out.none (c1.modifyAll (path.map Prod.fst) kw)) = .ok (c', o) →
        jOf c' = journalOf (jOf c) (setEdits (path.map Prod.fst) m ++ setEdits (path.map Prod.fst) kw) ∧
          c'.lower = c.lower ∧
          JValid (jOf c) (setEdits (path.map Prod.fst) m ++ setEdits (path.map Prod.fst) kw) := by
      intro m hm h
      split at h
      · simp at h
      · rename_i c1 h1
        obtain ⟨a1, a2, a3, a4, a5, a6⟩ := modifyAll_journal _ _ c c1 hc.mods hc.dels hm hl h1
        obtain ⟨b1, b2, b3, _, _, _⟩ := modifyAll_journal _ _ c1 c' a5 a6 hw.2 a4 (withOut_ok h)
        refine ⟨?_, ?_, ?_⟩
        · rw [b1, a1, journalOf_append]
        · rw [b2, a2]
        · apply jvalid_append_list _ _ _ a3
          rw [← a1]; exact b3
    cases pos with
    | none => exact fin [] (by simp) h
    | some m => exact fin m hw.1 h

/-! ### outputs: navigation and reads on extensionally equal trees -/

/-- agreement of two navigation results: the same exception, or sections that read identically -/
def NavAgree : Except CErr KVs → Except CErr KVs → Prop
  | .ok s, .ok s' => Ext s s'
  | .error e, .error e' => e = e'
  | _, _ => False

theorem nav_congr (path : List Step) : ∀ {t t' : KVs}, Ext t t' → NavAgree (nav t path) (nav t' path) := by
  induction path with
  | nil => intro t t' h; exact h
  | cons st rest ih =>
    intro t t' h
    obtain ⟨k, attr⟩ := st
    simp only [nav]
    rcases ext_cases h k with ⟨h1, h2⟩ | ⟨x, h1, h2⟩ | ⟨a, a', h1, h2, hx⟩
    · rw [h1, h2]; exact rfl
    · rw [h1, h2]; exact rfl
    · rw [h1, h2]; exact ih hx

/-- what a read returns, compared at every sub-path (covers section-valued returns) -/
theorem read_congr {s s' : KVs} (h : Ext s s') (k : Key) :
    (lookup k s = none ↔ lookup k s' = none) ∧ ∀ r, nodeO r (lookup k s) = nodeO r (lookup k s') := by
  refine ⟨?_, fun r => ext_lookup h k r⟩
  rcases ext_cases h k with ⟨h1, h2⟩ | ⟨x, h1, h2⟩ | ⟨a, a', h1, h2, _⟩ <;> simp [h1, h2]

end Inv.Hist
