import Invoke.Lemmas.ConfigStep
/-! From the journal level to the `Cfg` operations of `Model/Config.lean`: type-consistent
    configurations read as the total view; navigation; `_modify` / `_remove` / reload / task step /
    clone in terms of the slots. -/
namespace Inv.Hist
open Inv

/-! ### type-consistent configurations -/

/-- all slots well-formed, every level type-consistent with the merge of those below it -/
structure TypeOK (c : Cfg) : Prop where
  lower : ∀ l ∈ c.lower, WF l
  mods : WF c.mods
  dels : WF c.dels
  chain : ChainCompat [] (c.lower ++ [c.mods])

theorem wf_baseT {c : Cfg} (h : ∀ l ∈ c.lower, WF l) : WF c.baseT :=
  wf_mergeLevelsT c.lower [] wf_nil h

/-- a type-consistent configuration reads as the total view: `merge()` does not raise -/
theorem view_eq {c : Cfg} (h : TypeOK c) : c.view = .ok c.viewT := by
  unfold Cfg.view
  rw [mergeLevels_eq _ _ h.chain, mergeLevelsT_append]
  rfl

theorem wf_cfg_viewT {c : Cfg} (h : TypeOK c) : WF c.viewT :=
  wf_viewT (wf_baseT h.lower) h.mods h.dels

/-! ### navigation -/

/-- successful navigation means the key path denotes a section of the view -/
theorem nav_node (path : List Step) : ∀ (v sub : KVs), nav v path = .ok sub →
    node (path.map Prod.fst) v = some .sec := by
  induction path with
  | nil => intro v sub _; simp
  | cons st rest ih =>
    intro v sub h
    obtain ⟨k, attr⟩ := st
    simp only [nav] at h
    simp only [List.map_cons, node_cons]
    cases hl : lookup k v with
    | none => rw [hl] at h; simp at h
    | some x => cases x with
      | leaf y => rw [hl] at h; simp at h
      | dict d => rw [hl] at h; simpa using ih d sub h

/-! ### `_modify`, `_remove`, reloads in terms of the slots -/

theorem modify_spec {c c' : Cfg} {p : List Key} {v : Val} (h : c.modify p v = .ok c') :
    c' = { c with dels := erasePath c.dels p, mods := setPath c.mods p v } ∧ leafOnWay c.mods p = false := by
  unfold Cfg.modify at h
  split at h
  · simp at h
  · rename_i hl
    simp only [] at h
    split at h
    · simp at h
    · simp at h; exact ⟨h.symm, by simpa using hl⟩

theorem remove_spec {c c' : Cfg} {p : List Key} (h : c.remove p = .ok c') :
    c' = { c with dels := markDel c.dels p } := by
  unfold Cfg.remove at h
  simp only [] at h
  split at h
  · simp at h
  · simp at h; exact h.symm

theorem load_spec {c c' : Cfg} {s : Slot} {data : KVs} (h : c.load s data = .ok c') : c' = c.set s data := by
  unfold Cfg.load at h
  simp only [] at h
  split at h
  · simp at h
  · simp at h; exact h.symm

/-- a write through a navigated proxy never runs into the `TypeError` of the `_modify` walk, and it
    succeeds as soon as the written value is type-consistent with the levels -/
theorem modify_ok {c : Cfg} (hc : TypeOK c) (path : List Step) (sub : KVs) (k : Key) (v : Val)
    (hnav : nav c.viewT path = .ok sub)
    (hc' : TypeOK { c with dels := erasePath c.dels (path.map Prod.fst ++ [k]),
                           mods := setPath c.mods (path.map Prod.fst ++ [k]) v }) :
    c.modify (path.map Prod.fst ++ [k]) v =
      .ok { c with dels := erasePath c.dels (path.map Prod.fst ++ [k]),
                   mods := setPath c.mods (path.map Prod.fst ++ [k]) v } := by
  have hsec := nav_node path _ _ hnav
  have hv := nav_valid (path.map Prod.fst) k c.baseT c.mods c.dels (wf_baseT hc.lower) hc.mods hc.dels hsec
  unfold Cfg.modify
  simp only [hv.2, Bool.false_eq_true, if_false, view_eq hc']

/-- a deletion never fails on a type-consistent configuration -/
theorem remove_ok {c : Cfg} (hc : TypeOK c) (p : List Key) :
    c.remove p = .ok { c with dels := markDel c.dels p } := by
  have hc' : TypeOK { c with dels := markDel c.dels p } :=
    ⟨hc.lower, hc.mods, wf_markDel hc.dels p, hc.chain⟩
  unfold Cfg.remove
  simp only [view_eq hc']

/-- the journal part of a configuration -/
def jOf (c : Cfg) : Journal := ⟨c.mods, c.dels⟩

/-- a successful write is the journal edit `set`, and is valid on every base -/
theorem modify_journal {c c' : Cfg} (hc : TypeOK c) (path : List Step) (sub : KVs) (k : Key) (v : Val) (hv : WFV v)
    (hnav : nav c.viewT path = .ok sub) (h : c.modify (path.map Prod.fst ++ [k]) v = .ok c') :
    jOf c' = Edit.toJournal (jOf c) (.set (path.map Prod.fst ++ [k]) v) ∧ c'.lower = c.lower ∧
      JValid (jOf c) [.set (path.map Prod.fst ++ [k]) v] := by
  obtain ⟨he, _⟩ := modify_spec h
  have hsec := nav_node path _ _ hnav
  have hval := nav_valid (path.map Prod.fst) k c.baseT c.mods c.dels (wf_baseT hc.lower) hc.mods hc.dels hsec
  subst he
  exact ⟨rfl, rfl, by simp, hv, hval.1, hval.2, trivial⟩

theorem remove_journal {c c' : Cfg} (p : List Key) (hp : p ≠ []) (h : c.remove p = .ok c') :
    jOf c' = Edit.toJournal (jOf c) (.del p) ∧ c'.lower = c.lower ∧ JValid (jOf c) [.del p] := by
  have he := remove_spec h
  subst he
  exact ⟨rfl, rfl, hp, trivial⟩

/-! ### reloads keep the journal -/

theorem set_journal (c : Cfg) (s : Slot) (data : KVs) (hs : s ≠ .modifications) (hs' : s ≠ .deletions) :
    jOf (c.set s data) = jOf c := by
  cases s <;> simp_all [Cfg.set, jOf]

theorem load_journal {c c' : Cfg} {s : Slot} {data : KVs} (hs : s ≠ .modifications) (hs' : s ≠ .deletions)
    (h : c.load s data = .ok c') : jOf c' = jOf c := by
  rw [load_spec h]; exact set_journal c s data hs hs'

theorem loadShellEnv_journal {c c' : Cfg} {environ : List (List Char × List Char)}
    (h : c.loadShellEnv environ = .ok c') : jOf c' = jOf c ∧ ∃ lvl, c' = c.set .env lvl := by
  unfold Cfg.loadShellEnv at h
  split at h
  · simp at h
  · split at h
    · simp at h
    · rename_i lvl _
      exact ⟨load_journal (by simp) (by simp) h, lvl, load_spec h⟩

/-- what `load_shell_env` computes: the env level is the environment loaded against the view taken
    with the env level EMPTIED - nothing of a previous environment load enters -/
theorem loadShellEnv_fresh {c c' : Cfg} {environ : List (List Char × List Char)}
    (h : c.loadShellEnv environ = .ok c') :
    ∃ v envl, (c.set .env []).view = .ok v ∧ envLoad environ [] (leafVals [] v) = .ok envl ∧ c' = c.set .env envl := by
  unfold Cfg.loadShellEnv at h
  split at h
  · simp at h
  · rename_i v hv
    split at h
    · simp at h
    · rename_i lvl hl
      exact ⟨v, lvl, hv, hl, load_spec h⟩

theorem set_env_set_env (c : Cfg) (a b : KVs) : (c.set .env a).set .env b = c.set .env b := rfl

/-- `load_shell_env` does not depend on what the env level held before -/
theorem loadShellEnv_ignores_old_env (c : Cfg) (old : KVs) (environ : List (List Char × List Char)) :
    (c.set .env old).loadShellEnv environ = c.loadShellEnv environ := by
  simp only [Cfg.loadShellEnv, Cfg.load, set_env_set_env]

/-- the executor's per-task step replaces the collection and env levels and nothing else -/
theorem taskStep_spec {c c' : Cfg} {none : Bool} {cfgs : List KVs} {environ : List (List Char × List Char)}
    (h : c.taskStep none cfgs environ = .ok c') :
    ∃ lvl envl, collectionLevel none cfgs = .ok lvl ∧ c' = (c.set .collection lvl).set .env envl ∧
      ∃ v, ((c.set .collection lvl).set .env []).view = .ok v ∧ envLoad environ [] (leafVals [] v) = .ok envl := by
  unfold Cfg.taskStep at h
  split at h
  · simp at h
  · rename_i lvl hl
    split at h
    · simp at h
    · rename_i c1 h1
      obtain ⟨v, envl, hv, hl2, he⟩ := loadShellEnv_fresh h
      rw [load_spec h1] at hv he
      exact ⟨lvl, envl, hl, he, v, hv, hl2⟩

theorem taskStep_journal {c c' : Cfg} {none : Bool} {cfgs : List KVs} {environ : List (List Char × List Char)}
    (h : c.taskStep none cfgs environ = .ok c') : jOf c' = jOf c := by
  obtain ⟨lvl, envl, _, he, _⟩ := taskStep_spec h
  rw [he, set_journal _ _ _ (by simp) (by simp), set_journal _ _ _ (by simp) (by simp)]

/-! ### clone -/

theorem contains_of_mem {names : List String} {s : String} (h : s ∈ names) : names.contains s = true := by
  simp [h]

/-- with a complete slot list, cloning copies every slot; copies of well-formed dicts are the dicts -/
theorem cloneSlots_complete (names : List String) (hall : ∀ s ∈ Cfg.dataSlots, s ∈ names) (c : Cfg)
    (hw : ∀ s : Slot, WF (c.get s)) : cloneSlots names c {} Slot.all = .ok c := by
  have hn : ∀ s : Slot, names.contains s.name = true := by
    intro s
    apply contains_of_mem
    apply hall
    cases s <;> simp [Cfg.dataSlots, Slot.all, Slot.name]
  have hcp : ∀ s : Slot, copyDict (c.get s) = .ok (c.get s) := fun s => copyDict_id (hw s)
  simp only [Slot.all, cloneSlots, cloneSlot, hn, if_true, hcp]
  cases c
  simp [Cfg.set, Cfg.get]

theorem typeOK_get {c : Cfg} (h : TypeOK c) (s : Slot) : WF (c.get s) := by
  have hl := h.lower
  simp only [Cfg.lower, List.mem_cons, List.not_mem_nil, or_false, forall_eq_or_imp, forall_eq] at hl
  cases s <;> simp only [Cfg.get]
  · exact hl.1
  · exact hl.2.1
  · exact hl.2.2.1
  · exact hl.2.2.2.1
  · exact hl.2.2.2.2.1
  · exact hl.2.2.2.2.2.1
  · exact hl.2.2.2.2.2.2.1
  · exact hl.2.2.2.2.2.2.2
  · exact h.mods
  · exact h.dels

theorem mergeKVs_nil_right (a : KVs) : mergeKVs a [] = .ok a := by unfold mergeKVs; rfl

/-- a clone made with a complete slot list IS the original (same slots, hence same view) -/
theorem cloneWith_complete (names : List String) (hall : ∀ s ∈ Cfg.dataSlots, s ∈ names) (c : Cfg)
    (hc : TypeOK c) : Cfg.cloneWith names c [] = .ok c := by
  unfold Cfg.cloneWith
  rw [cloneSlots_complete names hall c (typeOK_get hc)]
  have hcp : mergeKVs [] c.defaults = .ok c.defaults := copyDict_id (typeOK_get hc .defaults)
  simp only [hcp, view_eq hc]

/-- simplest non-trivial type-consistent configurations (used for non-vacuity examples) -/
theorem typeOK_simple {dflt m dl : KVs} (hd : WF dflt) (hm : WF m) (hdel : WF dl) (hc : Compat dflt m) :
    TypeOK { defaults := dflt, mods := m, dels := dl } := by
  refine ⟨?_, hm, hdel, ?_⟩
  · intro l hl
    simp only [Cfg.lower, List.mem_cons, List.not_mem_nil, or_false] at hl
    rcases hl with h | h | h | h | h | h | h | h <;> subst h <;> first | exact hd | exact wf_nil
  · simp [ChainCompat, Cfg.lower, mergeT_nil_left hd, compat_nil, compat_nil_right, wf_nil, hd, hm, hc]

/-! ### histories on one object and on an original / clone pair -/

/-- operations of a history on one configuration object -/
inductive HOp
  | proxy (path : List Step) (op : Op)
  | load (s : Slot) (data : KVs)
  | shellEnv (environ : List (List Char × List Char))
  | task (none : Bool) (cfgs : List KVs) (environ : List (List Char × List Char))

/-- run one operation; a raising operation leaves the configuration as it was -/
def exec (c : Cfg) : HOp → Cfg
  | .proxy path op => (match c.apply path op with | .ok (c', _) => c' | .error _ => c)
  | .load s d => (match c.load s d with | .ok c' => c' | .error _ => c)
  | .shellEnv e => (match c.loadShellEnv e with | .ok c' => c' | .error _ => c)
  | .task n cfgs e => (match c.taskStep n cfgs e with | .ok c' => c' | .error _ => c)

def run (c : Cfg) (ops : List HOp) : Cfg := ops.foldl exec c

/-- which of the two objects an operation addresses -/
inductive Side | orig | clone
  deriving DecidableEq

def execPair (st : Cfg × Cfg) (a : Side × HOp) : Cfg × Cfg :=
  match a.1 with
  | .orig => (exec st.1 a.2, st.2)
  | .clone => (st.1, exec st.2 a.2)

def opsOf (s : Side) (ops : List (Side × HOp)) : List HOp := (ops.filter (fun a => a.1 = s)).map Prod.snd

theorem runPair_frame (ops : List (Side × HOp)) : ∀ (a b : Cfg),
    ops.foldl execPair (a, b) = (run a (opsOf .orig ops), run b (opsOf .clone ops)) := by
  induction ops with
  | nil => intro a b; rfl
  | cons o rest ih =>
    intro a b
    obtain ⟨s, h⟩ := o
    cases s <;> simp [execPair, ih, opsOf, run]

/-! ### sessions: the executor's loop over tasks whose bodies edit the shared configuration -/

/-- one executed task: whether the collection does NOT hold the task object (then it gets the root's
    settings), the settings along the namespace path of the name it was called by (or, unnamed, of its first binding), the environment
    at its start, and the effective edits its body performs on `context.config` -/
structure TaskRun where
  unheld : Bool
  cfgs : List KVs
  environ : List (List Char × List Char)
  body : List Edit

/-- the body's edits applied to the journal of the shared configuration -/
def applyEdits (c : Cfg) (es : List Edit) : Cfg :=
  { c with mods := (journalOf (jOf c) es).mods, dels := (journalOf (jOf c) es).dels }

/-- the configuration after a sequence of tasks (per task: `taskStep`, then the body) -/
def sessionState (c : Cfg) : List TaskRun → Except CErr Cfg
  | [] => .ok c
  | t :: ts => match c.taskStep t.unheld t.cfgs t.environ with
    | .error e => .error e
    | .ok c1 => sessionState (applyEdits c1 t.body) ts

theorem journalOf_append (j : Journal) (a b : List Edit) : journalOf j (a ++ b) = journalOf (journalOf j a) b := by
  simp [journalOf, List.foldl_append]

theorem jOf_applyEdits (c : Cfg) (es : List Edit) : jOf (applyEdits c es) = journalOf (jOf c) es := rfl

/-- the journal after a session is the journal of all bodies' edits, in execution order: reloading
    the collection / env levels between tasks never touches it -/
theorem session_journal (ts : List TaskRun) : ∀ (c c' : Cfg), sessionState c ts = .ok c' →
    jOf c' = journalOf (jOf c) (ts.flatMap TaskRun.body) := by
  induction ts with
  | nil => intro c c' h; simp [sessionState] at h; subst h; rfl
  | cons t rest ih =>
    intro c c' h
    simp only [sessionState] at h
    split at h
    · simp at h
    · rename_i c1 h1
      rw [ih _ _ h, jOf_applyEdits, taskStep_journal h1, List.flatMap_cons, journalOf_append]

end Inv.Hist
