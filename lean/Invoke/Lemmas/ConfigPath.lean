import Invoke.Lemmas.Hist
/-! Path-level lemmas: extensional equality of trees (`Ext`), the effect of a write / deletion on the
    view expressed as the SAME walk applied to the view (`node_merge_setPath`, `node_obl_setPath`,
    `node_obl_markDel`), congruences, and read-back facts of the reference (plain dict) operations. -/
namespace Inv.Hist
open Inv

/-- node of an optional value at a relative path -/
def nodeO (rest : List Key) : Option Val → Option Node
  | none => none
  | some v => nodeV rest v

@[simp] theorem node_nil (t : KVs) : node [] t = some .sec := by simp [node]

theorem node_cons (k : Key) (rest : List Key) (t : KVs) : node (k :: rest) t = nodeO rest (lookup k t) := by
  simp only [node]
  cases lookup k t with
  | none => rfl
  | some v => cases v <;> rfl

@[simp] theorem node_cons_nil (k : Key) (rest : List Key) : node (k :: rest) [] = none := by
  simp [node_cons, nodeO]

@[simp] theorem nodeO_none (rest : List Key) : nodeO rest none = none := rfl
@[simp] theorem nodeO_dict (rest : List Key) (d : KVs) : nodeO rest (some (.dict d)) = node rest d := rfl
@[simp] theorem nodeO_leaf_nil (x : Leaf) : nodeO [] (some (.leaf x)) = some (.leaf x) := rfl
@[simp] theorem nodeO_leaf_cons (k : Key) (rest : List Key) (x : Leaf) : nodeO (k :: rest) (some (.leaf x)) = none := rfl

theorem nodeO_leaf_ne_sec (rest : List Key) (x : Leaf) : nodeO rest (some (.leaf x)) ≠ some .sec := by
  cases rest <;> simp

/-- two trees read identically through every key path -/
def Ext (t t' : KVs) : Prop := ∀ r, node r t = node r t'

theorem Ext.refl (t : KVs) : Ext t t := fun _ => rfl
theorem Ext.symm {t t' : KVs} (h : Ext t t') : Ext t' t := fun r => (h r).symm
theorem Ext.trans {a b c : KVs} (h : Ext a b) (h' : Ext b c) : Ext a c := fun r => (h r).trans (h' r)

theorem ext_lookup {t t' : KVs} (h : Ext t t') (k : Key) (rest : List Key) :
    nodeO rest (lookup k t) = nodeO rest (lookup k t') := by
  have := h (k :: rest); simpa [node_cons] using this

theorem ext_of_lookup {t t' : KVs} (h : ∀ k rest, nodeO rest (lookup k t) = nodeO rest (lookup k t')) : Ext t t' := by
  intro r
  cases r with
  | nil => simp
  | cons k rest => simp [node_cons, h]

/-- corresponding entries of extensionally equal trees have the same kind -/
theorem ext_cases {t t' : KVs} (h : Ext t t') (k : Key) :
    (lookup k t = none ∧ lookup k t' = none) ∨
    (∃ x, lookup k t = some (.leaf x) ∧ lookup k t' = some (.leaf x)) ∨
    (∃ a a', lookup k t = some (.dict a) ∧ lookup k t' = some (.dict a') ∧ Ext a a') := by
  have h0 := ext_lookup h k []
  cases h1 : lookup k t with
  | none =>
    rw [h1] at h0
    cases h2 : lookup k t' with
    | none => exact .inl ⟨rfl, rfl⟩
    | some v => rw [h2] at h0; cases v <;> simp at h0
  | some v =>
    rw [h1] at h0
    cases v with
    | leaf x =>
      cases h2 : lookup k t' with
      | none => rw [h2] at h0; simp at h0
      | some v' =>
        rw [h2] at h0
        cases v' with
        | leaf y => simp at h0; subst h0; exact .inr (.inl ⟨x, rfl, rfl⟩)
        | dict a' => simp at h0
    | dict a =>
      cases h2 : lookup k t' with
      | none => rw [h2] at h0; simp at h0
      | some v' =>
        rw [h2] at h0
        cases v' with
        | leaf y => simp at h0
        | dict a' =>
          refine .inr (.inr ⟨a, a', rfl, rfl, ?_⟩)
          intro r
          have := ext_lookup h k r
          simpa [h1, h2] using this

theorem ext_subDict {t t' : KVs} (h : Ext t t') (k : Key) : Ext (subDict k t) (subDict k t') := by
  rcases ext_cases h k with ⟨h1, h2⟩ | ⟨x, h1, h2⟩ | ⟨a, a', h1, h2, hx⟩
  · rw [subDict_of_none h1, subDict_of_none h2]; exact Ext.refl _
  · rw [subDict_of_leaf h1, subDict_of_leaf h2]; exact Ext.refl _
  · rw [subDict_of_dict h1, subDict_of_dict h2]; exact hx

/-! ### `leafOnWay` -/

@[simp] theorem leafOnWay_nil (p : List Key) : leafOnWay [] p = false := by
  cases p with
  | nil => rfl
  | cons k rest => cases rest <;> simp [leafOnWay]

theorem leafOnWay_cons2 (d : KVs) (k k1 : Key) (rest : List Key) :
    leafOnWay d (k :: k1 :: rest) = false ↔
      (∀ x, lookup k d ≠ some (.leaf x)) ∧ leafOnWay (subDict k d) (k1 :: rest) = false := by
  simp only [leafOnWay]
  cases hl : lookup k d with
  | none => simp [subDict, hl]
  | some v => cases v <;> simp [subDict, hl]

/-! ### a write, seen through the merge and through the deletion marks -/

/-- what the value written must satisfy relative to the lower levels: a leaf, or a dict at a key
    path that is not a section there (finding #17/#18 otherwise) -/
def Fresh (v : Val) (b : KVs) (p : List Key) : Prop :=
  match v with
  | .leaf _ => True
  | .dict _ => node p b ≠ some .sec

theorem fresh_sub {v : Val} {b : KVs} {k k1 : Key} {rest : List Key} (h : Fresh v b (k :: k1 :: rest)) :
    Fresh v (subDict k b) (k1 :: rest) := by
  cases v with
  | leaf x => trivial
  | dict u =>
    simp only [Fresh] at h ⊢
    rw [node_cons] at h
    cases hl : lookup k b with
    | none => simp [subDict, hl]
    | some bv => cases bv with
      | leaf y => simp [subDict, hl]
      | dict bb => simpa [subDict, hl] using h

/-- writing into the modifications and merging = merging and then writing into the result -/
theorem node_merge_setPath (p : List Key) (v : Val) (hv : WFV v) :
    ∀ (b m : KVs), WF m → leafOnWay m p = false → Fresh v b p →
      ∀ r, node r (mergeT b (setPath m p v)) = node r (setPath (mergeT b m) p v) := by
  induction p with
  | nil => intro b m _ _ _ r; rfl
  | cons k0 prest ih =>
    intro b m hm h3 h2 r
    cases r with
    | nil => simp
    | cons k rest =>
      rw [node_cons, node_cons, lookup_mergeT' k b _ (wf_setPath hm _ hv).nodup, lookup_setPath, lookup_setPath,
        lookup_mergeT' k b m hm.nodup]
      by_cases hk : k = k0
      · subst hk
        simp only [if_true]
        cases prest with
        | nil =>
          cases v with
          | leaf x => simp [mergeAt]
          | dict u =>
            simp only [Fresh] at h2
            rw [node_cons] at h2
            have hu : mergeT [] u = u := mergeT_nil_left hv
            cases hl : lookup k b with
            | none => simp [mergeAt, hu]
            | some bv => cases bv with
              | leaf y => simp [mergeAt, hu]
              | dict bb => simp [hl] at h2
        | cons k1 r' =>
          obtain ⟨hleaf, h3'⟩ := (leafOnWay_cons2 m k k1 r').mp h3
          rw [mergeAt_dict]
          simp only [nodeO_dict]
          rw [subDict_mergeT b m k hm hleaf]
          exact ih (subDict k b) (subDict k m) (wf_subDict hm k) h3' (fresh_sub h2) rest
      · simp [hk]

/-- excising the written path from the marks and applying them = applying the marks and then writing -/
theorem node_obl_setPath (p : List Key) (v : Val) (hv : WFV v) :
    ∀ (Y d : KVs), WF Y → WF d → leafOnWay d p = false →
      ∀ r, node r (obl (setPath Y p v) (erasePath d p)) = node r (setPath (obl Y d) p v) := by
  induction p with
  | nil => intro Y d _ _ _ r; rfl
  | cons k0 prest ih =>
    intro Y d hY hd h1 r
    cases r with
    | nil => simp
    | cons k rest =>
      rw [node_cons, node_cons, lookup_obl k _ _ (wf_setPath hY _ hv).nodup (wf_erasePath hd _).nodup,
        lookup_setPath, lookup_setPath, lookup_erasePath _ _ _ _ hd.nodup, lookup_obl k Y d hY.nodup hd.nodup]
      by_cases hk : k = k0
      · subst hk
        simp only [if_true]
        cases prest with
        | nil => simp [oblAt]
        | cons k1 r' =>
          obtain ⟨hleaf, h1'⟩ := (leafOnWay_cons2 d k k1 r').mp h1
          simp only []
          rw [subDict_obl Y d k hY hd hleaf]
          cases hl : lookup k d with
          | none =>
            simp only [oblAt, nodeO_dict, subDict_of_none hl, obl_nil_right]
          | some dv =>
            cases dv with
            | leaf x => exact absurd hl (hleaf x)
            | dict dd =>
              simp only [oblAt, nodeO_dict, subDict_of_dict hl]
              rw [subDict_of_dict hl] at h1'
              exact ih (subDict k Y) dd (wf_subDict hY k) (hd.sub hl) h1' rest
      · simp [hk]

/-- marking a path as deleted and applying the marks = applying the marks and then deleting -/
theorem node_obl_markDel (p : List Key) (hp : p ≠ []) :
    ∀ (X d : KVs), WF X → WF d →
      ∀ r, node r (obl X (markDel d p)) = node r (erasePath (obl X d) p) := by
  induction p with
  | nil => exact absurd rfl hp
  | cons k0 prest ih =>
    intro X d hX hd r
    cases r with
    | nil => simp
    | cons k rest =>
      rw [node_cons, node_cons, lookup_obl k _ _ hX.nodup (wf_markDel hd _).nodup, lookup_markDel,
        lookup_erasePath _ _ _ _ (wf_obl hX hd).nodup]
      by_cases hk : k = k0
      · subst hk
        simp only [if_true]
        cases prest with
        | nil => simp [oblAt]
        | cons k1 r' =>
          have ih' := ih (by simp)
          simp only []
          rw [lookup_obl k X d hX.nodup hd.nodup]
          cases hl : lookup k d with
          | none =>
            cases hx : lookup k X with
            | none => simp [oblAt]
            | some xv => cases xv with
              | leaf y => simp [oblAt]
              | dict xx =>
                simp only [oblAt, nodeO_dict, subDict_of_none hl]
                have := ih' xx [] (hX.sub hx) wf_nil rest
                simpa using this
          | some dv =>
            cases dv with
            | leaf x => simp [oblAt]
            | dict dd =>
              cases hx : lookup k X with
              | none => simp [oblAt]
              | some xv => cases xv with
                | leaf y => simp [oblAt]
                | dict xx =>
                  simp only [oblAt, nodeO_dict, subDict_of_dict hl]
                  exact ih' xx dd (hX.sub hx) (hd.sub hl) rest
      · simp [hk, lookup_obl k X d hX.nodup hd.nodup]

/-! ### deletion marks as a predicate on paths -/

/-- is some non-empty prefix of the path marked as deleted? -/
def marked : KVs → List Key → Bool
  | _, [] => false
  | d, k :: rest => match lookup k d with
    | some (.leaf _) => true
    | some (.dict d') => marked d' rest
    | none => false

/-- a node survives `obl` iff no prefix of its path is marked -/
theorem node_obl (p : List Key) (t d : KVs) (ht : WF t) (hd : WF d) :
    node p (obl t d) = if marked d p then none else node p t := by
  induction p generalizing t d with
  | nil => simp [marked]
  | cons k rest ih =>
    rw [node_cons, node_cons, lookup_obl k t d ht.nodup hd.nodup]
    cases hkd : lookup k d with
    | none => simp [marked, hkd, oblAt]
    | some dv =>
      cases dv with
      | leaf x => simp [marked, hkd, oblAt]
      | dict d' =>
        cases hkt : lookup k t with
        | none => simp [marked, hkd, oblAt]
        | some tv =>
          cases tv with
          | leaf y =>
            simp only [marked, hkd, oblAt]
            cases rest with
            | nil => simp [marked]
            | cons r rs => simp
          | dict b =>
            simp only [marked, hkd, oblAt, nodeO_dict]
            exact ih b d' (ht.sub hkt) (hd.sub hkd)

theorem obl_congr {Y Y' : KVs} (h : Ext Y Y') (d : KVs) (hY : WF Y) (hY' : WF Y') (hd : WF d) :
    Ext (obl Y d) (obl Y' d) := by
  intro r
  rw [node_obl r Y d hY hd, node_obl r Y' d hY' hd, h r]

/-! ### congruence of the reference operations -/

theorem setPath_congr (p : List Key) (v : Val) : ∀ {t t' : KVs}, Ext t t' → Ext (setPath t p v) (setPath t' p v) := by
  induction p with
  | nil => intro t t' h; exact h
  | cons k0 prest ih =>
    intro t t' h
    apply ext_of_lookup
    intro k rest
    rw [lookup_setPath, lookup_setPath]
    by_cases hk : k = k0
    · subst hk
      simp only [if_true]
      cases prest with
      | nil => rfl
      | cons k1 r' =>
        simp only [nodeO_dict]
        exact ih (ext_subDict h k) rest
    · simp only [hk, if_false]; exact ext_lookup h k rest

theorem erasePath_congr (p : List Key) : ∀ {t t' : KVs}, WF t → WF t' → Ext t t' →
    Ext (erasePath t p) (erasePath t' p) := by
  induction p with
  | nil => intro t t' _ _ h; exact h
  | cons k0 prest ih =>
    intro t t' ht ht' h
    apply ext_of_lookup
    intro k rest
    rw [lookup_erasePath _ _ _ _ ht.nodup, lookup_erasePath _ _ _ _ ht'.nodup]
    by_cases hk : k = k0
    · subst hk
      simp only [if_true]
      cases prest with
      | nil => rfl
      | cons k1 r' =>
        simp only []
        rcases ext_cases h k with ⟨h1, h2⟩ | ⟨x, h1, h2⟩ | ⟨a, a', h1, h2, hx⟩
        · simp [h1, h2]
        · simp [h1, h2]
        · simp only [h1, h2, nodeO_dict]
          exact ih (ht.sub h1) (ht'.sub h2) hx rest
    · simp only [hk, if_false]; exact ext_lookup h k rest

/-! ### read-back facts of the reference (plain dict) operations -/

/-- after `t[p] = v`, the value read at `p` (and below) is `v` -/
theorem node_setPath_at (p : List Key) (hp : p ≠ []) (v : Val) (s : List Key) :
    ∀ t : KVs, node (p ++ s) (setPath t p v) = nodeV s v := by
  induction p with
  | nil => exact absurd rfl hp
  | cons k0 prest ih =>
    intro t
    rw [List.cons_append, node_cons, lookup_setPath]
    simp only [if_true]
    cases prest with
    | nil => rfl
    | cons k1 r' => simpa using ih (by simp) (subDict k0 t)

/-- after `del t[p]`, nothing is read at `p` or below -/
theorem node_erasePath_at (p : List Key) (hp : p ≠ []) (s : List Key) :
    ∀ t : KVs, WF t → node (p ++ s) (erasePath t p) = none := by
  induction p with
  | nil => exact absurd rfl hp
  | cons k0 prest ih =>
    intro t ht
    rw [List.cons_append, node_cons, lookup_erasePath _ _ _ _ ht.nodup]
    simp only [if_true]
    cases prest with
    | nil => rfl
    | cons k1 r' =>
      simp only []
      cases hl : lookup k0 t with
      | none => rfl
      | some tv => cases tv with
        | leaf x => rfl
        | dict tt => simpa using ih (by simp) tt (ht.sub hl)

/-- the two paths part ways at some key both have (neither is a prefix of the other) -/
def diverge : List Key → List Key → Bool
  | a :: p, b :: r => if a = b then diverge p r else true
  | _, _ => false

/-- a write does not change what is read at paths that part ways with the written one -/
theorem node_setPath_other (p : List Key) (v : Val) :
    ∀ (r : List Key) (t : KVs), diverge p r = true → node r (setPath t p v) = node r t := by
  induction p with
  | nil => intro r t h; simp [diverge] at h
  | cons k0 prest ih =>
    intro r t h
    cases r with
    | nil => simp [diverge] at h
    | cons k rest =>
      rw [node_cons, node_cons, lookup_setPath]
      by_cases hk : k = k0
      · subst hk
        simp only [diverge, if_true] at h
        simp only [if_true]
        cases prest with
        | nil => simp [diverge] at h
        | cons k1 r' =>
          simp only [nodeO_dict]
          rw [ih rest (subDict k t) h]
          cases hl : lookup k t with
          | none => cases rest <;> simp [subDict, hl, diverge] at h ⊢
          | some tv => cases tv with
            | leaf x => cases rest <;> simp [subDict, hl, diverge] at h ⊢
            | dict tt => simp [subDict, hl]
      · simp [hk]

/-- a deletion does not change what is read at paths that part ways with the deleted one -/
theorem node_erasePath_other (p : List Key) :
    ∀ (r : List Key) (t : KVs), WF t → diverge p r = true → node r (erasePath t p) = node r t := by
  induction p with
  | nil => intro r t _ h; simp [diverge] at h
  | cons k0 prest ih =>
    intro r t ht h
    cases r with
    | nil => simp [diverge] at h
    | cons k rest =>
      rw [node_cons, node_cons, lookup_erasePath _ _ _ _ ht.nodup]
      by_cases hk : k = k0
      · subst hk
        simp only [diverge, if_true] at h
        simp only [if_true]
        cases prest with
        | nil => simp [diverge] at h
        | cons k1 r' =>
          simp only []
          cases hl : lookup k t with
          | none => rfl
          | some tv => cases tv with
            | leaf x => rfl
            | dict tt =>
              simp only [nodeO_dict]
              exact ih rest tt (ht.sub hl) h
      · simp [hk]

/-- the sections on the way to a written path exist afterwards -/
theorem node_setPath_above (p : List Key) (v : Val) (s : List Key) (hs : s ≠ []) :
    ∀ t : KVs, node p (setPath t (p ++ s) v) = some .sec := by
  induction p with
  | nil => intro t; simp
  | cons k0 prest ih =>
    intro t
    rw [List.cons_append, node_cons, lookup_setPath]
    simp only [if_true]
    cases hps : prest ++ s with
    | nil => simp at hps; exact absurd hps.2 hs
    | cons k1 r' =>
      simp only [nodeO_dict]
      rw [← hps]; exact ih (subDict k0 t)

end Inv.Hist
