import Invoke.Lemmas.ConfigMutators
import Invoke.Lemmas.ConfigEval
/-! Configurations reachable by a history of reloads, navigated writes and deletions, together with
    the edits the history performed. -/
namespace Inv.Hist
open Inv

theorem jvalid_append (es : List Edit) : ∀ (j : Journal) (e : Edit),
    JValid j es → JValid (journalOf j es) [e] → JValid j (es ++ [e]) := by
  induction es with
  | nil => intro j e _ h; exact h
  | cons a rest ih =>
    intro j e h he
    cases a with
    | set p v =>
      exact ⟨h.1, h.2.1, h.2.2.1, h.2.2.2.1, ih _ e h.2.2.2.2 (by simpa [journalOf] using he)⟩
    | del p => exact ⟨h.1, ih _ e h.2 (by simpa [journalOf] using he)⟩

/-- `Reach c es`: `c` is reachable from a configuration with an empty journal by reloads of lower
    levels (`load`, also `load_shell_env` and the executor's task step), successful writes through
    navigated proxies (`modify`) and deletions (`remove`); `es` are the edits performed, in order. -/
inductive Reach : Cfg → List Edit → Prop
  | init {c : Cfg} : c.mods = [] → c.dels = [] → TypeOK c → Reach c []
  | reload {c : Cfg} {es : List Edit} (s : Slot) (data : KVs) : Reach c es → s ≠ .modifications → s ≠ .deletions →
      TypeOK (c.set s data) → Reach (c.set s data) es
  | write {c c' : Cfg} {es : List Edit} (path : List Step) (sub : KVs) (k : Key) (v : Val) : Reach c es →
      nav c.viewT path = .ok sub → WFV v → c.modify (path.map Prod.fst ++ [k]) v = .ok c' → TypeOK c' →
      Reach c' (es ++ [.set (path.map Prod.fst ++ [k]) v])
  | delete {c c' : Cfg} {es : List Edit} (p : List Key) : Reach c es → p ≠ [] → c.remove p = .ok c' →
      Reach c' (es ++ [.del p])
  | op {c c' : Cfg} {es : List Edit} (path : List Step) (sub : KVs) (o : Op) (out : Out) : Reach c es →
      nav c.viewT path = .ok sub → OpWF o → c.apply path o = .ok (c', out) → TypeOK c' →
      Reach c' (es ++ opEdits sub (path.map Prod.fst) o)

theorem reach_inv {c : Cfg} {es : List Edit} (h : Reach c es) :
    TypeOK c ∧ jOf c = journalOf ⟨[], []⟩ es ∧ JValid ⟨[], []⟩ es := by
  induction h with
  | init hm hd hc => exact ⟨hc, by simp [jOf, hm, hd, journalOf], trivial⟩
  | reload s data _ hs hs' hc ih =>
    exact ⟨hc, by rw [set_journal _ s data hs hs']; exact ih.2.1, ih.2.2⟩
  | @write c c' es path sub k v _ hnav hv hmod hc' ih =>
    obtain ⟨hj, _, hval⟩ := modify_journal ih.1 path sub k v hv hnav hmod
    refine ⟨hc', ?_, ?_⟩
    · rw [hj, ih.2.1, journalOf_append]; rfl
    · apply jvalid_append _ _ _ ih.2.2
      rw [← ih.2.1]; exact hval
  | @delete c c' es p _ hp hrem ih =>
    obtain ⟨hj, _, hval⟩ := remove_journal p hp hrem
    have hc' : TypeOK c' := by
      rw [remove_spec hrem]
      exact ⟨ih.1.lower, ih.1.mods, wf_markDel ih.1.dels p, ih.1.chain⟩
    refine ⟨hc', ?_, ?_⟩
    · rw [hj, ih.2.1, journalOf_append]; rfl
    · apply jvalid_append _ _ _ ih.2.2
      rw [← ih.2.1]; exact hval

  | @op c c' es path sub o out _ hnav hw happ hc' ih =>
    obtain ⟨hj, _, hval⟩ := apply_edits ih.1 path sub o hnav hw happ
    refine ⟨hc', ?_, ?_⟩
    · rw [hj, ih.2.1, journalOf_append]
    · apply jvalid_append_list _ _ _ ih.2.2
      rw [← ih.2.1]; exact hval

end Inv.Hist
