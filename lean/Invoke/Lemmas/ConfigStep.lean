import Invoke.Lemmas.ConfigPath
/-! One-step refinement (for EVERY base), validity of a navigated write, and the journal theorem:
    the modifications / deletion marks built up by any sequence of writes and deletions, replayed
    over any merge of the lower levels, read like the plain nested dict that received them. -/
namespace Inv.Hist
open Inv

/-! ### one step, for every base -/

/-- a write: the new view is the old view with the same value written into it -/
theorem step_set (p : List Key) (v : Val) (hv : WFV v) (b m d : KVs) (hb : WF b) (hm : WF m) (hd : WF d)
    (h1 : leafOnWay d p = false) (h3 : leafOnWay m p = false) (h2 : Fresh v b p) :
    Ext (viewT b (setPath m p v) (erasePath d p)) (setPath (viewT b m d) p v) := by
  intro r
  unfold viewT
  have e1 : Ext (mergeT b (setPath m p v)) (setPath (mergeT b m) p v) :=
    node_merge_setPath p v hv b m hm h3 h2
  have e2 := obl_congr e1 (erasePath d p) (wf_mergeT hb (wf_setPath hm p hv))
    (wf_setPath (wf_mergeT hb hm) p hv) (wf_erasePath hd p)
  rw [e2 r]
  exact node_obl_setPath p v hv (mergeT b m) d (wf_mergeT hb hm) hd h1 r

/-- a deletion: the new view is the old view with the path deleted -/
theorem step_del (p : List Key) (hp : p ≠ []) (b m d : KVs) (hb : WF b) (hm : WF m) (hd : WF d) :
    Ext (viewT b m (markDel d p)) (erasePath (viewT b m d) p) :=
  node_obl_markDel p hp (mergeT b m) d (wf_mergeT hb hm) hd

/-! ### navigation makes the write valid on every base -/

theorem nodeO_sec_subDict {q : List Key} {k : Key} {t : KVs} (h : nodeO q (lookup k t) = some .sec) :
    node q (subDict k t) = some .sec := by
  cases hl : lookup k t with
  | none => rw [hl] at h; simp at h
  | some v => cases v with
    | leaf x => rw [hl] at h; exact absurd h (nodeO_leaf_ne_sec q x)
    | dict d => rw [hl] at h; simpa [subDict, hl] using h

theorem lookup_viewT (k : Key) (b m d : KVs) (hb : WF b) (hm : WF m) (hd : WF d) :
    lookup k (viewT b m d) = oblAt (mergeAt (lookup k b) (lookup k m)) (lookup k d) := by
  unfold viewT
  rw [lookup_obl k _ d (wf_mergeT hb hm).nodup hd.nodup, lookup_mergeT' k b m hm.nodup]

theorem subDict_viewT (k : Key) (b m d : KVs) (hb : WF b) (hm : WF m) (hd : WF d)
    (hdl : ∀ x, lookup k d ≠ some (.leaf x)) (hml : ∀ x, lookup k m ≠ some (.leaf x)) :
    subDict k (viewT b m d) = viewT (subDict k b) (subDict k m) (subDict k d) := by
  unfold viewT
  rw [subDict_obl _ d k (wf_mergeT hb hm) hd hdl, subDict_mergeT b m k hm hml]

/-- If the parent section `q` of a write exists in the view over SOME base, then (base-independently)
    no ancestor of the written path is marked deleted and the modifications hold no leaf on the way. -/
theorem nav_valid (q : List Key) (k : Key) :
    ∀ (b m d : KVs), WF b → WF m → WF d → node q (viewT b m d) = some .sec →
      leafOnWay d (q ++ [k]) = false ∧ leafOnWay m (q ++ [k]) = false := by
  induction q with
  | nil => intro b m d _ _ _ _; simp [leafOnWay]
  | cons k0 q' ih =>
    intro b m d hb hm hd h
    rw [node_cons, lookup_viewT k0 b m d hb hm hd] at h
    have hdl : ∀ x, lookup k0 d ≠ some (.leaf x) := by
      intro x hx; rw [hx] at h; simp [oblAt] at h
    have hml : ∀ x, lookup k0 m ≠ some (.leaf x) := by
      intro x hx
      rw [hx] at h
      cases hl : lookup k0 d with
      | none => rw [hl] at h; exact absurd h (by simpa [oblAt, mergeAt] using nodeO_leaf_ne_sec q' x)
      | some dv => cases dv with
        | leaf y => exact absurd hl (hdl y)
        | dict dd => rw [hl] at h; exact absurd h (by simpa [oblAt, mergeAt] using nodeO_leaf_ne_sec q' x)
    rw [← lookup_viewT k0 b m d hb hm hd] at h
    have hs := nodeO_sec_subDict h
    rw [subDict_viewT k0 b m d hb hm hd hdl hml] at hs
    obtain ⟨i1, i2⟩ := ih (subDict k0 b) (subDict k0 m) (subDict k0 d) (wf_subDict hb k0) (wf_subDict hm k0)
      (wf_subDict hd k0) hs
    rw [List.cons_append]
    cases hq : q' ++ [k] with
    | nil => simp at hq
    | cons k1 r' =>
      rw [hq] at i1 i2
      exact ⟨(leafOnWay_cons2 d k0 k1 r').mpr ⟨hdl, i1⟩, (leafOnWay_cons2 m k0 k1 r').mpr ⟨hml, i2⟩⟩

/-! ### journals of edits -/

/-- the effective edits of a history (every mutator reduces to these two) -/
inductive Edit
  | set (p : List Key) (v : Val)
  | del (p : List Key)

/-- the runtime journal of a configuration: modifications and deletion marks -/
structure Journal where
  mods : KVs
  dels : KVs

/-- what `_modify` / `_remove` do to the journal -/
def Edit.toJournal (j : Journal) : Edit → Journal
  | .set p v => ⟨setPath j.mods p v, erasePath j.dels p⟩
  | .del p => ⟨j.mods, markDel j.dels p⟩

/-- what the same edit does to a plain nested dict (`t[p] = v` creating sections, `del t[p]`) -/
def Edit.toDict (t : KVs) : Edit → KVs
  | .set p v => setPath t p v
  | .del p => erasePath t p

def journalOf (j : Journal) (es : List Edit) : Journal := es.foldl Edit.toJournal j
def replay (t : KVs) (es : List Edit) : KVs := es.foldl Edit.toDict t

/-- base-independent validity of a sequence of edits starting from journal `j`: paths are non-empty,
    written values well-formed, and at the time of a write no ancestor of the path is marked deleted
    and the modifications hold no leaf on the way (what successful navigation guarantees, `nav_valid`) -/
def JValid (j : Journal) : List Edit → Prop
  | [] => True
  | .set p v :: rest => p ≠ [] ∧ WFV v ∧ leafOnWay j.dels p = false ∧ leafOnWay j.mods p = false ∧
      JValid (Edit.toJournal j (.set p v)) rest
  | .del p :: rest => p ≠ [] ∧ JValid (Edit.toJournal j (.del p)) rest

/-- every written value is a leaf, or a dict at a key path that is no section of the base `b` -/
def FreshAll (b : KVs) : List Edit → Prop
  | [] => True
  | .set p v :: rest => Fresh v b p ∧ FreshAll b rest
  | .del _ :: rest => FreshAll b rest

def EditsWF : List Edit → Prop
  | [] => True
  | .set _ v :: rest => WFV v ∧ EditsWF rest
  | .del _ :: rest => EditsWF rest

theorem JValid.editsWF {j : Journal} {es : List Edit} (h : JValid j es) : EditsWF es := by
  induction es generalizing j with
  | nil => trivial
  | cons e rest ih =>
    cases e with
    | set p v => exact ⟨h.2.1, ih h.2.2.2.2⟩
    | del p => exact ih h.2

theorem wf_toDict {t : KVs} (ht : WF t) (e : Edit) (he : EditsWF [e]) : WF (Edit.toDict t e) := by
  cases e with
  | set p v => exact wf_setPath ht p he.1
  | del p => exact wf_erasePath ht p

theorem wf_toJournal {j : Journal} (hm : WF j.mods) (hd : WF j.dels) (e : Edit) (he : EditsWF [e]) :
    WF (Edit.toJournal j e).mods ∧ WF (Edit.toJournal j e).dels := by
  cases e with
  | set p v => exact ⟨wf_setPath hm p he.1, wf_erasePath hd p⟩
  | del p => exact ⟨hm, wf_markDel hd p⟩

theorem toDict_congr {t t' : KVs} (ht : WF t) (ht' : WF t') (h : Ext t t') (e : Edit) :
    Ext (Edit.toDict t e) (Edit.toDict t' e) := by
  cases e with
  | set p v => exact setPath_congr p v h
  | del p => exact erasePath_congr p ht ht' h

theorem replay_congr (es : List Edit) : ∀ {t t' : KVs}, WF t → WF t' → Ext t t' → EditsWF es →
    Ext (replay t es) (replay t' es) := by
  induction es with
  | nil => intro t t' _ _ h _; exact h
  | cons e rest ih =>
    intro t t' ht ht' h hw
    have he : EditsWF [e] := by cases e with
      | set p v => exact ⟨hw.1, trivial⟩
      | del p => trivial
    have hr : EditsWF rest := by cases e with
      | set p v => exact hw.2
      | del p => exact hw
    simp only [replay, List.foldl_cons]
    exact ih (wf_toDict ht e he) (wf_toDict ht' e he) (toDict_congr ht ht' h e) hr

theorem wf_replay (es : List Edit) : ∀ {t : KVs}, WF t → EditsWF es → WF (replay t es) := by
  induction es with
  | nil => intro t h _; exact h
  | cons e rest ih =>
    intro t ht hw
    have he : EditsWF [e] := by cases e with
      | set p v => exact ⟨hw.1, trivial⟩
      | del p => trivial
    have hr : EditsWF rest := by cases e with
      | set p v => exact hw.2
      | del p => exact hw
    simp only [replay, List.foldl_cons]
    exact ih (wf_toDict ht e he) hr

/-- one edit: journal side and dict side agree over EVERY base -/
theorem step_edit (e : Edit) (j : Journal) (b : KVs) (hb : WF b) (hm : WF j.mods) (hd : WF j.dels)
    (hv : JValid j [e]) (hf : FreshAll b [e]) :
    Ext (viewT b (Edit.toJournal j e).mods (Edit.toJournal j e).dels) (Edit.toDict (viewT b j.mods j.dels) e) := by
  cases e with
  | set p v => exact step_set p v hv.2.1 b j.mods j.dels hb hm hd hv.2.2.1 hv.2.2.2.1 hf.1
  | del p => exact step_del p hv.1 b j.mods j.dels hb hm hd

/-- JOURNAL THEOREM.  Whatever sequence of (valid) writes and deletions built the journal, over
    EVERY well-formed base `b` in which the dict-valued writes are fresh the view equals the plain
    nested dict `b`-with-the-journal's-starting-view that received the same edits. -/
theorem journal_replay (es : List Edit) : ∀ (j : Journal), WF j.mods → WF j.dels → JValid j es →
    ∀ b, WF b → FreshAll b es →
      Ext (viewT b (journalOf j es).mods (journalOf j es).dels) (replay (viewT b j.mods j.dels) es) := by
  induction es with
  | nil => intro j _ _ _ b _ _; exact Ext.refl _
  | cons e rest ih =>
    intro j hm hd hv b hb hf
    have hv1 : JValid j [e] := by cases e with
      | set p v => exact ⟨hv.1, hv.2.1, hv.2.2.1, hv.2.2.2.1, trivial⟩
      | del p => exact ⟨hv.1, trivial⟩
    have hvr : JValid (Edit.toJournal j e) rest := by cases e with
      | set p v => exact hv.2.2.2.2
      | del p => exact hv.2
    have hf1 : FreshAll b [e] := by cases e with
      | set p v => exact ⟨hf.1, trivial⟩
      | del p => trivial
    have hfr : FreshAll b rest := by cases e with
      | set p v => exact hf.2
      | del p => exact hf
    have he : EditsWF [e] := hv1.editsWF
    obtain ⟨hm', hd'⟩ := wf_toJournal hm hd e he
    have h1 := ih (Edit.toJournal j e) hm' hd' hvr b hb hfr
    have h2 := step_edit e j b hb hm hd hv1 hf1
    have h3 := replay_congr rest (wf_viewT hb hm' hd') (wf_toDict (wf_viewT hb hm hd) e he) h2 hvr.editsWF
    simp only [journalOf, replay, List.foldl_cons] at h1 h3 ⊢
    exact h1.trans h3

@[simp] theorem viewT_empty (b : KVs) : viewT b [] [] = b := by simp [viewT]

/-! ### type-consistent level stacks: the raising merge agrees with the total one -/

/-- every level is well-formed and type-consistent with the merge of the levels below it -/
def ChainCompat (acc : KVs) : List KVs → Prop
  | [] => True
  | l :: ls => WF l ∧ Compat acc l ∧ ChainCompat (mergeT acc l) ls

theorem mergeLevels_eq (ls : List KVs) : ∀ acc, ChainCompat acc ls → mergeLevels acc ls = .ok (mergeLevelsT acc ls) := by
  induction ls with
  | nil => intro acc _; rfl
  | cons l rest ih =>
    intro acc h
    simp only [mergeLevels, mergeLevelsT, mergeKVs_eq_mergeT h.1 h.2.1]
    exact ih _ h.2.2

theorem mergeLevelsT_append (ls : List KVs) (m : KVs) : ∀ acc, mergeLevelsT acc (ls ++ [m]) = mergeT (mergeLevelsT acc ls) m := by
  induction ls with
  | nil => intro acc; simp [mergeLevelsT]
  | cons l rest ih => intro acc; simp [mergeLevelsT, ih]

theorem wf_mergeLevelsT (ls : List KVs) : ∀ acc, WF acc → (∀ l ∈ ls, WF l) → WF (mergeLevelsT acc ls) := by
  induction ls with
  | nil => intro acc h _; exact h
  | cons l rest ih =>
    intro acc h hl
    exact ih _ (wf_mergeT h (hl l (List.mem_cons_self ..))) (fun x hx => hl x (List.mem_cons_of_mem _ hx))

end Inv.Hist
