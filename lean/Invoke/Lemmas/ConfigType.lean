import Invoke.Lemmas.ConfigOps
/-! Type consistency is preserved by a navigated write whose value has the kind the lower levels expect
    (`KindOK`): the premise "the configuration after the write is type-consistent" of `modify_ok` is
    discharged from a LOCAL condition on the written value. -/
namespace Inv.Hist
open Inv

/-- the written value has the kind (leaf / section, recursively) the tree `B` has at `p`, if any -/
def KindOK (v : Val) (B : KVs) : List Key → Prop
  | [] => True
  | [k] => (match v, lookup k B with
      | .leaf _, some (.dict _) => False
      | .dict _, some (.leaf _) => False
      | .dict u, some (.dict x) => Compat x u
      | _, _ => True)
  | k :: k2 :: rest => KindOK v (subDict k B) (k2 :: rest)

theorem compat_subDict {B m : KVs} (hc : Compat B m) (k : Key) : Compat (subDict k B) (subDict k m) := by
  cases hb : lookup k B with
  | none => rw [subDict_of_none hb]; exact compat_nil _
  | some bv => cases bv with
    | leaf x => rw [subDict_of_leaf hb]; exact compat_nil _
    | dict bb =>
      cases hm : lookup k m with
      | none => rw [subDict_of_none hm]; exact compat_nil_right _
      | some mv => cases mv with
        | leaf y => rw [subDict_of_leaf hm]; exact compat_nil_right _
        | dict mm => rw [subDict_of_dict hb, subDict_of_dict hm]; exact hc.dd hb hm

theorem compat_setPath (p : List Key) (v : Val) :
    ∀ (B m : KVs), Compat B m → leafOnWay m p = false → leafOnWay B p = false → KindOK v B p →
      Compat B (setPath m p v) := by
  induction p with
  | nil => intro B m hc _ _ _; exact hc
  | cons k0 prest ih =>
    intro B m hc h3 hB hk
    cases prest with
    | nil =>
      refine .mk ?_ ?_ ?_
      · intro k x y h1 h2
        rw [lookup_setPath] at h2
        by_cases hkk : k = k0
        · subst hkk
          simp only [if_true, Option.some.injEq] at h2
          subst h2
          simpa [KindOK, h1] using hk
        · simp only [hkk, if_false] at h2; exact hc.dd h1 h2
      · intro k x y h1 h2
        rw [lookup_setPath] at h2
        by_cases hkk : k = k0
        · subst hkk
          simp only [if_true, Option.some.injEq] at h2
          subst h2
          simp [KindOK, h1] at hk
        · simp only [hkk, if_false] at h2; exact hc.dl h1 h2
      · intro k x y h1 h2
        rw [lookup_setPath] at h2
        by_cases hkk : k = k0
        · subst hkk
          simp only [if_true, Option.some.injEq] at h2
          subst h2
          simp [KindOK, h1] at hk
        · simp only [hkk, if_false] at h2; exact hc.ld h1 h2
    | cons k1 r' =>
      obtain ⟨hml, h3'⟩ := (leafOnWay_cons2 m k0 k1 r').mp h3
      obtain ⟨hBl, hB'⟩ := (leafOnWay_cons2 B k0 k1 r').mp hB
      have hsub := ih (subDict k0 B) (subDict k0 m) (compat_subDict hc k0) h3' hB' hk
      refine .mk ?_ ?_ ?_
      · intro k x y h1 h2
        rw [lookup_setPath] at h2
        by_cases hkk : k = k0
        · subst hkk
          simp only [if_true, Option.some.injEq, Val.dict.injEq] at h2
          subst h2
          rw [subDict_of_dict h1] at hsub
          exact hsub
        · simp only [hkk, if_false] at h2; exact hc.dd h1 h2
      · intro k x y h1 h2
        rw [lookup_setPath] at h2
        by_cases hkk : k = k0
        · subst hkk; simp at h2
        · simp only [hkk, if_false] at h2; exact hc.dl h1 h2
      · intro k x y h1 h2
        rw [lookup_setPath] at h2
        by_cases hkk : k = k0
        · subst hkk; exact hBl x h1
        · simp only [hkk, if_false] at h2; exact hc.ld h1 h2

theorem chainCompat_append (ls : List KVs) (m : KVs) : ∀ acc,
    ChainCompat acc (ls ++ [m]) ↔ ChainCompat acc ls ∧ WF m ∧ Compat (mergeLevelsT acc ls) m := by
  induction ls with
  | nil => intro acc; simp [ChainCompat, mergeLevelsT]
  | cons l rest ih =>
    intro acc
    simp only [List.cons_append, ChainCompat, mergeLevelsT, ih]
    constructor
    · rintro ⟨a, b, c, d, e⟩; exact ⟨⟨a, b, c⟩, d, e⟩
    · rintro ⟨⟨a, b, c⟩, d, e⟩; exact ⟨a, b, c, d, e⟩

theorem TypeOK.base_mods {c : Cfg} (h : TypeOK c) : Compat c.baseT c.mods :=
  ((chainCompat_append c.lower c.mods []).mp h.chain).2.2

/-- if the parent section could be navigated to, no lower level holds a leaf on the way either -/
theorem nav_base_valid (q : List Key) (k : Key) :
    ∀ (b m d : KVs), WF b → WF m → WF d → Compat b m → node q (viewT b m d) = some .sec →
      leafOnWay b (q ++ [k]) = false := by
  induction q with
  | nil => intro b m d _ _ _ _ _; simp [leafOnWay]
  | cons k0 q' ih =>
    intro b m d hb hm hd hc h
    have hv := nav_valid (k0 :: q') k b m d hb hm hd h
    rw [node_cons, lookup_viewT k0 b m d hb hm hd] at h
    rw [List.cons_append] at hv ⊢
    cases hq : q' ++ [k] with
    | nil => simp at hq
    | cons k1 r' =>
      rw [hq] at hv
      obtain ⟨hdl, _⟩ := (leafOnWay_cons2 d k0 k1 r').mp hv.1
      obtain ⟨hml, _⟩ := (leafOnWay_cons2 m k0 k1 r').mp hv.2
      have hbl : ∀ x, lookup k0 b ≠ some (.leaf x) := by
        intro x hx
        cases hmk : lookup k0 m with
        | none =>
          rw [hx, hmk] at h
          cases hdk : lookup k0 d with
          | none => rw [hdk] at h; exact absurd h (by simpa [oblAt, mergeAt] using nodeO_leaf_ne_sec q' x)
          | some dv => cases dv with
            | leaf y => exact absurd hdk (hdl y)
            | dict dd => rw [hdk] at h; exact absurd h (by simpa [oblAt, mergeAt] using nodeO_leaf_ne_sec q' x)
        | some mv => cases mv with
          | leaf y => exact absurd hmk (hml y)
          | dict mm => exact hc.ld hx hmk
      rw [← lookup_viewT k0 b m d hb hm hd] at h
      have hs := nodeO_sec_subDict h
      rw [subDict_viewT k0 b m d hb hm hd hdl hml] at hs
      have := ih (subDict k0 b) (subDict k0 m) (subDict k0 d) (wf_subDict hb k0) (wf_subDict hm k0)
        (wf_subDict hd k0) (compat_subDict hc k0) hs
      rw [hq] at this
      exact (leafOnWay_cons2 b k0 k1 r').mpr ⟨hbl, this⟩

/-- a navigated write of a value of the expected kind keeps the configuration type-consistent -/
theorem typeOK_modify {c : Cfg} (hc : TypeOK c) (q : List Key) (k : Key) (v : Val) (hv : WFV v)
    (hnav : node q c.viewT = some .sec) (hk : KindOK v c.baseT (q ++ [k])) :
    TypeOK { c with dels := erasePath c.dels (q ++ [k]), mods := setPath c.mods (q ++ [k]) v } := by
  have hb := wf_baseT hc.lower
  have hval := nav_valid q k c.baseT c.mods c.dels hb hc.mods hc.dels hnav
  have hB := nav_base_valid q k c.baseT c.mods c.dels hb hc.mods hc.dels hc.base_mods hnav
  obtain ⟨h1, _, _⟩ := (chainCompat_append c.lower c.mods []).mp hc.chain
  refine ⟨hc.lower, wf_setPath hc.mods _ hv, wf_erasePath hc.dels _, ?_⟩
  exact (chainCompat_append c.lower _ []).mpr
    ⟨h1, wf_setPath hc.mods _ hv, compat_setPath _ v c.baseT c.mods hc.base_mods hval.2 hB hk⟩

end Inv.Hist
