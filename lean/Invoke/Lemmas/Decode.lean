import Invoke.Model.Decode
/-! Helper lemmas for C02(a). -/
namespace Inv
namespace Decoder

theorem run_append (D : Decoder) (s : D.σ) (a b : List Byte) :
    D.run s (a ++ b) = (let (s1, o1) := D.run s a; let (s2, o2) := D.run s1 b; (s2, o1 ++ o2)) := by
  induction a generalizing s with
  | nil => simp [run]
  | cons x xs ih => simp [run, ih, List.append_assoc]

theorem runChunks_flatten (D : Decoder) (s : D.σ) (chunks : List (List Byte)) :
    D.runChunks s chunks = D.run s chunks.flatten := by
  induction chunks generalizing s with
  | nil => simp [runChunks, run]
  | cons c cs ih => simp [runChunks, run_append, ih]

end Decoder
end Inv
