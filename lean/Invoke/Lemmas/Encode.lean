import Invoke.Model.Encode
/-! Helper lemmas for the incremental-encoding theorems of `Props/C13.lean`. -/
namespace Inv.Encoder

theorem run_append (E : Encoder) (s : E.σ) (a b : List Nat) :
    E.run s (a ++ b) = ((E.run (E.run s a).1 b).1, (E.run s a).2 ++ (E.run (E.run s a).1 b).2) := by
  induction a generalizing s with
  | nil => simp [run]
  | cons c cs ih =>
    simp only [List.cons_append, run]
    rw [ih]
    simp [List.append_assoc]

theorem runPieces_flatten (E : Encoder) (s : E.σ) (pieces : List (List Nat)) :
    E.runPieces s pieces = E.run s pieces.flatten := by
  induction pieces generalizing s with
  | nil => simp [runPieces, run]
  | cons p ps ih =>
    simp only [runPieces, List.flatten_cons]
    rw [run_append, ih]

/-- for a stateless encoder the output of a run does not depend on the start state -/
theorem stateless_run (E : Encoder) (h : E.Stateless) (s : E.σ) (cs : List Nat) :
    (E.run s cs).2 = (E.run E.init cs).2 := by
  induction cs generalizing s with
  | nil => simp [run]
  | cons c cs ih =>
    simp only [run]
    rw [h s c, ih (E.feed s c).1, ih (E.feed E.init c).1]

end Inv.Encoder
