import Invoke.Model.Env
import Invoke.Lemmas.Val
/-! Lemmas for `Model/Env.lean`: complete characterisation of `_crawl`, leaf paths vs `getLeaf`, path writes
    (`setLeaf` = `_path_set`), and the loop of `Environment.load`. -/
namespace Inv

@[simp] theorem varNames_varsOf (ps : List (List Key)) : varNames (varsOf ps) = ps.map envVarName := by
  simp [varNames, varsOf, List.map_map, Function.comp_def]

@[simp] theorem varNames_append (a b : Vars) : varNames (a ++ b) = varNames a ++ varNames b := by
  simp [varNames]

@[simp] theorem varNames_nil : varNames [] = [] := rfl

@[simp] theorem varsOf_append (a b : List (List Key)) : varsOf (a ++ b) = varsOf a ++ varsOf b := by
  simp [varsOf]

@[simp] theorem varsOf_nil : varsOf [] = [] := rfl

theorem clash_iff (cr acc : Vars) : clash cr acc = true ↔ ∃ v ∈ varNames cr, v ∈ varNames acc := by
  simp only [clash, List.any_eq_true, hasVarName, List.contains_iff_mem, varNames, List.mem_map]
  constructor
  · rintro ⟨e, he, a, ha, hae⟩; exact ⟨e.1, ⟨e, he, rfl⟩, ⟨a, ha, hae⟩⟩
  · rintro ⟨v, ⟨e, he, rfl⟩, ha⟩; exact ⟨e, he, ha⟩

theorem leafVarNames_nil (path : List Key) : leafVarNames path [] = [] := by simp [leafVarNames, leafPaths]
theorem leafVarNames_leaf (path : List Key) (k : Key) (x : Leaf) (rest : KVs) :
    leafVarNames path ((k, .leaf x) :: rest) = envVarName (path ++ [k]) :: leafVarNames path rest := by
  simp [leafVarNames, leafPaths]
theorem leafVarNames_dict (path : List Key) (k : Key) (d : KVs) (rest : KVs) :
    leafVarNames path ((k, .dict d) :: rest) = leafVarNames (path ++ [k]) d ++ leafVarNames path rest := by
  simp [leafVarNames, leafPaths]

/-- complete characterisation of `_crawl` -/
theorem crawl_eq (path : List Key) (kvs : KVs) (acc : Vars) :
    crawl path kvs acc =
      if NoClash (leafVarNames path kvs) acc then .ok (acc ++ varsOf (leafPaths path kvs))
      else .error .ambiguousEnv := by
  fun_induction crawl path kvs acc with
  | case1 path acc => simp [leafVarNames_nil, NoClash, leafPaths]
  | case2 path k x rest acc hc =>
    rw [clash_iff] at hc
    have : ¬ NoClash (leafVarNames path ((k, .leaf x) :: rest)) acc := by
      rintro ⟨_, h2⟩
      obtain ⟨v, hv, hva⟩ := hc
      simp [varNames] at hv
      subst hv
      exact h2 _ (by simp [leafVarNames_leaf]) hva
    simp [this]
  | case3 path k x rest acc hc ih =>
    rw [ih]
    rw [clash_iff] at hc
    have hk : envVarName (path ++ [k]) ∉ varNames acc := by
      intro hm; exact hc ⟨_, by simp [varNames], hm⟩
    by_cases hg : NoClash (leafVarNames path ((k, .leaf x) :: rest)) acc
    · have hg' : NoClash (leafVarNames path rest) (acc ++ [(envVarName (path ++ [k]), path ++ [k])]) := by
        obtain ⟨h1, h2⟩ := hg
        rw [leafVarNames_leaf, List.nodup_cons] at h1
        refine ⟨h1.2, ?_⟩
        intro v hv
        simp only [varNames_append, List.mem_append, not_or]
        refine ⟨h2 v (by rw [leafVarNames_leaf]; exact List.mem_cons_of_mem _ hv), ?_⟩
        simp only [varNames, List.map_cons, List.map_nil, List.mem_singleton]
        intro e; subst e; exact h1.1 hv
      simp [hg, hg', leafPaths, varsOf]
    · have hg' : ¬ NoClash (leafVarNames path rest) (acc ++ [(envVarName (path ++ [k]), path ++ [k])]) := by
        rintro ⟨h1, h2⟩
        apply hg
        rw [leafVarNames_leaf]
        refine ⟨List.nodup_cons.mpr ⟨?_, h1⟩, ?_⟩
        · intro hm
          exact h2 _ hm (by simp [varNames])
        · intro v hv
          rcases List.mem_cons.mp hv with hv | hv
          · subst hv; exact hk
          · intro hva; exact h2 v hv (by simp [hva])
      simp [hg, hg']
  | case4 path k d rest acc e hx ih =>
    rw [ih] at hx
    have hd : ¬ NoClash (leafVarNames (path ++ [k]) d) [] := by
      intro hg; simp [hg] at hx
    have : ¬ NoClash (leafVarNames path ((k, .dict d) :: rest)) acc := by
      rintro ⟨h1, h2⟩
      apply hd
      rw [leafVarNames_dict] at h1
      exact ⟨(List.nodup_append.mp h1).1, by simp⟩
    simp only [hd, if_false, Except.error.injEq] at hx
    subst hx
    simp [this]
  | case5 path k d rest acc cr hx hc ih =>
    rw [ih] at hx
    by_cases hd : NoClash (leafVarNames (path ++ [k]) d) []
    · simp only [hd, if_true, List.nil_append, Except.ok.injEq] at hx
      subst hx
      rw [clash_iff] at hc
      have : ¬ NoClash (leafVarNames path ((k, .dict d) :: rest)) acc := by
        rintro ⟨_, h2⟩
        obtain ⟨v, hv, hva⟩ := hc
        rw [varNames_varsOf] at hv
        exact h2 v (by rw [leafVarNames_dict]; exact List.mem_append_left _ hv) hva
      simp [this]
    · simp [hd] at hx
  | case6 path k d rest acc cr hx hc ih2 ih1 =>
    rw [ih2] at hx
    by_cases hd : NoClash (leafVarNames (path ++ [k]) d) []
    · simp only [hd, if_true, List.nil_append, Except.ok.injEq] at hx
      subst hx
      rw [ih1]
      rw [clash_iff] at hc
      simp only [varNames_varsOf] at hc
      by_cases hg : NoClash (leafVarNames path ((k, .dict d) :: rest)) acc
      · have hg' : NoClash (leafVarNames path rest) (acc ++ varsOf (leafPaths (path ++ [k]) d)) := by
          obtain ⟨h1, h2⟩ := hg
          rw [leafVarNames_dict] at h1 h2
          obtain ⟨_, hr, hdis⟩ := List.nodup_append.mp h1
          refine ⟨hr, ?_⟩
          intro v hv
          simp only [varNames_append, varNames_varsOf, List.mem_append, not_or]
          exact ⟨h2 v (List.mem_append_right _ hv), fun hm => hdis v hm v hv rfl⟩
        simp [hg, hg', leafPaths]
      · have hg' : ¬ NoClash (leafVarNames path rest) (acc ++ varsOf (leafPaths (path ++ [k]) d)) := by
          rintro ⟨h1, h2⟩
          apply hg
          rw [leafVarNames_dict]
          refine ⟨List.nodup_append.mpr ⟨hd.1, h1, ?_⟩, ?_⟩
          · intro a ha b hb hab; subst hab
            exact h2 a hb (by simp only [varNames_append, varNames_varsOf, List.mem_append]; exact Or.inr ha)
          · intro v hv
            rcases List.mem_append.mp hv with hv | hv
            · intro hva; exact hc ⟨v, hv, hva⟩
            · intro hva; exact h2 v hv (by simp [hva])
        simp [hg, hg']
    · simp [hd] at hx

/-! ### leaf paths vs `getLeaf` -/

theorem mem_leafPaths_leaf {k : Key} {x : Leaf} {c : KVs} (path : List Key) (h : (k, Val.leaf x) ∈ c) :
    path ++ [k] ∈ leafPaths path c := by
  induction c with
  | nil => simp at h
  | cons hd tl ih =>
    obtain ⟨k2, v2⟩ := hd
    rcases List.mem_cons.mp h with h1 | h2
    · cases h1; simp [leafPaths]
    · cases v2 with
      | leaf y => simp only [leafPaths]; exact List.mem_cons_of_mem _ (ih h2)
      | dict d => simp only [leafPaths]; exact List.mem_append_right _ (ih h2)

theorem mem_leafPaths_dict {k : Key} {d : KVs} {c : KVs} (path : List Key) (h : (k, Val.dict d) ∈ c)
    {q : List Key} (hq : q ∈ leafPaths (path ++ [k]) d) : q ∈ leafPaths path c := by
  induction c with
  | nil => simp at h
  | cons hd tl ih =>
    obtain ⟨k2, v2⟩ := hd
    rcases List.mem_cons.mp h with h1 | h2
    · cases h1; simp only [leafPaths]; exact List.mem_append_left _ hq
    · cases v2 with
      | leaf y => simp only [leafPaths]; exact List.mem_cons_of_mem _ (ih h2)
      | dict d' => simp only [leafPaths]; exact List.mem_append_right _ (ih h2)

/-- every leaf setting is a crawled leaf path -/
theorem mem_leafPaths_of_getLeaf (p : List Key) (c : KVs) (path : List Key) (x : Leaf)
    (h : getLeaf p c = some x) : path ++ p ∈ leafPaths path c := by
  induction p generalizing c path with
  | nil => simp [getLeaf] at h
  | cons k rest ih =>
    cases rest with
    | nil =>
      simp only [getLeaf] at h
      cases hl : lookup k c with
      | none => simp [hl] at h
      | some v =>
        cases v with
        | dict d => simp [hl] at h
        | leaf y => exact mem_leafPaths_leaf path (mem_of_lookup hl)
    | cons k2 r2 =>
      simp only [getLeaf] at h
      cases hl : lookup k c with
      | none => simp [hl] at h
      | some v =>
        cases v with
        | leaf y => simp [hl] at h
        | dict d =>
          rw [hl] at h
          have := ih d (path ++ [k]) h
          have h2 := mem_leafPaths_dict path (mem_of_lookup hl) this
          simpa using h2

/-- in a well-formed dict every crawled leaf path is a leaf setting -/
theorem getLeaf_of_mem_leafPaths (c : KVs) (hw : WF c) (path q : List Key) (h : q ∈ leafPaths path c) :
    ∃ p, q = path ++ p ∧ isLeaf p c = true := by
  induction hw generalizing path q with
  | @mk c hnd _ ih =>
    -- list induction over the entries of `c`, remembering that they are entries of `c`
    have aux : ∀ (l : KVs), (∀ e ∈ l, e ∈ c) → q ∈ leafPaths path l → ∃ p, q = path ++ p ∧ isLeaf p c = true := by
      intro l
      induction l with
      | nil => intro _ hq; simp [leafPaths] at hq
      | cons hd tl ihl =>
        obtain ⟨k, v⟩ := hd
        intro hsub hq
        have hmem : (k, v) ∈ c := hsub _ (List.mem_cons_self ..)
        have hl := lookup_of_mem_nodup hnd hmem
        have hsub' : ∀ e ∈ tl, e ∈ c := fun e he => hsub e (List.mem_cons_of_mem _ he)
        cases v with
        | leaf x =>
          simp only [leafPaths, List.mem_cons] at hq
          rcases hq with hq | hq
          · exact ⟨[k], hq, by simp [isLeaf, getLeaf, hl]⟩
          · exact ihl hsub' hq
        | dict d =>
          simp only [leafPaths, List.mem_append] at hq
          rcases hq with hq | hq
          · obtain ⟨p, hp, hleaf⟩ := ih k d hl (path ++ [k]) q hq
            refine ⟨k :: p, by simp [hp], ?_⟩
            cases p with
            | nil => simp [isLeaf, getLeaf] at hleaf
            | cons k2 r2 => simpa [isLeaf, getLeaf, hl] using hleaf
          · exact ihl hsub' hq
    exact aux c (fun e he => he) h

/-! ### path writes -/

theorem getLeaf_subDict (k : Key) (m : KVs) (k2 : Key) (r : List Key) :
    getLeaf (k2 :: r) (subDict k m) = getLeaf (k :: k2 :: r) m := by
  simp only [subDict, getLeaf]
  cases lookup k m with
  | none => simp
  | some v => cases v <;> simp

theorem getLeaf_setLeaf_self (p : List Key) (hp : p ≠ []) (x : Leaf) (m : KVs) :
    getLeaf p (setLeaf p x m) = some x := by
  induction p generalizing m with
  | nil => exact absurd rfl hp
  | cons k rest ih =>
    cases rest with
    | nil => simp [setLeaf, getLeaf]
    | cons k2 r2 => simp only [setLeaf, getLeaf, lookup_insert_self]; exact ih (by simp) _

/-- a write at `q` changes the leaf at `p` only when `p = q` -/
theorem getLeaf_setLeaf_cases (p q : List Key) (x y : Leaf) (m : KVs)
    (h : getLeaf p (setLeaf q x m) = some y) : (p = q ∧ y = x) ∨ getLeaf p m = some y := by
  induction q generalizing p m with
  | nil => right; simpa [setLeaf] using h
  | cons k qr ih =>
    cases qr with
    | nil =>
      simp only [setLeaf] at h
      cases p with
      | nil => simp [getLeaf] at h
      | cons k' pr =>
        by_cases hk : k' = k
        · subst hk
          cases pr with
          | nil => simp only [getLeaf, lookup_insert_self, Option.some.injEq] at h; left; exact ⟨rfl, h.symm⟩
          | cons k3 pr' => simp [getLeaf] at h
        · right
          cases pr with
          | nil => simpa [getLeaf, lookup_insert_ne hk] using h
          | cons k3 pr' => simpa [getLeaf, lookup_insert_ne hk] using h
    | cons k2 qr' =>
      simp only [setLeaf] at h
      cases p with
      | nil => simp [getLeaf] at h
      | cons k' pr =>
        by_cases hk : k' = k
        · subst hk
          cases pr with
          | nil => simp [getLeaf] at h
          | cons k3 pr' =>
            simp only [getLeaf, lookup_insert_self] at h
            rcases ih (k3 :: pr') _ h with ⟨h1, h2⟩ | h1
            · left; exact ⟨by rw [h1], h2⟩
            · right; rw [← getLeaf_subDict]; exact h1
        · right
          cases pr with
          | nil => simpa [getLeaf, lookup_insert_ne hk] using h
          | cons k3 pr' => simpa [getLeaf, lookup_insert_ne hk] using h

/-- a write at `q` leaves every path alone that is neither a prefix nor an extension of `q` -/
theorem getLeaf_setLeaf_ne (p q : List Key) (x : Leaf) (m : KVs)
    (hpq : isPrefixOf p q = false) (hqp : isPrefixOf q p = false) :
    getLeaf p (setLeaf q x m) = getLeaf p m := by
  induction q generalizing p m with
  | nil => simp [isPrefixOf] at hqp
  | cons k qr ih =>
    cases p with
    | nil => simp [isPrefixOf] at hpq
    | cons k' pr =>
      by_cases hk : k' = k
      · subst hk
        simp only [isPrefixOf, beq_self_eq_true, Bool.true_and] at hpq hqp
        cases qr with
        | nil => simp [isPrefixOf] at hqp
        | cons k2 qr' =>
          cases pr with
          | nil => simp [isPrefixOf] at hpq
          | cons k3 pr' =>
            have e1 : getLeaf (k' :: k3 :: pr') (setLeaf (k' :: k2 :: qr') x m) =
                getLeaf (k3 :: pr') (setLeaf (k2 :: qr') x (subDict k' m)) := by
              simp only [setLeaf, getLeaf, lookup_insert_self]
            rw [e1, ih (k3 :: pr') _ hpq hqp, getLeaf_subDict]
      · cases qr with
        | nil =>
          cases pr with
          | nil => simp [setLeaf, getLeaf, lookup_insert_ne hk]
          | cons k3 pr' => simp [setLeaf, getLeaf, lookup_insert_ne hk]
        | cons k2 qr' =>
          cases pr with
          | nil => simp [setLeaf, getLeaf, lookup_insert_ne hk]
          | cons k3 pr' => simp [setLeaf, getLeaf, lookup_insert_ne hk]

/-- two leaf settings of one tree: neither path is a proper prefix of the other -/
theorem leaf_prefix_eq (p q : List Key) (c : KVs) (a b : Leaf) (hp : getLeaf p c = some a)
    (hq : getLeaf q c = some b) (hpre : isPrefixOf q p = true) : p = q := by
  induction q generalizing p c with
  | nil => simp [getLeaf] at hq
  | cons k qr ih =>
    cases p with
    | nil => simp [isPrefixOf] at hpre
    | cons k' pr =>
      simp only [isPrefixOf, Bool.and_eq_true, beq_iff_eq] at hpre
      obtain ⟨hk, hpre⟩ := hpre
      subst hk
      cases qr with
      | nil =>
        cases pr with
        | nil => rfl
        | cons k3 pr' =>
          simp only [getLeaf] at hp hq
          cases hl : lookup k c with
          | none => simp [hl] at hq
          | some v => cases v <;> simp [hl] at hp hq
      | cons k2 qr' =>
        cases pr with
        | nil => simp [isPrefixOf] at hpre
        | cons k3 pr' =>
          simp only [getLeaf] at hp hq
          cases hl : lookup k c with
          | none => simp [hl] at hq
          | some v =>
            cases v with
            | leaf y => simp [hl] at hq
            | dict d =>
              rw [hl] at hp hq
              rw [ih (k3 :: pr') d hp hq hpre]


/-! ### the loop of `Environment.load` -/

theorem isPrefixOf_false_of_leaves (p q : List Key) (c : KVs) (a b : Leaf) (hp : getLeaf p c = some a)
    (hq : getLeaf q c = some b) (hne : p ≠ q) : isPrefixOf p q = false ∧ isPrefixOf q p = false := by
  constructor
  · cases h : isPrefixOf p q with
    | false => rfl
    | true => exact absurd (leaf_prefix_eq q p c b a hq hp h).symm hne
  · cases h : isPrefixOf q p with
    | false => rfl
    | true => exact absurd (leaf_prefix_eq p q c a b hp hq h) hne

/-- nothing but casts of named existing settings is ever written -/
theorem applyVars_sound (pre : List Char) (environ : Environ) (c : KVs) (vars : Vars) (data data' : KVs)
    (h : applyVars pre environ c vars data = .ok data') (p : List Key) (y : Leaf)
    (hy : getLeaf p data' = some y) :
    getLeaf p data = some y ∨
      ∃ v old s, (v, p) ∈ vars ∧ lookupEnv (pre ++ v) environ = some s ∧ getLeaf p c = some old ∧
        castLeaf old s = .ok y := by
  induction vars generalizing data with
  | nil => simp only [applyVars, Except.ok.injEq] at h; subst h; exact Or.inl hy
  | cons hd tl ih =>
    obtain ⟨v, q⟩ := hd
    simp only [applyVars] at h
    cases hs : lookupEnv (pre ++ v) environ with
    | none =>
      simp only [hs] at h
      rcases ih data h with h1 | ⟨v', old, s, hm, h2⟩
      · exact Or.inl h1
      · exact Or.inr ⟨v', old, s, List.mem_cons_of_mem _ hm, h2⟩
    | some s =>
      simp only [hs] at h
      cases hq : getLeaf q c with
      | none => simp [hq] at h
      | some old =>
        simp only [hq] at h
        cases hc : castLeaf old s with
        | error e => simp [hc] at h
        | ok new =>
          simp only [hc] at h
          rcases ih _ h with h1 | ⟨v', old', s', hm, h2⟩
          · rcases getLeaf_setLeaf_cases p q new y data h1 with ⟨hpq, hyn⟩ | h3
            · subst hpq; subst hyn
              exact Or.inr ⟨v, old, s, List.mem_cons_self .., hs, hq, hc⟩
            · exact Or.inl h3
          · exact Or.inr ⟨v', old', s', List.mem_cons_of_mem _ hm, h2⟩

/-- a value written for `p` survives the rest of the loop (later writes go to other leaf settings, or
    re-write the same value) -/
theorem applyVars_keeps (pre : List Char) (environ : Environ) (c : KVs) (vars : Vars)
    (hnames : ∀ e ∈ vars, e.1 = envVarName e.2) (data data' : KVs)
    (h : applyVars pre environ c vars data = .ok data') (p : List Key) (old y : Leaf) (s : List Char)
    (hold : getLeaf p c = some old) (hs : lookupEnv (pre ++ envVarName p) environ = some s)
    (hc : castLeaf old s = .ok y) (hy : getLeaf p data = some y) : getLeaf p data' = some y := by
  induction vars generalizing data with
  | nil => simp only [applyVars, Except.ok.injEq] at h; subst h; exact hy
  | cons hd tl ih =>
    obtain ⟨v, q⟩ := hd
    have hv : v = envVarName q := hnames (v, q) (List.mem_cons_self ..)
    have hn' : ∀ e ∈ tl, e.1 = envVarName e.2 := fun e he => hnames e (List.mem_cons_of_mem _ he)
    simp only [applyVars] at h
    cases hs' : lookupEnv (pre ++ v) environ with
    | none => simp only [hs'] at h; exact ih hn' data h hy
    | some s' =>
      simp only [hs'] at h
      cases hq : getLeaf q c with
      | none => simp [hq] at h
      | some old' =>
        simp only [hq] at h
        cases hc' : castLeaf old' s' with
        | error e => simp [hc'] at h
        | ok new =>
          simp only [hc'] at h
          apply ih hn' _ h
          by_cases hpq : p = q
          · subst hpq
            rw [hv, hs] at hs'
            rw [hold] at hq
            cases hs'; cases hq
            rw [hc] at hc'; cases hc'
            exact getLeaf_setLeaf_self p (by intro e; subst e; simp [getLeaf] at hold) _ _
          · obtain ⟨h1, h2⟩ := isPrefixOf_false_of_leaves p q c old old' hold hq hpq
            rw [getLeaf_setLeaf_ne p q new data h1 h2]; exact hy

/-- every named existing setting is written, with the cast of its variable -/
theorem applyVars_complete (pre : List Char) (environ : Environ) (c : KVs) (vars : Vars)
    (hnames : ∀ e ∈ vars, e.1 = envVarName e.2) (data data' : KVs)
    (h : applyVars pre environ c vars data = .ok data') (p : List Key) (old : Leaf) (s : List Char)
    (hm : (envVarName p, p) ∈ vars) (hold : getLeaf p c = some old)
    (hs : lookupEnv (pre ++ envVarName p) environ = some s) :
    ∃ y, castLeaf old s = .ok y ∧ getLeaf p data' = some y := by
  induction vars generalizing data with
  | nil => simp at hm
  | cons hd tl ih =>
    obtain ⟨v, q⟩ := hd
    have hn' : ∀ e ∈ tl, e.1 = envVarName e.2 := fun e he => hnames e (List.mem_cons_of_mem _ he)
    rcases List.mem_cons.mp hm with h1 | h2
    · cases h1
      simp only [applyVars, hs, hold] at h
      cases hc : castLeaf old s with
      | error e => simp [hc] at h
      | ok y =>
        simp only [hc] at h
        refine ⟨y, rfl, ?_⟩
        exact applyVars_keeps pre environ c tl hn' _ data' h p old y s hold hs hc
          (getLeaf_setLeaf_self p (by intro e; subst e; simp [getLeaf] at hold) _ _)
    · simp only [applyVars] at h
      cases hs' : lookupEnv (pre ++ v) environ with
      | none => simp only [hs'] at h; exact ih hn' data h h2
      | some s' =>
        simp only [hs'] at h
        cases hq : getLeaf q c with
        | none => simp [hq] at h
        | some old' =>
          simp only [hq] at h
          cases hc' : castLeaf old' s' with
          | error e => simp [hc'] at h
          | ok new => simp only [hc'] at h; exact ih hn' _ h h2

/-- the loop only looks at the variables it crawled: environments that agree on those give the same result -/
theorem applyVars_congr (pre : List Char) (env₁ env₂ : Environ) (c : KVs) (vars : Vars) (data : KVs)
    (hagree : ∀ e ∈ vars, lookupEnv (pre ++ e.1) env₁ = lookupEnv (pre ++ e.1) env₂) :
    applyVars pre env₁ c vars data = applyVars pre env₂ c vars data := by
  induction vars generalizing data with
  | nil => rfl
  | cons hd tl ih =>
    obtain ⟨v, q⟩ := hd
    have h1 := hagree (v, q) (List.mem_cons_self ..)
    have ht : ∀ e ∈ tl, lookupEnv (pre ++ e.1) env₁ = lookupEnv (pre ++ e.1) env₂ :=
      fun e he => hagree e (List.mem_cons_of_mem _ he)
    have h1' : lookupEnv (pre ++ v) env₁ = lookupEnv (pre ++ v) env₂ := h1
    simp only [applyVars, h1']
    cases hs : lookupEnv (pre ++ v) env₂ with
    | none => simp only []; exact ih _ ht
    | some s =>
      cases hq : getLeaf q c with
      | none => simp only []
      | some old =>
        cases hc : castLeaf old s with
        | error e => simp only [hc]
        | ok new => simp only [hc]; exact ih _ ht

theorem lookupEnv_append (name : List Char) (a b : Environ) :
    lookupEnv name (a ++ b) = (lookupEnv name a).or (lookupEnv name b) := by
  induction a with
  | nil => simp [lookupEnv]
  | cons hd tl ih =>
    obtain ⟨n, v⟩ := hd
    by_cases h : name = n <;> simp [lookupEnv, h, ih]

theorem varsOf_names (ps : List (List Key)) : ∀ e ∈ varsOf ps, e.1 = envVarName e.2 := by
  intro e he
  simp only [varsOf, List.mem_map] at he
  obtain ⟨p, _, rfl⟩ := he
  rfl

theorem mem_varsOf (ps : List (List Key)) (v : List Char) (p : List Key) :
    (v, p) ∈ varsOf ps ↔ p ∈ ps ∧ v = envVarName p := by
  simp only [varsOf, List.mem_map, Prod.mk.injEq]
  constructor
  · rintro ⟨q, hq, h1, h2⟩; subst h2; exact ⟨hq, h1.symm⟩
  · rintro ⟨hp, hv⟩; exact ⟨p, hp, hv.symm, rfl⟩

/-- `load` = crawl, then the loop over exactly the leaf paths -/
theorem loadEnv_eq (pre : List Char) (environ : Environ) (c : KVs) :
    loadEnv pre environ c =
      if (leafVarNames [] c).Nodup then applyVars pre environ c (varsOf (leafPaths [] c)) []
      else .error .ambiguousEnv := by
  unfold loadEnv
  rw [crawl_eq]
  by_cases h : (leafVarNames [] c).Nodup
  · have : NoClash (leafVarNames [] c) [] := ⟨h, by simp⟩
    simp [this, h]
  · have : ¬ NoClash (leafVarNames [] c) [] := fun hh => h hh.1
    simp [this, h]


theorem eq_of_nodup_map {α β : Type} (f : α → β) (l : List α) (hnd : (l.map f).Nodup) {a b : α}
    (ha : a ∈ l) (hb : b ∈ l) (hab : f a = f b) : a = b := by
  induction l with
  | nil => simp at ha
  | cons x tl ih =>
    simp only [List.map_cons, List.nodup_cons, List.mem_map, not_exists, not_and] at hnd
    rcases List.mem_cons.mp ha with ha1 | ha2 <;> rcases List.mem_cons.mp hb with hb1 | hb2
    · rw [ha1, hb1]
    · subst ha1; exact absurd hab.symm (hnd.1 b hb2)
    · subst hb1; exact absurd hab (hnd.1 a ha2)
    · exact ih hnd.2 ha2 hb2

/-- every crawled leaf path below `path` continues with a key of the dict -/
theorem mem_leafPaths_head (path : List Key) (l : KVs) (q : List Key) (h : q ∈ leafPaths path l) :
    ∃ k r, q = path ++ k :: r ∧ k ∈ keys l := by
  fun_induction leafPaths path l with
  | case1 path => simp at h
  | case2 path k x rest ih =>
    rcases List.mem_cons.mp h with h1 | h2
    · exact ⟨k, [], by simp [h1], by simp [keys_cons]⟩
    · obtain ⟨k', r, hq, hk⟩ := ih h2
      exact ⟨k', r, hq, by rw [keys_cons]; exact List.mem_cons_of_mem _ hk⟩
  | case3 path k d rest ih1 ih2 =>
    rcases List.mem_append.mp h with h1 | h2
    · obtain ⟨k', r, hq, _⟩ := ih1 h1
      exact ⟨k, k' :: r, by simp [hq], by simp [keys_cons]⟩
    · obtain ⟨k', r, hq, hk⟩ := ih2 h2
      exact ⟨k', r, hq, by rw [keys_cons]; exact List.mem_cons_of_mem _ hk⟩

/-- in a well-formed dict the crawl visits every leaf path once -/
theorem leafPaths_nodup (c : KVs) (hw : WF c) (path : List Key) : (leafPaths path c).Nodup := by
  induction hw generalizing path with
  | @mk c hnd _ ih =>
    have aux : ∀ (l : KVs), (keys l).Nodup → (∀ e ∈ l, e ∈ c) → (leafPaths path l).Nodup := by
      intro l
      induction l with
      | nil => intro _ _; simp [leafPaths]
      | cons hd tl ihl =>
        obtain ⟨k, v⟩ := hd
        intro hndl hsub
        rw [keys_cons, List.nodup_cons] at hndl
        have hsub' : ∀ e ∈ tl, e ∈ c := fun e he => hsub e (List.mem_cons_of_mem _ he)
        have htl := ihl hndl.2 hsub'
        have hdis : ∀ q ∈ leafPaths path tl, ∀ r, q ≠ path ++ k :: r := by
          intro q hq r e
          obtain ⟨k', r', hq', hk'⟩ := mem_leafPaths_head path tl q hq
          rw [e] at hq'
          have := List.append_cancel_left hq'
          simp only [List.cons.injEq] at this
          exact hndl.1 (this.1 ▸ hk')
        cases v with
        | leaf x =>
          simp only [leafPaths, List.nodup_cons]
          refine ⟨?_, htl⟩
          intro hm
          exact hdis _ hm [] rfl
        | dict d =>
          simp only [leafPaths]
          have hl := lookup_of_mem_nodup hnd (hsub _ (List.mem_cons_self ..))
          refine List.nodup_append.mpr ⟨ih k d hl (path ++ [k]), htl, ?_⟩
          intro a ha b hb hab
          subst hab
          obtain ⟨k', r', hq', _⟩ := mem_leafPaths_head (path ++ [k]) d a ha
          exact hdis a hb (k' :: r') (by simp [hq'])
    exact aux c hnd (fun e he => he)

theorem exists_ne_of_not_nodup_map {α β : Type} (f : α → β) (l : List α) (hl : l.Nodup)
    (h : ¬ (l.map f).Nodup) : ∃ a ∈ l, ∃ b ∈ l, a ≠ b ∧ f a = f b := by
  induction l with
  | nil => simp at h
  | cons x tl ih =>
    rw [List.nodup_cons] at hl
    simp only [List.map_cons, List.nodup_cons, List.mem_map] at h
    by_cases hx : ∃ y, y ∈ tl ∧ f y = f x
    · obtain ⟨y, hy, hxy⟩ := hx
      refine ⟨x, List.mem_cons_self .., y, List.mem_cons_of_mem _ hy, ?_, hxy.symm⟩
      intro e; subst e; exact hl.1 hy
    · have h' : ¬ (tl.map f).Nodup := fun hn => h ⟨hx, hn⟩
      obtain ⟨a, ha, b, hb, hab⟩ := ih hl.2 h'
      exact ⟨a, List.mem_cons_of_mem _ ha, b, List.mem_cons_of_mem _ hb, hab⟩


/-! ### reloading -/

theorem envCastOrder_eq : Generated.envCastOrder = ["bool", "str", "none", "seq", "other"] := by decide

/-- a successful cast keeps the kind of the value, so casting by the NEW value is casting by the old one -/
theorem castLeaf_kind_stable (old y : Leaf) (s : List Char) (h : castLeaf old s = .ok y) (s' : List Char) :
    castLeaf y s' = castLeaf old s' := by
  simp only [castLeaf, envCastOrder_eq] at h ⊢
  cases old with
  | none =>
    simp [castWith, branchApplies, runBranch] at h; subst h
    simp [castWith, branchApplies, runBranch]
  | b v =>
    simp [castWith, branchApplies, runBranch] at h; subst h
    simp [castWith, branchApplies, runBranch]
  | i v =>
    simp only [castWith, branchApplies, runBranch, classCall, List.find?, String.reduceBEq, if_true, if_false,
      Bool.false_eq_true] at h ⊢
    cases hp : pyInt s with
    | none => simp [hp] at h
    | some k => simp only [hp, Except.ok.injEq] at h; subst h; simp
  | s v =>
    simp [castWith, branchApplies, runBranch] at h; subst h
    simp [castWith, branchApplies, runBranch]
  | l v => simp [castWith, branchApplies, runBranch] at h
  | obj t =>
    simp [castWith, branchApplies, runBranch, classCall] at h; subst h
    simp [castWith, branchApplies, runBranch, classCall]

theorem applyVars_cons (pre : List Char) (environ : Environ) (c : KVs) (var : List Char) (p : List Key)
    (rest : Vars) (data : KVs) :
    applyVars pre environ c ((var, p) :: rest) data =
      match lookupEnv (pre ++ var) environ with
      | none => applyVars pre environ c rest data
      | some s => match castAt c p s with
        | .error e => .error e
        | .ok new => applyVars pre environ c rest (setLeaf p new data) := by
  simp only [applyVars, castAt]
  cases lookupEnv (pre ++ var) environ with
  | none => rfl
  | some s => cases getLeaf p c <;> rfl

/-- the loop depends on the configuration only through the casts at the crawled paths -/
theorem applyVars_congr_config (pre : List Char) (environ : Environ) (c c' : KVs) (vars : Vars) (data : KVs)
    (h : ∀ e ∈ vars, ∀ s, castAt c e.2 s = castAt c' e.2 s) :
    applyVars pre environ c vars data = applyVars pre environ c' vars data := by
  induction vars generalizing data with
  | nil => rfl
  | cons hd tl ih =>
    obtain ⟨v, q⟩ := hd
    have ht : ∀ e ∈ tl, ∀ s, castAt c e.2 s = castAt c' e.2 s := fun e he => h e (List.mem_cons_of_mem _ he)
    rw [applyVars_cons, applyVars_cons]
    cases lookupEnv (pre ++ v) environ with
    | none => exact ih _ ht
    | some s =>
      have := h (v, q) (List.mem_cons_self ..) s
      simp only at this
      simp only [this]
      cases castAt c' q s with
      | error e => rfl
      | ok new => exact ih _ ht

/-- RELOAD.  `load` sees the configuration only through its leaf paths and through how each leaf casts: two
    configurations with the same leaf paths whose leaves cast alike give the same env level (or the same refusal)
    under every environment -/
theorem loadEnv_congr_config (pre : List Char) (environ : Environ) (c c' : KVs)
    (hpaths : leafPaths [] c = leafPaths [] c')
    (hcast : ∀ p ∈ leafPaths [] c, ∀ s, castAt c p s = castAt c' p s) :
    loadEnv pre environ c = loadEnv pre environ c' := by
  rw [loadEnv_eq, loadEnv_eq]
  have hn : leafVarNames [] c = leafVarNames [] c' := by simp [leafVarNames, hpaths]
  rw [← hn, ← hpaths]
  by_cases h : (leafVarNames [] c).Nodup
  · simp only [h, if_true]
    apply applyVars_congr_config
    intro e he s
    obtain ⟨v, p⟩ := e
    rw [mem_varsOf] at he
    exact hcast p he.1 s
  · simp [h]


end Inv
