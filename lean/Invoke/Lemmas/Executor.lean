import Invoke.Model.Executor
/-! Helper lemmas for C04 (expansion, dedupe, results map, bound arguments). -/
namespace Inv.Exec

/-! ### expansion -/

theorem expand_nil : expand [] = [] := by simp [expand]

theorem expand_cons (c : CallT) (cs : List CallT) :
    expand (c :: cs) = expand c.1.pre ++ occ c :: expand c.1.post ++ expand cs := by
  obtain ⟨t, a⟩ := c
  cases t with
  | mk id key cls pre post => simp [expand, expandCall, occ, TaskT.pre, TaskT.post, TaskT.id, TaskT.key, TaskT.cls]

theorem expand_append (a b : List CallT) : expand (a ++ b) = expand a ++ expand b := by
  induction a with
  | nil => simp [expand_nil]
  | cons c cs ih => simp [expand_cons, ih]

theorem expand_singleton (c : CallT) : expand [c] = expand c.1.pre ++ occ c :: expand c.1.post := by
  simp [expand_cons, expand_nil]

/-- `c` occurs somewhere in the forest `cs` (at top level or below a pre/post list) -/
inductive Sub (c : CallT) : List CallT → Prop
  | here {cs} : c ∈ cs → Sub c cs
  | inPre {d cs} : d ∈ cs → Sub c d.1.pre → Sub c cs
  | inPost {d cs} : d ∈ cs → Sub c d.1.post → Sub c cs

theorem expand_mem_split {d : CallT} {cs : List CallT} (h : d ∈ cs) :
    ∃ l r, expand cs = l ++ (expand d.1.pre ++ occ d :: expand d.1.post) ++ r := by
  obtain ⟨s, t, rfl⟩ := List.append_of_mem h
  refine ⟨expand s, expand t, ?_⟩
  simp [expand_append, expand_cons]

/-! ### `kwEq`, `callEq` are the extensional equalities -/

theorem lookup_none_of_not_mem {k : Name} {a : KW} (h : k ∉ keys a) : lookup k a = none := by
  induction a with
  | nil => simp [lookup]
  | cons kv r ih =>
    obtain ⟨k', v⟩ := kv
    simp only [keys, List.map_cons, List.mem_cons, not_or] at h
    have hne : ¬ k' = k := fun e => h.1 e.symm
    simp only [lookup, hne, if_false]
    exact ih (by simpa [keys] using h.2)

theorem lookup_some_mem {k : Name} {a : KW} {v : AVal} (h : lookup k a = some v) : k ∈ keys a := by
  apply Classical.byContradiction
  intro hn
  rw [lookup_none_of_not_mem hn] at h
  cases h

theorem kwEq_iff (a b : KW) : kwEq a b = true ↔ ∀ k, lookup k a = lookup k b := by
  constructor
  · intro h k
    simp only [kwEq, List.all_eq_true, List.mem_append, sameAt, beq_iff_eq] at h
    by_cases hk : k ∈ keys a ∨ k ∈ keys b
    · exact h k hk
    · rw [not_or] at hk
      rw [lookup_none_of_not_mem hk.1, lookup_none_of_not_mem hk.2]
  · intro h
    simp only [kwEq, List.all_eq_true, sameAt, beq_iff_eq]
    intro k _
    exact h k

theorem callEqPinned_iff (c d : Occ) :
    callEqPinned c d = true ↔ c.cls = d.cls ∧ c.args.pos = d.args.pos ∧ ∀ k, lookup k c.args.kw = lookup k d.args.kw := by
  simp [callEqPinned, argsEq, kwEq_iff]

theorem callEqPinned_refl (c : Occ) : callEqPinned c c = true := by simp [callEqPinned_iff]

theorem callEqPinned_symm {c d : Occ} (h : callEqPinned c d = true) : callEqPinned d c = true := by
  rw [callEqPinned_iff] at *
  exact ⟨h.1.symm, h.2.1.symm, fun k => (h.2.2 k).symm⟩

theorem callEqPinned_trans {c d e : Occ} (h₁ : callEqPinned c d = true) (h₂ : callEqPinned d e = true) : callEqPinned c e = true := by
  rw [callEqPinned_iff] at *
  exact ⟨h₁.1.trans h₂.1, h₁.2.1.trans h₂.2.1, fun k => (h₁.2.2 k).trans (h₂.2.2 k)⟩

theorem argsEq_iff (a b : CArgs) :
    argsEq a b = true ↔ a.pos = b.pos ∧ ∀ k, lookup k a.kw = lookup k b.kw := by
  simp [argsEq, kwEq_iff]

theorem boundEq_iff (a b : Bound) :
    boundEq a b = true ↔ a.slots = b.slots ∧ a.extraPos = b.extraPos ∧ ∀ k, lookup k a.extraKw = lookup k b.extraKw := by
  simp [boundEq, kwEq_iff, and_assoc]

theorem effArgsEq_refl (e : Eff) : effArgsEq e e = true := by
  cases e with
  | bound l => simp [effArgsEq, boundEq_iff]
  | literal a => simp [effArgsEq, argsEq_iff]

theorem effArgsEq_symm {e f : Eff} (h : effArgsEq e f = true) : effArgsEq f e = true := by
  cases e <;> cases f <;> simp only [effArgsEq] at h ⊢
  · rw [boundEq_iff] at h ⊢; exact ⟨h.1.symm, h.2.1.symm, fun k => (h.2.2 k).symm⟩
  · cases h
  · cases h
  · rw [argsEq_iff] at h ⊢; exact ⟨h.1.symm, fun k => (h.2 k).symm⟩

theorem effArgsEq_trans {e f g : Eff} (h₁ : effArgsEq e f = true) (h₂ : effArgsEq f g = true) :
    effArgsEq e g = true := by
  cases e <;> cases f <;> cases g <;> simp only [effArgsEq] at h₁ h₂ ⊢
  all_goals first
    | (rw [boundEq_iff] at h₁ h₂ ⊢
       exact ⟨h₁.1.trans h₂.1, h₁.2.1.trans h₂.2.1, fun k => (h₁.2.2 k).trans (h₂.2.2 k)⟩)
    | (rw [argsEq_iff] at h₁ h₂ ⊢; exact ⟨h₁.1.trans h₂.1, fun k => (h₁.2 k).trans (h₂.2 k)⟩)
    | cases h₁
    | cases h₂

theorem callEq_iff (sig : Nat → Sig) (c d : Occ) :
    callEq sig c d = true ↔
      c.cls = d.cls ∧ effArgsEq (effArgs (sig c.id) c.args) (effArgs (sig d.id) d.args) = true := by
  simp [callEq]

theorem callEq_refl (sig : Nat → Sig) (c : Occ) : callEq sig c c = true := by
  rw [callEq_iff]; exact ⟨rfl, effArgsEq_refl _⟩

theorem callEq_symm (sig : Nat → Sig) {c d : Occ} (h : callEq sig c d = true) : callEq sig d c = true := by
  rw [callEq_iff] at *
  exact ⟨h.1.symm, effArgsEq_symm h.2⟩

theorem callEq_trans (sig : Nat → Sig) {c d e : Occ} (h₁ : callEq sig c d = true)
    (h₂ : callEq sig d e = true) : callEq sig c e = true := by
  rw [callEq_iff] at *
  exact ⟨h₁.1.trans h₂.1, effArgsEq_trans h₁.2 h₂.2⟩

/-- for calls Python can bind, `Call.__eq__` is: equal tasks and equal bound arguments -/
theorem callEq_wellCalled (sig : Nat → Sig) (c d : Occ)
    (hc : wellCalled (sig c.id) c.args = true) (hd : wellCalled (sig d.id) d.args = true) :
    callEq sig c d = (c.cls == d.cls && boundEq (bindS (sig c.id) c.args) (bindS (sig d.id) d.args)) := by
  simp [callEq, effArgs, hc, hd, effArgsEq]

/-! ### dedupe, for an arbitrary comparison `eqv` -/

section Dedupe
variable {α : Type} (eqv : α → α → Bool)

theorem isSeen_iff (c : α) (kept : List α) : isSeen eqv c kept = true ↔ ∃ d ∈ kept, eqv d c = true := by
  simp [isSeen, eqvTo]

theorem dedupeFrom_sublist (kept l : List α) : (dedupeFrom eqv kept l).Sublist l := by
  induction l generalizing kept with
  | nil => simp [dedupeFrom]
  | cons c cs ih =>
    simp only [dedupeFrom]
    split
    · exact (ih kept).trans (List.sublist_cons_self c cs)
    · exact (ih (kept ++ [c])).cons_cons c

theorem dedupeFrom_fresh (kept l : List α) :
    (dedupeFrom eqv kept l).Pairwise (fun a b => eqv a b = false) ∧
    ∀ x ∈ dedupeFrom eqv kept l, ∀ k ∈ kept, eqv k x = false := by
  induction l generalizing kept with
  | nil => simp [dedupeFrom]
  | cons c cs ih =>
    simp only [dedupeFrom]
    split
    · exact ih kept
    · rename_i hns
      have hns' : ∀ d ∈ kept, eqv d c = false := by
        intro d hd
        cases hdc : eqv d c with
        | false => rfl
        | true => exact absurd ((isSeen_iff eqv c kept).2 ⟨d, hd, hdc⟩) hns
      obtain ⟨ih1, ih2⟩ := ih (kept ++ [c])
      refine ⟨List.pairwise_cons.2 ⟨?_, ih1⟩, ?_⟩
      · intro x hx
        exact ih2 x hx c (by simp)
      · intro x hx k hk
        rcases List.mem_cons.1 hx with rfl | hx
        · exact hns' k hk
        · exact ih2 x hx k (by simp [hk])

theorem dedupeFrom_repr (hrefl : ∀ x, eqv x x = true) (kept l : List α) :
    ∀ c ∈ l, ∃ d ∈ kept ++ dedupeFrom eqv kept l, eqv d c = true := by
  induction l generalizing kept with
  | nil => simp
  | cons h cs ih =>
    intro c hc
    simp only [dedupeFrom]
    split
    · rename_i hs
      rcases List.mem_cons.1 hc with rfl | hc
      · obtain ⟨d, hd, hdc⟩ := (isSeen_iff eqv c kept).1 hs
        exact ⟨d, by simp [hd], hdc⟩
      · exact ih kept c hc
    · rcases List.mem_cons.1 hc with rfl | hc
      · exact ⟨c, by simp, hrefl c⟩
      · obtain ⟨d, hd, hdc⟩ := ih (kept ++ [h]) c hc
        exact ⟨d, by simpa using hd, hdc⟩

theorem dedupeFrom_append (kept l₁ l₂ : List α) :
    dedupeFrom eqv kept (l₁ ++ l₂) =
      dedupeFrom eqv kept l₁ ++ dedupeFrom eqv (kept ++ dedupeFrom eqv kept l₁) l₂ := by
  induction l₁ generalizing kept with
  | nil => simp [dedupeFrom]
  | cons c cs ih =>
    simp only [List.cons_append, dedupeFrom]
    split
    · exact ih kept
    · rw [ih (kept ++ [c])]
      simp

/-- an element is seen among the executed ones iff an equal one occurred before it at all
    (needs `eqv` to be an equivalence) -/
theorem isSeen_dedupeFrom (hrefl : ∀ x, eqv x x = true)
    (htrans : ∀ x y z, eqv x y = true → eqv y z = true → eqv x z = true)
    (c : α) (kept l : List α) :
    isSeen eqv c (kept ++ dedupeFrom eqv kept l) = isSeen eqv c (kept ++ l) := by
  rw [Bool.eq_iff_iff, isSeen_iff, isSeen_iff]
  constructor
  · rintro ⟨d, hd, hdc⟩
    refine ⟨d, ?_, hdc⟩
    rcases List.mem_append.1 hd with h | h
    · exact List.mem_append_left _ h
    · exact List.mem_append_right _ ((dedupeFrom_sublist eqv kept l).subset h)
  · rintro ⟨d, hd, hdc⟩
    rcases List.mem_append.1 hd with h | h
    · exact ⟨d, List.mem_append_left _ h, hdc⟩
    · obtain ⟨d', hd', hd'd⟩ := dedupeFrom_repr eqv hrefl kept l d h
      exact ⟨d', hd', htrans _ _ _ hd'd hdc⟩

/-- two comparisons that agree on the members of the list dedupe it identically -/
theorem dedupeFrom_congr (eqv' : α → α → Bool) (kept l : List α)
    (h : ∀ x ∈ kept ++ l, ∀ y ∈ kept ++ l, eqv x y = eqv' x y) :
    dedupeFrom eqv kept l = dedupeFrom eqv' kept l := by
  induction l generalizing kept with
  | nil => simp [dedupeFrom]
  | cons c cs ih =>
    have hs : isSeen eqv c kept = isSeen eqv' c kept := by
      rw [Bool.eq_iff_iff, isSeen_iff, isSeen_iff]
      constructor
      · rintro ⟨d, hd, hdc⟩
        exact ⟨d, hd, by rw [← h d (by simp [hd]) c (by simp)]; exact hdc⟩
      · rintro ⟨d, hd, hdc⟩
        exact ⟨d, hd, by rw [h d (by simp [hd]) c (by simp)]; exact hdc⟩
    simp only [dedupeFrom, hs]
    split
    · exact ih kept (fun x hx y hy => h x (by
        rcases List.mem_append.1 hx with hx | hx
        · simp [hx]
        · simp [hx]) y (by
        rcases List.mem_append.1 hy with hy | hy
        · simp [hy]
        · simp [hy]))
    · rw [ih (kept ++ [c]) (fun x hx y hy => h x (by simpa using hx) y (by simpa using hy))]

end Dedupe

/-! ### results map -/

theorem lookupKV_insertKV_self (k v : Nat) (m : List (Nat × Nat)) : lookupKV k (insertKV k v m) = some v := by
  induction m with
  | nil => simp [insertKV, lookupKV]
  | cons kv r ih =>
    obtain ⟨k', v'⟩ := kv
    by_cases h : k' = k
    · simp [insertKV, lookupKV, h]
    · simp [insertKV, lookupKV, h, ih]

theorem lookupKV_insertKV_ne {k k' : Nat} (h : k' ≠ k) (v : Nat) (m : List (Nat × Nat)) :
    lookupKV k (insertKV k' v m) = lookupKV k m := by
  induction m with
  | nil => simp [insertKV, lookupKV, h]
  | cons kv r ih =>
    obtain ⟨k'', v''⟩ := kv
    by_cases h2 : k'' = k'
    · subst h2
      simp [insertKV, lookupKV, h]
    · by_cases h3 : k'' = k
      · have h' : ¬ k = k' := fun e => h e.symm
        simp [insertKV, lookupKV, h3, h']
      · simp [insertKV, lookupKV, h2, h3, ih]

/-- index (counted from `i`) of the last execution of task `t` in the log -/
def lastIdxFrom (t : Nat) : Nat → List Occ → Option Nat
  | _, [] => none
  | i, o :: os =>
    match lastIdxFrom t (i + 1) os with
    | some j => some j
    | none => if o.key = t then some i else none

theorem lookupKV_runResults (t i : Nat) (acc : List (Nat × Nat)) (os : List Occ) :
    lookupKV t (runResults i acc os) =
      match lastIdxFrom t i os with
      | some j => some j
      | none => lookupKV t acc := by
  induction os generalizing i acc with
  | nil => simp [runResults, lastIdxFrom]
  | cons o os ih =>
    simp only [runResults, lastIdxFrom]
    rw [ih]
    cases hl : lastIdxFrom t (i + 1) os with
    | some j => simp
    | none =>
      by_cases h : o.key = t
      · simp [h, lookupKV_insertKV_self]
      · simp [h, lookupKV_insertKV_ne h]

theorem lastIdxFrom_none (t : Nat) (os : List Occ) (i : Nat) :
    lastIdxFrom t i os = none ↔ ∀ o ∈ os, o.key ≠ t := by
  induction os generalizing i with
  | nil => simp [lastIdxFrom]
  | cons o os ih =>
    simp only [lastIdxFrom]
    cases hl : lastIdxFrom t (i + 1) os with
    | some j =>
      have := (not_congr (ih (i + 1))).1 (by rw [hl]; simp)
      simp only [reduceCtorEq, false_iff]
      intro hall
      exact this (fun x hx => hall x (List.mem_cons_of_mem _ hx))
    | none =>
      have hos := (ih (i + 1)).1 hl
      by_cases h : o.key = t
      · simp [h]
      · simp only [h, if_false, true_iff]
        intro x hx
        rcases List.mem_cons.1 hx with rfl | hx
        · exact h
        · exact hos x hx

theorem lastIdxFrom_spec (t : Nat) (os : List Occ) (i j : Nat) :
    lastIdxFrom t i os = some j ↔
      ∃ k, j = i + k ∧ (os[k]?).map Occ.key = some t ∧ ∀ k', k < k' → (os[k']?).map Occ.key ≠ some t := by
  induction os generalizing i j with
  | nil => simp [lastIdxFrom]
  | cons o os ih =>
    simp only [lastIdxFrom]
    cases hl : lastIdxFrom t (i + 1) os with
    | some j' =>
      obtain ⟨k, hk, hk1, hk2⟩ := (ih (i + 1) j').1 hl
      simp only [Option.some.injEq]
      constructor
      · rintro rfl
        refine ⟨k + 1, by omega, by simpa using hk1, ?_⟩
        intro k' hk'
        cases k' with
        | zero => omega
        | succ k'' => simpa using hk2 k'' (by omega)
      · rintro ⟨m, rfl, hm1, hm2⟩
        -- the last index is unique
        rcases Nat.lt_trichotomy m (k + 1) with hlt | heq | hgt
        · exact absurd (by simpa using hk1) (hm2 (k + 1) hlt)
        · omega
        · cases m with
          | zero => omega
          | succ m' =>
            exact absurd (by simpa using hm1) (hk2 m' (by omega))
    | none =>
      have hnone : ∀ k : Nat, (os[k]?).map Occ.key ≠ some t := by
        intro k hk
        have hall := (lastIdxFrom_none t os (i + 1)).1 hl
        cases ho : os[k]? with
        | none => simp [ho] at hk
        | some x =>
          have hx : x ∈ os := List.mem_of_getElem? ho
          simp only [ho, Option.map_some, Option.some.injEq] at hk
          exact hall x hx hk
      by_cases h : o.key = t
      · simp only [h, if_true, Option.some.injEq]
        constructor
        · rintro rfl
          refine ⟨0, by omega, by simp [h], ?_⟩
          intro k' hk'
          cases k' with
          | zero => omega
          | succ k'' => simpa using hnone k''
        · rintro ⟨m, rfl, hm1, _⟩
          cases m with
          | zero => rfl
          | succ m' => exact absurd (by simpa using hm1) (hnone m')
      · simp only [h, if_false]
        constructor
        · intro hc
          cases hc
        · rintro ⟨m, _, hm1, _⟩
          cases m with
          | zero => exact absurd (by simpa using hm1) h
          | succ m' => exact absurd (by simpa using hm1) (hnone m')

/-! ### bound arguments -/

/-- a call that Python accepts without `TypeError` as far as the spelled-out arguments go: not more
    positionals than parameters, every keyword names a parameter that is not filled positionally -/
structure WellCalled (sig : List Param) (a : CArgs) : Prop where
  posLe : a.pos.length ≤ sig.length
  kwOk : ∀ k ∈ keys a.kw, ∃ j : Nat, a.pos.length ≤ j ∧ (sig[j]?).map Param.name = some k

theorem bindFrom_getElem? (a : CArgs) (i : Nat) (sig : List Param) (j : Nat) :
    (bindFrom a i sig)[j]? = (sig[j]?).map (bindOne a (i + j)) := by
  induction sig generalizing i j with
  | nil => simp [bindFrom]
  | cons p ps ih =>
    cases j with
    | zero => simp [bindFrom]
    | succ j' =>
      simp only [bindFrom, List.getElem?_cons_succ]
      rw [ih (i + 1) j']
      congr 2
      omega

theorem bind_getElem? (sig : List Param) (a : CArgs) (j : Nat) :
    (bind sig a)[j]? = (sig[j]?).map (bindOne a j) := by
  simp [bind, bindFrom_getElem?]

theorem lookup_isSome_of_mem {k : Name} {a : KW} (h : k ∈ keys a) : ∃ v, lookup k a = some v := by
  induction a with
  | nil => simp [keys] at h
  | cons kv r ih =>
    obtain ⟨k', v⟩ := kv
    by_cases hk : k' = k
    · exact ⟨v, by simp [lookup, hk]⟩
    · simp only [keys, List.map_cons, List.mem_cons] at h
      rcases h with h | h
      · exact absurd h.symm hk
      · obtain ⟨w, hw⟩ := ih (by simpa [keys] using h)
        exact ⟨w, by simp [lookup, hk, hw]⟩

theorem subKeys_iff (a b : KW) : subKeys a b = true ↔ ∀ k ∈ keys a, k ∈ keys b := by
  simp [subKeys, hasKey]

/-- literal equality implies equality of the bound arguments (always) -/
theorem bind_eq_of_literal (sig : List Param) (a b : CArgs) (hp : a.pos = b.pos)
    (hk : ∀ k, lookup k a.kw = lookup k b.kw) : bind sig a = bind sig b := by
  apply List.ext_getElem?
  intro j
  rw [bind_getElem?, bind_getElem?]
  cases sig[j]? with
  | none => rfl
  | some p => simp [bindOne, hp, hk]

/-- equal bound arguments imply literal equality when both calls spell out the same parameters -/
theorem literal_eq_of_bind (sig : List Param) (a b : CArgs)
    (ha : WellCalled sig a)
    (hlen : a.pos.length = b.pos.length)
    (hab : ∀ k ∈ keys a.kw, k ∈ keys b.kw) (hba : ∀ k ∈ keys b.kw, k ∈ keys a.kw)
    (h : bind sig a = bind sig b) :
    a.pos = b.pos ∧ ∀ k, lookup k a.kw = lookup k b.kw := by
  have hj : ∀ j : Nat, (sig[j]?).map (bindOne a j) = (sig[j]?).map (bindOne b j) := by
    intro j
    rw [← bind_getElem?, ← bind_getElem?, h]
  constructor
  · apply List.ext_getElem hlen
    intro j h1 h2
    have hlt : j < sig.length := Nat.lt_of_lt_of_le h1 ha.posLe
    have := hj j
    simp only [List.getElem?_eq_getElem hlt, Option.map_some, Option.some.injEq, bindOne,
      List.getElem?_eq_getElem h1, List.getElem?_eq_getElem h2] at this
    exact this
  · intro k
    by_cases hka : k ∈ keys a.kw
    · have hkb := hab k hka
      obtain ⟨j, hjge, hjn⟩ := ha.kwOk k hka
      obtain ⟨va, hva⟩ := lookup_isSome_of_mem hka
      obtain ⟨vb, hvb⟩ := lookup_isSome_of_mem hkb
      have := hj j
      cases hs : sig[j]? with
      | none => simp [hs] at hjn
      | some p =>
        have hpn : p.name = k := by simpa [hs] using hjn
        have h1 : a.pos[j]? = none := List.getElem?_eq_none (by omega)
        have h2 : b.pos[j]? = none := List.getElem?_eq_none (by omega)
        simp only [hs, Option.map_some, Option.some.injEq, bindOne, h1, h2, hpn, hva, hvb] at this
        rw [hva, hvb, this]
    · have hkb : k ∉ keys b.kw := fun hb' => hka (hba k hb')
      rw [lookup_none_of_not_mem hka, lookup_none_of_not_mem hkb]

end Inv.Exec
