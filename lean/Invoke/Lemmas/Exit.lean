import Invoke.Model.Exit
/-! Helper lemmas for C05 (core Lean only). -/
namespace Inv
open Generated

/-- the order the model is instantiated with is the documented one (table obligation on the generated def) -/
theorem finishRaiseOrder_eq : finishRaiseOrder = [.thread, .watcher, .timeout, .exit] := by decide

theorem exitCodeMap_eq :
    exitCodeMap = [(.success, .const 0), (.unexpectedExit, .carried), (.exit, .carried), (.parseError, .const 1)] := by
  decide

theorem wtermsig_exited (c : Nat) : wtermsig (encodeWait (.exited c)) = 0 := by
  simp only [wtermsig, encodeWait]; omega

theorem wexitstatus_exited (c : Nat) (h : c < 256) : wexitstatus (encodeWait (.exited c)) = c := by
  simp only [wexitstatus, encodeWait]; omega

theorem wtermsig_signaled (s : Nat) (core : Bool) (h : s < 128) :
    wtermsig (encodeWait (.signaled s core)) = s := by
  cases core <;> simp only [wtermsig, encodeWait] <;> simp <;> omega

/-- unfolding of the decision with the generated order -/
theorem runSync_unfold (i : FinIn) :
    runSync i =
      if fires i .thread then raiseOf i .thread
      else if fires i .watcher then raiseOf i .watcher
      else if fires i .timeout then raiseOf i .timeout
      else if fires i .exit then raiseOf i .exit
      else .ret (collate i) := by
  simp [runSync, finishRaiseOrder_eq, finishDecision]

theorem collate_ok_iff (i : FinIn) : (collate i).ok = true ↔ (i.watcherErrs = 0 ∧ i.code = 0) := by
  unfold collate Res.ok
  by_cases h : i.watcherErrs > 0
  · simp [h]; omega
  · have : i.watcherErrs = 0 := by omega
    simp [this]

end Inv
