import Invoke.Lemmas.Val
import Invoke.Model.Config
/-! Path-function semantics of the `Config` bookkeeping (C06 groundwork, also used by C11 / C19).

    `node p t` says what the key path `p` denotes in the tree `t`.  Two trees with the same `node`
    function read identically through every access path (`Ext`).  This file gives the one-level
    (`lookup`) characterisations of `obl`, `setPath`, `erasePath`, `markDel`, preservation of
    well-formedness, and `mergeT [] d = d` (a copy of a dict is the dict). -/
namespace Inv.Hist
open Inv

/-! ### well-formed values, sub-dicts -/

/-- a written value is a leaf or a well-formed dict -/
def WFV : Val → Prop
  | .leaf _ => True
  | .dict d => WF d

theorem subDict_of_dict {k : Key} {t d : KVs} (h : lookup k t = some (.dict d)) : subDict k t = d := by
  simp [subDict, h]

theorem subDict_of_leaf {k : Key} {t : KVs} {x : Leaf} (h : lookup k t = some (.leaf x)) : subDict k t = [] := by
  simp [subDict, h]

theorem subDict_of_none {k : Key} {t : KVs} (h : lookup k t = none) : subDict k t = [] := by
  simp [subDict, h]

@[simp] theorem subDict_nil (k : Key) : subDict k [] = [] := rfl

theorem wf_subDict {t : KVs} (h : WF t) (k : Key) : WF (subDict k t) := by
  cases hl : lookup k t with
  | none => rw [subDict_of_none hl]; exact wf_nil
  | some v => cases v with
    | leaf x => rw [subDict_of_leaf hl]; exact wf_nil
    | dict d => rw [subDict_of_dict hl]; exact h.sub hl

theorem wf_insert {t : KVs} (h : WF t) (k : Key) {v : Val} (hv : WFV v) : WF (insert k v t) := by
  refine .mk (keys_insert_nodup _ _ _ h.nodup) ?_
  intro k' d hl
  rw [lookup_insert] at hl
  by_cases hk : k' = k
  · simp only [hk, if_true, Option.some.injEq] at hl
    subst hl; exact hv
  · simp only [hk, if_false] at hl
    exact h.sub hl

theorem lookup_erase (k k' : Key) (m : KVs) (h : (keys m).Nodup) :
    lookup k (erase k' m) = if k = k' then none else lookup k m := by
  by_cases hk : k = k'
  · subst hk; simp [lookup_erase_self k m h]
  · simp [hk, lookup_erase_ne hk]

theorem wf_erase {t : KVs} (h : WF t) (k : Key) : WF (erase k t) := by
  refine .mk (keys_erase_nodup _ _ h.nodup) ?_
  intro k' d hl
  rw [lookup_erase _ _ _ h.nodup] at hl
  by_cases hk : k' = k
  · simp [hk] at hl
  · simp only [hk, if_false] at hl
    exact h.sub hl

/-! ### `mergeT [] d = d`: copying a well-formed dict reproduces it -/

theorem insert_not_mem (k : Key) (v : Val) (m : KVs) (h : k ∉ keys m) : insert k v m = m ++ [(k, v)] := by
  induction m with
  | nil => rfl
  | cons hd tl ih =>
    obtain ⟨k', v'⟩ := hd
    simp only [keys_cons, List.mem_cons, not_or] at h
    simp [insert, h.1, ih h.2]

theorem keys_append (a b : KVs) : keys (a ++ b) = keys a ++ keys b := by simp [keys]

theorem mergeT_append_aux (rest : KVs) : ∀ (acc : KVs), (keys (acc ++ rest)).Nodup →
    (∀ k dd, (k, Val.dict dd) ∈ rest → mergeT [] dd = dd) → mergeT acc rest = acc ++ rest := by
  induction rest with
  | nil => intro acc _ _; simp
  | cons hd tl ih =>
    intro acc hnd hsub
    obtain ⟨k, v⟩ := hd
    have hk : k ∉ keys acc := by
      rw [keys_append, keys_cons] at hnd
      intro hm
      exact (List.nodup_append.mp hnd).2.2 k hm k (List.mem_cons_self ..) rfl
    have hl : lookup k acc = none := lookup_none_of_not_mem k acc hk
    have hrec := ih (acc ++ [(k, v)]) (by simpa using hnd)
      (fun k' dd hm => hsub k' dd (List.mem_cons_of_mem _ hm))
    conv => lhs; unfold mergeT
    simp only [hl]
    cases v with
    | leaf x =>
      simp only []
      rw [insert_not_mem k _ acc hk, hrec]; simp
    | dict u =>
      simp only []
      rw [hsub k u (List.mem_cons_self ..), insert_not_mem k _ acc hk, hrec]; simp

/-- copying (`copy_dict` = merge onto an empty dict) a well-formed dict reproduces it exactly -/
theorem mergeT_nil_left {d : KVs} (hw : WF d) : mergeT [] d = d := by
  induction hw with
  | @mk d hnd _ ih =>
    have := mergeT_append_aux d [] (by simpa using hnd)
      (fun k dd hm => ih k dd (lookup_of_mem_nodup hnd hm))
    simpa using this

theorem copyDict_id {d : KVs} (hw : WF d) : copyDict d = .ok d := by
  rw [copyDict_eq hw, mergeT_nil_left hw]

/-! ### one-level characterisations -/

/-- one level of `mergeT` as a function of the two entries -/
def mergeAt (bk mk : Option Val) : Option Val :=
  match mk with
  | none => bk
  | some (.dict u) => (match bk with
      | some (.dict b) => some (.dict (mergeT b u))
      | _ => some (.dict (mergeT [] u)))
  | some (.leaf x) => some (.leaf x)

theorem lookup_mergeT' (k : Key) (base upd : KVs) (hnd : (keys upd).Nodup) :
    lookup k (mergeT base upd) = mergeAt (lookup k base) (lookup k upd) := by
  rw [lookup_mergeT k base upd hnd]
  cases lookup k upd with
  | none => rfl
  | some v => cases v <;> rfl

theorem mergeAt_dict (k : Key) (b u : KVs) :
    mergeAt (lookup k b) (some (.dict u)) = some (.dict (mergeT (subDict k b) u)) := by
  cases hl : lookup k b with
  | none => simp [mergeAt, subDict, hl]
  | some v => cases v <;> simp [mergeAt, subDict, hl]

/-- one level of `obl` as a function of the two entries -/
def oblAt (tk dk : Option Val) : Option Val :=
  match dk with
  | none => tk
  | some (.leaf _) => none
  | some (.dict d') => (match tk with
      | some (.dict b) => some (.dict (obl b d'))
      | x => x)

@[simp] theorem obl_nil_right (t : KVs) : obl t [] = t := by unfold obl; rfl

theorem obl_nil_left (d : KVs) : obl [] d = [] := by
  induction d with
  | nil => simp
  | cons hd tl ih =>
    obtain ⟨k, v⟩ := hd
    unfold obl
    cases v with
    | leaf x => simpa [erase] using ih
    | dict dd => simpa [lookup] using ih

theorem lookup_obl (k : Key) (base d : KVs) (hb : (keys base).Nodup) (hnd : (keys d).Nodup) :
    lookup k (obl base d) = oblAt (lookup k base) (lookup k d) := by
  induction d generalizing base with
  | nil => simp [oblAt]
  | cons hd tl ih =>
    obtain ⟨k', v'⟩ := hd
    simp only [keys, List.map_cons, List.nodup_cons] at hnd
    obtain ⟨hnotin, hnd'⟩ := hnd
    conv => lhs; unfold obl
    simp only []
    by_cases hk : k = k'
    · subst hk
      have hnone : lookup k tl = none := lookup_none_of_not_mem k tl hnotin
      cases v' with
      | leaf x =>
        rw [ih _ (keys_erase_nodup k base hb) hnd']
        simp only [hnone, lookup, if_true, oblAt]
        exact lookup_erase_self k base hb
      | dict d' =>
        cases hbk : lookup k base with
        | none => rw [ih _ hb hnd']; simp [hnone, lookup, hbk, oblAt]
        | some bv =>
          cases bv with
          | leaf y => rw [ih _ hb hnd']; simp [hnone, lookup, hbk, oblAt]
          | dict b =>
            rw [ih _ (keys_insert_nodup _ _ _ hb) hnd']
            simp [hnone, lookup, oblAt]
    · have hne : lookup k ((k', v') :: tl) = lookup k tl := by simp [lookup, hk]
      rw [hne]
      cases v' with
      | leaf x =>
        rw [ih _ (keys_erase_nodup k' base hb) hnd', lookup_erase_ne hk]
      | dict d' =>
        cases hbk : lookup k' base with
        | none => rw [ih _ hb hnd']
        | some bv =>
          cases bv with
          | leaf y => rw [ih _ hb hnd']
          | dict b => rw [ih _ (keys_insert_nodup _ _ _ hb) hnd', lookup_insert_ne hk]

theorem keys_obl_nodup (base d : KVs) (hb : (keys base).Nodup) : (keys (obl base d)).Nodup := by
  induction d generalizing base with
  | nil => simpa using hb
  | cons hd tl ih =>
    obtain ⟨k', v'⟩ := hd
    unfold obl
    simp only []
    cases v' with
    | leaf x => exact ih _ (keys_erase_nodup _ _ hb)
    | dict d' =>
      cases hbk : lookup k' base with
      | none => exact ih _ hb
      | some bv => cases bv with
        | leaf y => exact ih _ hb
        | dict b => exact ih _ (keys_insert_nodup _ _ _ hb)

theorem wf_obl {t d : KVs} (ht : WF t) (hd : WF d) : WF (obl t d) := by
  induction hd generalizing t with
  | @mk d hnd _ ih =>
    refine .mk (keys_obl_nodup _ _ ht.nodup) ?_
    intro k x hl
    rw [lookup_obl k t d ht.nodup hnd] at hl
    cases hkd : lookup k d with
    | none => rw [hkd] at hl; exact ht.sub hl
    | some dv =>
      rw [hkd] at hl
      cases dv with
      | leaf y => simp [oblAt] at hl
      | dict d' =>
        cases hkt : lookup k t with
        | none => rw [hkt] at hl; simp [oblAt] at hl
        | some tv =>
          rw [hkt] at hl
          cases tv with
          | leaf y => simp [oblAt] at hl
          | dict b =>
            simp only [oblAt, Option.some.injEq, Val.dict.injEq] at hl
            subst hl; exact ih k d' hkd (ht.sub hkt)

theorem oblAt_dict (X : KVs) (k : Key) (d : KVs) (h : ∀ x, lookup k d ≠ some (.leaf x)) :
    oblAt (some (.dict X)) (lookup k d) = some (.dict (obl X (subDict k d))) := by
  cases hl : lookup k d with
  | none => simp [oblAt, subDict, hl]
  | some v => cases v with
    | leaf x => exact absurd hl (h x)
    | dict dd => simp [oblAt, subDict, hl]

theorem subDict_obl (Y d : KVs) (k : Key) (hy : WF Y) (hd : WF d) (h : ∀ x, lookup k d ≠ some (.leaf x)) :
    subDict k (obl Y d) = obl (subDict k Y) (subDict k d) := by
  unfold subDict
  rw [lookup_obl k Y d hy.nodup hd.nodup]
  cases hl : lookup k d with
  | none => simp [oblAt]
  | some v => cases v with
    | leaf x => exact absurd hl (h x)
    | dict dd =>
      cases hy' : lookup k Y with
      | none => simp [oblAt, obl_nil_left]
      | some yv => cases yv <;> simp [oblAt, obl_nil_left]

theorem subDict_mergeT (b m : KVs) (k : Key) (hm : WF m) (h : ∀ x, lookup k m ≠ some (.leaf x)) :
    subDict k (mergeT b m) = mergeT (subDict k b) (subDict k m) := by
  unfold subDict
  rw [lookup_mergeT' k b m hm.nodup]
  cases hl : lookup k m with
  | none =>
    cases hb : lookup k b with
    | none => simp [mergeAt]
    | some bv => cases bv <;> simp [mergeAt]
  | some v => cases v with
    | leaf x => exact absurd hl (h x)
    | dict mm =>
      cases hb : lookup k b with
      | none => simp [mergeAt]
      | some bv => cases bv <;> simp [mergeAt]

/-! ### the walks, one level -/

theorem lookup_setPath (k k0 : Key) (prest : List Key) (v : Val) (t : KVs) :
    lookup k (setPath t (k0 :: prest) v) =
      if k = k0 then some (match prest with | [] => v | _ :: _ => .dict (setPath (subDict k0 t) prest v))
      else lookup k t := by
  cases prest with
  | nil => simp [setPath, lookup_insert]
  | cons k1 r => simp [setPath, lookup_insert]

@[simp] theorem erasePath_nil (p : List Key) : erasePath [] p = [] := by
  cases p with
  | nil => rfl
  | cons k rest => cases rest <;> simp [erasePath, erase]

theorem lookup_erasePath (k k0 : Key) (prest : List Key) (d : KVs) (hd : (keys d).Nodup) :
    lookup k (erasePath d (k0 :: prest)) =
      if k = k0 then (match prest with
        | [] => none
        | _ :: _ => (match lookup k0 d with
            | some (.dict d') => some (.dict (erasePath d' prest))
            | x => x))
      else lookup k d := by
  cases prest with
  | nil => simp [erasePath, lookup_erase _ _ _ hd]
  | cons k1 r =>
    simp only [erasePath]
    cases hl : lookup k0 d with
    | none => by_cases hk : k = k0 <;> simp [hk, hl]
    | some v => cases v with
      | leaf x => by_cases hk : k = k0 <;> simp [hk, hl]
      | dict dd => by_cases hk : k = k0 <;> simp [hk, lookup_insert]

theorem lookup_markDel (k k0 : Key) (prest : List Key) (d : KVs) :
    lookup k (markDel d (k0 :: prest)) =
      if k = k0 then (match prest with
        | [] => some (.leaf .none)
        | _ :: _ => (match lookup k0 d with
            | some (.leaf x) => some (.leaf x)
            | _ => some (.dict (markDel (subDict k0 d) prest))))
      else lookup k d := by
  cases prest with
  | nil => simp [markDel, lookup_insert]
  | cons k1 r =>
    simp only [markDel]
    cases hl : lookup k0 d with
    | none => by_cases hk : k = k0 <;> simp [hk, hl, lookup_insert, subDict]
    | some v => cases v with
      | leaf x => by_cases hk : k = k0 <;> simp [hk, hl]
      | dict dd => by_cases hk : k = k0 <;> simp [hk, hl, lookup_insert, subDict]

/-! ### the walks preserve well-formedness -/

theorem wf_setPath {t : KVs} (h : WF t) (p : List Key) {v : Val} (hv : WFV v) : WF (setPath t p v) := by
  induction p generalizing t with
  | nil => exact h
  | cons k rest ih =>
    cases rest with
    | nil => exact wf_insert h k hv
    | cons k1 r => exact wf_insert h k (ih (wf_subDict h k))

theorem wf_erasePath {t : KVs} (h : WF t) (p : List Key) : WF (erasePath t p) := by
  induction p generalizing t with
  | nil => exact h
  | cons k rest ih =>
    cases rest with
    | nil => exact wf_erase h k
    | cons k1 r =>
      simp only [erasePath]
      cases hl : lookup k t with
      | none => exact h
      | some v => cases v with
        | leaf x => exact h
        | dict d => exact wf_insert h k (ih (h.sub hl))

theorem wf_markDel {t : KVs} (h : WF t) (p : List Key) : WF (markDel t p) := by
  induction p generalizing t with
  | nil => exact h
  | cons k rest ih =>
    cases rest with
    | nil => exact wf_insert h k (v := .leaf .none) trivial
    | cons k1 r =>
      simp only [markDel]
      cases hl : lookup k t with
      | none => exact wf_insert h k (ih wf_nil)
      | some v => cases v with
        | leaf x => exact h
        | dict d => exact wf_insert h k (ih (h.sub hl))

theorem wf_viewT {b m d : KVs} (hb : WF b) (hm : WF m) (hd : WF d) : WF (viewT b m d) :=
  wf_obl (wf_mergeT hb hm) hd

end Inv.Hist
