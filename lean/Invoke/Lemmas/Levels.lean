import Invoke.Model.Levels
import Invoke.Lemmas.Val
/-! Fold lemmas for the n-level merge (`Model/Levels.lean`): everything `getLeaf_mergeT` / `isSec_mergeT` /
    `mergeKVs_eq_mergeT` say about one merge step, lifted to a fold over any list of levels. -/
namespace Inv

theorem mem_level_all (l : Level) : l ∈ Level.all := by cases l <;> decide

theorem typeConsistentB_sound (L : Levels) (h : typeConsistentB L = true) : TypeConsistent L := by
  simp only [typeConsistentB, Bool.and_eq_true, List.all_eq_true, allWfB, allCompatB] at h
  exact ⟨fun l => wfB_sound _ (h.1 l (mem_level_all l)),
         fun l l' => compatB_sound _ _ (h.2 l (mem_level_all l) l' (mem_level_all l'))⟩

/-- the accumulated merge stays type-consistent with every level -/
theorem compat_fold (L : Levels) (hT : TypeConsistent L) (order : List Level) (acc : KVs)
    (hacc : ∀ l, Compat acc (L l)) : ∀ l, Compat (order.foldl (mergeLevel L) acc) (L l) := by
  induction order generalizing acc with
  | nil => simpa using hacc
  | cons l0 rest ih =>
    simp only [List.foldl_cons]
    apply ih
    intro l
    exact compat_mergeT_left (hT.1 l0) (hT.2 l0 l) (hacc l)

theorem wf_fold (L : Levels) (hT : TypeConsistent L) (order : List Level) (acc : KVs) (hacc : WF acc) :
    WF (order.foldl (mergeLevel L) acc) := by
  induction order generalizing acc with
  | nil => simpa using hacc
  | cons l0 rest ih =>
    simp only [List.foldl_cons]
    exact ih _ (wf_mergeT hacc (hT.1 l0))

/-- leaf at a path after merging a list of levels: the LAST level in the list defining it, else the base -/
theorem getLeaf_fold (L : Levels) (hT : TypeConsistent L) (p : List Key) (order : List Level) (acc : KVs)
    (hacc : ∀ l, Compat acc (L l)) :
    getLeaf p (order.foldl (mergeLevel L) acc) =
      (order.reverse.findSome? (leafAt L p)).or (getLeaf p acc) := by
  induction order generalizing acc with
  | nil => simp
  | cons l0 rest ih =>
    simp only [List.foldl_cons, List.reverse_cons, List.findSome?_append]
    rw [ih (mergeLevel L acc l0) (fun l => compat_mergeT_left (hT.1 l0) (hT.2 l0 l) (hacc l))]
    simp only [mergeLevel]
    rw [getLeaf_mergeT p acc (L l0) (hT.1 l0) (hacc l0)]
    simp only [List.findSome?_cons, List.findSome?_nil, leafAt]
    cases rest.reverse.findSome? (fun l => getLeaf p (L l)) <;> cases getLeaf p (L l0) <;> simp

/-- section-ness of a path after merging a list of levels -/
theorem isSec_fold (L : Levels) (hT : TypeConsistent L) (p : List Key) (order : List Level) (acc : KVs)
    (hacc : ∀ l, Compat acc (L l)) :
    isSec p (order.foldl (mergeLevel L) acc) = (order.any (secAt L p) || isSec p acc) := by
  induction order generalizing acc with
  | nil => simp
  | cons l0 rest ih =>
    simp only [List.foldl_cons, List.any_cons]
    rw [ih (mergeLevel L acc l0) (fun l => compat_mergeT_left (hT.1 l0) (hT.2 l0 l) (hacc l))]
    simp only [mergeLevel]
    rw [isSec_mergeT p acc (L l0) (hT.1 l0) (hacc l0)]
    simp only [secAt]
    cases rest.any (fun l => isSec p (L l)) <;> cases isSec p (L l0) <;> simp

/-- the raising fold (what `Config.merge` literally does) never raises on type-consistent levels and equals
    the total one -/
theorem foldE_eq (L : Levels) (hT : TypeConsistent L) (order : List Level) (acc : KVs)
    (hacc : ∀ l, Compat acc (L l)) :
    order.foldl (mergeLevelE L) (.ok acc) = .ok (order.foldl (mergeLevel L) acc) := by
  induction order generalizing acc with
  | nil => simp
  | cons l0 rest ih =>
    simp only [List.foldl_cons, mergeLevelE, mergeLevel]
    rw [mergeKVs_eq_mergeT (hT.1 l0) (hacc l0)]
    exact ih _ (fun l => compat_mergeT_left (hT.1 l0) (hT.2 l0 l) (hacc l))

theorem Levels.set_self (L : Levels) (l : Level) (d : KVs) : (L.set l d) l = d := by simp [Levels.set]

theorem Levels.set_ne (L : Levels) {l l' : Level} (h : l' ≠ l) (d : KVs) : (L.set l d) l' = L l' := by
  simp [Levels.set, h]

theorem Levels.set_comm (L : Levels) {l l' : Level} (h : l ≠ l') (d d' : KVs) :
    (L.set l d).set l' d' = (L.set l' d').set l d := by
  funext x
  simp only [Levels.set]
  by_cases h1 : x = l
  · subst h1; simp [h]
  · by_cases h2 : x = l'
    · subst h2; simp [h1]
    · simp [h1, h2]

theorem Levels.set_set (L : Levels) (l : Level) (d d' : KVs) : (L.set l d).set l d' = L.set l d' := by
  funext x
  simp only [Levels.set]
  by_cases h : x = l <;> simp [h]

end Inv
