import Invoke.Model.Loader
/-! Helper lemmas for C20 (the upward walk). Paths are handled REVERSED here (deepest component
    first), so that "the ancestors of p" are the suffixes of `p.reverse`. -/
namespace Inv.Loader

/-- the non-empty suffixes, longest first -/
def tailsNE {α} : List α → List (List α)
  | [] => []
  | c :: r => (c :: r) :: tailsNE r

/-- the directories `find` visits for the (reversed, non-root) start path `q` -/
def dirsOf (q : List Name) : List (Option Path) :=
  (tailsNE q).map (fun s => some s.reverse) ++ [some [], none]

def NoEmpty (p : Path) : Prop := ∀ c ∈ p, c ≠ []

def foundDir : FindR → Option Path
  | .module d => some d
  | .package d => some d
  | _ => none

theorem joinDir_nil_cons (rest : List Name) (h1 : rest ≠ []) (h2 : rest ≠ [[]]) :
    joinDir ([] :: rest) = some rest := by
  match rest, h1, h2 with
  | [], h1, _ => exact absurd rfl h1
  | [[]], _, h2 => exact absurd rfl h2
  | (a :: as) :: t, _, _ => rfl
  | [] :: b :: t, _, _ => rfl

theorem slices_eq (q : List Name) (hq : ∀ c ∈ q, c ≠ []) :
    (slicesDown (q ++ [[]])).map joinDir = dirsOf q := by
  induction q with
  | nil => rfl
  | cons c r ih =>
    have hr : ∀ x ∈ r, x ≠ [] := fun x hx => hq x (List.mem_cons_of_mem _ hx)
    have hc : c ≠ [] := hq c (List.mem_cons_self)
    simp only [List.cons_append, slicesDown, List.map_cons, ih hr, dirsOf, tailsNE, List.cons_append]
    congr 1
    have : (c :: (r ++ [[]])).reverse = [] :: (r.reverse ++ [c]) := by simp
    rw [this, joinDir_nil_cons]
    · simp
    · simp
    · intro h
      have hl := congrArg List.length h
      simp only [List.length_append, List.length_reverse, List.length_cons, List.length_nil] at hl
      have : r = [] := List.eq_nil_of_length_eq_zero (by omega)
      subst this
      simp at h
      exact hc h

theorem walkDirs_root : walkDirs [] = [some [], some [], none] := rfl

theorem walkDirs_nonroot (p : Path) (hp : p ≠ []) (hne : NoEmpty p) :
    walkDirs p = dirsOf p.reverse := by
  simp only [walkDirs, splitParts, hp, if_false, List.reverse_cons]
  exact slices_eq p.reverse (fun c hc => hne c (List.mem_reverse.1 hc))

/-! ### `abspath` -/

theorem normStep_noEmpty {acc : Path} (h : NoEmpty acc) (c : Name) : NoEmpty (normStep acc c) := by
  unfold normStep
  split
  · exact h
  · rename_i hc
    split
    · intro x hx
      exact h x (List.dropLast_subset _ hx)
    · intro x hx
      rcases List.mem_append.1 hx with hx | hx
      · exact h x hx
      · simp only [List.mem_singleton] at hx
        subst hx
        intro e
        exact hc (Or.inl e)

theorem foldl_normStep_noEmpty (raw : List Name) {acc : Path} (h : NoEmpty acc) :
    NoEmpty (raw.foldl normStep acc) := by
  induction raw generalizing acc with
  | nil => exact h
  | cons c r ih => exact ih (normStep_noEmpty h c)

theorem absPath_noEmpty (cwd : Path) (isAbs : Bool) (raw : List Name) (h : NoEmpty cwd) :
    NoEmpty (absPath cwd isAbs raw) := by
  unfold absPath
  apply foldl_normStep_noEmpty
  split
  · intro c hc; cases hc
  · exact h

/-- a component that `normpath` keeps as it is -/
def Plain (c : Name) : Prop := c ≠ [] ∧ c ≠ ['.'] ∧ c ≠ dotdot

theorem foldl_normStep_plain (l : List Name) (hl : ∀ c ∈ l, Plain c) (acc : Path) :
    l.foldl normStep acc = acc ++ l := by
  induction l generalizing acc with
  | nil => simp
  | cons c r ih =>
    have hc := hl c (List.mem_cons_self)
    have : normStep acc c = acc ++ [c] := by
      unfold normStep
      rw [if_neg (by intro h; rcases h with h | h; exact hc.1 h; exact hc.2.1 h), if_neg hc.2.2]
    simp only [List.foldl_cons, this]
    rw [ih (fun x hx => hl x (List.mem_cons_of_mem _ hx))]
    simp

/-! ### the scan over the visited directories -/

theorem findFrom_cons (fs : FS) (name : Name) (d : Path) (rest : List (Option Path)) :
    findFrom fs name (some d :: rest) =
      match fs.ls d with
      | none => .notFound
      | some es =>
        if es.contains (pyFile name) then .module d
        else if es.contains name && fs.ex (d ++ [name, initPy]) then .package d
        else findFrom fs name rest := by
  rw [findFrom] <;> rfl

theorem step_noDir (fs : FS) (name : Name) (d : Path) (rest : List (Option Path)) (h : fs.ls d = none) :
    findFrom fs name (some d :: rest) = .notFound := by
  rw [findFrom_cons, h]

theorem step_module (fs : FS) (name : Name) (d : Path) (rest : List (Option Path)) (es : List Name)
    (hl : fs.ls d = some es) (h1 : es.contains (pyFile name) = true) :
    findFrom fs name (some d :: rest) = .module d := by
  rw [findFrom_cons, hl]
  show (if es.contains (pyFile name) = true then FindR.module d else _) = _
  rw [if_pos h1]

theorem step_package (fs : FS) (name : Name) (d : Path) (rest : List (Option Path)) (es : List Name)
    (hl : fs.ls d = some es) (h1 : es.contains (pyFile name) = false)
    (h2 : (es.contains name && fs.ex (d ++ [name, initPy])) = true) :
    findFrom fs name (some d :: rest) = .package d := by
  rw [findFrom_cons, hl]
  show (if es.contains (pyFile name) = true then FindR.module d
        else if (es.contains name && fs.ex (d ++ [name, initPy])) = true then FindR.package d
        else findFrom fs name rest) = _
  rw [if_neg (by rw [h1]; exact Bool.false_ne_true), if_pos h2]

theorem step_next (fs : FS) (name : Name) (d : Path) (rest : List (Option Path)) (es : List Name)
    (hl : fs.ls d = some es) (h1 : es.contains (pyFile name) = false)
    (h2 : (es.contains name && fs.ex (d ++ [name, initPy])) = false) :
    findFrom fs name (some d :: rest) = findFrom fs name rest := by
  rw [findFrom_cons, hl]
  show (if es.contains (pyFile name) = true then FindR.module d
        else if (es.contains name && fs.ex (d ++ [name, initPy])) = true then FindR.package d
        else findFrom fs name rest) = _
  rw [if_neg (by rw [h1]; exact Bool.false_ne_true), if_neg (by rw [h2]; exact Bool.false_ne_true)]

theorem hasCandidate_some (fs : FS) (name : Name) (d : Path) (es : List Name) (hl : fs.ls d = some es) :
    hasCandidate fs name d = (es.contains (pyFile name) || (es.contains name && fs.ex (d ++ [name, initPy]))) := by
  unfold hasCandidate
  rw [hl]

theorem hasCandidate_none (fs : FS) (name : Name) (d : Path) (hl : fs.ls d = none) :
    hasCandidate fs name d = false := by
  unfold hasCandidate
  rw [hl]

theorem step_found (fs : FS) (name : Name) (d : Path) (rest : List (Option Path))
    (h : hasCandidate fs name d = true) :
    foundDir (findFrom fs name (some d :: rest)) = some d := by
  cases hl : fs.ls d with
  | none => rw [hasCandidate_none fs name d hl] at h; cases h
  | some es =>
    rw [hasCandidate_some fs name d es hl] at h
    cases h1 : es.contains (pyFile name) with
    | true => rw [step_module fs name d rest es hl h1]; rfl
    | false =>
      rw [h1, Bool.false_or] at h
      rw [step_package fs name d rest es hl h1 h]; rfl

theorem step_skip (fs : FS) (name : Name) (d : Path) (rest : List (Option Path)) (es : List Name)
    (hl : fs.ls d = some es) (h : hasCandidate fs name d = false) :
    findFrom fs name (some d :: rest) = findFrom fs name rest := by
  rw [hasCandidate_some fs name d es hl, Bool.or_eq_false_iff] at h
  exact step_next fs name d rest es hl h.1 h.2

theorem dirsOf_cons (c : Name) (r : List Name) :
    dirsOf (c :: r) = some (c :: r).reverse :: dirsOf r := by
  simp only [dirsOf, tailsNE, List.map_cons, List.cons_append]

theorem cand_ls (fs : FS) (name : Name) (d : Path) (h : hasCandidate fs name d = true) :
    ∃ es, fs.ls d = some es := by
  unfold hasCandidate at h
  cases hl : fs.ls d with
  | none => rw [hl] at h; cases h
  | some es => exact ⟨es, rfl⟩

theorem dirsOf_nil : dirsOf [] = [some [], none] := rfl

/-- listing the same directory twice in a row changes nothing -/
theorem findFrom_dup (fs : FS) (name : Name) (d : Path) (rest : List (Option Path)) :
    findFrom fs name (some d :: some d :: rest) = findFrom fs name (some d :: rest) := by
  cases hl : fs.ls d with
  | none => rw [step_noDir fs name d _ hl, step_noDir fs name d _ hl]
  | some es =>
    cases h1 : es.contains (pyFile name) with
    | true => rw [step_module fs name d _ es hl h1, step_module fs name d _ es hl h1]
    | false =>
      cases h2 : (es.contains name && fs.ex (d ++ [name, initPy])) with
      | true => rw [step_package fs name d _ es hl h1 h2, step_package fs name d _ es hl h1 h2]
      | false => rw [step_next fs name d (some d :: rest) es hl h1 h2]

theorem findFrom_nearest (fs : FS) (name : Name) (q : List Name) (d : Path)
    (h : foundDir (findFrom fs name (dirsOf q)) = some d) :
    d.reverse <:+ q ∧ hasCandidate fs name d = true ∧
      ∀ s', s' <:+ q → d.reverse <:+ s' → s' ≠ d.reverse → hasCandidate fs name s'.reverse = false := by
  induction q with
  | nil =>
    rw [dirsOf_nil] at h
    cases hcand : hasCandidate fs name [] with
    | true =>
      rw [step_found fs name [] _ hcand] at h
      cases h
      refine ⟨List.suffix_refl _, hcand, ?_⟩
      intro s' hs1 _ hs3
      exact absurd (List.suffix_nil.1 hs1) hs3
    | false =>
      cases hl : fs.ls [] with
      | none => rw [step_noDir fs name [] _ hl] at h; cases h
      | some es =>
        rw [step_skip fs name [] _ es hl hcand] at h
        simp [findFrom, foundDir] at h
  | cons c r ih =>
    rw [dirsOf_cons] at h
    have hself : ∀ s', s' <:+ c :: r → (c :: r) <:+ s' → s' = c :: r := by
      intro s' h1 h2
      exact List.IsSuffix.eq_of_length_le h1 h2.length_le
    have hrr : ((c :: r).reverse).reverse = c :: r := List.reverse_reverse _
    generalize hD : (c :: r).reverse = D at h hrr
    cases hcand : hasCandidate fs name D with
    | true =>
      rw [step_found fs name D _ hcand] at h
      cases h
      refine ⟨by rw [hrr]; exact List.suffix_refl _, hcand, ?_⟩
      intro s' hs1 hs2 hs3
      rw [hrr] at hs2 hs3
      exact absurd (hself s' hs1 hs2) hs3
    | false =>
      cases hl : fs.ls D with
      | none => rw [step_noDir fs name D _ hl] at h; cases h
      | some es =>
        rw [step_skip fs name D _ es hl hcand] at h
        obtain ⟨i1, i3, i4⟩ := ih h
        refine ⟨List.IsSuffix.trans i1 (List.suffix_cons c r), i3, ?_⟩
        intro s' hs1 hs2 hs3
        rcases List.suffix_cons_iff.1 hs1 with e | hs1
        · rw [e, hD]; exact hcand
        · exact i4 s' hs1 hs2 hs3

theorem findFrom_complete (fs : FS) (name : Name) (q : List Name)
    (hex : ∀ s, s <:+ q → (fs.ls s.reverse).isSome = true)
    (hc : ∃ s, s <:+ q ∧ hasCandidate fs name s.reverse = true) :
    ∃ d, foundDir (findFrom fs name (dirsOf q)) = some d := by
  induction q with
  | nil =>
    obtain ⟨s, hs, hcs⟩ := hc
    rw [List.suffix_nil.1 hs] at hcs
    exact ⟨[], by rw [dirsOf_nil]; exact step_found fs name [] _ hcs⟩
  | cons c r ih =>
    rw [dirsOf_cons]
    have hls := hex (c :: r) (List.suffix_refl _)
    cases hcand : hasCandidate fs name (c :: r).reverse with
    | true => exact ⟨_, step_found fs name _ _ hcand⟩
    | false =>
      cases hl : fs.ls (c :: r).reverse with
      | none => rw [hl] at hls; cases hls
      | some es =>
        rw [step_skip fs name _ _ es hl hcand]
        apply ih
        · intro s hs
          exact hex s (List.IsSuffix.trans hs (List.suffix_cons c r))
        · obtain ⟨s, hs, hcs⟩ := hc
          rcases List.suffix_cons_iff.1 hs with e | hs
          · rw [e, hcand] at hcs; cases hcs
          · exact ⟨s, hs, hcs⟩

theorem findFrom_notFound (fs : FS) (name : Name) (q : List Name)
    (hno : ∀ s, s <:+ q → hasCandidate fs name s.reverse = false) :
    findFrom fs name (dirsOf q) = .notFound := by
  induction q with
  | nil =>
    rw [dirsOf_nil]
    have hc := hno [] (List.suffix_refl _)
    cases hl : fs.ls [] with
    | none => exact step_noDir fs name [] _ hl
    | some es => rw [step_skip fs name [] _ es hl hc]; simp [findFrom]
  | cons c r ih =>
    rw [dirsOf_cons]
    have hno' := hno (c :: r) (List.suffix_refl _)
    cases hl : fs.ls (c :: r).reverse with
    | none => exact step_noDir fs name _ _ hl
    | some es =>
      rw [step_skip fs name _ _ es hl hno']
      exact ih (fun s hs => hno s (List.IsSuffix.trans hs (List.suffix_cons c r)))

theorem findFrom_ne_noSpec (fs : FS) (name : Name) (q : List Name) :
    findFrom fs name (dirsOf q) ≠ .noSpec := by
  induction q with
  | nil =>
    rw [dirsOf_nil]
    cases hcand : hasCandidate fs name [] with
    | true =>
      intro e
      have := step_found fs name [] [none] hcand
      rw [e] at this
      cases this
    | false =>
      cases hl : fs.ls [] with
      | none => rw [step_noDir fs name [] _ hl]; intro e; cases e
      | some es => rw [step_skip fs name [] _ es hl hcand]; simp [findFrom]
  | cons c r ih =>
    rw [dirsOf_cons]
    cases hcand : hasCandidate fs name (c :: r).reverse with
    | true =>
      intro e
      have := step_found fs name (c :: r).reverse (dirsOf r) hcand
      rw [e] at this
      cases this
    | false =>
      cases hl : fs.ls (c :: r).reverse with
      | none => rw [step_noDir fs name _ _ hl]; intro e; cases e
      | some es => rw [step_skip fs name _ _ es hl hcand]; exact ih

/-- module beats package: a package is only reported when there is no module file next to it -/
theorem findFrom_package_no_module (fs : FS) (name : Name) (l : List (Option Path)) (d : Path)
    (h : findFrom fs name l = .package d) :
    ∃ es, fs.ls d = some es ∧ es.contains (pyFile name) = false ∧ es.contains name = true ∧
      fs.ex (d ++ [name, initPy]) = true := by
  induction l with
  | nil => rw [findFrom] at h; cases h
  | cons o rest ih =>
    cases o with
    | none => rw [findFrom] at h; cases h
    | some d' =>
      cases hl : fs.ls d' with
      | none => rw [step_noDir fs name d' rest hl] at h; cases h
      | some es =>
        cases h1 : es.contains (pyFile name) with
        | true => rw [step_module fs name d' rest es hl h1] at h; cases h
        | false =>
          cases h2 : (es.contains name && fs.ex (d' ++ [name, initPy])) with
          | true =>
            rw [step_package fs name d' rest es hl h1 h2] at h
            cases h
            rw [Bool.and_eq_true] at h2
            exact ⟨es, hl, h1, h2.1, h2.2⟩
          | false =>
            rw [step_next fs name d' rest es hl h1 h2] at h
            exact ih h

theorem findFrom_module_has_file (fs : FS) (name : Name) (l : List (Option Path)) (d : Path)
    (h : findFrom fs name l = .module d) :
    ∃ es, fs.ls d = some es ∧ es.contains (pyFile name) = true := by
  induction l with
  | nil => rw [findFrom] at h; cases h
  | cons o rest ih =>
    cases o with
    | none => rw [findFrom] at h; cases h
    | some d' =>
      cases hl : fs.ls d' with
      | none => rw [step_noDir fs name d' rest hl] at h; cases h
      | some es =>
        cases h1 : es.contains (pyFile name) with
        | true =>
          rw [step_module fs name d' rest es hl h1] at h
          cases h
          exact ⟨es, hl, h1⟩
        | false =>
          cases h2 : (es.contains name && fs.ex (d' ++ [name, initPy])) with
          | true => rw [step_package fs name d' rest es hl h1 h2] at h; cases h
          | false =>
            rw [step_next fs name d' rest es hl h1 h2] at h
            exact ih h

end Inv.Loader

/-! ### histories on one loader object -/

namespace Inv.Loader

theorem worldAfter_cons (w : World) (s : LStep) (r : List LStep) : worldAfter w (s :: r) = worldAfter (s.after w) r := rfl

theorem runLoader_load (l : LoaderObj) (w : World) (name : Name) (r : List LStep) :
    runLoader l w (.load name :: r) = l.loadAt w.fs w.cwd name :: runLoader l w r := by
  simp [runLoader]

theorem runLoader_chdir (l : LoaderObj) (w : World) (p : Path) (r : List LStep) :
    runLoader l w (.chdir p :: r) = runLoader l (LStep.after w (.chdir p)) r := by
  simp [runLoader]

theorem runLoader_setFs (l : LoaderObj) (w : World) (fs : FS) (r : List LStep) :
    runLoader l w (.setFs fs :: r) = runLoader l (LStep.after w (.setFs fs)) r := by
  simp [runLoader]

theorem runLoader_readStart (l : LoaderObj) (w : World) (r : List LStep) :
    runLoader l w (.readStart :: r) = runLoader l w r := by
  simp [runLoader, LStep.after]

/-- a history splits anywhere: the second part is answered as by a history started in the process state
    (working directory, filesystem) the first part left behind; earlier uses of the loader leave no trace -/
theorem runLoader_append (l : LoaderObj) (pre post : List LStep) : ∀ w : World,
    runLoader l w (pre ++ post) = runLoader l w pre ++ runLoader l (worldAfter w pre) post := by
  induction pre with
  | nil => intro w; simp [runLoader, worldAfter]
  | cons s r ih =>
    intro w
    cases s with
    | load name =>
      simp only [List.cons_append, runLoader_load, worldAfter_cons, LStep.after, List.cons.injEq, true_and]
      exact ih w
    | chdir p => simp only [List.cons_append, runLoader_chdir, worldAfter_cons]; exact ih _
    | setFs fs => simp only [List.cons_append, runLoader_setFs, worldAfter_cons]; exact ih _
    | readStart => simp only [List.cons_append, runLoader_readStart, worldAfter_cons, LStep.after]; exact ih w

/-- `os.path.abspath(os.getcwd())` is the working directory -/
theorem absPath_getcwd (cwd cwd' : Path) (h : ∀ c ∈ cwd, Plain c) : absPath cwd' true ([] :: cwd) = cwd := by
  simp only [absPath, if_true, List.foldl_cons]
  have h0 : normStep [] [] = [] := by simp [normStep]
  rw [h0, foldl_normStep_plain cwd h []]
  simp

theorem noEmpty_of_plain (p : Path) (h : ∀ c ∈ p, Plain c) : NoEmpty p := fun c hc => (h c hc).1

end Inv.Loader
