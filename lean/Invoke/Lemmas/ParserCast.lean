import Invoke.Model.Parser
/-! C07: the model's integer cast `pyInt?` is the ASCII part of CPython `int(str)` — lemmas about leading zeros, sign and
    surrounding whitespace (helper lemmas for `Props/C07.lean`). -/
namespace Inv

theorem pyInt?_leading_space (c : Char) (s : Tok) (hc : isPySpace c = true) : pyInt? (c :: s) = pyInt? s := by
  have : stripPySpace (c :: s) = stripPySpace s := by simp [stripPySpace, List.dropWhile, hc]
  unfold pyInt?; rw [this]

theorem isDigit_not_space (c : Char) (h : c.isDigit = true) : isPySpace c = false := by
  have h1 : c.val ≥ 48 := by simp [Char.isDigit] at h; exact h.1
  simp only [isPySpace, Bool.or_eq_false_iff, decide_eq_false_iff_not]
  refine ⟨⟨⟨⟨⟨?_, ?_⟩, ?_⟩, ?_⟩, ?_⟩, ?_⟩ <;> (intro e; subst e; revert h1; decide)

theorem pyDigits?_all : ∀ (ds : List Char) (prev : Bool), ds.all Char.isDigit = true → (ds ≠ [] ∨ prev = true) →
    pyDigits? prev ds = some ds
  | [], prev, _, h => by
    rcases h with h | h
    · exact absurd rfl h
    · simp [pyDigits?, h]
  | c :: r, prev, hall, _ => by
    simp only [List.all_cons, Bool.and_eq_true] at hall
    simp [pyDigits?, hall.1, pyDigits?_all r true hall.2 (Or.inr rfl)]
theorem dropWhile_head_digit : ∀ (ds : List Char), ds.all Char.isDigit = true → ds.dropWhile isPySpace = ds
  | [], _ => rfl
  | c :: r, h => by
    simp only [List.all_cons, Bool.and_eq_true] at h
    simp [List.dropWhile, isDigit_not_space c h.1]

theorem stripPySpace_digits (ds : List Char) (h : ds.all Char.isDigit = true) : stripPySpace ds = ds := by
  unfold stripPySpace
  rw [dropWhile_head_digit ds h]
  have hr : ds.reverse.all Char.isDigit = true := by simpa using h
  rw [dropWhile_head_digit ds.reverse hr, List.reverse_reverse]

/-- plain decimals, WITH leading zeros, are integers (`08`, `007`, `010`): what `int(str)` does and `int(str, 0)` does not -/
theorem pyInt?_decimal (ds : List Char) (hne : ds ≠ []) (h : ds.all Char.isDigit = true) :
    pyInt? ds = some (Int.ofNat (digitsToNat ds)) := by
  unfold pyInt?
  rw [stripPySpace_digits ds h]
  cases ds with
  | nil => exact absurd rfl hne
  | cons c r =>
    have hc : c.isDigit = true := by simp only [List.all_cons, Bool.and_eq_true] at h; exact h.1
    have h1 : c ≠ '-' := by intro e; subst e; revert hc; decide
    have h2 : c ≠ '+' := by intro e; subst e; revert hc; decide
    have hd := pyDigits?_all (c :: r) false h (Or.inl (by simp))
    have hm : splitSign (c :: r) = (false, c :: r) := by
      unfold splitSign
      split
      · next heq => simp at heq; exact absurd heq.1 h1
      · next heq => simp at heq; exact absurd heq.1 h2
      · rfl
    simp only [hm, hd]
    simp
end Inv
