import Invoke.Model.Parser
/-! C01 — composable step lemmas over the token stream of the (repaired) parser model `Invoke/Model/Parser.lean`.

  `Ready m c`   : the machine sits between two spelling items of the task whose (partially filled) context is `c`.
  `Pending …`   : a value-taking flag has just been switched to and awaits its value.
  `SameFrame`   : the parts of the machine no item touches (core context, finished contexts, registry).

  Step lemmas (all for ARBITRARY remaining fuel, so that they can be reused for tokens inserted by the
  pre-splitting loop): `handle_valueflag`, `value_step`, `tok_valueflag` (spaced form, first token),
  `tok_split` (⇒ `tok_eq`, `tok_glued`), `tok_toggle` (bool / counter), `tok_inverse`, `tok_positional`. -/
open Inv Inv.M
namespace Inv

def runToks (m : M) (toks : List Tok) : Except Err M :=
  toks.foldlM (fun m t => procTok (t.length + 2) m t) m

theorem runToks_append (m : M) (a b : List Tok) :
    runToks m (a ++ b) = (runToks m a >>= fun m' => runToks m' b) := by
  simp [runToks, List.foldlM_append]

theorem runToks_cons_ok {m m1 : M} {t : Tok} {r : List Tok} (h : procTok (t.length + 2) m t = .ok m1) :
    runToks m (t :: r) = runToks m1 r := by
  simp only [runToks, List.foldlM_cons, h, bind, Except.bind]

theorem runToks_single {m m1 : M} {t : Tok} (h : procTok (t.length + 2) m t = .ok m1) :
    runToks m [t] = .ok m1 := by
  rw [runToks_cons_ok h]; rfl

/-- between two items of the task whose context is `c` -/
structure Ready (m : M) (c : Ctx) : Prop where
  st : m.st = .context
  notInit : m.curIsInitial = false
  cur : m.cur = some c
  unp : m.unparsed = []
  nw : m.waiting = false
  settled : ∀ a, m.flagArg = some a → a.raw.isSome = true ∧ a.val ≠ .none
  noInit : ∀ i, m.flag ≠ some (.initial, i)

/-- a value-taking flag `i` has just been switched to and awaits its value -/
structure Pending (m : M) (c : Ctx) (i : Nat) (a : Arg) : Prop where
  st : m.st = .context
  notInit : m.curIsInitial = false
  cur : m.cur = some c
  unp : m.unparsed = []
  flag : m.flag = some (.cur, i)
  hai : c.args[i]? = some a
  tv : a.takesValue = true
  wait : (a.spec.kind = .list ∧ m.flagGotValue = false) ∨ a.raw = none

/-- the parts of the machine no item touches -/
def SameFrame (m m' : M) : Prop :=
  m'.initial = m.initial ∧ m'.done = m.done ∧ m'.registry = m.registry ∧ m'.ignoreUnknown = m.ignoreUnknown
theorem SameFrame.refl (m : M) : SameFrame m m := ⟨rfl, rfl, rfl, rfl⟩
theorem SameFrame.trans {a b c : M} (h1 : SameFrame a b) (h2 : SameFrame b c) : SameFrame a c :=
  ⟨h2.1.trans h1.1, h2.2.1.trans h1.2.1, h2.2.2.1.trans h1.2.2.1, h2.2.2.2.trans h1.2.2.2⟩

def Ctx.setArg (c : Ctx) (i : Nat) (a : Arg) : Ctx := { c with args := c.args.set i a }

/-- typed value of a command-line string for a parameter of kind `k` (`str` verbatim, `int` by `int()`) -/
def castTok (k : Kind) (v : Tok) : Option PVal :=
  match k with
  | .str => some (.s v)
  | .int => (pyInt? v).map PVal.i
  | _ => none

/-- INTENDED effect of giving the string `v` to a value-taking parameter: list parameters append, others are
    overwritten by the typed value (`none` when `v` is not admissible for the kind, e.g. `abc` for an int) -/
def Arg.give (a : Arg) (v : Tok) : Option Arg :=
  if a.spec.kind = .list then
    match a.val with
    | .l xs => some { a with raw := some (.s v), val := .l (xs ++ [v]) }
    | _ => none
  else (castTok a.spec.kind v).map fun pv => { a with raw := some (.s v), val := pv }

/-- INTENDED effect of a bare non-value flag: a counter is incremented, a boolean becomes `True` -/
def Arg.seen (a : Arg) : Arg :=
  if a.spec.incrementable then
    match a.val with
    | .i n => { a with raw := some (.b true), val := .i (n + 1) }
    | _ => a
  else { a with raw := some (.b true), val := .b true }

/-- INTENDED effect of the `--no-x` inverse flag -/
def Arg.unseen (a : Arg) : Arg := { a with raw := some (.b false), val := .b false }

theorem setValue_give {a a' : Arg} {v : Tok} (htv : a.takesValue = true) (h : a.give v = some a') :
    a.setValue (.s v) = .ok a' := by
  have hinc : a.spec.incrementable = false := by
    cases hi : a.spec.incrementable <;> simp [Arg.takesValue, hi] at htv ⊢
  unfold Arg.give at h
  by_cases hl : a.spec.kind = .list
  · simp only [hl, if_true] at h
    cases hv : a.val with
    | l xs =>
      simp only [hv] at h
      cases h
      have : a.value = .l xs := by simp [Arg.value, hv]
      simp [Arg.setValue, hinc, hl, this]
    | none => simp [hv] at h
    | s _ => simp [hv] at h
    | i _ => simp [hv] at h
    | b _ => simp [hv] at h
  · simp only [hl, if_false] at h
    cases hk : a.spec.kind with
    | list => exact absurd hk hl
    | bool => simp [hk, castTok] at h
    | str =>
      simp [hk, castTok] at h
      subst h
      simp [Arg.setValue, hinc, hk]
    | int =>
      simp [hk, castTok] at h
      obtain ⟨n, hn, rfl⟩ := h
      simp [Arg.setValue, hinc, hk, hn]

theorem give_settled {a a' : Arg} {v : Tok} (h : a.give v = some a') :
    a'.raw.isSome = true ∧ a'.val ≠ .none ∧ a'.spec = a.spec := by
  unfold Arg.give at h
  by_cases hl : a.spec.kind = .list
  · simp only [hl, if_true] at h
    cases hv : a.val <;> simp [hv] at h
    subst h; simp
  · simp only [hl, if_false] at h
    cases hk : a.spec.kind with
    | list => exact absurd hk hl
    | bool => simp [hk, castTok] at h
    | str => simp [hk, castTok] at h; subst h; simp
    | int => simp [hk, castTok] at h; obtain ⟨n, _, rfl⟩ := h; simp

theorem ctx_of_ready {m c} (h : Ready m c) : m.ctx = some c := by simp [M.ctx, h.notInit, h.cur]

theorem completeFlag_settled (m : M) (hset : ∀ a, m.flagArg = some a → a.raw.isSome = true)
    (hnw : m.waiting = false) : m.completeFlag = .ok m := by
  unfold M.completeFlag
  cases hf : m.flagArg with
  | none => rfl
  | some a =>
    have hs := hset a hf
    have hw := hnw
    unfold M.waiting at hw
    rw [hf] at hw
    cases hr : a.raw with
    | none => simp [hr] at hs
    | some r =>
      by_cases htv : a.takesValue = true
      · by_cases hl : (a.spec.kind = .list && !m.flagGotValue) = true
        · simp [htv, hl] at hw
        · simp [hr, hl]
      · simp [hr, htv]

theorem completeFlag_ready {m c} (h : Ready m c) : m.completeFlag = .ok m :=
  completeFlag_settled m (fun a ha => (h.settled a ha).1) h.nw

theorem checkAmbiguity_ready {m c} (h : Ready m c) (t : Tok) : m.checkAmbiguity t = .ok () := by
  unfold M.checkAmbiguity
  cases hf : m.flagArg with
  | none => rfl
  | some a =>
    have hs := (h.settled a hf).1
    by_cases ho : a.spec.optional <;> simp [ho, hs]

theorem enter_ready {m c} (h : Ready m c) (hmiss : c.missingPositional = []) : M.enter m = .ok m := by
  simp [M.enter, completeFlag_ready h, M.completeContext, ctx_of_ready h, hmiss, bind, Except.bind]

theorem presplit_ok (m : M) (t : Tok) : ∃ p, presplit m t = .ok p := by
  unfold presplit
  (repeat' split) <;> exact ⟨_, rfl⟩

/-- an unsplit flag token: long (`--name`) or two-character short (`-n`), no `=` -/
def Unsplit (fl : Tok) : Prop := hasEq fl = false ∧ (isLongFlag fl = true ∨ fl.length ≤ 2)

theorem presplit_unsplit (m : M) (fl : Tok) (h : Unsplit fl) : presplit m fl = .ok (fl, []) := by
  unfold presplit
  obtain ⟨h1, h2⟩ := h
  by_cases hf : (isFlag fl && m.unparsed.isEmpty) = true
  · have h3 : (!isLongFlag fl && decide (fl.length > 2)) = false := by
      rcases h2 with h2 | h2
      · simp [h2]
      · simp; intro _; omega
    simp [hf, h1, h3]
  · simp [hf]

theorem presplit_nonflag (m : M) (v : Tok) (h : isFlag v = false) : presplit m v = .ok (v, []) := by
  unfold presplit; simp [h]

/-- one-piece token whose `handle` result is known -/
theorem procTok_one {m m1 : M} {t : Tok} (n : Nat) (hps : presplit m t = .ok (t, []))
    (hh : m.handle t = .ok m1) : procTok (n + 1) m t = .ok m1 := by
  unfold procTok
  have hrb : rollback m t (t, []) = (t, []) := by unfold rollback; split <;> rfl
  simp only [hps, hrb, hh, List.foldlM_nil]
  rfl

theorem switchToFlag_ready {m c} (h : Ready m c) (fl : Tok) (i : Nat) (a : Arg)
    (hfl : assoc? fl c.flags = some i) (hai : c.args[i]? = some a) (htv : a.takesValue = true) :
    m.switchToFlag fl = .ok { m with flag := some (.cur, i), flagGotValue := false } := by
  unfold M.switchToFlag
  simp [checkAmbiguity_ready h, completeFlag_ready h, ctx_of_ready h, hfl, bind, Except.bind, pure, Except.pure]
  have : M.flagArg { m with flag := some (Where.cur, i), flagGotValue := false } = some a := by
    simp [M.flagArg, M.ctx, h.notInit, h.cur, hai]
  simp [this, htv]

/-- handling a value-flag token of the current context: Ready ↦ Pending -/
theorem handle_valueflag {m c} (h : Ready m c) (fl : Tok) (i : Nat) (a : Arg)
    (hfl : assoc? fl c.flags = some i) (hai : c.args[i]? = some a) (htv : a.takesValue = true)
    (hw : a.spec.kind = .list ∨ a.raw = none) :
    ∃ m1, m.handle fl = .ok m1 ∧ Pending m1 c i a ∧ SameFrame m m1 := by
  refine ⟨{ m with flag := some (.cur, i), flagGotValue := false }, ?_, ?_⟩
  · unfold M.handle
    simp [h.st, ctx_of_ready h, hfl, switchToFlag_ready h fl i a hfl hai htv]
  · refine ⟨⟨h.st, h.notInit, h.cur, h.unp, rfl, hai, htv, ?_⟩, ⟨rfl, rfl, rfl, rfl⟩⟩
    rcases hw with hw | hw
    · exact Or.inl ⟨hw, rfl⟩
    · exact Or.inr hw

theorem pending_facts {m c i a} (h : Pending m c i a) :
    m.ctx = some c ∧ m.flagArg = some a ∧ m.waiting = true := by
  have hc : m.ctx = some c := by simp [M.ctx, h.notInit, h.cur]
  have hf : m.flagArg = some a := by simp [M.flagArg, h.flag, hc, h.hai]
  refine ⟨hc, hf, ?_⟩
  rcases h.wait with ⟨hl, hg⟩ | hr
  · simp [M.waiting, hf, h.tv, hl, hg]
  · simp [M.waiting, hf, h.tv, hr]

/-- the first piece of a pre-split token is the token itself, its part before `=`, or its first two characters -/
theorem presplit_fst {m : M} {v : Tok} {p : Tok × List Tok} (h : presplit m v = .ok p) :
    p.1 = v ∨ p.1 = beforeEq v ∨ p.1 = v.take 2 := by
  unfold presplit at h
  split at h
  · split at h
    · cases h; exact Or.inr (Or.inl rfl)
    · split at h
      · cases h
        right; right
        unfold splitShort
        dsimp only
        split
        · split <;> rfl
        · rfl
      · cases h; exact Or.inl rfl
  · cases h; exact Or.inl rfl

/-- the token is not a flag of the core context: a token spelled like a core flag belongs to the core (it is not
    consumed as a task's positional value, nor as the value of a pending OPTIONAL-value flag) -/
def NotCoreFlag (ic : Option Ctx) (v : Tok) : Prop := ∀ c0, ic = some c0 → assoc? v c0.flags = none

theorem coreFlagInTask_false {m : M} {t : Tok} (h : NotCoreFlag m.initial t) : m.coreFlagInTask t = false := by
  unfold M.coreFlagInTask
  cases hi : m.initial with
  | none => simp
  | some ic => simp [h ic hi]

/-- side condition on the value of an OPTIONAL-value flag (documented ambiguity rules): every positional of the task
    is filled, the value is not a task name and not a core flag spelling, and it is not flag-like — or, if it is, no
    piece of it is a flag of the task or of the core ("otherwise, the token is interpreted literally and stored as the
    value for the current flag") -/
def OptValueOK (ic : Option Ctx) (reg : List Ctx) (c : Ctx) (a : Arg) (v : Tok) : Prop :=
  a.spec.optional = false ∨
    ((isFlag v = false ∨ (assoc? (beforeEq v) c.flags = none ∧ assoc? (v.take 2) c.flags = none ∧
        NotCoreFlag ic (beforeEq v) ∧ NotCoreFlag ic (v.take 2))) ∧
      NotCoreFlag ic v ∧ c.missingPositional = [] ∧ a.raw = none ∧
      reg.find? (fun c => c.name = some v || c.aliases.contains v) = none)

/-- whatever token comes while a value flag is pending is taken verbatim as its value (unless it is itself a
    flag of the context) — this covers the `=`, spaced and glued forms at once -/
theorem value_step {m c i a} (h : Pending m c i a) (v : Tok) (a' : Arg) (fuel : Nat)
    (hv1 : assoc? v c.flags = none) (hv2 : assoc? v c.inverse = none)
    (hgive : a.give v = some a') (hopt : OptValueOK m.initial m.registry c a v) :
    ∃ m2, procTok (fuel + 1) m v = .ok m2 ∧ Ready m2 (c.setArg i a') ∧ SameFrame m m2 := by
  obtain ⟨hctx, hfa, hw⟩ := pending_facts h
  obtain ⟨p, hp⟩ := presplit_ok m v
  have hrb : rollback m v p = (v, []) := by
    rcases hopt with ho | ⟨hnf | ⟨hb, ht, hcb, hct⟩, hcv, _, _, _⟩
    · simp [rollback, hw, keepSplit, hfa, ho]
    · have : p = (v, []) := by
        have := presplit_nonflag m v hnf; rw [hp] at this; cases this; rfl
      subst this
      unfold rollback; split <;> rfl
    · have hnone : assoc? p.1 c.flags = none ∧ m.coreFlagInTask p.1 = false := by
        rcases presplit_fst hp with e | e | e <;> rw [e]
        · exact ⟨hv1, coreFlagInTask_false hcv⟩
        · exact ⟨hb, coreFlagInTask_false hcb⟩
        · exact ⟨ht, coreFlagInTask_false hct⟩
      simp [rollback, hw, keepSplit, hctx, hnone.1, hnone.2]
  have hset : a.setValue (.s v) = .ok a' := setValue_give h.tv hgive
  have hupd : m.updFlagArg a' = { m with cur := some (c.setArg i a') } := by
    simp [M.updFlagArg, h.flag, M.ctx, M.setCtx, h.notInit, h.cur, Ctx.setArg]
  have hamb : m.checkAmbiguity v = .ok () := by
    unfold M.checkAmbiguity
    rw [hfa]
    rcases hopt with ho | ⟨_, _, hmiss, hraw, hlk⟩
    · simp [ho]
    · by_cases ho : a.spec.optional = true
      · have hlk' : m.lookupCtx v = none := hlk
        simp [ho, hraw, hctx, hmiss, hlk']
      · simp [ho]
  have hh : m.handle v = .ok { (m.updFlagArg a') with flagGotValue := true } := by
    have hnc : (m.optionalPending && m.coreFlagInTask v) = false := by
      rcases hopt with ho | ⟨_, hcv, _, _, _⟩
      · simp [M.optionalPending, hfa, ho]
      · simp [coreFlagInTask_false hcv]
    unfold M.handle
    simp [h.st, hctx, hv1, hv2, hw, hnc]
    unfold M.seeValue
    simp [hamb, hfa, h.tv, hset, bind, Except.bind]
  have hi : i < c.args.length := by
    have := h.hai; rw [List.getElem?_eq_some_iff] at this; exact this.1
  obtain ⟨hs1, hs2, hs3⟩ := give_settled hgive
  refine ⟨{ (m.updFlagArg a') with flagGotValue := true }, ?_, ?_, ?_⟩
  rotate_left 2
  · rw [hupd]; exact ⟨rfl, rfl, rfl, rfl⟩
  · unfold procTok
    simp only [hp, hrb, hh, List.foldlM_nil, pure, Except.pure]
  · have hfa2 : M.flagArg { (m.updFlagArg a') with flagGotValue := true } = some a' := by
      rw [hupd]; simp [M.flagArg, M.ctx, h.flag, h.notInit, Ctx.setArg, hi]
    constructor
    · rw [hupd]; exact h.st
    · rw [hupd]; exact h.notInit
    · rw [hupd]
    · rw [hupd]; exact h.unp
    · unfold M.waiting; rw [hfa2]
      have : a'.takesValue = true := by simpa [Arg.takesValue, hs3] using h.tv
      simp [this, hs1]
    · intro b hb; rw [hfa2] at hb; cases hb; exact ⟨hs1, hs2⟩
    · intro k hk; rw [hupd] at hk; simp [h.flag] at hk

/-- conditions under which `(fl, v)` is an admissible (flag, value) pair for argument `i` of context `c` -/
structure ValFlagOK (ic : Option Ctx) (reg : List Ctx) (c : Ctx) (fl : Tok) (i : Nat) (v : Tok) (a a' : Arg) : Prop where
  hfl : assoc? fl c.flags = some i
  hai : c.args[i]? = some a
  tv : a.takesValue = true
  fresh : a.spec.kind = .list ∨ a.raw = none     -- a non-list parameter is mentioned at most once
  hv1 : assoc? v c.flags = none                   -- the value does not collide with a flag of the task
  hv2 : assoc? v c.inverse = none
  give : a.give v = some a'                       -- the value is admissible for the parameter's kind
  opt : OptValueOK ic reg c a v

/-- SPACED FORM `--name v` / `-n v` -/
theorem step_spaced {m c} (h : Ready m c) (fl v : Tok) (i : Nat) (a a' : Arg)
    (hun : Unsplit fl) (ok : ValFlagOK m.initial m.registry c fl i v a a') :
    ∃ m', runToks m [fl, v] = .ok m' ∧ Ready m' (c.setArg i a') ∧ SameFrame m m' := by
  obtain ⟨m1, hh, hp, hf1⟩ := handle_valueflag h fl i a ok.hfl ok.hai ok.tv ok.fresh
  have hreg : m1.registry = m.registry := hf1.2.2.1
  have hini : m1.initial = m.initial := hf1.1
  obtain ⟨m2, hv, hr, hf2⟩ := value_step hp v a' (v.length + 1) ok.hv1 ok.hv2 ok.give (by rw [hreg, hini]; exact ok.opt)
  refine ⟨m2, ?_, hr, hf1.trans hf2⟩
  have h1 : procTok (fl.length + 2) m fl = .ok m1 := procTok_one _ (presplit_unsplit m fl hun) hh
  rw [runToks_cons_ok h1]
  exact runToks_single hv

/-- one token that pre-splits into (flag, [value]) from a ready state -/
theorem tok_split {m c} (h : Ready m c) (tok fl v : Tok) (i : Nat) (a a' : Arg) (n : Nat)
    (hps : presplit m tok = .ok (fl, [v])) (ok : ValFlagOK m.initial m.registry c fl i v a a') :
    ∃ m', procTok (n + 2) m tok = .ok m' ∧ Ready m' (c.setArg i a') ∧ SameFrame m m' := by
  obtain ⟨m1, hh, hp, hf1⟩ := handle_valueflag h fl i a ok.hfl ok.hai ok.tv ok.fresh
  have hreg : m1.registry = m.registry := hf1.2.2.1
  have hini : m1.initial = m.initial := hf1.1
  obtain ⟨m2, hv, hr, hf2⟩ := value_step hp v a' n ok.hv1 ok.hv2 ok.give (by rw [hreg, hini]; exact ok.opt)
  refine ⟨m2, ?_, hr, hf1.trans hf2⟩
  have hrb : rollback m tok (fl, [v]) = (fl, [v]) := by simp [rollback, h.nw]
  unfold procTok
  simp only [hps, hrb, hh, List.foldlM_cons, List.foldlM_nil, hv, bind, Except.bind]
  rfl

theorem beforeEq_append {nm v : Tok} (h : hasEq nm = false) : beforeEq (nm ++ '=' :: v) = nm := by
  induction nm with
  | nil => simp [beforeEq]
  | cons x xs ih =>
    by_cases hx : x = '='
    · simp [hasEq, hx] at h
    · simp [hasEq, hx] at h; simp [beforeEq, hx, ih h]
theorem afterEq_append {nm v : Tok} (h : hasEq nm = false) : afterEq (nm ++ '=' :: v) = v := by
  induction nm with
  | nil => simp [afterEq]
  | cons x xs ih =>
    by_cases hx : x = '='
    · simp [hasEq, hx] at h
    · simp [hasEq, hx] at h; simp [afterEq, hx, ih h]
theorem hasEq_append (nm v : Tok) : hasEq (nm ++ '=' :: v) = true := by
  induction nm with
  | nil => simp [hasEq]
  | cons x xs ih => by_cases hx : x = '=' <;> simp [hasEq, hx, ih]

/-- a flag token proper: `--long…` or `-x`, without `=` -/
def FlagTok (fl : Tok) : Prop :=
  hasEq fl = false ∧ ((∃ r, fl = '-' :: '-' :: r) ∨ (∃ x, fl = ['-', x]))

theorem FlagTok.unsplit {fl : Tok} (h : FlagTok fl) : Unsplit fl := by
  obtain ⟨h1, h2⟩ := h
  refine ⟨h1, ?_⟩
  rcases h2 with ⟨r, rfl⟩ | ⟨x, rfl⟩
  · left; rfl
  · right; simp

theorem isGlued_eq_form (m : M) {fl : Tok} (h : FlagTok fl) (v : Tok) : isGlued m (fl ++ '=' :: v) = false := by
  obtain ⟨_, h2⟩ := h
  rcases h2 with ⟨r, rfl⟩ | ⟨x, rfl⟩
  · simp [isGlued, isLongFlag]
  · simp [isGlued]

theorem presplit_eq_form {m c} (h : Ready m c) {fl : Tok} (hft : FlagTok fl) (v : Tok) :
    presplit m (fl ++ '=' :: v) = .ok (fl, [v]) := by
  have hfl : isFlag (fl ++ '=' :: v) = true := by
    rcases hft.2 with ⟨r, rfl⟩ | ⟨x, rfl⟩ <;> rfl
  unfold presplit
  simp [hfl, h.unp, hasEq_append, isGlued_eq_form m hft, beforeEq_append hft.1, afterEq_append hft.1]

/-- EQUALS FORM `--name=v` / `-n=v` -/
theorem step_eq {m c} (h : Ready m c) (fl v : Tok) (i : Nat) (a a' : Arg)
    (hft : FlagTok fl) (ok : ValFlagOK m.initial m.registry c fl i v a a') :
    ∃ m', runToks m [fl ++ '=' :: v] = .ok m' ∧ Ready m' (c.setArg i a') ∧ SameFrame m m' := by
  obtain ⟨m', hrun, hr, hf⟩ := tok_split h _ fl v i a a' (fl ++ '=' :: v).length (presplit_eq_form h hft v) ok
  exact ⟨m', runToks_single hrun, hr, hf⟩

theorem presplit_glued_form {m c} (h : Ready m c) (x y : Char) (w : Tok) (i : Nat) (a : Arg)
    (hx : x ≠ '-') (hy : y ≠ '=')
    (hfl : assoc? ['-', x] c.flags = some i) (hai : c.args[i]? = some a) (htv : a.takesValue = true) :
    presplit m ('-' :: x :: y :: w) = .ok (['-', x], [y :: w]) := by
  have hgf : gluedFlag m ['-', x] = some a := by simp [gluedFlag, h.st, ctx_of_ready h, hfl, hai]
  have hig : isGlued m ('-' :: x :: y :: w) = true := by
    simp [isGlued, isLongFlag, hx, hy, hgf, htv]
  unfold presplit
  simp [isFlag, h.unp, hig, isLongFlag, hx, splitShort, hgf, htv]

/-- GLUED FORM `-nVALUE` (value non-empty and not starting with `=`: `-n=v` is the equals form) -/
theorem step_glued {m c} (h : Ready m c) (x y : Char) (w : Tok) (i : Nat) (a a' : Arg)
    (hx : x ≠ '-') (hy : y ≠ '=')
    (ok : ValFlagOK m.initial m.registry c ['-', x] i (y :: w) a a') :
    ∃ m', runToks m ['-' :: x :: y :: w] = .ok m' ∧ Ready m' (c.setArg i a') ∧ SameFrame m m' := by
  obtain ⟨m', hrun, hr, hf⟩ := tok_split h _ ['-', x] (y :: w) i a a' ('-' :: x :: y :: w).length
    (presplit_glued_form h x y w i a hx hy ok.hfl ok.hai ok.tv) ok
  exact ⟨m', runToks_single hrun, hr, hf⟩

/-- BARE NON-VALUE FLAG `--flag` / `-f`: boolean ↦ True, counter ↦ +1.  Stated for any remaining fuel. -/
theorem handle_toggle {m c} (h : Ready m c) (fl : Tok) (i : Nat) (a : Arg)
    (hfl : assoc? fl c.flags = some i) (hai : c.args[i]? = some a)
    (hk : (a.spec.incrementable = false ∧ a.spec.kind = .bool) ∨ (a.spec.incrementable = true ∧ ∃ k, a.val = .i k)) :
    ∃ m', m.handle fl = .ok m' ∧ Ready m' (c.setArg i a.seen) ∧ SameFrame m m' := by
  have htv : a.takesValue = false := by
    rcases hk with ⟨_, hk⟩ | ⟨hk, _⟩ <;> simp [Arg.takesValue, hk]
  have hi : i < c.args.length := by
    have := hai; rw [List.getElem?_eq_some_iff] at this; exact this.1
  have hset : a.setValue (.b true) = .ok a.seen := by
    rcases hk with ⟨hinc, hk⟩ | ⟨hinc, k, hv⟩
    · simp [Arg.setValue, hinc, hk, Arg.seen]
    · have : a.value = .i k := by simp [Arg.value, hv]
      simp [Arg.setValue, hinc, this, Arg.seen, hv]
  have hseen : a.seen.raw.isSome = true ∧ a.seen.val ≠ .none ∧ a.seen.takesValue = false := by
    rcases hk with ⟨hinc, hk⟩ | ⟨hinc, k, hv⟩
    · simp [Arg.seen, hinc, Arg.takesValue, hk]
    · simp [Arg.seen, hinc, hv, Arg.takesValue]
  let m1 : M := { m with flag := some (.cur, i), flagGotValue := false }
  have hfa1 : m1.flagArg = some a := by simp [m1, M.flagArg, M.ctx, h.notInit, h.cur, hai]
  have hupd : m1.updFlagArg a.seen = { m1 with cur := some (c.setArg i a.seen) } := by
    simp [M.updFlagArg, m1, M.ctx, M.setCtx, h.notInit, h.cur, Ctx.setArg]
  have hsw : m.switchToFlag fl = .ok (m1.updFlagArg a.seen) := by
    unfold M.switchToFlag
    simp [checkAmbiguity_ready h, completeFlag_ready h, ctx_of_ready h, hfl, bind, Except.bind, pure, Except.pure]
    have : M.flagArg { m with flag := some (Where.cur, i), flagGotValue := false } = some a := hfa1
    simp [this, htv, hset]
    rfl
  have hh : m.handle fl = .ok (m1.updFlagArg a.seen) := by
    unfold M.handle
    simp [h.st, ctx_of_ready h, hfl, hsw]
  refine ⟨m1.updFlagArg a.seen, hh, ?_, ?_⟩
  rotate_left 1
  · rw [hupd]; exact ⟨rfl, rfl, rfl, rfl⟩
  · have hfa2 : M.flagArg (m1.updFlagArg a.seen) = some a.seen := by
      rw [hupd]; simp [M.flagArg, M.ctx, m1, h.notInit, Ctx.setArg, hi]
    constructor
    · rw [hupd]; exact h.st
    · rw [hupd]; exact h.notInit
    · rw [hupd]
    · rw [hupd]; exact h.unp
    · unfold M.waiting; rw [hfa2]; simp [hseen.2.2]
    · intro b hb; rw [hfa2] at hb; cases hb; exact ⟨hseen.1, hseen.2.1⟩
    · intro k hk'; rw [hupd] at hk'; simp [m1] at hk'

theorem tok_toggle {m c} (h : Ready m c) (fl : Tok) (i : Nat) (a : Arg) (n : Nat)
    (hun : Unsplit fl)
    (hfl : assoc? fl c.flags = some i) (hai : c.args[i]? = some a)
    (hk : (a.spec.incrementable = false ∧ a.spec.kind = .bool) ∨ (a.spec.incrementable = true ∧ ∃ k, a.val = .i k)) :
    ∃ m', procTok (n + 1) m fl = .ok m' ∧ Ready m' (c.setArg i a.seen) ∧ SameFrame m m' := by
  obtain ⟨m', hh, hr, hf⟩ := handle_toggle h fl i a hfl hai hk
  exact ⟨m', procTok_one n (presplit_unsplit m fl hun) hh, hr, hf⟩

/-- INVERSE FLAG `--no-x` of a boolean: ↦ False -/
theorem tok_inverse {m c} (h : Ready m c) (nofl fl : Tok) (i : Nat) (a : Arg) (n : Nat)
    (hun : Unsplit nofl)
    (hnf : assoc? nofl c.flags = none) (hinv : assoc? nofl c.inverse = some fl)
    (hfl : assoc? fl c.flags = some i) (hai : c.args[i]? = some a)
    (hk : a.spec.kind = .bool) (hinc : a.spec.incrementable = false) :
    ∃ m', procTok (n + 1) m nofl = .ok m' ∧ Ready m' (c.setArg i a.unseen) ∧ SameFrame m m' := by
  have htv : a.takesValue = false := by simp [Arg.takesValue, hk]
  have hi : i < c.args.length := by
    have := hai; rw [List.getElem?_eq_some_iff] at this; exact this.1
  have hset : a.setValue (.b false) = .ok a.unseen := by simp [Arg.setValue, hinc, hk, Arg.unseen]
  let m1 : M := { m with flag := some (.cur, i), flagGotValue := false }
  have hfa1 : m1.flagArg = some a := by simp [m1, M.flagArg, M.ctx, h.notInit, h.cur, hai]
  have hupd : m1.updFlagArg a.unseen = { m1 with cur := some (c.setArg i a.unseen) } := by
    simp [M.updFlagArg, m1, M.ctx, M.setCtx, h.notInit, h.cur, Ctx.setArg]
  have hsw : m.switchToFlag nofl (inverse := true) = .ok (m1.updFlagArg a.unseen) := by
    unfold M.switchToFlag
    simp [checkAmbiguity_ready h, completeFlag_ready h, ctx_of_ready h, hinv, hfl, bind, Except.bind, pure, Except.pure]
    have : M.flagArg { m with flag := some (Where.cur, i), flagGotValue := false } = some a := hfa1
    simp [this, htv, hset]
    rfl
  have hh : m.handle nofl = .ok (m1.updFlagArg a.unseen) := by
    unfold M.handle
    simp [h.st, ctx_of_ready h, hnf, hinv, hsw]
  refine ⟨m1.updFlagArg a.unseen, procTok_one n (presplit_unsplit m nofl hun) hh, ?_, ?_⟩
  rotate_left 1
  · rw [hupd]; exact ⟨rfl, rfl, rfl, rfl⟩
  · have hfa2 : M.flagArg (m1.updFlagArg a.unseen) = some a.unseen := by
      rw [hupd]; simp [M.flagArg, M.ctx, m1, h.notInit, Ctx.setArg, hi]
    constructor
    · rw [hupd]; exact h.st
    · rw [hupd]; exact h.notInit
    · rw [hupd]
    · rw [hupd]; exact h.unp
    · unfold M.waiting; rw [hfa2]; simp [Arg.takesValue, Arg.unseen, hk]
    · intro b hb; rw [hfa2] at hb; cases hb; exact ⟨rfl, by simp [Arg.unseen]⟩
    · intro k hk'; rw [hupd] at hk'; simp [m1] at hk'

theorem missing_of_find {c : Ctx} {j : Nat} (hf : c.firstMissing = some j) :
    c.missingPositional.isEmpty = false := by
  unfold Ctx.missingPositional
  unfold Ctx.firstMissing at hf
  have hmem := List.mem_of_find?_eq_some hf
  have hp := List.find?_some hf
  cases hfil : c.positional.filter c.isMissing with
  | nil =>
    have : j ∈ c.positional.filter c.isMissing := List.mem_filter.mpr ⟨hmem, hp⟩
    rw [hfil] at this; cases this
  | cons x xs => simp

/-- POSITIONAL TOKEN: fills the first positional parameter that has no value yet -/
theorem tok_positional {m c} (h : Ready m c) (v : Tok) (j : Nat) (a a' : Arg) (n : Nat)
    (hnf : isFlag v = false ∨ Unsplit v)
    (hv1 : assoc? v c.flags = none) (hv2 : assoc? v c.inverse = none) (hv3 : NotCoreFlag m.initial v)
    (hfind : c.firstMissing = some j)
    (haj : c.args[j]? = some a) (htv : a.takesValue = true) (hgive : a.give v = some a') :
    ∃ m', procTok (n + 1) m v = .ok m' ∧ Ready m' (c.setArg j a') ∧ SameFrame m m' := by
  have hmiss := missing_of_find hfind
  have hset : a.setValue (.s v) = .ok a' := setValue_give htv hgive
  have hjmiss : a.value = .none := by
    have := List.find?_some hfind; simpa [Ctx.isMissing, haj] using this
  have hj : j < c.args.length := by
    have := haj; rw [List.getElem?_eq_some_iff] at this; exact this.1
  have hsp : m.seePositional v = .ok { m with cur := some (c.setArg j a') } := by
    unfold M.seePositional
    rw [ctx_of_ready h]
    simp only []
    rw [hfind]
    simp only [haj, hset, M.setCtx, h.notInit, Ctx.setArg]
    rfl
  have hh : m.handle v = .ok { m with cur := some (c.setArg j a') } := by
    rw [← hsp]
    unfold M.handle
    cases hi : m.initial with
    | none => simp [h.st, ctx_of_ready h, hv1, hv2, h.nw, hmiss]
    | some ic => simp [h.st, ctx_of_ready h, hv1, hv2, h.nw, hmiss, hv3 ic hi]
  have hps : presplit m v = .ok (v, []) := by
    rcases hnf with hnf | hnf
    · exact presplit_nonflag m v hnf
    · exact presplit_unsplit m v hnf
  refine ⟨{ m with cur := some (c.setArg j a') }, procTok_one n hps hh, ?_, ⟨rfl, rfl, rfl, rfl⟩⟩
  -- the current flag (if any) is not the argument just filled: it has a value, `a` had none
  have hflag_ne : ∀ i, m.flag = some (.cur, i) → i ≠ j := by
    intro i hi e
    subst e
    have hfa : m.flagArg = some a := by simp [M.flagArg, hi, ctx_of_ready h, haj]
    have := (h.settled a hfa).2
    simp [Arg.value] at hjmiss
    exact this (by
      by_cases hv : a.val = PVal.none
      · exact hv
      · simp [hv] at hjmiss)
  have hfa_same : M.flagArg { m with cur := some (c.setArg j a') } = m.flagArg := by
    unfold M.flagArg
    cases hfl : m.flag with
    | none => rfl
    | some p =>
      obtain ⟨w, i⟩ := p
      cases w with
      | initial => exact absurd hfl (h.noInit i)
      | cur =>
        have hne := hflag_ne i hfl
        simp [M.ctx, h.notInit, h.cur, Ctx.setArg, List.getElem?_set_ne (Ne.symm hne)]
  constructor
  · exact h.st
  · exact h.notInit
  · rfl
  · exact h.unp
  · have := h.nw; unfold M.waiting at this ⊢; rw [hfa_same]; exact this
  · intro b hb; rw [hfa_same] at hb; exact h.settled b hb
  · exact h.noInit

end Inv
