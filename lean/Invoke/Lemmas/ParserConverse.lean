import Invoke.Lemmas.ParserSituations
/-! C07, converse direction of `error_iff_situation`: a `ParseError` of kind `k` implies that the documented situation
    of kind `k` holds in a reachable machine state (for well-formed specifications). -/
namespace Inv
open M

/-! ### the documented situations, as predicates on the machine at the moment of the failing step -/

/-- a value-requiring flag is pending without a value -/
def SitNeeded (m : M) (d : Tok) : Prop :=
  ∃ a, m.flagArg = some a ∧ a.takesValue = true ∧ (a.raw = none ∨ (a.spec.kind = .list ∧ m.flagGotValue = false)) ∧
    a.spec.optional = false ∧ d = a.spec.names.headD []

/-- (after tying off the pending flag) the current context lacks positional arguments -/
def SitMissing (m : M) (d : Tok) : Prop :=
  ∃ m1 c, completeFlag m = .ok m1 ∧ m1.ctx = some c ∧ c.missingPositional ≠ [] ∧ d = c.name.getD []

/-- an optional-value flag has no value yet and the token could also be a positional value or a task name -/
def SitAmbig (m : M) (v : Tok) : Prop :=
  ∃ a, m.flagArg = some a ∧ a.spec.optional = true ∧ a.raw = none ∧
    ((∃ c, m.ctx = some c ∧ c.missingPositional ≠ []) ∨ (m.lookupCtx v).isSome = true)

theorem completeContext_error (m : M) (e : Err) (h : completeContext m = .error e) :
    ∃ c, m.ctx = some c ∧ c.missingPositional ≠ [] ∧ e = .parse "missing-positional" (c.name.getD []) := by
  unfold M.completeContext at h
  split at h
  · cases h
  · next c hc =>
    split at h
    · next hm =>
      refine ⟨c, hc, ?_, (Except.error.inj h).symm⟩
      intro hnil; simp [hnil] at hm
    · cases h

theorem completeFlag_error (m : M) (k : String) (d : Tok) (h : completeFlag m = .error (.parse k d)) :
    k = "needed-value" ∧ SitNeeded m d := by
  unfold M.completeFlag at h
  cases hfa : m.flagArg with
  | none => simp [hfa] at h
  | some a =>
    simp only [hfa] at h
    split at h
    · next hc =>
      have he := Except.error.inj h
      simp only [Err.parse.injEq] at he
      simp only [Bool.and_eq_true, Bool.or_eq_true, Option.isNone_iff_eq_none, decide_eq_true_eq, Bool.not_eq_true'] at hc
      refine ⟨he.1.symm, a, hfa, hc.1.1, ?_, hc.2, he.2.symm⟩
      rcases hc.1.2 with h1 | h1
      · exact Or.inl h1
      · exact Or.inr h1
    · split at h
      · simp only [bind, Except.bind] at h
        cases hs : a.setValue (.b true) false with
        | ok a' => simp [hs] at h
        | error e =>
          simp only [hs] at h
          obtain ⟨c, s, rfl⟩ := Arg.setValue_err_other a _ _ e hs
          cases h
      · cases h

theorem checkAmbiguity_error (m : M) (v : Tok) (e : Err) (h : checkAmbiguity m v = .error e) :
    e = .parse "ambiguous" v ∧ SitAmbig m v := by
  rcases checkAmbiguity_res m v with h0 | h0
  · rw [h0] at h; cases h
  · rw [h0] at h
    refine ⟨(Except.error.inj h).symm, ?_⟩
    unfold M.checkAmbiguity at h0
    cases hfa : m.flagArg with
    | none => simp [hfa] at h0
    | some a =>
      simp only [hfa] at h0
      by_cases ho : a.spec.optional = true
      · by_cases hr : a.raw.isSome = true
        · simp [ho, hr] at h0
        · have hr' : a.raw = none := by simpa using hr
          refine ⟨a, hfa, ho, hr', ?_⟩
          cases hctx : m.ctx with
          | none =>
            simp only [ho, hr', hctx] at h0
            right
            by_cases hl : (m.lookupCtx v).isSome = true
            · exact hl
            · simp [hl] at h0
          | some c =>
            simp only [ho, hr', hctx] at h0
            by_cases hmm : c.missingPositional = []
            · right
              by_cases hl : (m.lookupCtx v).isSome = true
              · exact hl
              · simp [hmm, hl] at h0
            · exact Or.inl ⟨c, rfl, hmm⟩
      · simp [ho] at h0

theorem enter_error (m : M) (k : String) (d : Tok) (h : enter m = .error (.parse k d)) :
    (k = "needed-value" ∧ SitNeeded m d) ∨ (k = "missing-positional" ∧ SitMissing m d) := by
  unfold M.enter at h
  cases h1 : completeFlag m with
  | error e =>
    simp only [h1, bind, Except.bind] at h
    have : e = .parse k d := Except.error.inj h
    subst this
    exact Or.inl (completeFlag_error m k d h1)
  | ok m1 =>
    simp only [h1, bind, Except.bind] at h
    obtain ⟨c, hc, hm, he⟩ := completeContext_error m1 _ h
    simp only [Err.parse.injEq] at he
    exact Or.inr ⟨he.1, m1, c, h1, hc, hm, he.2⟩

/-- an unknown token: not a flag of the current context, no value awaited, no positional slot open, not a task name,
    not a core flag — and unknown tokens are not being collected -/
def SitNoIdea (m : M) (tok : Tok) : Prop :=
  m.st ≠ .unknown ∧ m.ignoreUnknown = false ∧ m.waiting = false ∧ m.lookupCtx tok = none ∧
  (∀ c, m.ctx = some c → assoc? tok c.flags = none ∧ assoc? tok c.inverse = none ∧ c.missingPositional = []) ∧
  (∀ ic, m.initial = some ic → assoc? tok ic.flags = none)

/-- the token is not an integer but goes to an int-typed argument (pending flag or next positional) -/
def SitInvalid (m : M) (v : Tok) : Prop :=
  ∃ a, a.spec.kind = .int ∧ a.spec.incrementable = false ∧ pyInt? v = none ∧
    ((m.waiting = true ∧ m.flagArg = some a) ∨ (∃ c i, m.ctx = some c ∧ c.firstMissing = some i ∧ c.args[i]? = some a))

theorem Arg.setValue_valueError (a : Arg) (v : Tok) (s : String) (h : a.setValue (.s v) = .error (.other "ValueError" s)) :
    a.spec.kind = .int ∧ a.spec.incrementable = false ∧ pyInt? v = none := by
  unfold Arg.setValue at h
  repeat' split at h
  all_goals first
    | (cases h; done)
    | (simp_all; done)
    | skip
  all_goals simp_all

theorem switchTail_ok (m2 : M) (h : MInv m2) (inverse : Bool) :
    ∃ m', (match m2.flagArg with
      | some a =>
        if (!a.takesValue) = true then
          match a.setValue (.b (!inverse)) with
          | .ok a' => .ok (m2.updFlagArg a')
          | .error e => .error e
        else .ok m2
      | none => .ok m2) = Except.ok m' := by
  cases hfa : m2.flagArg with
  | none => exact ⟨_, rfl⟩
  | some a =>
    simp only []
    split
    · next ht =>
      have ht' : a.takesValue = false := by simpa using ht
      obtain ⟨a', h1, _, _⟩ := Arg.setValue_novalue a (!inverse) (h.flagArg_ok a hfa) ht'
      simp only [h1]
      exact ⟨_, rfl⟩
    · exact ⟨_, rfl⟩

/-- under the invariant, and for a token `handle` has looked up, `switch_to_flag` can only fail in its two guards -/
theorem switchToFlag_ok_of (m : M) (tok : Tok) (inverse : Bool) (h : MInv m) (c : Ctx) (hc : m.ctx = some c)
    (hpre : (inverse = false ∧ ((assoc? tok c.flags).isSome = true ∨
                (m.initial.bind (fun ic => assoc? tok ic.flags)).isSome = true)) ∨
            (inverse = true ∧ (assoc? tok c.inverse).isSome = true))
    (h0 : checkAmbiguity m tok = .ok ()) (m1 : M) (hcf : completeFlag m = .ok m1) :
    ∃ m', switchToFlag m tok inverse = .ok m' := by
  unfold M.switchToFlag
  simp only [h0, bind, Except.bind, hcf]
  rcases completeFlag_res m h with ⟨m1', h1, h2, h3⟩ | ⟨d, h1⟩
  · rw [hcf] at h1
    have : m1' = m1 := (Except.ok.inj h1).symm
    subst this
    obtain ⟨c1, hc1, hn, hfl, hinv, hpos⟩ := tables_of_map h3.ctx c hc
    simp only [hc1, pure, Except.pure]
    have hbind : (m1'.initial.bind fun ic => assoc? tok ic.flags) = (m.initial.bind fun ic => assoc? tok ic.flags) :=
      bind_flags_of_tables h3.ini tok
    cases inverse with
    | true =>
      have hp : (assoc? tok c.inverse).isSome = true := by
        rcases hpre with ⟨hh, _⟩ | ⟨_, hh⟩
        · cases hh
        · exact hh
      rw [← hinv] at hp
      cases ht : assoc? tok c1.inverse with
      | none => simp [ht] at hp
      | some t =>
        simp only [if_true]
        have hfs := invOk_target c1 (h2.ctx_ok c1 hc1) tok t ht
        cases hi : assoc? t c1.flags with
        | none => simp [hi] at hfs
        | some i =>
          simp only []
          exact switchTail_ok { m1' with flag := some (Where.cur, i), flagGotValue := false } (h2.congr rfl rfl rfl rfl) true
    | false =>
      simp only [Bool.false_eq_true, if_false]
      cases hi : assoc? tok c1.flags with
      | some i =>
        simp only []
        exact switchTail_ok { m1' with flag := some (Where.cur, i), flagGotValue := false } (h2.congr rfl rfl rfl rfl) false
      | none =>
        simp only []
        have hp : (m.initial.bind fun ic => assoc? tok ic.flags).isSome = true := by
          rcases hpre with ⟨_, hh | hh⟩ | ⟨hh, _⟩
          · rw [← hfl, hi] at hh; cases hh
          · exact hh
          · cases hh
        rw [hbind]
        cases hj : (m.initial.bind fun ic => assoc? tok ic.flags) with
        | none => simp [hj] at hp
        | some j =>
          simp only []
          exact switchTail_ok { m1' with flag := some (Where.initial, j), flagGotValue := false } (h2.congr rfl rfl rfl rfl) false
  · rw [hcf] at h1; cases h1

theorem switchToFlag_error (m : M) (tok : Tok) (inv : Bool) (k : String) (d : Tok) (hm : MInv m) (c : Ctx) (hc : m.ctx = some c)
    (hpre : (inv = false ∧ ((assoc? tok c.flags).isSome = true ∨
                (m.initial.bind (fun ic => assoc? tok ic.flags)).isSome = true)) ∨
            (inv = true ∧ (assoc? tok c.inverse).isSome = true))
    (h : switchToFlag m tok inv = .error (.parse k d)) :
    (k = "ambiguous" ∧ d = tok ∧ SitAmbig m tok) ∨ (k = "needed-value" ∧ SitNeeded m d) := by
  cases h0 : checkAmbiguity m tok with
  | error e =>
    have he : switchToFlag m tok inv = .error e := by unfold M.switchToFlag; simp [h0, bind, Except.bind]
    rw [he] at h
    have : e = .parse k d := Except.error.inj h
    subst this
    obtain ⟨he', hs⟩ := checkAmbiguity_error m tok _ h0
    simp only [Err.parse.injEq] at he'
    exact Or.inl ⟨he'.1, he'.2, hs⟩
  | ok u =>
    cases h1 : completeFlag m with
    | error e =>
      have he : switchToFlag m tok inv = .error e := by unfold M.switchToFlag; simp [h0, h1, bind, Except.bind]
      rw [he] at h
      have : e = .parse k d := Except.error.inj h
      subst this
      exact Or.inr (completeFlag_error m k d h1)
    | ok m1 =>
      obtain ⟨m', hok⟩ := switchToFlag_ok_of m tok inv hm c hc hpre h0 m1 h1
      rw [hok] at h; cases h

theorem seeValue_error (m : M) (v : Tok) (k : String) (d : Tok) (hm : MInv m) (hw : m.waiting = true)
    (h : seeValue m v = .error (.parse k d)) :
    (k = "ambiguous" ∧ d = v ∧ SitAmbig m v) ∨ (k = "invalid-value" ∧ d = v ∧ SitInvalid m v) := by
  obtain ⟨a, hfa, ht⟩ := waiting_spec m hw
  unfold M.seeValue at h
  cases h0 : checkAmbiguity m v with
  | error e =>
    simp only [h0, bind, Except.bind] at h
    have : e = .parse k d := Except.error.inj h
    subst this
    obtain ⟨he', hs⟩ := checkAmbiguity_error m v _ h0
    simp only [Err.parse.injEq] at he'
    exact Or.inl ⟨he'.1, he'.2, hs⟩
  | ok u =>
    simp only [h0, bind, Except.bind, hfa, ht, if_true] at h
    rcases Arg.setValue_str a v (hm.flagArg_ok a hfa) with ⟨a', h1, _, _⟩ | ⟨h1, hk, hi⟩
    · simp [h1] at h
    · simp only [h1] at h
      have := Except.error.inj h
      simp only [Err.parse.injEq] at this
      have hv := (Arg.setValue_valueError a v _ h1).2.2
      exact Or.inr ⟨this.1.symm, this.2.symm, a, hk, hi, hv, Or.inl ⟨hw, hfa⟩⟩

theorem seePositional_error (m : M) (v : Tok) (k : String) (d : Tok) (hm : MInv m)
    (h : seePositional m v = .error (.parse k d)) : k = "invalid-value" ∧ d = v ∧ SitInvalid m v := by
  unfold M.seePositional at h
  cases hc : m.ctx with
  | none => simp [hc] at h
  | some c =>
    simp only [hc] at h
    cases hi : c.firstMissing with
    | none => simp [hi] at h
    | some i =>
      simp only [hi] at h
      cases ha : c.args[i]? with
      | none => simp [ha] at h
      | some a =>
        simp only [ha] at h
        rcases Arg.setValue_str a v (hm.ctx_arg_ok c hc i a ha) with ⟨a', h1, _, _⟩ | ⟨h1, hk, hinc⟩
        · simp [h1] at h
        · simp only [h1] at h
          have := Except.error.inj h
          simp only [Err.parse.injEq] at this
          have hv := (Arg.setValue_valueError a v _ h1).2.2
          exact ⟨this.1.symm, this.2.symm, a, hk, hinc, hv, Or.inr ⟨c, i, hc, hi, ha⟩⟩

theorem seeUnknown_error (m : M) (t : Tok) (k : String) (d : Tok) (h : seeUnknown m t = .error (.parse k d)) :
    (k = "needed-value" ∧ SitNeeded m d) ∨ (k = "missing-positional" ∧ SitMissing m d) := by
  unfold M.seeUnknown at h
  cases h1 : enter m with
  | error e =>
    simp only [h1, bind, Except.bind] at h
    have : e = .parse k d := Except.error.inj h
    subst this
    exact enter_error m k d h1
  | ok m1 => simp [h1, bind, Except.bind] at h

theorem switchToContext_error (m : M) (t : Tok) (k : String) (d : Tok) (h : switchToContext m t = .error (.parse k d)) :
    (k = "needed-value" ∧ SitNeeded m d) ∨ (k = "missing-positional" ∧ SitMissing m d) := by
  unfold M.switchToContext at h
  cases h1 : enter m with
  | error e =>
    simp only [h1, bind, Except.bind] at h
    have : e = .parse k d := Except.error.inj h
    subst this
    exact enter_error m k d h1
  | ok m1 =>
    simp only [h1, bind, Except.bind] at h
    split at h <;> cases h

/-- why a single step of the machine can fail: exactly one of the documented situations holds at that moment -/
def StepSituation (m : M) (tok : Tok) (k : String) (d : Tok) : Prop :=
  (k = "no-idea" ∧ d = tok ∧ SitNoIdea m tok) ∨ (k = "needed-value" ∧ SitNeeded m d) ∨
  (k = "missing-positional" ∧ SitMissing m d) ∨ (k = "ambiguous" ∧ d = tok ∧ SitAmbig m tok) ∨
  (k = "invalid-value" ∧ d = tok ∧ SitInvalid m tok)

theorem StepSituation.of_enter {m : M} {tok : Tok} {k : String} {d : Tok}
    (h : (k = "needed-value" ∧ SitNeeded m d) ∨ (k = "missing-positional" ∧ SitMissing m d)) : StepSituation m tok k d := by
  rcases h with h | h
  · exact Or.inr (Or.inl h)
  · exact Or.inr (Or.inr (Or.inl h))

theorem StepSituation.of_flag {m : M} {tok : Tok} {k : String} {d : Tok}
    (h : (k = "ambiguous" ∧ d = tok ∧ SitAmbig m tok) ∨ (k = "needed-value" ∧ SitNeeded m d)) : StepSituation m tok k d := by
  rcases h with h | h
  · exact Or.inr (Or.inr (Or.inr (Or.inl h)))
  · exact Or.inr (Or.inl h)

/-- CONVERSE, one step: if `handle` fails with a `ParseError` of kind `k`, the situation of kind `k` holds -/
theorem handle_error (m : M) (tok : Tok) (k : String) (d : Tok) (hm : MInv m)
    (h : handle m tok = .error (.parse k d)) : StepSituation m tok k d := by
  unfold M.handle at h
  by_cases hu : m.st = .unknown
  · rw [if_pos hu] at h; exact .of_enter (seeUnknown_error m tok k d h)
  · rw [if_neg hu] at h
    simp only [] at h
    cases hc : m.ctx with
    | none =>
      obtain ⟨hi, hci⟩ := hm.ctx_none hc
      have hw := waiting_of_none m hc hi
      simp only [hc, hi, hw, Bool.false_eq_true, if_false, Bool.false_and] at h
      split at h
      · exact .of_enter (switchToContext_error m tok k d h)
      · next hl =>
        split at h
        · next hign =>
          have := Except.error.inj h
          simp only [Err.parse.injEq] at this
          refine Or.inl ⟨this.1.symm, this.2.symm, hu, by simpa using hign, hw, by simpa using hl, ?_, ?_⟩
          · intro c hc'; rw [hc] at hc'; cases hc'
          · intro ic hi'; rw [hi] at hi'; cases hi'
        · exact .of_enter (seeUnknown_error m tok k d h)
    | some c =>
      simp only [hc] at h
      split at h
      · next h1 => exact .of_flag (switchToFlag_error m tok false k d hm c hc (Or.inl ⟨rfl, Or.inl h1⟩) h)
      · next h1 =>
        split at h
        · next h2 => exact .of_flag (switchToFlag_error m tok true k d hm c hc (Or.inr ⟨rfl, h2⟩) h)
        · next h2 =>
          split at h
          · next hw =>
            rcases seeValue_error m tok k d hm (by simp only [Bool.and_eq_true] at hw; exact hw.1) h with h' | h'
            · exact Or.inr (Or.inr (Or.inr (Or.inl h')))
            · exact Or.inr (Or.inr (Or.inr (Or.inr h')))
          · next hw =>
            cases hi : m.initial with
            | none =>
              simp only [hi, Bool.false_eq_true, if_false, Bool.and_false, Bool.not_false, Bool.and_true] at h
              split at h
              · exact Or.inr (Or.inr (Or.inr (Or.inr (seePositional_error m tok k d hm h))))
              · next hp =>
                split at h
                · exact .of_enter (switchToContext_error m tok k d h)
                · next hl =>
                  split at h
                  · next hign =>
                    have := Except.error.inj h
                    simp only [Err.parse.injEq] at this
                    have hwf : m.waiting = false := by
                      have hcf : m.coreFlagInTask tok = false := by simp [M.coreFlagInTask, hi]
                      simpa [hcf] using hw
                    refine Or.inl ⟨this.1.symm, this.2.symm, hu, by simpa using hign, hwf, by simpa using hl, ?_, ?_⟩
                    · intro c' hc'; rw [hc] at hc'; cases hc'
                      exact ⟨by simpa using h1, by simpa using h2, by simpa using hp⟩
                    · intro ic hi'; rw [hi] at hi'; cases hi'
                  · exact .of_enter (seeUnknown_error m tok k d h)
            | some ic =>
              simp only [hi] at h
              split at h
              · exact Or.inr (Or.inr (Or.inr (Or.inr (seePositional_error m tok k d hm h))))
              · next hp =>
                split at h
                · exact .of_enter (switchToContext_error m tok k d h)
                · next hl =>
                  split at h
                  · next hcore =>
                    have hci : m.curIsInitial = false := by
                      cases hb : m.curIsInitial with
                      | false => rfl
                      | true =>
                        exfalso; apply h1
                        have : c = ic := by simpa [M.ctx, hb, hi] using hc.symm
                        rw [this]; exact hcore
                    obtain ⟨c', nm, hc', hnm⟩ := hm.cur_named hci
                    have hcc : c' = c := by rw [hc] at hc'; cases hc'; rfl
                    subst hcc
                    simp only [Option.bind_some] at h
                    cases hidx : assoc? tok ic.flags with
                    | none => simp [hidx] at hcore
                    | some i =>
                      simp only [hidx, Option.bind_some] at h
                      cases ha : ic.args[i]? with
                      | none => simp [ha] at h
                      | some a =>
                        simp only [ha] at h
                        split at h
                        · next hh =>
                          simp only [hnm] at h
                          have hokI : a.okI = true := all_of_getElem? Arg.okI ic.args i a (Ctx.okI_args ic (hm.ini ic hi)) ha
                          have hhelp : a.isHelp = true := by unfold Arg.isHelp; exact decide_eq_true hh
                          obtain ⟨a', e1, _, _⟩ := Arg.setValue_str_help a nm hokI hhelp
                          simp [e1, bind, Except.bind] at h
                        · exact .of_flag (switchToFlag_error m tok false k d hm c' hc (Or.inl ⟨rfl, Or.inr (by simp [hi, hidx])⟩) h)
                  · next hcore =>
                    split at h
                    · next hign =>
                      have := Except.error.inj h
                      simp only [Err.parse.injEq] at this
                      have hwf : m.waiting = false := by
                        have hcf0 : (assoc? tok ic.flags).isSome = false := by simpa using hcore
                        have hcf : m.coreFlagInTask tok = false := by simp [M.coreFlagInTask, hi, hcf0]
                        simpa [hcf] using hw
                      refine Or.inl ⟨this.1.symm, this.2.symm, hu, by simpa using hign, hwf, by simpa using hl, ?_, ?_⟩
                      · intro c' hc'; rw [hc] at hc'; cases hc'
                        refine ⟨by simpa using h1, by simpa using h2, ?_⟩
                        have hcf : (assoc? tok ic.flags).isSome = false := by simpa using hcore
                        simpa [hcf] using hp
                      · intro ic' hi'; rw [hi] at hi'; cases hi'
                        simpa using hcore
                    · exact .of_enter (seeUnknown_error m tok k d h)

/-! ### from the failing parse back to the machine state in which the situation holds -/

/-- machine states the parse loop goes through: the start machine, its state-entry, and every `handle` step -/
inductive Reach (m0 : M) : M → Prop
  | start : Reach m0 m0
  | entered {m m' : M} : Reach m0 m → M.enter m = .ok m' → Reach m0 m'
  | step {m m' : M} (tok : Tok) : Reach m0 m → M.handle m tok = .ok m' → Reach m0 m'

/-- what we track along the loop: a reachable machine satisfying the invariant, or the failing step with its situation -/
def Track (m0 : M) : Except Err M → Prop
  | .ok m' => Reach m0 m' ∧ MInv m'
  | .error (.parse k d) => ∃ mm tok, Reach m0 mm ∧ MInv mm ∧ M.handle mm tok = .error (.parse k d) ∧ StepSituation mm tok k d
  | .error _ => True

theorem track_handle (m0 m : M) (tok : Tok) (hr : Reach m0 m) (hm : MInv m) : Track m0 (M.handle m tok) := by
  cases h : M.handle m tok with
  | ok m' =>
    rcases handle_res m tok hm with ⟨m'', h1, h2⟩ | ⟨k, d, h1, _⟩
    · rw [h] at h1; cases h1; exact ⟨Reach.step tok hr h, h2⟩
    · rw [h] at h1; cases h1
  | error e =>
    cases e with
    | parse k d => exact ⟨m, tok, hr, hm, h, handle_error m tok k d hm h⟩
    | other c s => trivial
    | fuel => trivial

theorem track_fold (m0 : M) (f : M → Tok → Except Err M)
    (hf : ∀ m t, Reach m0 m → MInv m → Track m0 (f m t)) :
    ∀ (ts : List Tok) (m : M), Reach m0 m → MInv m → Track m0 (ts.foldlM f m)
  | [], m, hr, hm => ⟨hr, hm⟩
  | t :: ts, m, hr, hm => by
    rw [List.foldlM_cons]
    have h1 := hf m t hr hm
    cases hft : f m t with
    | ok m1 =>
      rw [hft] at h1
      exact track_fold m0 f hf ts m1 h1.1 h1.2
    | error e =>
      rw [hft] at h1
      exact h1

theorem track_procTok (m0 : M) : ∀ (n : Nat) (m : M) (t : Tok), Reach m0 m → MInv m → Track m0 (procTok n m t) := by
  intro n
  induction n with
  | zero => intro m t _ _; simp [procTok, Track]
  | succ n ih =>
    intro m t hr hm
    unfold procTok
    cases hp : presplit m t with
    | error e => obtain ⟨p, hp'⟩ := presplit_total m t; rw [hp] at hp'; cases hp'
    | ok p =>
      simp only []
      have h1 := track_handle m0 m (rollback m t p).1 hr hm
      cases hh : M.handle m (rollback m t p).1 with
      | ok m1 =>
        rw [hh] at h1
        simp only []
        exact track_fold m0 (procTok n) (fun m t hr hm => ih m t hr hm) _ m1 h1.1 h1.2
      | error e =>
        rw [hh] at h1
        exact h1

/-- … plus the machine at the end of the command line (`finish`) -/
def ReachEnd (m0 m : M) : Prop := Reach m0 m ∨ ∃ m', Reach m0 m' ∧ m = { m' with st := .end }

/-- CONVERSE, whole parse: a `ParseError` of kind `k` comes from a reachable machine state in which the situation of kind
    `k` holds — at a token (`handle`) or at a state entry (start / end of the command line) -/
theorem parse_error_situation (initial : Option Ctx) (registry : List Ctx) (ign : Bool) (argv : List Tok) (k : String) (d : Tok)
    (hP : specWF initial registry = true) (h : parseArgv initial registry ign argv = .error (.parse k d)) :
    (∃ m tok, Reach { initial := initial, cur := none, registry := registry, ignoreUnknown := ign } m ∧
        M.handle m tok = .error (.parse k d) ∧ StepSituation m tok k d) ∨
    (∃ m, ReachEnd { initial := initial, cur := none, registry := registry, ignoreUnknown := ign } m ∧
        M.enter m = .error (.parse k d) ∧
        ((k = "needed-value" ∧ SitNeeded m d) ∨ (k = "missing-positional" ∧ SitMissing m d))) := by
  have h0 := MInv.init initial registry ign hP
  generalize hm0 : ({ initial := initial, cur := none, registry := registry, ignoreUnknown := ign } : M) = m0 at h0 ⊢
  unfold parseArgv at h
  rw [hm0] at h
  cases he : M.enter m0 with
  | error e =>
    simp only [he, bind, Except.bind] at h
    have : e = .parse k d := Except.error.inj h
    subst this
    exact Or.inr ⟨m0, Or.inl Reach.start, he, enter_error m0 k d he⟩
  | ok m1 =>
    simp only [he, bind, Except.bind] at h
    have hm1 : MInv m1 := by
      rcases enter_Res m0 h0 with ⟨m', e1, hm'⟩ | ⟨_, _, e1, _⟩
      · rw [he] at e1; cases e1; exact hm'
      · rw [he] at e1; cases e1
    have hr1 : Reach m0 m1 := Reach.entered Reach.start he
    have htr := track_fold m0 (fun m t => procTok (t.length + 2) m t) (fun m t hr hm => track_procTok m0 _ m t hr hm)
      (List.takeWhile (fun x => decide (x ≠ ['-', '-'])) argv) m1 hr1 hm1
    split at h
    · next e hfold =>
      have : e = .parse k d := Except.error.inj h
      subst this
      rw [hfold] at htr
      obtain ⟨mm, tok, hr, _, hh, hs⟩ := htr
      exact Or.inl ⟨mm, tok, hr, hh, hs⟩
    · next m2 hfold =>
      rw [hfold] at htr
      split at h
      · next e hfin =>
        have : e = .parse k d := Except.error.inj h
        subst this
        exact Or.inr ⟨{ m2 with st := .end }, Or.inr ⟨m2, htr.1, rfl⟩, hfin, enter_error _ k d hfin⟩
      · cases h
end Inv
