import Invoke.Lemmas.ParserChain
/-! C18: THE ERASURE LEMMA.  Once the machine's current flag is settled (it has its value, the machine is not
    waiting) it plays no role in what the parser does with any further token: two machines that differ only in
    such an inert (flag, flag_got_value) pair stay in lockstep (`procTok_rel`, `runToks_rel`).  This is what lets the
    C01 item/chain lemmas — stated for `Ready` machines whose flag is a task flag — be reused right after a CORE
    flag has been handled inside a task context (there the flag points into the core context). -/
namespace Inv
open M

/-! ### a settled current flag is inert -/

/-- the argument the machine's flag points at needs nothing any more: it has a raw value and a value, and — if it
    is a list-type flag — it got a value since it was switched to (`g` = `flag_got_value`) -/
def Arg.good (g : Bool) (a : Arg) : Prop :=
  a.raw.isSome = true ∧ a.val ≠ .none ∧ (a.takesValue = true → a.spec.kind = .list → g = true)

/-- the current flag (if any) is settled: the machine is not waiting, `complete_flag` and `check_ambiguity` are no-ops -/
def Inert (m : M) : Prop := ∀ a, m.flagArg = some a → a.good m.flagGotValue

theorem Inert.nw {m : M} (h : Inert m) : m.waiting = false := by
  unfold M.waiting
  cases hf : m.flagArg with
  | none => rfl
  | some a =>
    obtain ⟨h1, _, h3⟩ := h a hf
    simp only []
    by_cases htv : a.takesValue = true
    · by_cases hl : a.spec.kind = .list
      · have := h3 htv hl
        simp [htv, hl, this, h1]
      · simp [htv, hl, h1]
    · simp [htv]

theorem Inert.completeFlag {m : M} (h : Inert m) : m.completeFlag = .ok m :=
  completeFlag_settled m (fun a ha => (h a ha).1) h.nw

theorem Inert.checkAmbiguity {m : M} (h : Inert m) (t : Tok) : m.checkAmbiguity t = .ok () := by
  unfold M.checkAmbiguity
  cases hf : m.flagArg with
  | none => rfl
  | some a =>
    have hs := (h a hf).1
    by_cases ho : a.spec.optional <;> simp [ho, hs]

theorem Arg.good_of_spec {g : Bool} {a a' : Arg} (h : a.good g) (hs : a'.spec = a.spec) (hr : a'.raw.isSome = true)
    (hv : a'.val ≠ .none) : a'.good g := by
  refine ⟨hr, hv, ?_⟩
  intro htv hl
  have htv' : a.takesValue = true := by simpa [Arg.takesValue, hs] using htv
  exact h.2.2 htv' (by rw [← hs]; exact hl)

/-- whatever `set_value` stores is a settled value of the same argument -/
theorem Arg.setValue_settled (a a' : Arg) (v : PVal) (c : Bool) (hv : v ≠ .none) (h : a.setValue v c = .ok a') :
    a'.spec = a.spec ∧ a'.raw.isSome = true ∧ a'.val ≠ .none := by
  unfold Arg.setValue at h
  repeat' split at h
  all_goals first
    | (cases h; done)
    | (cases h; exact ⟨rfl, rfl, hv⟩)
    | (cases h; refine ⟨rfl, rfl, ?_⟩; simp)

/-- the same machine with another (flag, flag_got_value) pair -/
def M.reflag (m : M) (f : Option (Where × Nat)) (g : Bool) : M := { m with flag := f, flagGotValue := g }

/-- `n` is `m` up to an inert current flag -/
def Rel (m n : M) : Prop := n = m ∨ (∃ f g, n = m.reflag f g ∧ Inert m ∧ Inert n)

def RelR (r s : Except Err M) : Prop :=
  (∃ e, r = .error e ∧ s = .error e) ∨ (∃ m n, r = .ok m ∧ s = .ok n ∧ Rel m n)

theorem Rel.refl (m : M) : Rel m m := Or.inl rfl
theorem RelR.refl (r : Except Err M) : RelR r r := by
  cases r with
  | error e => exact Or.inl ⟨e, rfl, rfl⟩
  | ok m => exact Or.inr ⟨m, m, rfl, rfl, Rel.refl m⟩

/-! ### where the flag's argument can move -/

theorem setCtx_flag (m : M) (c : Ctx) : (m.setCtx c).flag = m.flag ∧ (m.setCtx c).flagGotValue = m.flagGotValue := by
  unfold M.setCtx; split <;> exact ⟨rfl, rfl⟩

theorem setCtx_ctx (m : M) (c : Ctx) : (m.setCtx c).ctx = some c := by
  unfold M.setCtx M.ctx
  cases h : m.curIsInitial <;> simp [h]

theorem setCtx_initial (m : M) (c : Ctx) : (m.setCtx c).initial = if m.curIsInitial then some c else m.initial := by
  unfold M.setCtx
  cases h : m.curIsInitial <;> simp [h]

theorem getElem?_set_cases {α} (l : List α) (j i : Nat) (a a' b : α) (haj : l[j]? = some a) (hb : (l.set j a')[i]? = some b) :
    l[i]? = some b ∨ (i = j ∧ b = a') := by
  by_cases hij : i = j
  · subst hij
    have hlt : i < l.length := (List.getElem?_eq_some_iff.mp haj).1
    rw [List.getElem?_set_self hlt] at hb
    exact Or.inr ⟨rfl, (Option.some.inj hb).symm⟩
  · rw [List.getElem?_set_ne (Ne.symm hij)] at hb
    exact Or.inl hb

theorem flagArg_setCtx (m : M) (c : Ctx) (j : Nat) (a a' b : Arg) (hc : m.ctx = some c) (haj : c.args[j]? = some a)
    (hb : (m.setCtx { c with args := c.args.set j a' }).flagArg = some b) :
    m.flagArg = some b ∨ (b = a' ∧ m.flagArg = some a) := by
  unfold M.flagArg at hb ⊢
  rw [(setCtx_flag m _).1] at hb
  cases hf : m.flag with
  | none => simp [hf] at hb
  | some p =>
    obtain ⟨w, i⟩ := p
    cases w with
    | cur =>
      simp only [hf, setCtx_ctx, Option.bind_some] at hb
      simp only [hc, Option.bind_some]
      rcases getElem?_set_cases c.args j i a a' b haj hb with h | ⟨rfl, rfl⟩
      · exact Or.inl h
      · exact Or.inr ⟨rfl, haj⟩
    | initial =>
      simp only [hf, setCtx_initial] at hb
      cases hci : m.curIsInitial with
      | false => simp only [hci, Bool.false_eq_true, if_false] at hb; exact Or.inl hb
      | true =>
        simp only [hci, if_true, Option.bind_some] at hb
        have hi : m.initial = some c := by simpa [M.ctx, hci] using hc
        simp only [hi, Option.bind_some]
        rcases getElem?_set_cases c.args j i a a' b haj hb with h | ⟨rfl, rfl⟩
        · exact Or.inl h
        · exact Or.inr ⟨rfl, haj⟩

theorem flagArg_setInitial' (m m' : M) (ic : Ctx) (i : Nat) (a a' b : Arg) (hi : m.initial = some ic) (hai : ic.args[i]? = some a)
    (e1 : m'.initial = some { ic with args := ic.args.set i a' }) (e2 : m'.cur = m.cur) (e3 : m'.curIsInitial = m.curIsInitial)
    (e4 : m'.flag = m.flag)
    (hb : m'.flagArg = some b) :
    m.flagArg = some b ∨ (b = a' ∧ m.flagArg = some a) := by
  unfold M.flagArg at hb ⊢
  rw [e4] at hb
  cases hf : m.flag with
  | none => simp [hf] at hb
  | some p =>
    obtain ⟨w, k⟩ := p
    cases w with
    | initial =>
      simp only [hf, e1, Option.bind_some] at hb
      simp only [hi, Option.bind_some]
      rcases getElem?_set_cases ic.args i k a a' b hai hb with h | ⟨rfl, rfl⟩
      · exact Or.inl h
      · exact Or.inr ⟨rfl, hai⟩
    | cur =>
      simp only [hf] at hb
      cases hci : m.curIsInitial with
      | false =>
        have : m'.ctx = m.ctx := by simp [M.ctx, e3, hci, e2]
        rw [this] at hb; exact Or.inl hb
      | true =>
        have h1 : m'.ctx = some { ic with args := ic.args.set i a' } := by simp [M.ctx, e3, hci, e1]
        have h2 : m.ctx = some ic := by simp [M.ctx, hci, hi]
        rw [h1] at hb
        simp only [Option.bind_some] at hb
        simp only [h2, Option.bind_some]
        rcases getElem?_set_cases ic.args i k a a' b hai hb with h | ⟨rfl, rfl⟩
        · exact Or.inl h
        · exact Or.inr ⟨rfl, hai⟩

theorem Inert.of_cases {m m' : M} (h : Inert m) (hg : m'.flagGotValue = m.flagGotValue) (a a' : Arg)
    (hcases : ∀ b, m'.flagArg = some b → m.flagArg = some b ∨ (b = a' ∧ m.flagArg = some a))
    (hs : a'.spec = a.spec) (hr : a'.raw.isSome = true) (hv : a'.val ≠ .none) : Inert m' := by
  intro b hb
  rw [hg]
  rcases hcases b hb with h1 | ⟨rfl, h1⟩
  · exact h b h1
  · exact Arg.good_of_spec (h a h1) hs hr hv

/-! ### every branch of `handle` respects the relation -/

theorem Inert.reflag_of {m : M} {f g} (hn : Inert (m.reflag f g)) : Inert (m.reflag f g) := hn

theorem enter_inert {m : M} (h : Inert m) : M.enter m = M.completeContext m := by
  unfold M.enter; rw [h.completeFlag]; rfl

theorem seeUnknown_rel (m : M) (f g) (t : Tok) (hm : Inert m) (hn : Inert (m.reflag f g)) :
    RelR (seeUnknown m t) (seeUnknown (m.reflag f g) t) := by
  unfold M.seeUnknown
  rw [enter_inert hm, enter_inert hn]
  unfold M.completeContext
  have hc : (m.reflag f g).ctx = m.ctx := rfl
  rw [hc]
  cases m.ctx with
  | none =>
    refine Or.inr ⟨_, _, rfl, rfl, Or.inr ⟨f, g, rfl, ?_, ?_⟩⟩
    · exact fun a ha => hm a ha
    · exact fun a ha => hn a ha
  | some c =>
    simp only []
    split
    · exact Or.inl ⟨_, rfl, rfl⟩
    · refine Or.inr ⟨_, _, rfl, rfl, Or.inr ⟨f, g, rfl, ?_, ?_⟩⟩
      · exact fun a ha => hm a ha
      · exact fun a ha => hn a ha

theorem switchToFlag_reflag (m : M) (f g) (t : Tok) (inv : Bool) (hm : Inert m) (hn : Inert (m.reflag f g)) :
    switchToFlag (m.reflag f g) t inv = switchToFlag m t inv := by
  unfold M.switchToFlag
  rw [hm.checkAmbiguity, hn.checkAmbiguity, hm.completeFlag, hn.completeFlag]
  rfl

theorem seePositional_rel (m : M) (f g) (t : Tok) (hm : Inert m) (hn : Inert (m.reflag f g)) :
    RelR (seePositional m t) (seePositional (m.reflag f g) t) := by
  unfold M.seePositional
  have hc : (m.reflag f g).ctx = m.ctx := rfl
  rw [hc]
  cases hctx : m.ctx with
  | none => exact Or.inr ⟨_, _, rfl, rfl, Or.inr ⟨f, g, rfl, hm, hn⟩⟩
  | some c =>
    simp only []
    cases hfm : c.firstMissing with
    | none => exact Or.inr ⟨_, _, rfl, rfl, Or.inr ⟨f, g, rfl, hm, hn⟩⟩
    | some j =>
      simp only []
      cases haj : c.args[j]? with
      | none => exact Or.inr ⟨_, _, rfl, rfl, Or.inr ⟨f, g, rfl, hm, hn⟩⟩
      | some a =>
        simp only []
        cases hs : a.setValue (.s t) with
        | error e =>
          split <;> first | exact Or.inl ⟨_, rfl, rfl⟩ | simp_all
        | ok a' =>
          simp only []
          obtain ⟨s1, s2, s3⟩ := Arg.setValue_settled a a' (.s t) true (by simp) hs
          have e : (m.reflag f g).setCtx { c with args := c.args.set j a' } =
              (m.setCtx { c with args := c.args.set j a' }).reflag f g := by
            unfold M.setCtx M.reflag
            cases m.curIsInitial <;> rfl
          refine Or.inr ⟨_, _, rfl, rfl, Or.inr ⟨f, g, e, ?_, ?_⟩⟩
          · exact hm.of_cases (setCtx_flag m _).2 a a' (fun b hb => flagArg_setCtx m c j a a' b hctx haj hb) s1 s2 s3
          · exact hn.of_cases (setCtx_flag _ _).2 a a' (fun b hb => flagArg_setCtx (m.reflag f g) c j a a' b hctx haj hb) s1 s2 s3

theorem inert_switch (m m' : M) (h : Inert m) (e1 : m'.initial = m.initial) (e3 : m'.flagGotValue = m.flagGotValue)
    (hflag : m'.flag = none ∨ (∃ i, m.flag = some (.initial, i) ∧ m'.flag = some (.initial, i)) ∨
      (∃ i, m.flag = some (.cur, i) ∧ m.curIsInitial = true ∧ m'.flag = some (.initial, i))) : Inert m' := by
  intro b hb
  rw [e3]
  apply h
  unfold M.flagArg at hb ⊢
  rcases hflag with h0 | ⟨i, h1, h2⟩ | ⟨i, h1, h2, h3⟩
  · simp [h0] at hb
  · simp only [h2, e1] at hb; simp only [h1]; exact hb
  · simp only [h3, e1] at hb
    simp only [h1, M.ctx, h2, if_true]; exact hb

theorem switchToContext_rel (m : M) (f g) (t : Tok) (hm : Inert m) (hn : Inert (m.reflag f g)) :
    RelR (switchToContext m t) (switchToContext (m.reflag f g) t) := by
  unfold M.switchToContext
  rw [enter_inert hm, enter_inert hn]
  have hcc : M.completeContext (m.reflag f g) = (M.completeContext m).map (fun x => x.reflag f g) := by
    unfold M.completeContext
    have hc : (m.reflag f g).ctx = m.ctx := rfl
    rw [hc]
    cases m.ctx with
    | none => rfl
    | some c => simp only []; split <;> rfl
  rw [hcc]
  cases hcm : M.completeContext m with
  | error e => exact Or.inl ⟨_, rfl, rfl⟩
  | ok m1 =>
    have hm1 : m1 = m := by
      unfold M.completeContext at hcm
      split at hcm
      · exact (Except.ok.inj hcm).symm
      · split at hcm
        · cases hcm
        · exact (Except.ok.inj hcm).symm
    subst hm1
    simp only [Except.map, bind, Except.bind]
    have hl : (m1.reflag f g).lookupCtx t = m1.lookupCtx t := rfl
    rw [hl]
    cases m1.lookupCtx t with
    | none => exact Or.inl ⟨_, rfl, rfl⟩
    | some c2 =>
      refine Or.inr ⟨_, _, rfl, rfl, Or.inr ⟨_, g, rfl, ?_, ?_⟩⟩
      · refine inert_switch m1 _ hm (by rfl) (by rfl) ?_
        cases hfl : m1.flag with
        | none => exact Or.inl rfl
        | some p =>
          obtain ⟨w, i⟩ := p
          cases w with
          | initial => exact Or.inr (Or.inl ⟨i, rfl, rfl⟩)
          | cur =>
            cases hci : m1.curIsInitial with
            | false => exact Or.inl (by simp)
            | true => exact Or.inr (Or.inr ⟨i, rfl, rfl, by simp⟩)
      · refine inert_switch (m1.reflag f g) _ hn (by rfl) (by rfl) ?_
        cases f with
        | none => exact Or.inl rfl
        | some p =>
          obtain ⟨w, i⟩ := p
          cases w with
          | initial => exact Or.inr (Or.inl ⟨i, rfl, rfl⟩)
          | cur =>
            have hcc : (m1.reflag (some (Where.cur, i)) g).curIsInitial = m1.curIsInitial := rfl
            cases hci : m1.curIsInitial with
            | false => exact Or.inl (by simp [M.reflag, hci])
            | true => exact Or.inr (Or.inr ⟨i, rfl, by rw [hcc, hci], by simp [M.reflag, hci]⟩)

theorem RelR_ite {c : Prop} [Decidable c] {a a' b b' : Except Err M} (h1 : c → RelR a a') (h2 : ¬c → RelR b b') :
    RelR (if c then a else b) (if c then a' else b') := by
  by_cases h : c
  · rw [if_pos h, if_pos h]; exact h1 h
  · rw [if_neg h, if_neg h]; exact h2 h

theorem handle_rel_aux (m : M) (f g) (t : Tok) (hm : Inert m) (hn : Inert (m.reflag f g)) :
    RelR (handle m t) (handle (m.reflag f g) t) := by
  unfold M.handle
  have e1 : (m.reflag f g).st = m.st := rfl
  have e2 : (m.reflag f g).ctx = m.ctx := rfl
  have e3 : (m.reflag f g).initial = m.initial := rfl
  have e4 : (m.reflag f g).curIsInitial = m.curIsInitial := rfl
  have e5 : (m.reflag f g).lookupCtx t = m.lookupCtx t := rfl
  have e6 : (m.reflag f g).ignoreUnknown = m.ignoreUnknown := rfl
  rw [e1, e2, e3, e4, e5, e6, hm.nw, hn.nw]
  have hsame : Rel m (m.reflag f g) := Or.inr ⟨f, g, rfl, hm, hn⟩
  have hsw : ∀ inv, RelR (m.switchToFlag t inv) ((m.reflag f g).switchToFlag t inv) := by
    intro inv; rw [switchToFlag_reflag m f g t inv hm hn]; exact RelR.refl _
  refine RelR_ite (fun _ => seeUnknown_rel m f g t hm hn) (fun _ => ?_)
  simp only []
  cases hi : m.initial with
  | none =>
    cases hc : m.ctx with
    | none =>
      simp only []
      refine RelR_ite (fun h => by simp at h) (fun _ => ?_)
      refine RelR_ite (fun h => by simp at h) (fun _ => ?_)
      refine RelR_ite (fun h => by simp at h) (fun _ => ?_)
      refine RelR_ite (fun h => by simp at h) (fun _ => ?_)
      refine RelR_ite (fun _ => switchToContext_rel m f g t hm hn) (fun _ => ?_)
      refine RelR_ite (fun h => by simp at h) (fun _ => ?_)
      exact RelR_ite (fun _ => Or.inl ⟨_, rfl, rfl⟩) (fun _ => seeUnknown_rel m f g t hm hn)
    | some c =>
      simp only []
      refine RelR_ite (fun _ => hsw false) (fun _ => ?_)
      refine RelR_ite (fun _ => hsw true) (fun _ => ?_)
      refine RelR_ite (fun h => by simp at h) (fun _ => ?_)
      refine RelR_ite (fun _ => seePositional_rel m f g t hm hn) (fun _ => ?_)
      refine RelR_ite (fun _ => switchToContext_rel m f g t hm hn) (fun _ => ?_)
      refine RelR_ite (fun h => by simp at h) (fun _ => ?_)
      exact RelR_ite (fun _ => Or.inl ⟨_, rfl, rfl⟩) (fun _ => seeUnknown_rel m f g t hm hn)
  | some ic =>
    have core : RelR
        (match (some ic : Option Ctx).bind fun ic => (assoc? t ic.flags).bind fun x => ic.args[x]? with
          | some a =>
            if a.spec.names.headD [] = "help".toList then
              match (some ic : Option Ctx), (some ic : Option Ctx).bind fun ic => assoc? t ic.flags with
              | some ic, some i =>
                match m.ctx.bind fun x => x.name with
                | some nm => do
                  let a' ← a.setValue (PVal.s nm)
                  Except.ok { m with initial := some { ic with args := ic.args.set i a' } }
                | none => Except.error (Err.other "TypeError" "help-none")
              | _, _ => Except.ok m
            else m.switchToFlag t
          | none => Except.ok m)
        (match (some ic : Option Ctx).bind fun ic => (assoc? t ic.flags).bind fun x => ic.args[x]? with
          | some a =>
            if a.spec.names.headD [] = "help".toList then
              match (some ic : Option Ctx), (some ic : Option Ctx).bind fun ic => assoc? t ic.flags with
              | some ic, some i =>
                match m.ctx.bind fun x => x.name with
                | some nm => do
                  let a' ← a.setValue (PVal.s nm)
                  Except.ok { (m.reflag f g) with initial := some { ic with args := ic.args.set i a' } }
                | none => Except.error (Err.other "TypeError" "help-none")
              | _, _ => Except.ok (m.reflag f g)
            else (m.reflag f g).switchToFlag t
          | none => Except.ok (m.reflag f g)) := by
      simp only [Option.bind_some]
      cases hidx : assoc? t ic.flags with
      | none => exact Or.inr ⟨_, _, rfl, rfl, hsame⟩
      | some i =>
        simp only [Option.bind_some]
        cases ha : ic.args[i]? with
        | none => exact Or.inr ⟨_, _, rfl, rfl, hsame⟩
        | some a =>
          simp only []
          refine RelR_ite (fun _ => ?_) (fun _ => hsw false)
          cases hnm : (m.ctx.bind fun x => x.name) with
          | none => exact Or.inl ⟨_, rfl, rfl⟩
          | some nm =>
            simp only []
            cases hs : a.setValue (.s nm) with
            | error e => exact Or.inl ⟨_, rfl, rfl⟩
            | ok a' =>
              obtain ⟨s1, s2, s3⟩ := Arg.setValue_settled a a' (.s nm) true (by simp) hs
              simp only [bind, Except.bind]
              refine Or.inr ⟨_, _, rfl, rfl, Or.inr ⟨f, g, rfl, ?_, ?_⟩⟩
              · exact hm.of_cases rfl a a'
                  (fun b hb => flagArg_setInitial' m { m with initial := some { ic with args := ic.args.set i a' } } ic i a a' b hi ha rfl rfl rfl rfl hb) s1 s2 s3
              · exact hn.of_cases rfl a a'
                  (fun b hb => flagArg_setInitial' (m.reflag f g) { (m.reflag f g) with initial := some { ic with args := ic.args.set i a' } } ic i a a' b hi ha rfl rfl rfl rfl hb) s1 s2 s3
    cases hc : m.ctx with
    | none =>
      rw [hc] at core
      simp only []
      refine RelR_ite (fun h => by simp at h) (fun _ => ?_)
      refine RelR_ite (fun h => by simp at h) (fun _ => ?_)
      refine RelR_ite (fun h => by simp at h) (fun _ => ?_)
      refine RelR_ite (fun h => by simp at h) (fun _ => ?_)
      refine RelR_ite (fun _ => switchToContext_rel m f g t hm hn) (fun _ => ?_)
      refine RelR_ite (fun _ => core) (fun _ => ?_)
      exact RelR_ite (fun _ => Or.inl ⟨_, rfl, rfl⟩) (fun _ => seeUnknown_rel m f g t hm hn)
    | some c =>
      rw [hc] at core
      simp only []
      refine RelR_ite (fun _ => hsw false) (fun _ => ?_)
      refine RelR_ite (fun _ => hsw true) (fun _ => ?_)
      refine RelR_ite (fun h => by simp at h) (fun _ => ?_)
      refine RelR_ite (fun _ => seePositional_rel m f g t hm hn) (fun _ => ?_)
      refine RelR_ite (fun _ => switchToContext_rel m f g t hm hn) (fun _ => ?_)
      refine RelR_ite (fun _ => core) (fun _ => ?_)
      exact RelR_ite (fun _ => Or.inl ⟨_, rfl, rfl⟩) (fun _ => seeUnknown_rel m f g t hm hn)

theorem handle_rel (m n : M) (t : Tok) (h : Rel m n) : RelR (handle m t) (handle n t) := by
  rcases h with rfl | ⟨f, g, rfl, hm, hn⟩
  · exact RelR.refl _
  · exact handle_rel_aux m f g t hm hn

theorem foldlM_rel (f : M → Tok → Except Err M) (hf : ∀ a b t, Rel a b → RelR (f a t) (f b t)) :
    ∀ (ts : List Tok) (a b : M), Rel a b → RelR (ts.foldlM f a) (ts.foldlM f b)
  | [], a, b, h => Or.inr ⟨a, b, rfl, rfl, h⟩
  | t :: ts, a, b, h => by
    rw [List.foldlM_cons, List.foldlM_cons]
    rcases hf a b t h with ⟨e, h1, h2⟩ | ⟨a1, b1, h1, h2, h3⟩
    · rw [h1, h2]; exact Or.inl ⟨e, rfl, rfl⟩
    · rw [h1, h2]; exact foldlM_rel f hf ts a1 b1 h3

theorem presplit_reflag (m : M) (f g) (t : Tok) : presplit (m.reflag f g) t = presplit m t := rfl

theorem rollback_inert (m : M) (h : Inert m) (t : Tok) (p : Tok × List Tok) : rollback m t p = p := by
  unfold rollback; rw [h.nw]; rfl

/-- THE ERASURE LEMMA: a settled current flag plays no role in what the parser does with any further token -/
theorem procTok_rel : ∀ (n : Nat) (m m' : M) (t : Tok), Rel m m' → RelR (procTok n m t) (procTok n m' t) := by
  intro n
  induction n with
  | zero => intro m m' t _; exact Or.inl ⟨_, rfl, rfl⟩
  | succ n ih =>
    intro m m' t h
    rcases h with rfl | ⟨f, g, rfl, hm, hn⟩
    · exact RelR.refl _
    · unfold procTok
      rw [presplit_reflag]
      cases hp : presplit m t with
      | error e => exact Or.inl ⟨_, rfl, rfl⟩
      | ok p =>
        simp only []
        rw [rollback_inert m hm, rollback_inert _ hn]
        rcases handle_rel_aux m f g p.1 hm hn with ⟨e, h1, h2⟩ | ⟨a1, b1, h1, h2, h3⟩
        · rw [h1, h2]; exact Or.inl ⟨e, rfl, rfl⟩
        · rw [h1, h2]
          exact foldlM_rel (procTok n) (fun a b t hab => ih a b t hab) p.2 a1 b1 h3

theorem runToks_rel (ts : List Tok) (m m' : M) (h : Rel m m') : RelR (runToks m ts) (runToks m' ts) :=
  foldlM_rel (fun m t => procTok (t.length + 2) m t) (fun a b t hab => procTok_rel _ a b t hab) ts m m' h
end Inv
