import Invoke.Lemmas.ParserTotal
/-! C07: the four documented error situations, as statements about single steps of the machine and about
    `parseArgv` (helper lemmas for `Props/C07.lean`). -/
namespace Inv
open M

/-- the machine after the core `enter` and the loop over the body tokens (everything before `finish`) -/
def runBody (initial : Option Ctx) (registry : List Ctx) (ign : Bool) (body : List Tok) : Except Err M := do
  let m0 ← M.enter { initial := initial, cur := none, registry := registry, ignoreUnknown := ign }
  body.foldlM (fun m t => procTok (t.length + 2) m t) m0

def ddash : Tok := ['-', '-']
def bodyOf (argv : List Tok) : List Tok := argv.takeWhile (· ≠ ['-','-'])

theorem parseArgv_error_of_runBody (initial registry ign argv e)
    (h : runBody initial registry ign (bodyOf argv) = .error e) : parseArgv initial registry ign argv = .error e := by
  unfold runBody at h
  unfold parseArgv
  simp only [bodyOf] at h
  cases h0 : M.enter { initial := initial, cur := none, registry := registry, ignoreUnknown := ign } with
  | error e0 => simp [h0, bind, Except.bind] at h ⊢; exact h
  | ok m0 =>
    simp only [h0, bind, Except.bind] at h ⊢
    rw [h]

theorem parseArgv_finish (initial registry ign argv m e)
    (h : runBody initial registry ign (bodyOf argv) = .ok m) (hf : M.enter { m with st := .end } = .error e) :
    parseArgv initial registry ign argv = .error e := by
  unfold runBody at h
  unfold parseArgv
  simp only [bodyOf] at h
  cases h0 : M.enter { initial := initial, cur := none, registry := registry, ignoreUnknown := ign } with
  | error e0 => simp [h0, bind, Except.bind] at h
  | ok m0 =>
    simp only [h0, bind, Except.bind] at h ⊢
    rw [h]; simp only []; rw [hf]

/-- (b) a value-requiring flag left without a value when the command line ends -/
theorem finish_needed_value (m : M) (a : Arg) (hfa : m.flagArg = some a) (ht : a.takesValue = true) (hr : a.raw = none)
    (ho : a.spec.optional = false) :
    M.enter { m with st := .end } = .error (.parse "needed-value" (a.spec.names.headD [])) := by
  have hfa' : ({ m with st := St.end } : M).flagArg = some a := hfa
  unfold M.enter M.completeFlag
  simp [hfa', ht, hr, ho, bind, Except.bind]

/-- (c) the current task still lacks positional arguments when the command line ends -/
theorem finish_missing_positional (m : M) (c : Ctx) (hfa : m.flagArg = none) (hc : m.ctx = some c)
    (hm : c.missingPositional ≠ []) :
    M.enter { m with st := .end } = .error (.parse "missing-positional" (c.name.getD [])) := by
  have hfa' : ({ m with st := St.end } : M).flagArg = none := hfa
  have hc' : ({ m with st := St.end } : M).ctx = some c := hc
  unfold M.enter M.completeFlag
  simp only [hfa', bind, Except.bind]
  unfold M.completeContext
  simp [hc', hm]

/-- (d) a token after an optional-value flag that could be its value, a task name or a positional
    (a core flag inside a task context is a flag, not a candidate value) -/
theorem handle_ambiguous (m : M) (c : Ctx) (a : Arg) (tok : Tok) (hst : m.st ≠ .unknown) (hc : m.ctx = some c)
    (hf : assoc? tok c.flags = none) (hi : assoc? tok c.inverse = none) (hncf : m.coreFlagInTask tok = false)
    (hfa : m.flagArg = some a) (ht : a.takesValue = true) (ho : a.spec.optional = true) (hr : a.raw = none)
    (hamb : c.missingPositional ≠ [] ∨ (m.lookupCtx tok).isSome = true) :
    M.handle m tok = .error (.parse "ambiguous" tok) := by
  have hw : m.waiting = true := by
    unfold M.waiting; simp [hfa, ht, hr]
  unfold M.handle
  simp only [hst, if_false, hc, hf, hi, Option.isSome_none, Bool.false_eq_true, hw, hncf, Bool.and_false, Bool.not_false,
    Bool.and_self, if_true]
  unfold M.seeValue M.checkAmbiguity
  simp only [hfa, ho, hr, hc]
  rcases hamb with h | h
  · simp [h, bind, Except.bind]
  · simp [h, bind, Except.bind]

/-- (a) the first token is unknown: not flag-like, not a flag/inverse flag of the core context, not a task name -/
theorem unknown_first_token (initial : Option Ctx) (registry : List Ctx) (t : Tok) (rest : List Tok)
    (hnf : isFlag t = false)
    (hi : ∀ ic, initial = some ic → assoc? t ic.flags = none ∧ assoc? t ic.inverse = none ∧ ic.missingPositional = [])
    (hr : registry.find? (fun c => c.name = some t || c.aliases.contains t) = none) :
    parseArgv initial registry false (t :: rest) = .error (.parse "no-idea" t) := by
  apply parseArgv_error_of_runBody
  have hne : t ≠ ddash := by intro h; rw [h] at hnf; simp [ddash, isFlag] at hnf
  have hb : bodyOf (t :: rest) = t :: bodyOf rest := by
    have : t ≠ ['-','-'] := hne
    simp [bodyOf, this]
  rw [hb]
  unfold runBody
  generalize hm : ({ initial := initial, cur := none, registry := registry, ignoreUnknown := false } : M) = m0
  have e1 : m0.initial = initial := by rw [← hm]
  have e2 : m0.flag = none := by rw [← hm]
  have e3 : m0.curIsInitial = true := by rw [← hm]
  have e4 : m0.st = .context := by rw [← hm]
  have e5 : m0.ignoreUnknown = false := by rw [← hm]
  have e6 : m0.unparsed = [] := by rw [← hm]
  have hl : m0.lookupCtx t = none := by rw [← hm]; exact hr
  have hfa : m0.flagArg = none := by unfold M.flagArg; rw [e2]
  have hw : m0.waiting = false := by unfold M.waiting; rw [hfa]
  have hctx : m0.ctx = initial := by unfold M.ctx; rw [e3, e1]; rfl
  have hm0 : M.enter m0 = .ok m0 := by
    unfold M.enter M.completeFlag M.completeContext
    rw [hfa]
    simp only [bind, Except.bind, hctx]
    cases hini : initial with
    | none => rfl
    | some ic => simp [(hi ic hini).2.2]
  have hh : M.handle m0 t = .error (.parse "no-idea" t) := by
    unfold M.handle
    rw [hctx, e1]
    cases hini : initial with
    | none => simp [e4, hw, hl, e5]
    | some ic =>
      obtain ⟨h1, h2, h3⟩ := hi ic hini
      simp [e4, hw, hl, e5, h1, h2, h3]
  have hp : procTok (t.length + 2) m0 t = .error (.parse "no-idea" t) := by
    unfold procTok
    simp only [presplit, hnf, Bool.false_and, Bool.false_eq_true, if_false, rollback, hw, hh]
  simp only [hm0, bind, Except.bind, List.foldlM_cons, hp]
end Inv
