import Invoke.Lemmas.ParserTotal
/-! C07: contexts built by `ParserContext.add_arg` (`Ctx.addArg` / `Ctx.ofSpecs`) from well-formed argument
    specifications satisfy the context part of `specWF`. -/
namespace Inv

theorem assoc?_isSome_of_mem {β} (k : Tok) (v : β) : ∀ (l : List (Tok × β)), (k, v) ∈ l → (assoc? k l).isSome = true
  | [], h => by cases h
  | (k', v') :: r, h => by
    unfold assoc?
    by_cases hk : k = k'
    · simp [hk]
    · simp only [hk, if_false]
      have : (k, v) ∈ r := by
        rcases List.mem_cons.mp h with e | e
        · exact absurd (Prod.mk.inj e).1 hk
        · exact e
      exact assoc?_isSome_of_mem k v r this

theorem assoc?_isSome_mono {β} (k : Tok) (l l' : List (Tok × β)) (hsub : ∀ p, p ∈ l → p ∈ l')
    (h : (assoc? k l).isSome = true) : (assoc? k l').isSome = true := by
  cases hv : assoc? k l with
  | none => simp [hv] at h
  | some v => exact assoc?_isSome_of_mem k v l' (hsub _ (assoc?_mem k v l hv))

/-- `add_arg` keeps a context well-formed when the new argument's spec is -/
theorem Ctx.addArg_ok (c c' : Ctx) (sp : ArgSpec) (hc : c.ok = true) (hsp : sp.wf = true) (h : c.addArg sp = .ok c') :
    c'.ok = true ∧ c'.name = c.name := by
  unfold Ctx.addArg at h
  simp only [] at h
  split at h
  · cases h
  · split at h
    · cases h
    · next main nick hn =>
      have e : c' = _ := (Except.ok.inj h).symm
      subst e
      simp only [Ctx.ok, Ctx.invOk, Bool.and_eq_true] at hc ⊢
      refine ⟨⟨?_, ?_⟩, trivial⟩
      · rw [List.all_append]
        simp [hc.1, Arg.init_ok sp hsp]
      · apply List.all_eq_true.mpr
        intro p hp
        simp only [Ctx.invTargetOk]
        have hold : ∀ q, q ∈ c.inverse → (assoc? q.2 (c.flags ++ [(toFlag main, c.args.length)] ++
            List.map (fun n => (toFlag n, c.args.length)) nick)).isSome = true := by
          intro q hq
          have := (List.all_eq_true.mp hc.2) q hq
          simp only [Ctx.invTargetOk] at this
          exact assoc?_isSome_mono q.2 c.flags _ (fun p hp => by simp [hp]) this
        split at hp
        · rcases List.mem_append.mp hp with h1 | h1
          · exact hold p h1
          · simp only [List.mem_singleton] at h1
            subst h1
            exact assoc?_isSome_of_mem _ c.args.length _ (by simp)
        · exact hold p hp

theorem Ctx.ofSpecs_ok_aux : ∀ (sps : List ArgSpec) (c c' : Ctx), c.ok = true → (∀ sp ∈ sps, sp.wf = true) →
    sps.foldlM Ctx.addArg c = .ok c' → c'.ok = true ∧ c'.name = c.name
  | [], c, c', hc, _, h => by simp [pure, Except.pure] at h; subst h; exact ⟨hc, rfl⟩
  | sp :: sps, c, c', hc, hw, h => by
    rw [List.foldlM_cons] at h
    cases h1 : c.addArg sp with
    | error e => simp [h1, bind, Except.bind] at h
    | ok c1 =>
      simp only [h1, bind, Except.bind] at h
      obtain ⟨a1, a2⟩ := Ctx.addArg_ok c c1 sp hc (hw sp (by simp)) h1
      obtain ⟨b1, b2⟩ := Ctx.ofSpecs_ok_aux sps c1 c' a1 (fun s hs => hw s (by simp [hs])) h
      exact ⟨b1, b2.trans a2⟩

/-- a context built by `add_arg` from well-formed argument specs (kinds of the model; counters with an integer
    default) satisfies the context part of `specWF` -/
theorem Ctx.ofSpecs_ok (name : Option Tok) (aliases : List Tok) (sps : List ArgSpec) (c : Ctx)
    (hw : ∀ sp ∈ sps, sp.wf = true) (h : Ctx.ofSpecs name aliases sps = .ok c) : c.ok = true ∧ c.name = name := by
  unfold Ctx.ofSpecs at h
  have h0 : (Ctx.empty name aliases).ok = true := by simp [Ctx.ok, Ctx.empty, Ctx.invOk]
  exact Ctx.ofSpecs_ok_aux sps _ c h0 hw h

/-- … and a named one is a well-formed registry entry -/
theorem Ctx.ofSpecs_okR (name : Tok) (aliases : List Tok) (sps : List ArgSpec) (c : Ctx)
    (hw : ∀ sp ∈ sps, sp.wf = true) (h : Ctx.ofSpecs (some name) aliases sps = .ok c) : c.okR = true := by
  obtain ⟨h1, h2⟩ := Ctx.ofSpecs_ok (some name) aliases sps c hw h
  simp [Ctx.okR, h1, h2]
end Inv
