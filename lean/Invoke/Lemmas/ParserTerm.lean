import Invoke.Model.Parser
/-! C07, termination of the insert-while-iterating loop of `parse_argv`.

    Modelling decision (DESIGN.md, C07): running out of fuel is NOT an `Err` constructor in the statement —
    `procTok'` returns `Option (Except Err M)` and `none` means "fuel exhausted"; `no_fuel_exhaustion`
    says it never happens, `procTok_eq` ties `procTok'` to the executable `procTok` of the model
    (which spells fuel exhaustion `.error .fuel`) and `procTok_ne_fuel` concludes that the model never
    takes that exit.  Nothing in `Model/Parser.lean` is changed; everything here is additive. -/
namespace Inv
open M

/-- the loop over the tokens the Python loop inserted right after the current one -/
def procToks (f : M → Tok → Option (Except Err M)) : M → List Tok → Option (Except Err M)
  | m, [] => some (.ok m)
  | m, t :: ts => match f m t with
    | none => none
    | some (.error e) => some (.error e)
    | some (.ok m') => procToks f m' ts

/-- `procTok` with fuel exhaustion as `none` -/
def procTok' : Nat → M → Tok → Option (Except Err M)
  | 0, _, _ => none
  | fuel + 1, m, orig =>
    match presplit m orig with
    | .error e => some (.error e)
    | .ok p =>
      match M.handle m (rollback m orig p).1 with
      | .error e => some (.error e)
      | .ok m' => procToks (procTok' fuel) m' (rollback m orig p).2

theorem afterEq_length (t : Tok) (h : hasEq t = true) : (afterEq t).length < t.length := by
  induction t with
  | nil => simp [hasEq] at h
  | cons c r ih =>
    by_cases hc : c = '='
    · simp [afterEq, hc]
    · simp [hasEq, hc] at h
      simp [afterEq, hc]
      exact Nat.lt_succ_of_lt (ih h)

theorem splitShort_pieces (m : M) (orig : Tok) (hl : orig.length > 2) :
    ∀ t ∈ (splitShort m orig).2, t.length < orig.length := by
  unfold splitShort
  simp only []
  intro t ht
  split at ht
  · split at ht
    · simp only [List.mem_singleton] at ht; subst ht; simp; omega
    · simp only [List.mem_map] at ht; obtain ⟨ch, _, rfl⟩ := ht; simp; omega
  · simp only [List.mem_map] at ht; obtain ⟨ch, _, rfl⟩ := ht; simp; omega

/-- every token the loop inserts is strictly shorter than the token it came from -/
theorem presplit_pieces_shorter (m : M) (orig : Tok) (p : Tok × List Tok) (h : presplit m orig = .ok p) :
    ∀ t ∈ p.2, t.length < orig.length := by
  unfold presplit at h
  by_cases h1 : (isFlag orig && m.unparsed.isEmpty) = true
  · simp only [h1, if_true] at h
    by_cases h2 : (hasEq orig && !isGlued m orig) = true
    · simp only [h2, if_true] at h
      cases h
      intro t ht
      simp only [List.mem_singleton] at ht
      subst ht
      have : hasEq orig = true := by simp only [Bool.and_eq_true] at h2; exact h2.1
      exact afterEq_length orig this
    · simp only [h2] at h
      by_cases h3 : (!isLongFlag orig && decide (orig.length > 2)) = true
      · simp only [h3, if_true] at h
        cases h
        have hl : orig.length > 2 := by simp only [Bool.and_eq_true, decide_eq_true_eq] at h3; exact h3.2
        exact splitShort_pieces m orig hl
      · simp only [h3] at h
        cases h; intro t ht; cases ht
  · simp only [h1] at h
    cases h; intro t ht; cases ht

/-- the repaired loop header never raises (the `machine.context is None` guard, fix F7) -/
theorem presplit_total (m : M) (orig : Tok) : ∃ p, presplit m orig = .ok p := by
  unfold presplit
  split
  · split
    · exact ⟨_, rfl⟩
    · split <;> exact ⟨_, rfl⟩
  · exact ⟨_, rfl⟩

theorem rollback_pieces (m : M) (orig : Tok) (p : Tok × List Tok) :
    ∀ t ∈ (rollback m orig p).2, t ∈ p.2 := by
  unfold rollback
  by_cases h : (m.waiting && !keepSplit m p.1) = true
  · simp only [h, if_true]; intro t ht; cases ht
  · simp only [h]; intro t ht; exact ht

theorem procToks_isSome (f : M → Tok → Option (Except Err M)) (ts : List Tok)
    (hf : ∀ m t, t ∈ ts → (f m t).isSome = true) : ∀ m, (procToks f m ts).isSome = true := by
  induction ts with
  | nil => intro m; rfl
  | cons t r ih =>
    intro m
    have h1 := hf m t (by simp)
    unfold procToks
    cases hft : f m t with
    | none => simp [hft] at h1
    | some res =>
      cases res with
      | error e => rfl
      | ok m' => exact ih (fun m t ht => hf m t (by simp [ht])) m'

/-- with fuel above the token length the loop never runs out of fuel,
    whatever the machine state and whatever the token -/
theorem procTok'_isSome : ∀ (n : Nat) (m : M) (t : Tok), t.length < n → (procTok' n m t).isSome = true := by
  intro n
  induction n with
  | zero => intro m t h; omega
  | succ n ih =>
    intro m t h
    unfold procTok'
    cases hp : presplit m t with
    | error e => rfl
    | ok p =>
      simp only []
      cases hh : M.handle m (rollback m t p).1 with
      | error e => rfl
      | ok m' =>
        simp only []
        apply procToks_isSome
        intro m2 t2 ht2
        have hlt : t2.length < t.length := presplit_pieces_shorter m t p hp t2 (rollback_pieces m t p t2 ht2)
        exact ih m2 t2 (by omega)

/-! ### tie between `procTok'` (Option fuel) and the model's `procTok` (`.error .fuel`) -/

theorem procToks_eq_foldlM (f : M → Tok → Option (Except Err M)) (g : M → Tok → Except Err M) (ts : List Tok)
    (hfg : ∀ m t r, t ∈ ts → f m t = some r → g m t = r) :
    ∀ m r, procToks f m ts = some r → ts.foldlM g m = r := by
  induction ts with
  | nil => intro m r h; simp [procToks] at h; subst h; rfl
  | cons t rest ih =>
    intro m r h
    unfold procToks at h
    cases hft : f m t with
    | none => simp [hft] at h
    | some res =>
      have hg := hfg m t res (by simp) hft
      cases res with
      | error e =>
        simp [hft] at h; subst h
        simp [List.foldlM_cons, hg, bind, Except.bind]
      | ok m' =>
        simp only [hft] at h
        have := ih (fun m t r ht => hfg m t r (by simp [ht])) m' r h
        simp [List.foldlM_cons, hg, bind, Except.bind, this]

/-- whenever the `Option` version answers, the model's `procTok` gives the same answer -/
theorem procTok_eq : ∀ (n : Nat) (m : M) (t : Tok) (r : Except Err M), procTok' n m t = some r → procTok n m t = r := by
  intro n
  induction n with
  | zero => intro m t r h; simp [procTok'] at h
  | succ n ih =>
    intro m t r h
    unfold procTok' at h
    unfold procTok
    cases hp : presplit m t with
    | error e => simp [hp] at h; exact h
    | ok p =>
      simp only [hp] at h ⊢
      cases hh : M.handle m (rollback m t p).1 with
      | error e => simp [hh] at h; exact h
      | ok m' =>
        simp only [hh] at h ⊢
        exact procToks_eq_foldlM (procTok' n) (procTok n) _ (fun m t r _ h => ih m t r h) m' r h

end Inv
