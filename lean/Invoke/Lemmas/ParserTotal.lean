import Invoke.Lemmas.ParserTerm
import Invoke.Lemmas.ParserWF
/-! C07: the machine invariant `MInv` (every argument is in a state in which `set_value` can only fail with a
    cast `ValueError`; the current task context exists whenever the machine has left the core context) is
    preserved by every step of the parser, and under it every exit of the machine is a result or a
    `ParseError` of a documented kind.  Helper lemmas for `Props/C07.lean`. -/
namespace Inv
open M

/-! ### lists -/

theorem all_set_of {α} (p : α → Bool) : ∀ (l : List α) (i : Nat) (a : α), l.all p = true → p a = true → (l.set i a).all p = true
  | [], _, _, _, _ => by simp
  | x :: xs, 0, a, h, ha => by
    simp only [List.set, List.all_cons, Bool.and_eq_true] at h ⊢
    exact ⟨ha, h.2⟩
  | x :: xs, i + 1, a, h, ha => by
    simp only [List.set, List.all_cons, Bool.and_eq_true] at h ⊢
    exact ⟨h.1, all_set_of p xs i a h.2 ha⟩

theorem all_of_getElem? {α} (p : α → Bool) (l : List α) (i : Nat) (a : α) (h : l.all p = true) (hi : l[i]? = some a) :
    p a = true := by
  have hm : a ∈ l := List.mem_of_getElem? hi
  exact (List.all_eq_true.mp h) a hm

/-! ### `Argument.set_value` on a well-formed argument -/

/-- the only failure of `set_value` on a well-formed argument is the cast `ValueError` -/
def Arg.SetOK (a : Arg) (r : Except Err Arg) : Prop :=
  (∃ a', r = .ok a' ∧ a'.ok = true ∧ a'.spec = a.spec) ∨
  (r = .error (.other "ValueError" "int-cast") ∧ a.spec.kind = .int ∧ a.spec.incrementable = false)

theorem PVal.isInt_elim {v : PVal} (h : v.isInt = true) : ∃ n, v = .i n := by
  cases v <;> simp [PVal.isInt] at h; exact ⟨_, rfl⟩

theorem PVal.isList_elim {v : PVal} (h : v.isList = true) : ∃ xs, v = .l xs := by
  cases v <;> simp [PVal.isList] at h; exact ⟨_, rfl⟩

theorem Arg.setValue_incr (a : Arg) (v : PVal) (cast : Bool) (hok : a.ok = true) (hi : a.spec.incrementable = true) :
    ∃ a', a.setValue v cast = .ok a' ∧ a'.ok = true ∧ a'.spec = a.spec := by
  have hv : a.val.isInt = true := by simpa [Arg.ok, hi] using hok
  obtain ⟨n, hn⟩ := PVal.isInt_elim hv
  refine ⟨{ a with raw := some v, val := .i (n + 1) }, ?_, ?_, rfl⟩
  · simp [Arg.setValue, hi, Arg.value, hn]
  · simp [Arg.ok, hi, PVal.isInt]

theorem Arg.setValue_str (a : Arg) (x : Tok) (hok : a.ok = true) : Arg.SetOK a (a.setValue (.s x) true) := by
  by_cases hi : a.spec.incrementable = true
  · obtain ⟨a', h1, h2, h3⟩ := Arg.setValue_incr a (.s x) true hok hi
    exact Or.inl ⟨a', h1, h2, h3⟩
  · have hi' : a.spec.incrementable = false := by simpa using hi
    by_cases hk : a.spec.kind = .list
    · have hv : a.val.isList = true ∧ a.raw.isSome = true := by simpa [Arg.ok, hi', hk] using hok
      obtain ⟨xs, hxs⟩ := PVal.isList_elim hv.1
      refine Or.inl ⟨{ a with raw := some (.s x), val := .l (xs ++ [x]) }, ?_, ?_, rfl⟩
      · simp [Arg.setValue, hi', hk, Arg.value, hxs]
      · simp [Arg.ok, hi', hk, PVal.isList]
    · unfold Arg.SetOK Arg.setValue
      simp only [hi', hk, if_false, Bool.false_eq_true, Bool.not_true]
      cases hkk : a.spec.kind with
      | list => exact absurd hkk hk
      | str => exact Or.inl ⟨_, rfl, by simp [Arg.ok, hi', hkk], rfl⟩
      | bool => exact Or.inl ⟨_, rfl, by simp [Arg.ok, hi', hkk], rfl⟩
      | int =>
        simp only []
        cases pyInt? x with
        | none => exact Or.inr ⟨by first | rfl | trivial, by first | rfl | trivial, by first | exact hi' | trivial⟩
        | some n => exact Or.inl ⟨_, rfl, by simp [Arg.ok, hi', hkk], rfl⟩

/-- the core `help` argument takes the task name without a cast failure -/
theorem Arg.setValue_str_help (a : Arg) (x : Tok) (hok : a.okI = true) (hh : a.isHelp = true) :
    ∃ a', a.setValue (.s x) true = .ok a' ∧ a'.ok = true ∧ a'.spec = a.spec := by
  simp only [Arg.okI, Arg.helpOk, Bool.and_eq_true, hh, Bool.not_true, Bool.false_or, Bool.or_eq_true,
    Bool.not_eq_true', decide_eq_false_iff_not] at hok
  rcases Arg.setValue_str a x hok.1 with h | ⟨_, hk, hi⟩
  · exact h
  · rcases hok.2 with h2 | h2
    · exact absurd hk h2
    · rw [hi] at h2; cases h2

/-- a flag that takes no value (bool or counter) is switched on/off without any failure -/
theorem Arg.setValue_novalue (a : Arg) (b : Bool) (hok : a.ok = true) (ht : a.takesValue = false) :
    ∃ a', a.setValue (.b b) true = .ok a' ∧ a'.ok = true ∧ a'.spec = a.spec := by
  by_cases hi : a.spec.incrementable = true
  · exact Arg.setValue_incr a (.b b) true hok hi
  · have hi' : a.spec.incrementable = false := by simpa using hi
    have hk : a.spec.kind = .bool := by simpa [Arg.takesValue, hi'] using ht
    refine ⟨{ a with raw := some (.b b), val := .b b }, ?_, ?_, rfl⟩
    · simp [Arg.setValue, hi', hk]
    · simp [Arg.ok, hi', hk]

/-- `set_value(True, cast=False)` of `complete_flag` on an optional-value flag that received nothing -/
theorem Arg.setValue_nocast (a : Arg) (hok : a.ok = true) (hr : a.raw = none) :
    ∃ a', a.setValue (.b true) false = .ok a' ∧ a'.ok = true ∧ a'.spec = a.spec := by
  by_cases hi : a.spec.incrementable = true
  · exact Arg.setValue_incr a (.b true) false hok hi
  · have hi' : a.spec.incrementable = false := by simpa using hi
    by_cases hk : a.spec.kind = .list
    · have hv : a.val.isList = true ∧ a.raw.isSome = true := by simpa [Arg.ok, hi', hk] using hok
      simp [hr] at hv
    · refine ⟨{ a with raw := some (.b true), val := .b true }, ?_, ?_, rfl⟩
      · simp [Arg.setValue, hi', hk]
      · simp [Arg.ok, hi', hk]

/-- `set_value` itself never raises a `ParseError` -/
theorem Arg.setValue_err_other (a : Arg) (v : PVal) (c : Bool) (e : Err) (h : a.setValue v c = .error e) :
    ∃ cls site, e = .other cls site := by
  unfold Arg.setValue at h
  repeat' split at h
  all_goals first
    | (cases h; done)
    | (cases h; exact ⟨_, _, rfl⟩)

theorem Arg.okI_of_spec (a a' : Arg) (h : a.okI = true) (hok : a'.ok = true) (hs : a'.spec = a.spec) : a'.okI = true := by
  simp only [Arg.okI, Arg.helpOk, Arg.isHelp, Bool.and_eq_true] at h ⊢
  rw [hs]
  exact ⟨hok, h.2⟩

/-! ### contexts -/

theorem Ctx.okI_args (c : Ctx) (h : c.okI = true) : c.args.all Arg.okI = true := by
  simp only [Ctx.okI, Bool.and_eq_true] at h; exact h.1

theorem Ctx.ok_args (c : Ctx) (h : c.ok = true) : c.args.all Arg.ok = true := by
  simp only [Ctx.ok, Bool.and_eq_true] at h; exact h.1

theorem Ctx.okI_arg_ok (c : Ctx) (h : c.okI = true) (i : Nat) (a : Arg) (hi : c.args[i]? = some a) : a.ok = true := by
  have := all_of_getElem? Arg.okI c.args i a (Ctx.okI_args c h) hi
  simp only [Arg.okI, Bool.and_eq_true] at this; exact this.1

theorem Ctx.okR_arg_ok (c : Ctx) (h : c.okR = true) (i : Nat) (a : Arg) (hi : c.args[i]? = some a) : a.ok = true := by
  simp only [Ctx.okR, Bool.and_eq_true] at h
  exact all_of_getElem? Arg.ok c.args i a (Ctx.ok_args c h.1) hi

theorem Ctx.okI_set (c : Ctx) (i : Nat) (a a' : Arg) (h : c.okI = true) (hi : c.args[i]? = some a)
    (hok : a'.ok = true) (hs : a'.spec = a.spec) : ({ c with args := c.args.set i a' } : Ctx).okI = true := by
  have ha : a.okI = true := all_of_getElem? Arg.okI c.args i a (Ctx.okI_args c h) hi
  have ha' := Arg.okI_of_spec a a' ha hok hs
  simp only [Ctx.okI, Bool.and_eq_true] at h ⊢
  exact ⟨all_set_of Arg.okI c.args i a' h.1 ha', h.2⟩

theorem Ctx.okR_set (c : Ctx) (i : Nat) (a' : Arg) (h : c.okR = true) (hok : a'.ok = true) :
    ({ c with args := c.args.set i a' } : Ctx).okR = true := by
  simp only [Ctx.okR, Ctx.ok, Bool.and_eq_true] at h ⊢
  exact ⟨⟨all_set_of Arg.ok c.args i a' h.1.1 hok, h.1.2⟩, h.2⟩

/-! ### the machine invariant -/

structure MInv (m : M) : Prop where
  ini : ∀ c, m.initial = some c → c.okI = true
  cur : ∀ c, m.cur = some c → c.okR = true
  reg : ∀ c, c ∈ m.registry → c.okR = true
  curSome : m.curIsInitial = false → m.cur.isSome = true

/-- a parse result or a `ParseError` of one of the documented kinds -/
def docKinds : List String := ["no-idea", "needed-value", "missing-positional", "ambiguous", "invalid-value"]

def Res (r : Except Err M) : Prop :=
  (∃ m', r = .ok m' ∧ MInv m') ∨ (∃ k d, r = .error (.parse k d) ∧ k ∈ docKinds)

theorem Res.ok {m : M} (h : MInv m) : Res (.ok m) := Or.inl ⟨m, rfl, h⟩
theorem Res.err (k : String) (d : Tok) (hk : k ∈ docKinds) : Res (.error (.parse k d)) := Or.inr ⟨k, d, rfl, hk⟩

theorem Res.bind {r : Except Err M} {f : M → Except Err M} (hr : Res r) (hf : ∀ m, MInv m → Res (f m)) :
    Res (r >>= f) := by
  rcases hr with ⟨m', rfl, hm⟩ | ⟨k, d, rfl, hk⟩
  · exact hf m' hm
  · exact Or.inr ⟨k, d, rfl, hk⟩

/-- the invariant only looks at the contexts, the registry and `curIsInitial` -/
theorem MInv.congr {m m' : M} (h : MInv m) (h1 : m'.initial = m.initial) (h2 : m'.cur = m.cur) (h3 : m'.registry = m.registry)
    (h4 : m'.curIsInitial = m.curIsInitial) : MInv m' :=
  { ini := fun c hc => h.ini c (h1 ▸ hc)
    cur := fun c hc => h.cur c (h2 ▸ hc)
    reg := fun c hc => h.reg c (h3 ▸ hc)
    curSome := fun hh => by rw [h2]; exact h.curSome (h4 ▸ hh) }

theorem MInv.ctx_ok {m : M} (h : MInv m) (c : Ctx) (hc : m.ctx = some c) : c.ok = true := by
  unfold M.ctx at hc
  by_cases hci : m.curIsInitial = true
  · rw [if_pos hci] at hc
    have := h.ini c hc
    simp only [Ctx.okI, Ctx.ok, Bool.and_eq_true] at this ⊢
    refine ⟨?_, this.2⟩
    apply List.all_eq_true.mpr
    intro a ha
    have := (List.all_eq_true.mp this.1) a ha
    simp only [Arg.okI, Bool.and_eq_true] at this; exact this.1
  · rw [if_neg hci] at hc
    have := h.cur c hc
    simp only [Ctx.okR, Bool.and_eq_true] at this; exact this.1

theorem MInv.ctx_arg_ok {m : M} (h : MInv m) (c : Ctx) (hc : m.ctx = some c) (i : Nat) (a : Arg) (hi : c.args[i]? = some a) :
    a.ok = true :=
  all_of_getElem? Arg.ok c.args i a (Ctx.ok_args c (h.ctx_ok c hc)) hi

theorem MInv.flagArg_ok {m : M} (h : MInv m) (a : Arg) (ha : m.flagArg = some a) : a.ok = true := by
  unfold M.flagArg at ha
  cases hf : m.flag with
  | none => simp [hf] at ha
  | some p =>
    obtain ⟨w, i⟩ := p
    cases w with
    | cur =>
      simp only [hf] at ha
      cases hc : m.ctx with
      | none => simp [hc] at ha
      | some c => simp only [hc, Option.bind_some] at ha; exact h.ctx_arg_ok c hc i a ha
    | initial =>
      simp only [hf] at ha
      cases hc : m.initial with
      | none => simp [hc] at ha
      | some c => simp only [hc, Option.bind_some] at ha; exact Ctx.okI_arg_ok c (h.ini c hc) i a ha

/-- replacing the value of an argument of the current context keeps the invariant -/
theorem MInv.setCtx_set {m : M} (h : MInv m) (c : Ctx) (hc : m.ctx = some c) (i : Nat) (a a' : Arg)
    (hi : c.args[i]? = some a) (hok : a'.ok = true) (hs : a'.spec = a.spec) :
    MInv (m.setCtx { c with args := c.args.set i a' }) := by
  unfold M.ctx at hc
  unfold M.setCtx
  by_cases hci : m.curIsInitial = true
  · rw [if_pos hci] at hc ⊢
    exact { ini := fun c' hc' => by
              simp only [Option.some.injEq] at hc'; subst hc'
              exact Ctx.okI_set c i a a' (h.ini c hc) hi hok hs
            cur := h.cur, reg := h.reg, curSome := h.curSome }
  · rw [if_neg hci] at hc ⊢
    exact { ini := h.ini
            cur := fun c' hc' => by
              simp only [Option.some.injEq] at hc'; subst hc'
              exact Ctx.okR_set c i a' (h.cur c hc) hok
            reg := h.reg
            curSome := fun _ => rfl }

theorem MInv.setInitial_set {m : M} (h : MInv m) (c : Ctx) (hc : m.initial = some c) (i : Nat) (a a' : Arg)
    (hi : c.args[i]? = some a) (hok : a'.ok = true) (hs : a'.spec = a.spec) :
    MInv { m with initial := some { c with args := c.args.set i a' } } :=
  { ini := fun c' hc' => by
      simp only [Option.some.injEq] at hc'; subst hc'
      exact Ctx.okI_set c i a a' (h.ini c hc) hi hok hs
    cur := h.cur, reg := h.reg, curSome := h.curSome }

theorem MInv.updFlagArg {m : M} (h : MInv m) (a a' : Arg) (ha : m.flagArg = some a) (hok : a'.ok = true)
    (hs : a'.spec = a.spec) : MInv (m.updFlagArg a') := by
  unfold M.flagArg at ha
  unfold M.updFlagArg
  cases hf : m.flag with
  | none => simp [hf] at ha
  | some p =>
    obtain ⟨w, i⟩ := p
    cases w with
    | cur =>
      simp only [hf] at ha
      cases hc : m.ctx with
      | none => simp [hc] at ha
      | some c =>
        simp only [hc, Option.bind_some] at ha
        exact h.setCtx_set c hc i a a' ha hok hs
    | initial =>
      simp only [hf] at ha
      cases hc : m.initial with
      | none => simp [hc] at ha
      | some c =>
        simp only [hc, Option.bind_some] at ha
        exact MInv.congr (h.setInitial_set c hc i a a' ha hok hs) rfl rfl rfl rfl

/-! ### what `updFlagArg` leaves alone -/

theorem updFlagArg_registry (m : M) (a : Arg) : (m.updFlagArg a).registry = m.registry := by
  unfold M.updFlagArg M.setCtx
  repeat' split
  all_goals rfl

theorem updFlagArg_curIsInitial (m : M) (a : Arg) : (m.updFlagArg a).curIsInitial = m.curIsInitial := by
  unfold M.updFlagArg M.setCtx
  repeat' split
  all_goals rfl

theorem updFlagArg_flag (m : M) (a : Arg) : (m.updFlagArg a).flag = m.flag := by
  unfold M.updFlagArg M.setCtx
  repeat' split
  all_goals rfl

/-- the tables (flags, inverse flags, name, positional indices) of a context, i.e. everything but the values -/
def Ctx.tables (c : Ctx) : Option Tok × List (Tok × Nat) × List (Tok × Tok) × List Nat := (c.name, c.flags, c.inverse, c.positional)

theorem updFlagArg_initial_tables (m : M) (a : Arg) : (m.updFlagArg a).initial.map Ctx.tables = m.initial.map Ctx.tables := by
  unfold M.updFlagArg M.setCtx M.ctx
  repeat' split
  all_goals simp_all [Ctx.tables]

theorem updFlagArg_cur_tables (m : M) (a : Arg) : (m.updFlagArg a).cur.map Ctx.tables = m.cur.map Ctx.tables := by
  unfold M.updFlagArg M.setCtx M.ctx
  repeat' split
  all_goals simp_all [Ctx.tables]

/-- same registry, same `curIsInitial`, same tables of both contexts -/
structure SameTables (m m' : M) : Prop where
  reg : m'.registry = m.registry
  ci : m'.curIsInitial = m.curIsInitial
  ini : m'.initial.map Ctx.tables = m.initial.map Ctx.tables
  cur : m'.cur.map Ctx.tables = m.cur.map Ctx.tables

theorem SameTables.refl (m : M) : SameTables m m := ⟨rfl, rfl, rfl, rfl⟩

theorem SameTables.updFlagArg (m : M) (a : Arg) : SameTables m (m.updFlagArg a) :=
  ⟨updFlagArg_registry m a, updFlagArg_curIsInitial m a, updFlagArg_initial_tables m a, updFlagArg_cur_tables m a⟩

theorem SameTables.ctx {m m' : M} (h : SameTables m m') : m'.ctx.map Ctx.tables = m.ctx.map Ctx.tables := by
  unfold M.ctx
  rw [h.ci]
  split
  · exact h.ini
  · exact h.cur

theorem SameTables.lookupCtx {m m' : M} (h : SameTables m m') (tok : Tok) : m'.lookupCtx tok = m.lookupCtx tok := by
  unfold M.lookupCtx; rw [h.reg]

theorem tables_of_map {o o' : Option Ctx} (h : o'.map Ctx.tables = o.map Ctx.tables) (c : Ctx) (hc : o = some c) :
    ∃ c', o' = some c' ∧ c'.name = c.name ∧ c'.flags = c.flags ∧ c'.inverse = c.inverse ∧ c'.positional = c.positional := by
  subst hc
  cases o' with
  | none => simp at h
  | some c' =>
    simp only [Option.map_some, Option.some.injEq, Ctx.tables, Prod.mk.injEq] at h
    exact ⟨c', rfl, h.1, h.2.1, h.2.2.1, h.2.2.2⟩

/-! ### the steps of the machine -/

/-- `complete_flag`: unchanged machine, "needed value", or the optional flag is set to `True` -/
theorem completeFlag_cases (m : M) (h : MInv m) :
    (completeFlag m = .ok m) ∨ (∃ d, completeFlag m = .error (.parse "needed-value" d)) ∨
    (∃ a a', m.flagArg = some a ∧ a'.ok = true ∧ a'.spec = a.spec ∧ completeFlag m = .ok (m.updFlagArg a')) := by
  unfold M.completeFlag
  cases hfa : m.flagArg with
  | none => exact Or.inl rfl
  | some a =>
    simp only []
    split
    · exact Or.inr (Or.inl ⟨_, rfl⟩)
    · split
      · next _ hr =>
        have hraw : a.raw = none := by
          simp only [Bool.and_eq_true, Option.isNone_iff_eq_none] at hr; exact hr.1
        obtain ⟨a', h1, h2, h3⟩ := Arg.setValue_nocast a (h.flagArg_ok a hfa) hraw
        refine Or.inr (Or.inr ⟨a, a', rfl, h2, h3, ?_⟩)
        simp [h1, bind, Except.bind]
      · exact Or.inl rfl

theorem completeFlag_res (m : M) (h : MInv m) :
    (∃ m', completeFlag m = .ok m' ∧ MInv m' ∧ SameTables m m') ∨ (∃ d, completeFlag m = .error (.parse "needed-value" d)) := by
  rcases completeFlag_cases m h with h1 | ⟨d, h1⟩ | ⟨a, a', ha, hok, hs, h1⟩
  · exact Or.inl ⟨m, h1, h, SameTables.refl m⟩
  · exact Or.inr ⟨d, h1⟩
  · exact Or.inl ⟨_, h1, h.updFlagArg a a' ha hok hs, SameTables.updFlagArg m a'⟩

theorem completeContext_res (m : M) :
    completeContext m = .ok m ∨ ∃ d, completeContext m = .error (.parse "missing-positional" d) := by
  unfold M.completeContext
  split
  · exact Or.inl rfl
  · split
    · exact Or.inr ⟨_, rfl⟩
    · exact Or.inl rfl

/-- the state-entry actions: same machine up to one argument value, or one of two documented errors -/
theorem enter_res (m : M) (h : MInv m) :
    (∃ m', enter m = .ok m' ∧ MInv m' ∧ SameTables m m') ∨
    (∃ k d, enter m = .error (.parse k d) ∧ (k = "needed-value" ∨ k = "missing-positional")) := by
  unfold M.enter
  rcases completeFlag_res m h with ⟨m', h1, h2, h3⟩ | ⟨d, h1⟩
  · rcases completeContext_res m' with h4 | ⟨d, h4⟩
    · exact Or.inl ⟨m', by simp [h1, h4, bind, Except.bind], h2, h3⟩
    · exact Or.inr ⟨_, d, by simp [h1, h4, bind, Except.bind], Or.inr rfl⟩
  · exact Or.inr ⟨_, d, by simp [h1, bind, Except.bind], Or.inl rfl⟩

theorem checkAmbiguity_res (m : M) (v : Tok) :
    checkAmbiguity m v = .ok () ∨ checkAmbiguity m v = .error (.parse "ambiguous" v) := by
  unfold M.checkAmbiguity
  repeat' split
  all_goals first
    | exact Or.inl rfl
    | exact Or.inr rfl
    | (simp only []; split <;> first | exact Or.inl rfl | exact Or.inr rfl)

theorem seeUnknown_res (m : M) (tok : Tok) (h : MInv m) : Res (seeUnknown m tok) := by
  unfold M.seeUnknown
  rcases enter_res m h with ⟨m', h1, h2, _⟩ | ⟨k, d, h1, hk⟩
  · simp only [h1, bind, Except.bind]
    exact Res.ok (h2.congr rfl rfl rfl rfl)
  · simp only [h1, bind, Except.bind]
    rcases hk with rfl | rfl <;> exact Res.err _ d (by simp [docKinds])

theorem lookupCtx_mem (m : M) (tok : Tok) (c : Ctx) (h : m.lookupCtx tok = some c) : c ∈ m.registry := by
  unfold M.lookupCtx at h
  exact List.mem_of_find?_eq_some h

theorem switchToContext_res (m : M) (tok : Tok) (h : MInv m) (hl : (m.lookupCtx tok).isSome = true) :
    Res (switchToContext m tok) := by
  unfold M.switchToContext
  rcases enter_res m h with ⟨m', h1, h2, h3⟩ | ⟨k, d, h1, hk⟩
  · simp only [h1, bind, Except.bind]
    rw [h3.lookupCtx tok]
    cases hc : m.lookupCtx tok with
    | none => simp [hc] at hl
    | some c =>
      simp only []
      have hreg : c ∈ m'.registry := by rw [h3.reg]; exact lookupCtx_mem m tok c hc
      exact Res.ok { ini := h2.ini
                     cur := fun c' hc' => by
                       simp only [Option.some.injEq] at hc'; subst hc'; exact h2.reg c hreg
                     reg := h2.reg
                     curSome := fun _ => rfl }
  · simp only [h1, bind, Except.bind]
    rcases hk with rfl | rfl <;> exact Res.err _ d (by simp [docKinds])

theorem assoc?_mem {β} (k : Tok) (v : β) : ∀ (l : List (Tok × β)), assoc? k l = some v → (k, v) ∈ l
  | [], h => by simp [assoc?] at h
  | (k', v') :: r, h => by
    unfold assoc? at h
    by_cases hk : k = k'
    · simp only [hk, if_true, Option.some.injEq] at h; subst h; subst hk; simp
    · simp only [hk, if_false] at h
      exact List.mem_cons_of_mem _ (assoc?_mem k v r h)

theorem invOk_target (c : Ctx) (h : c.ok = true) (tok t : Tok) (ht : assoc? tok c.inverse = some t) :
    (assoc? t c.flags).isSome = true := by
  simp only [Ctx.ok, Ctx.invOk, Bool.and_eq_true] at h
  have := (List.all_eq_true.mp h.2) (tok, t) (assoc?_mem tok t c.inverse ht)
  simpa [Ctx.invTargetOk] using this

theorem bind_flags_of_tables {o o' : Option Ctx} (h : o'.map Ctx.tables = o.map Ctx.tables) (tok : Tok) :
    (o'.bind fun ic => assoc? tok ic.flags) = (o.bind fun ic => assoc? tok ic.flags) := by
  cases o with
  | none => cases o' with
    | none => rfl
    | some c' => simp at h
  | some c =>
    obtain ⟨c', rfl, _, hf, _, _⟩ := tables_of_map h c rfl
    simp [hf]

theorem switchTail_res (m2 : M) (h : MInv m2) (inverse : Bool) :
    Res (match m2.flagArg with
      | some a =>
        if (!a.takesValue) = true then
          match a.setValue (.b (!inverse)) with
          | .ok a' => .ok (m2.updFlagArg a')
          | .error e => .error e
        else .ok m2
      | none => .ok m2) := by
  cases hfa : m2.flagArg with
  | none => exact Res.ok h
  | some a =>
    simp only []
    split
    · next ht =>
      have ht' : a.takesValue = false := by simpa using ht
      obtain ⟨a', h1, h2, h3⟩ := Arg.setValue_novalue a (!inverse) (h.flagArg_ok a hfa) ht'
      simp only [h1]
      exact Res.ok (h.updFlagArg a a' hfa h2 h3)
    · exact Res.ok h

theorem switchToFlag_res (m : M) (tok : Tok) (inverse : Bool) (h : MInv m) (c : Ctx) (hc : m.ctx = some c)
    (hpre : (inverse = false ∧ ((assoc? tok c.flags).isSome = true ∨
                (m.initial.bind (fun ic => assoc? tok ic.flags)).isSome = true)) ∨
            (inverse = true ∧ (assoc? tok c.inverse).isSome = true)) :
    Res (switchToFlag m tok inverse) := by
  unfold M.switchToFlag
  rcases checkAmbiguity_res m tok with h0 | h0
  · simp only [h0, bind, Except.bind]
    rcases completeFlag_res m h with ⟨m1, h1, h2, h3⟩ | ⟨d, h1⟩
    · simp only [h1]
      obtain ⟨c1, hc1, hn, hfl, hinv, hpos⟩ := tables_of_map h3.ctx c hc
      simp only [hc1, pure, Except.pure]
      have hbind : (m1.initial.bind fun ic => assoc? tok ic.flags) = (m.initial.bind fun ic => assoc? tok ic.flags) :=
        bind_flags_of_tables h3.ini tok
      cases inverse with
      | true =>
        have hp : (assoc? tok c.inverse).isSome = true := by
          rcases hpre with ⟨hh, _⟩ | ⟨_, hh⟩
          · cases hh
          · exact hh
        rw [← hinv] at hp
        cases ht : assoc? tok c1.inverse with
        | none => simp [ht] at hp
        | some t =>
          simp only [if_true]
          have hfs := invOk_target c1 (h2.ctx_ok c1 hc1) tok t ht
          cases hi : assoc? t c1.flags with
          | none => simp [hi] at hfs
          | some i =>
            simp only []
            exact switchTail_res { m1 with flag := some (Where.cur, i), flagGotValue := false } (h2.congr rfl rfl rfl rfl) true
      | false =>
        simp only [Bool.false_eq_true, if_false]
        cases hi : assoc? tok c1.flags with
        | some i =>
          simp only []
          exact switchTail_res { m1 with flag := some (Where.cur, i), flagGotValue := false } (h2.congr rfl rfl rfl rfl) false
        | none =>
          simp only []
          have hp : (m.initial.bind fun ic => assoc? tok ic.flags).isSome = true := by
            rcases hpre with ⟨_, hh | hh⟩ | ⟨hh, _⟩
            · rw [← hfl, hi] at hh; cases hh
            · exact hh
            · cases hh
          rw [hbind]
          cases hj : (m.initial.bind fun ic => assoc? tok ic.flags) with
          | none => simp [hj] at hp
          | some j =>
            simp only []
            exact switchTail_res { m1 with flag := some (Where.initial, j), flagGotValue := false } (h2.congr rfl rfl rfl rfl) false
    · simp only [h1]
      exact Res.err _ d (by simp [docKinds])
  · simp only [h0, bind, Except.bind]
    exact Res.err _ tok (by simp [docKinds])
theorem waiting_spec (m : M) (h : m.waiting = true) : ∃ a, m.flagArg = some a ∧ a.takesValue = true := by
  unfold M.waiting at h
  cases hfa : m.flagArg with
  | none => simp [hfa] at h
  | some a =>
    simp only [hfa] at h
    by_cases ht : a.takesValue = true
    · exact ⟨a, rfl, ht⟩
    · simp [ht] at h

theorem seeValue_res (m : M) (v : Tok) (h : MInv m) (hw : m.waiting = true) : Res (seeValue m v) := by
  obtain ⟨a, hfa, ht⟩ := waiting_spec m hw
  unfold M.seeValue
  rcases checkAmbiguity_res m v with h0 | h0
  · simp only [h0, bind, Except.bind, hfa, ht, if_true]
    rcases Arg.setValue_str a v (h.flagArg_ok a hfa) with ⟨a', h1, h2, h3⟩ | ⟨h1, _, _⟩
    · simp only [h1]
      exact Res.ok ((h.updFlagArg a a' hfa h2 h3).congr rfl rfl rfl rfl)
    · simp only [h1]
      exact Res.err _ v (by simp [docKinds])
  · simp only [h0, bind, Except.bind]
    exact Res.err _ v (by simp [docKinds])

theorem seePositional_res (m : M) (v : Tok) (h : MInv m) : Res (seePositional m v) := by
  unfold M.seePositional
  cases hc : m.ctx with
  | none => exact Res.ok h
  | some c =>
    simp only []
    cases hi : c.firstMissing with
    | none => exact Res.ok h
    | some i =>
      simp only []
      cases ha : c.args[i]? with
      | none => exact Res.ok h
      | some a =>
        simp only []
        rcases Arg.setValue_str a v (h.ctx_arg_ok c hc i a ha) with ⟨a', h1, h2, h3⟩ | ⟨h1, _, _⟩
        · simp only [h1]
          exact Res.ok (h.setCtx_set c hc i a a' ha h2 h3)
        · simp only [h1]
          exact Res.err _ v (by simp [docKinds])
/-- outside the core context the current task context exists and is named -/
theorem MInv.cur_named {m : M} (h : MInv m) (hci : m.curIsInitial = false) :
    ∃ c nm, m.ctx = some c ∧ c.name = some nm := by
  have hs := h.curSome hci
  cases hc : m.cur with
  | none => simp [hc] at hs
  | some c =>
    have hr := h.cur c hc
    simp only [Ctx.okR, Bool.and_eq_true] at hr
    cases hn : c.name with
    | none => simp [hn] at hr
    | some nm => exact ⟨c, nm, by simp [M.ctx, hci, hc], hn⟩

theorem MInv.ctx_none {m : M} (h : MInv m) (hc : m.ctx = none) : m.initial = none ∧ m.curIsInitial = true := by
  cases hb : m.curIsInitial with
  | false =>
    obtain ⟨c, _, hc', _⟩ := h.cur_named hb
    rw [hc] at hc'; cases hc'
  | true => simp [M.ctx, hb] at hc; exact ⟨hc, rfl⟩

theorem waiting_of_none (m : M) (hc : m.ctx = none) (hi : m.initial = none) : m.waiting = false := by
  have hfa : m.flagArg = none := by
    unfold M.flagArg; rw [hc, hi]
    cases m.flag with
    | none => rfl
    | some p => obtain ⟨w, i⟩ := p; cases w <;> rfl
  unfold M.waiting; rw [hfa]

theorem handle_res (m : M) (tok : Tok) (h : MInv m) : Res (handle m tok) := by
  unfold M.handle
  by_cases hu : m.st = .unknown
  · rw [if_pos hu]; exact seeUnknown_res m tok h
  · rw [if_neg hu]
    simp only []
    cases hc : m.ctx with
    | none =>
      obtain ⟨hi, hci⟩ := h.ctx_none hc
      have hw := waiting_of_none m hc hi
      simp only [hi, hw, Bool.false_eq_true, if_false, Bool.false_and]
      split
      · next hl => exact switchToContext_res m tok h hl
      · split
        · exact Res.err _ tok (by simp [docKinds])
        · exact seeUnknown_res m tok h
    | some c =>
      simp only []
      split
      · next h1 => exact switchToFlag_res m tok false h c hc (Or.inl ⟨rfl, Or.inl h1⟩)
      · next h1 =>
        split
        · next h2 => exact switchToFlag_res m tok true h c hc (Or.inr ⟨rfl, h2⟩)
        · split
          · next hw => exact seeValue_res m tok h (by simp only [Bool.and_eq_true] at hw; exact hw.1)
          · cases hi : m.initial with
            | none =>
              simp only [Bool.false_eq_true, if_false]
              split
              · exact seePositional_res m tok h
              · split
                · next hl => exact switchToContext_res m tok h hl
                · split
                  · exact Res.err _ tok (by simp [docKinds])
                  · exact seeUnknown_res m tok h
            | some ic =>
              simp only []
              split
              · exact seePositional_res m tok h
              · split
                · next hl => exact switchToContext_res m tok h hl
                · split
                  · next hcore =>
                    have hci : m.curIsInitial = false := by
                      cases hb : m.curIsInitial with
                      | false => rfl
                      | true =>
                        exfalso; apply h1
                        have : c = ic := by simpa [M.ctx, hb, hi] using hc.symm
                        rw [this]; exact hcore
                    obtain ⟨c', nm, hc', hnm⟩ := h.cur_named hci
                    have hcc : c' = c := by rw [hc] at hc'; cases hc'; rfl
                    subst hcc
                    simp only [Option.bind_some]
                    cases hidx : assoc? tok ic.flags with
                    | none => simp [hidx] at hcore
                    | some i =>
                      simp only [Option.bind_some]
                      cases ha : ic.args[i]? with
                      | none => exact Res.ok h
                      | some a =>
                        simp only []
                        split
                        · next hh =>
                          simp only [hnm]
                          have hokI : a.okI = true := all_of_getElem? Arg.okI ic.args i a (Ctx.okI_args ic (h.ini ic hi)) ha
                          have hhelp : a.isHelp = true := by unfold Arg.isHelp; exact decide_eq_true hh
                          obtain ⟨a', e1, e2, e3⟩ := Arg.setValue_str_help a nm hokI hhelp
                          simp only [e1, bind, Except.bind]
                          exact Res.ok (h.setInitial_set ic hi i a a' ha e2 e3)
                        · exact switchToFlag_res m tok false h c' hc (Or.inl ⟨rfl, Or.inr (by simp [hi, hidx])⟩)
                  · split
                    · exact Res.err _ tok (by simp [docKinds])
                    · exact seeUnknown_res m tok h
theorem enter_Res (m : M) (h : MInv m) : Res (enter m) := by
  rcases enter_res m h with ⟨m', h1, h2, _⟩ | ⟨k, d, h1, hk⟩
  · rw [h1]; exact Res.ok h2
  · rw [h1]; rcases hk with rfl | rfl <;> exact Res.err _ d (by simp [docKinds])

theorem foldlM_res (f : M → Tok → Except Err M) : ∀ (ts : List Tok), (∀ m t, t ∈ ts → MInv m → Res (f m t)) →
    ∀ m, MInv m → Res (ts.foldlM f m)
  | [], _, m, hm => Res.ok hm
  | t :: ts, hf, m, hm => by
    rw [List.foldlM_cons]
    exact Res.bind (hf m t (by simp) hm) (fun m' hm' => foldlM_res f ts (fun m t ht => hf m t (by simp [ht])) m' hm')

/-- one original token together with the tokens the loop inserts after it -/
theorem procTok_res : ∀ (n : Nat) (m : M) (t : Tok), MInv m → t.length < n → Res (procTok n m t) := by
  intro n
  induction n with
  | zero => intro m t _ h; omega
  | succ n ih =>
    intro m t hm h
    unfold procTok
    cases hp : presplit m t with
    | error e => obtain ⟨p, hp'⟩ := presplit_total m t; rw [hp] at hp'; cases hp'
    | ok p =>
      simp only []
      rcases handle_res m (rollback m t p).1 hm with ⟨m', h1, h2⟩ | ⟨k, d, h1, hk⟩
      · simp only [h1]
        apply foldlM_res _ _ _ m' h2
        intro m2 t2 ht2 hm2
        have hlt : t2.length < t.length := presplit_pieces_shorter m t p hp t2 (rollback_pieces m t p t2 ht2)
        exact ih m2 t2 hm2 (by omega)
      · simp only [h1]; exact Or.inr ⟨k, d, rfl, hk⟩

/-- a parse result or a `ParseError` of a documented kind -/
def PRes (r : Except Err PResult) : Prop :=
  (∃ x, r = .ok x) ∨ (∃ k d, r = .error (.parse k d) ∧ k ∈ docKinds)

theorem MInv.init (initial : Option Ctx) (registry : List Ctx) (ign : Bool) (h : specWF initial registry = true) :
    MInv { initial := initial, cur := none, registry := registry, ignoreUnknown := ign } := by
  simp only [specWF, Bool.and_eq_true] at h
  exact { ini := fun c hc => by
            simp only at hc; subst hc; simpa [optOkI] using h.1
          cur := fun c hc => by simp at hc
          reg := fun c hc => (List.all_eq_true.mp h.2) c hc
          curSome := fun hh => by simp at hh }

theorem parseArgv_res (initial : Option Ctx) (registry : List Ctx) (ign : Bool) (argv : List Tok)
    (h : specWF initial registry = true) : PRes (parseArgv initial registry ign argv) := by
  unfold parseArgv
  simp only []
  have h0 := MInv.init initial registry ign h
  rcases enter_Res _ h0 with ⟨m1, e1, hm1⟩ | ⟨k, d, e1, hk⟩
  · simp only [e1, bind, Except.bind]
    have hf := foldlM_res (fun m t => procTok (t.length + 2) m t) (argv.takeWhile (· ≠ ['-','-']))
      (fun m t _ hm => procTok_res (t.length + 2) m t hm (by omega)) m1 hm1
    rcases hf with ⟨m2, e2, hm2⟩ | ⟨k, d, e2, hk⟩
    · simp only [e2]
      rcases enter_Res { m2 with st := .end } (hm2.congr rfl rfl rfl rfl) with ⟨m3, e3, _⟩ | ⟨k, d, e3, hk⟩
      · simp only [e3]; exact Or.inl ⟨_, rfl⟩
      · simp only [e3]; exact Or.inr ⟨k, d, rfl, hk⟩
    · simp only [e2]; exact Or.inr ⟨k, d, rfl, hk⟩
  · simp only [e1, bind, Except.bind]; exact Or.inr ⟨k, d, rfl, hk⟩
end Inv
