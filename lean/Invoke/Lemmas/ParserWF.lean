import Invoke.Model.Parser
/-! C07: the decidable well-formedness predicate on parser specifications under which the totality
    theorems (`Props/C07.lean`) are stated, and the machine invariant it induces.

    `specWF` is what contexts built by `Task.get_arguments` / `Program.core_args` from *documented*
    signatures satisfy (kinds str/int/bool/list; a counter — `incrementable` — has an integer default;
    non-initial contexts are named, as `Parser.__init__` demands; the core `help` argument is not
    int-typed).  The correspondence harness evaluates it on every generated specification through
    the driver (column `W`), so the share of the distribution covered by proof is reported.
    Additive file: nothing in `Model/Parser.lean` is changed. -/
namespace Inv

def PVal.isInt : PVal → Bool | .i _ => true | _ => false
def PVal.isList : PVal → Bool | .l _ => true | _ => false

/-- the argument is in a state in which `Argument.set_value` cannot raise anything but a cast `ValueError`:
    a counter holds an integer, a list-type argument holds a list (and so has a raw value) -/
def Arg.ok (a : Arg) : Bool :=
  if a.spec.incrementable then a.val.isInt
  else if a.spec.kind = .list then a.val.isList && a.raw.isSome
  else true

/-- the core `--help` argument (whose value is set to the task name by `handle`) -/
def Arg.isHelp (a : Arg) : Bool := a.spec.names.headD [] = "help".toList
/-- `flag.value = self.context.name` must not run an `int()` cast -/
def Arg.helpOk (a : Arg) : Bool := !a.isHelp || !(a.spec.kind = .int) || a.spec.incrementable
def Arg.okI (a : Arg) : Bool := a.ok && a.helpOk

/-- every inverse flag points to a flag of the context (guaranteed by `add_arg`) -/
def Ctx.invTargetOk (c : Ctx) (p : Tok × Tok) : Bool := (assoc? p.2 c.flags).isSome
def Ctx.invOk (c : Ctx) : Bool := c.inverse.all c.invTargetOk

def Ctx.ok (c : Ctx) : Bool := c.args.all Arg.ok && c.invOk
/-- initial (core) context -/
def Ctx.okI (c : Ctx) : Bool := c.args.all Arg.okI && c.invOk
/-- registry (task) context: `Parser.__init__` refuses nameless contexts -/
def Ctx.okR (c : Ctx) : Bool := c.ok && c.name.isSome

def optOkI : Option Ctx → Bool | some c => c.okI | none => true

/-- WF of a parser specification (decidable) -/
def specWF (initial : Option Ctx) (registry : List Ctx) : Bool := optOkI initial && registry.all Ctx.okR

/-- spec-level condition from which `Arg.ok` of the freshly built argument follows -/
def ArgSpec.wf (sp : ArgSpec) : Bool := !sp.incrementable || sp.default.isInt

theorem Arg.init_ok (sp : ArgSpec) (h : sp.wf = true) : (Arg.init sp).ok = true := by
  unfold ArgSpec.wf at h
  unfold Arg.ok Arg.init
  by_cases hi : sp.incrementable = true
  · simp [hi] at h ⊢; exact h
  · simp [hi]
    by_cases hk : sp.kind = .list
    · simp [hk, PVal.isList]
    · simp [hk]

end Inv
