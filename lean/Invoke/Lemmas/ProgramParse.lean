import Invoke.Model.Program
import Invoke.Lemmas.ParserSituations
/-! C18: helper lemmas about the remainder split, the frame of the machine steps (which steps touch the
    state / the unparsed list) and the suffix structure of the unparsed list. -/
namespace Inv
open M

theorem takeWhile_ne_append (d : Tok) : ∀ (body rem : List Tok), d ∉ body →
    (body ++ d :: rem).takeWhile (· ≠ d) = body
  | [], rem, _ => by simp
  | b :: bs, rem, h => by
    have hb : decide (b ≠ d) = true := decide_eq_true (fun e => h (by simp [e]))
    have hbs : d ∉ bs := fun e => h (by simp [e])
    rw [List.cons_append, List.takeWhile_cons, hb, if_pos rfl, takeWhile_ne_append d bs rem hbs]

theorem dropWhile_ne_append (d : Tok) : ∀ (body rem : List Tok), d ∉ body →
    (body ++ d :: rem).dropWhile (· ≠ d) = d :: rem
  | [], rem, _ => by simp
  | b :: bs, rem, h => by
    have hb : decide (b ≠ d) = true := decide_eq_true (fun e => h (by simp [e]))
    have hbs : d ∉ bs := fun e => h (by simp [e])
    rw [List.cons_append, List.dropWhile_cons, hb, if_pos rfl, dropWhile_ne_append d bs rem hbs]

theorem takeWhile_ne_self (d : Tok) : ∀ (body : List Tok), d ∉ body → body.takeWhile (· ≠ d) = body
  | [], _ => by simp
  | b :: bs, h => by
    have hb : decide (b ≠ d) = true := decide_eq_true (fun e => h (by simp [e]))
    have hbs : d ∉ bs := fun e => h (by simp [e])
    rw [List.takeWhile_cons, hb, if_pos rfl, takeWhile_ne_self d bs hbs]

theorem dropWhile_ne_self (d : Tok) : ∀ (body : List Tok), d ∉ body → body.dropWhile (· ≠ d) = []
  | [], _ => by simp
  | b :: bs, h => by
    have hb : decide (b ≠ d) = true := decide_eq_true (fun e => h (by simp [e]))
    have hbs : d ∉ bs := fun e => h (by simp [e])
    rw [List.dropWhile_cons, hb, if_pos rfl, dropWhile_ne_self d bs hbs]

/-- what the remainder does to a parse: nothing but filling the `remainder` field -/
def withRemainder (rem : List Tok) : Except Err PResult → Except Err PResult
  | .ok r => .ok { r with remainder := [' '].intercalate rem }
  | .error e => .error e

theorem parseArgv_remainder (initial : Option Ctx) (registry : List Ctx) (ign : Bool) (body rem : List Tok)
    (hb : ['-', '-'] ∉ body) :
    parseArgv initial registry ign (body ++ ['-', '-'] :: rem) = withRemainder rem (parseArgv initial registry ign body) := by
  unfold parseArgv
  have h1 := takeWhile_ne_append ['-','-'] body rem hb
  have h2 := dropWhile_ne_append ['-','-'] body rem hb
  have h3 := takeWhile_ne_self ['-','-'] body hb
  have h4 := dropWhile_ne_self ['-','-'] body hb
  simp only [h1, h2, h3, h4, List.drop_succ_cons, List.drop_zero, List.drop_nil]
  cases M.enter { initial := initial, cur := none, registry := registry, ignoreUnknown := ign } with
  | error e => rfl
  | ok m0 =>
    simp only [bind, Except.bind]
    cases List.foldlM (fun m t => procTok (t.length + 2) m t) m0 body with
    | error e => rfl
    | ok m =>
      simp only []
      cases M.enter { m with st := .end } with
      | error e => rfl
      | ok m' => rfl
/-- the parts of the machine that only `see_unknown` / `finish` touch -/
def Frame (m m' : M) : Prop := m'.st = m.st ∧ m'.unparsed = m.unparsed

theorem Frame.refl (m : M) : Frame m m := ⟨rfl, rfl⟩
theorem Frame.trans {a b c : M} (h1 : Frame a b) (h2 : Frame b c) : Frame a c := ⟨h2.1.trans h1.1, h2.2.trans h1.2⟩

theorem setCtx_frame (m : M) (c : Ctx) : Frame m (m.setCtx c) := by
  unfold M.setCtx; split <;> exact ⟨rfl, rfl⟩

theorem updFlagArg_frame (m : M) (a : Arg) : Frame m (m.updFlagArg a) := by
  unfold M.updFlagArg
  repeat' split
  all_goals first | exact Frame.refl m | exact setCtx_frame m _ | exact ⟨rfl, rfl⟩

theorem completeFlag_frame (m m' : M) (h : completeFlag m = .ok m') : Frame m m' := by
  unfold M.completeFlag at h
  split at h
  · cases h; exact Frame.refl m
  · split at h
    · cases h
    · split at h
      · simp only [bind, Except.bind] at h
        split at h
        · cases h
        · cases h; exact updFlagArg_frame m _
      · cases h; exact Frame.refl m

theorem completeContext_eq (m m' : M) (h : completeContext m = .ok m') : m' = m := by
  unfold M.completeContext at h
  split at h
  · cases h; rfl
  · split at h
    · cases h
    · cases h; rfl

theorem enter_frame (m m' : M) (h : enter m = .ok m') : Frame m m' := by
  unfold M.enter at h
  cases h1 : completeFlag m with
  | error e => simp [h1, bind, Except.bind] at h
  | ok m1 =>
    simp only [h1, bind, Except.bind] at h
    have := completeContext_eq m1 m' h
    subst this
    exact completeFlag_frame m m' h1

/-- `see_unknown`: the token is appended verbatim and the machine is in state "unknown" -/
theorem seeUnknown_spec (m m' : M) (t : Tok) (h : seeUnknown m t = .ok m') :
    m'.st = .unknown ∧ m'.unparsed = m.unparsed ++ [t] := by
  unfold M.seeUnknown at h
  cases h1 : enter m with
  | error e => simp [h1, bind, Except.bind] at h
  | ok m1 =>
    simp only [h1, bind, Except.bind] at h
    cases h
    exact ⟨rfl, by rw [(enter_frame m m1 h1).2]⟩

theorem switchToContext_frame (m m' : M) (t : Tok) (h : switchToContext m t = .ok m') : Frame m m' := by
  unfold M.switchToContext at h
  cases h1 : enter m with
  | error e => simp [h1, bind, Except.bind] at h
  | ok m1 =>
    simp only [h1, bind, Except.bind] at h
    split at h
    · cases h
    · cases h; exact enter_frame m m1 h1

theorem seeValue_frame (m m' : M) (v : Tok) (h : seeValue m v = .ok m') : Frame m m' := by
  unfold M.seeValue at h
  cases h0 : checkAmbiguity m v with
  | error e => simp [h0, bind, Except.bind] at h
  | ok u =>
    simp only [h0, bind, Except.bind] at h
    split at h
    · split at h
      · split at h
        · next a' _ => cases h; exact ⟨(updFlagArg_frame m a').1, (updFlagArg_frame m a').2⟩
        · cases h
        · cases h
      · cases h
    · cases h

theorem seePositional_frame (m m' : M) (v : Tok) (h : seePositional m v = .ok m') : Frame m m' := by
  unfold M.seePositional at h
  repeat' split at h
  all_goals first
    | (cases h; done)
    | (cases h; exact Frame.refl m)
    | (cases h; exact setCtx_frame m _)

theorem switchToFlag_frame (m m' : M) (t : Tok) (inv : Bool) (h : switchToFlag m t inv = .ok m') : Frame m m' := by
  unfold M.switchToFlag at h
  cases h0 : checkAmbiguity m t with
  | error e => simp [h0, bind, Except.bind] at h
  | ok u =>
    simp only [h0, bind, Except.bind] at h
    cases h1 : completeFlag m with
    | error e => simp [h1] at h
    | ok m1 =>
      have f1 := completeFlag_frame m m1 h1
      simp only [h1] at h
      repeat' split at h
      all_goals first
        | (cases h; done)
        | (cases h; exact ⟨f1.1, f1.2⟩)
        | (cases h; refine Frame.trans ?_ (updFlagArg_frame _ _); exact ⟨f1.1, f1.2⟩)

/-- one step of the machine either leaves state and unparsed list alone, or stores the token verbatim as unknown -/
theorem handle_frame (m m' : M) (tok : Tok) (h : handle m tok = .ok m') :
    Frame m m' ∨ (m'.st = .unknown ∧ m'.unparsed = m.unparsed ++ [tok]) := by
  unfold M.handle at h
  split at h
  · exact Or.inr (seeUnknown_spec m m' tok h)
  · simp only [] at h
    repeat' split at h
    all_goals first
      | exact Or.inr (seeUnknown_spec m m' tok h)
      | exact Or.inl (switchToFlag_frame m m' tok _ h)
      | exact Or.inl (seeValue_frame m m' tok h)
      | exact Or.inl (seePositional_frame m m' tok h)
      | exact Or.inl (switchToContext_frame m m' tok h)
      | (cases h; done)
      | (cases h; exact Or.inl (Frame.refl m))
      | (simp only [bind, Except.bind] at h; split at h <;> cases h; exact Or.inl ⟨rfl, rfl⟩)

def Unk (m : M) : Prop := m.st = .unknown ∧ m.unparsed ≠ []
def Clean (m : M) : Prop := m.st ≠ .unknown ∧ m.unparsed = []

/-- in state "unknown" a token is never split: it is appended verbatim -/
theorem procTok_unknown (n : Nat) (m m' : M) (t : Tok) (hu : Unk m) (h : procTok (n + 1) m t = .ok m') :
    m'.st = .unknown ∧ m'.unparsed = m.unparsed ++ [t] := by
  unfold procTok at h
  have he : m.unparsed.isEmpty = false := by
    cases hh : m.unparsed with
    | nil => exact absurd hh hu.2
    | cons a b => rfl
  have hp : presplit m t = .ok (t, []) := by simp [presplit, he]
  have hr : rollback m t (t, []) = (t, []) := by unfold rollback; split <;> rfl
  simp only [hp, hr] at h
  have hh : M.handle m t = M.seeUnknown m t := by unfold M.handle; rw [if_pos hu.1]
  rw [hh] at h
  cases hs : M.seeUnknown m t with
  | error e => simp [hs] at h
  | ok m1 =>
    simp only [hs, List.foldlM_nil, pure, Except.pure] at h
    have e : m' = m1 := by simpa using h.symm
    rw [e]
    exact seeUnknown_spec m m1 t hs

theorem class_of_handle (m m' : M) (tok : Tok) (hc : Clean m ∨ Unk m) (h : handle m tok = .ok m') : Clean m' ∨ Unk m' := by
  rcases handle_frame m m' tok h with hf | ⟨h1, h2⟩
  · rcases hc with hc | hc
    · exact Or.inl ⟨by rw [hf.1]; exact hc.1, by rw [hf.2]; exact hc.2⟩
    · exact Or.inr ⟨by rw [hf.1]; exact hc.1, by rw [hf.2]; exact hc.2⟩
  · exact Or.inr ⟨h1, by rw [h2]; simp⟩

theorem class_of_fold (f : M → Tok → Except Err M) (hf : ∀ m t m', (Clean m ∨ Unk m) → f m t = .ok m' → (Clean m' ∨ Unk m')) :
    ∀ (ts : List Tok) (m m' : M), (Clean m ∨ Unk m) → ts.foldlM f m = .ok m' → (Clean m' ∨ Unk m')
  | [], m, m', hc, h => by simp [pure, Except.pure] at h; subst h; exact hc
  | t :: ts, m, m', hc, h => by
    rw [List.foldlM_cons] at h
    cases h1 : f m t with
    | error e => simp [h1, bind, Except.bind] at h
    | ok m1 =>
      simp only [h1, bind, Except.bind] at h
      exact class_of_fold f hf ts m1 m' (hf m t m1 hc h1) h

theorem class_of_procTok : ∀ (n : Nat) (m m' : M) (t : Tok), (Clean m ∨ Unk m) → procTok n m t = .ok m' → (Clean m' ∨ Unk m') := by
  intro n
  induction n with
  | zero => intro m m' t _ h; simp [procTok] at h
  | succ n ih =>
    intro m m' t hc h
    unfold procTok at h
    cases hp : presplit m t with
    | error e => simp [hp] at h
    | ok p =>
      simp only [hp] at h
      cases hh : M.handle m (rollback m t p).1 with
      | error e => simp [hh] at h
      | ok m1 =>
        simp only [hh] at h
        exact class_of_fold (procTok n) (fun m t m' => ih m m' t) _ m1 m' (class_of_handle m m1 _ hc hh) h

/-- from a clean state a token that is not flag-like is handled as is: either the state stays clean or the
    token itself becomes the first unparsed token -/
theorem procTok_clean_plain (n : Nat) (m m' : M) (t : Tok) (hc : Clean m) (hnf : isFlag t = false)
    (h : procTok (n + 1) m t = .ok m') : Clean m' ∨ (m'.st = .unknown ∧ m'.unparsed = [t]) := by
  unfold procTok at h
  have hp : presplit m t = .ok (t, []) := by simp [presplit, hnf]
  have hr : rollback m t (t, []) = (t, []) := by unfold rollback; split <;> rfl
  simp only [hp, hr] at h
  cases hs : M.handle m t with
  | error e => simp [hs] at h
  | ok m1 =>
    simp only [hs, List.foldlM_nil, pure, Except.pure] at h
    have e : m' = m1 := by simpa using h.symm
    rw [e]
    rcases handle_frame m m1 t hs with hf | ⟨h1, h2⟩
    · exact Or.inl ⟨by rw [hf.1]; exact hc.1, by rw [hf.2]; exact hc.2⟩
    · exact Or.inr ⟨h1, by rw [h2, hc.2]; rfl⟩

def step (m : M) (t : Tok) : Except Err M := procTok (t.length + 2) m t

theorem fold_unknown : ∀ (ts : List Tok) (m m' : M), Unk m → ts.foldlM step m = .ok m' →
    m'.st = .unknown ∧ m'.unparsed = m.unparsed ++ ts
  | [], m, m', hu, h => by simp [pure, Except.pure] at h; subst h; exact ⟨hu.1, by simp⟩
  | t :: ts, m, m', hu, h => by
    rw [List.foldlM_cons] at h
    cases h1 : step m t with
    | error e => simp [h1, bind, Except.bind] at h
    | ok m1 =>
      simp only [h1, bind, Except.bind] at h
      have s1 := procTok_unknown (t.length + 1) m m1 t hu h1
      have hu1 : Unk m1 := ⟨s1.1, by rw [s1.2]; simp⟩
      have s2 := fold_unknown ts m1 m' hu1 h
      exact ⟨s2.1, by rw [s2.2, s1.2]; simp⟩

/-- THE SUFFIX LEMMA.  From a clean state: either the whole list is consumed cleanly, or the list splits as
    `pre ++ t :: rest` where `t` is the first token (partly) stored as unparsed, and the unparsed list is
    `ps ++ rest` — every later token verbatim and in order, `ps` the stored pieces of `t`, and `ps = [t]`
    when `t` is not flag-like -/
theorem fold_clean : ∀ (ts : List Tok) (m m' : M), Clean m → ts.foldlM step m = .ok m' →
    Clean m' ∨ ∃ pre t rest ps, ts = pre ++ t :: rest ∧ m'.unparsed = ps ++ rest ∧ ps ≠ [] ∧
      (isFlag t = false → ps = [t]) ∧ m'.st = .unknown
  | [], m, m', hc, h => by simp [pure, Except.pure] at h; subst h; exact Or.inl hc
  | t :: ts, m, m', hc, h => by
    rw [List.foldlM_cons] at h
    cases h1 : step m t with
    | error e => simp [h1, bind, Except.bind] at h
    | ok m1 =>
      simp only [h1, bind, Except.bind] at h
      rcases class_of_procTok _ m m1 t (Or.inl hc) h1 with hc1 | hu1
      · rcases fold_clean ts m1 m' hc1 h with h2 | ⟨pre, t', rest, ps, e1, e2, e3, e4, e5⟩
        · exact Or.inl h2
        · exact Or.inr ⟨t :: pre, t', rest, ps, by rw [e1]; rfl, e2, e3, e4, e5⟩
      · have s2 := fold_unknown ts m1 m' hu1 h
        refine Or.inr ⟨[], t, ts, m1.unparsed, rfl, s2.2, hu1.2, ?_, s2.1⟩
        intro hnf
        rcases procTok_clean_plain (t.length + 1) m m1 t hc hnf h1 with hcc | ⟨_, h4⟩
        · exact absurd hcc.2 hu1.2
        · exact h4

/-! ### parse level -/

theorem parseArgv_unparsed (initial : Option Ctx) (registry : List Ctx) (ign : Bool) (argv : List Tok) (r : PResult)
    (h : parseArgv initial registry ign argv = .ok r) :
    r.unparsed = [] ∨ ∃ pre t rest ps, bodyOf argv = pre ++ t :: rest ∧ r.unparsed = ps ++ rest ∧ ps ≠ [] ∧
      (isFlag t = false → ps = [t]) := by
  unfold parseArgv at h
  cases h0 : M.enter { initial := initial, cur := none, registry := registry, ignoreUnknown := ign } with
  | error e => simp [h0, bind, Except.bind] at h
  | ok m0 =>
    simp only [h0, bind, Except.bind] at h
    have f0 := enter_frame _ m0 h0
    have hc0 : Clean m0 := ⟨by rw [f0.1]; simp, by rw [f0.2]⟩
    split at h
    · cases h
    · next m1 h1 =>
      split at h
      · cases h
      · next m2 h2 =>
        have f2 := enter_frame _ m2 h2
        have hu : r.unparsed = m1.unparsed := by
          have : r = _ := (Except.ok.inj h).symm
          rw [this]; exact f2.2
        rcases fold_clean _ m0 m1 hc0 h1 with hc | ⟨pre, t, rest, ps, e1, e2, e3, e4, _⟩
        · exact Or.inl (by rw [hu]; exact hc.2)
        · exact Or.inr ⟨pre, t, rest, ps, e1, by rw [hu]; exact e2, e3, e4⟩

def withRemainderP (rem : List Tok) : Except Err ProgResult → Except Err ProgResult
  | .ok r => .ok { r with remainder := [' '].intercalate rem }
  | .error e => .error e

theorem programParse_remainder (core : Ctx) (registry : List Ctx) (body rem : List Tok) (hb : ['-', '-'] ∉ body) :
    programParse core registry (body ++ ['-', '-'] :: rem) = withRemainderP rem (programParse core registry body) := by
  unfold programParse corePass
  rw [parseArgv_remainder (some core) [] true body rem hb]
  cases parseArgv (some core) [] true body with
  | error e => rfl
  | ok r1 =>
    simp only [withRemainder, bind, Except.bind]
    cases r1.contexts with
    | nil => rfl
    | cons c cs =>
      simp only [pure, Except.pure]
      cases taskPass core registry r1.unparsed with
      | error e => rfl
      | ok r2 =>
        simp only []
        cases r2.contexts with
        | nil => rfl
        | cons v ts => rfl

theorem programParse_unparsed (core : Ctx) (registry : List Ctx) (argv : List Tok) (r : ProgResult)
    (h : programParse core registry argv = .ok r) :
    ∃ r1, corePass core argv = .ok r1 ∧ r.unparsed = r1.unparsed ∧ r.remainder = r1.remainder := by
  unfold programParse at h
  cases h1 : corePass core argv with
  | error e => simp [h1, bind, Except.bind] at h
  | ok r1 =>
    simp only [h1, bind, Except.bind] at h
    refine ⟨r1, rfl, ?_⟩
    cases hc : r1.contexts with
    | nil => simp [hc, throw, throwThe, MonadExceptOf.throw] at h
    | cons c cs =>
      simp only [hc, pure, Except.pure] at h
      cases h2 : taskPass core registry r1.unparsed with
      | error e => simp [h2] at h
      | ok r2 =>
        simp only [h2] at h
        cases hc2 : r2.contexts with
        | nil => simp [hc2, throw, throwThe, MonadExceptOf.throw] at h
        | cons v ts =>
          simp only [hc2] at h
          have : r = _ := (Except.ok.inj h).symm
          rw [this]; exact ⟨rfl, rfl⟩

/-! ### one-step effect of a core flag / a shadowing task flag inside a task context -/

theorem flagArg_of_none (m : M) (h : m.flag = none) : m.flagArg = none := by unfold M.flagArg; rw [h]
theorem waiting_of_noflag (m : M) (h : m.flag = none) : m.waiting = false := by unfold M.waiting; rw [flagArg_of_none m h]
theorem checkAmbiguity_of_noflag (m : M) (v : Tok) (h : m.flag = none) : checkAmbiguity m v = .ok () := by
  unfold M.checkAmbiguity; rw [flagArg_of_none m h]
theorem completeFlag_of_noflag (m : M) (h : m.flag = none) : completeFlag m = .ok m := by
  unfold M.completeFlag; rw [flagArg_of_none m h]

theorem core_bool_in_core (m : M) (ic : Ctx) (tok : Tok) (i : Nat) (a a' : Arg) (hst : m.st = .context)
    (hci : m.curIsInitial = true) (hi : m.initial = some ic) (hfl : m.flag = none)
    (hf : assoc? tok ic.flags = some i) (ha : ic.args[i]? = some a) (ht : a.takesValue = false)
    (hs : a.setValue (.b true) = .ok a') :
    handle m tok = .ok { m with initial := some { ic with args := ic.args.set i a' }, flag := some (.cur, i), flagGotValue := false } := by
  have hctx : m.ctx = some ic := by unfold M.ctx; rw [hci, hi]; rfl
  unfold M.handle
  simp only [hst, hctx, hf, Option.isSome_some, if_true, reduceCtorEq, if_false]
  unfold M.switchToFlag
  simp only [checkAmbiguity_of_noflag m tok hfl, completeFlag_of_noflag m hfl, bind, Except.bind, hctx, pure, Except.pure,
    Bool.false_eq_true, if_false, hf]
  simp [M.flagArg, M.updFlagArg, M.ctx, M.setCtx, hci, hi, ha, ht, hs, hst]

theorem core_bool_in_task (m : M) (c ic : Ctx) (tok : Tok) (i : Nat) (a a' : Arg) (hst : m.st = .context)
    (hci : m.curIsInitial = false) (hc : m.cur = some c) (hi : m.initial = some ic) (hfl : m.flag = none)
    (hcf : assoc? tok c.flags = none) (hcinv : assoc? tok c.inverse = none) (hl : m.lookupCtx tok = none)
    (hf : assoc? tok ic.flags = some i) (ha : ic.args[i]? = some a) (hh : a.spec.names.headD [] ≠ "help".toList)
    (ht : a.takesValue = false) (hs : a.setValue (.b true) = .ok a') :
    handle m tok = .ok { m with initial := some { ic with args := ic.args.set i a' }, flag := some (.initial, i), flagGotValue := false } := by
  have hctx : m.ctx = some c := by unfold M.ctx; rw [hci, hc]; rfl
  unfold M.handle
  simp only [hst, hctx, hcf, hcinv, Option.isSome_none, Bool.false_eq_true, if_false, reduceCtorEq,
    waiting_of_noflag m hfl, hi, hf, Option.isSome_some, hci, Bool.not_false, Bool.and_self, Bool.not_true, Bool.and_false,
    hl, if_true, Option.bind_some, ha, hh]
  unfold M.switchToFlag
  simp only [checkAmbiguity_of_noflag m tok hfl, completeFlag_of_noflag m hfl, bind, Except.bind, hctx, pure, Except.pure,
    Bool.false_eq_true, if_false, hcf, hi, Option.bind_some, hf]
  simp [M.flagArg, M.updFlagArg, ha, ht, hs, hst, hci]

theorem shadow_bool_in_task (m : M) (c : Ctx) (tok : Tok) (i : Nat) (a a' : Arg) (hst : m.st = .context)
    (hci : m.curIsInitial = false) (hc : m.cur = some c) (hfl : m.flag = none)
    (hf : assoc? tok c.flags = some i) (ha : c.args[i]? = some a) (ht : a.takesValue = false)
    (hs : a.setValue (.b true) = .ok a') :
    handle m tok = .ok { m with cur := some { c with args := c.args.set i a' }, flag := some (.cur, i), flagGotValue := false } := by
  have hctx : m.ctx = some c := by unfold M.ctx; rw [hci, hc]; rfl
  unfold M.handle
  simp only [hst, hctx, hf, Option.isSome_some, if_true, reduceCtorEq, if_false]
  unfold M.switchToFlag
  simp only [checkAmbiguity_of_noflag m tok hfl, completeFlag_of_noflag m hfl, bind, Except.bind, hctx, pure, Except.pure,
    Bool.false_eq_true, if_false, hf]
  simp [M.flagArg, M.updFlagArg, M.ctx, M.setCtx, hci, hc, ha, ht, hs, hst]

theorem shadow_value_in_task (m : M) (c : Ctx) (tok : Tok) (i : Nat) (a : Arg) (hst : m.st = .context)
    (hci : m.curIsInitial = false) (hc : m.cur = some c) (hfl : m.flag = none)
    (hf : assoc? tok c.flags = some i) (ha : c.args[i]? = some a) (ht : a.takesValue = true) :
    handle m tok = .ok { m with flag := some (.cur, i), flagGotValue := false } := by
  have hctx : m.ctx = some c := by unfold M.ctx; rw [hci, hc]; rfl
  unfold M.handle
  simp only [hst, hctx, hf, Option.isSome_some, if_true, reduceCtorEq, if_false]
  unfold M.switchToFlag
  simp only [checkAmbiguity_of_noflag m tok hfl, completeFlag_of_noflag m hfl, bind, Except.bind, hctx, pure, Except.pure,
    Bool.false_eq_true, if_false, hf]
  simp [M.flagArg, M.ctx, hci, hc, ha, ht, hst]
/-- step 1 of a value-taking core flag inside a task: the machine points at the CORE argument, nothing else changes -/
theorem core_value_flag_in_task (m : M) (c ic : Ctx) (tok : Tok) (i : Nat) (a : Arg) (hst : m.st = .context)
    (hci : m.curIsInitial = false) (hc : m.cur = some c) (hi : m.initial = some ic) (hfl : m.flag = none)
    (hcf : assoc? tok c.flags = none) (hcinv : assoc? tok c.inverse = none) (hl : m.lookupCtx tok = none)
    (hf : assoc? tok ic.flags = some i) (ha : ic.args[i]? = some a) (hh : a.spec.names.headD [] ≠ "help".toList)
    (ht : a.takesValue = true) :
    handle m tok = .ok { m with flag := some (.initial, i), flagGotValue := false } := by
  have hctx : m.ctx = some c := by unfold M.ctx; rw [hci, hc]; rfl
  unfold M.handle
  simp only [hst, hctx, hcf, hcinv, Option.isSome_none, Bool.false_eq_true, if_false, reduceCtorEq,
    waiting_of_noflag m hfl, hi, hf, Option.isSome_some, hci, Bool.not_false, Bool.and_self, Bool.not_true, Bool.and_false,
    hl, if_true, Option.bind_some, ha, hh]
  unfold M.switchToFlag
  simp only [checkAmbiguity_of_noflag m tok hfl, completeFlag_of_noflag m hfl, bind, Except.bind, hctx, pure, Except.pure,
    Bool.false_eq_true, if_false, hcf, hi, Option.bind_some, hf]
  simp [M.flagArg, ha, ht, hst, hci]

/-- step 2: the next token (not a flag of the task) becomes the value of the CORE argument, whatever the task's
    positionals are; the task context is untouched -/
theorem core_value_received_in_task (m : M) (c ic : Ctx) (v : Tok) (i : Nat) (a a' : Arg) (hst : m.st = .context)
    (hci : m.curIsInitial = false) (hc : m.cur = some c) (hi : m.initial = some ic) (hfl : m.flag = some (.initial, i))
    (hcf : assoc? v c.flags = none) (hcinv : assoc? v c.inverse = none)
    (ha : ic.args[i]? = some a) (ht : a.takesValue = true) (hr : a.raw = none) (ho : a.spec.optional = false)
    (hk : a.spec.kind ≠ .list) (hs : a.setValue (.s v) = .ok a') :
    handle m v = .ok { m with initial := some { ic with args := ic.args.set i a' }, flagGotValue := true } := by
  have hctx : m.ctx = some c := by unfold M.ctx; rw [hci, hc]; rfl
  have hfa : m.flagArg = some a := by unfold M.flagArg; rw [hfl]; simp [hi, ha]
  have hw : m.waiting = true := by unfold M.waiting; rw [hfa]; simp [ht, hr, hk]
  unfold M.handle
  have hop : m.optionalPending = false := by simp [M.optionalPending, hfa, ho]
  simp only [hst, hctx, hcf, hcinv, Option.isSome_none, Bool.false_eq_true, if_false, reduceCtorEq, hw, hop, Bool.false_and,
    Bool.not_false, Bool.and_self, if_true]
  unfold M.seeValue M.checkAmbiguity
  simp only [hfa, ho, bind, Except.bind, ht, if_true, hs]
  simp [M.updFlagArg, hfl, hi, hst]
end Inv
