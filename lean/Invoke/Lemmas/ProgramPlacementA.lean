import Invoke.Lemmas.ParserErase
import Invoke.Lemmas.SpellChain
import Invoke.Lemmas.ProgramParse
/-! C18: a core item (Boolean core flag, value-taking core flag in spaced form) inserted between two items of a task
    call — composition of the erasure lemma with the C01 item / chain lemmas (`run_with_core`). -/
namespace Inv
open M

/-! ### the side conditions of C01 items look at the core context only through its flag table -/

theorem NotCoreFlag_congr (ic ic' : Ctx) (hfl : ic'.flags = ic.flags) (v : Tok) (h : NotCoreFlag (some ic) v) :
    NotCoreFlag (some ic') v := by
  intro c0 hc0
  cases hc0
  rw [hfl]; exact h ic rfl

theorem OptValueOK_congr (ic ic' : Ctx) (hfl : ic'.flags = ic.flags) (reg : List Ctx) (c : Ctx) (a : Arg) (v : Tok)
    (h : OptValueOK (some ic) reg c a v) : OptValueOK (some ic') reg c a v := by
  rcases h with h | ⟨h1, h2, h3, h4, h5⟩
  · exact Or.inl h
  · refine Or.inr ⟨?_, NotCoreFlag_congr ic ic' hfl v h2, h3, h4, h5⟩
    rcases h1 with h1 | ⟨g1, g2, g3, g4⟩
    · exact Or.inl h1
    · exact Or.inr ⟨g1, g2, NotCoreFlag_congr ic ic' hfl _ g3, NotCoreFlag_congr ic ic' hfl _ g4⟩

theorem ValFlagOK_congr (ic ic' : Ctx) (hfl : ic'.flags = ic.flags) {reg : List Ctx} {c : Ctx} {fl : Tok} {i : Nat} {v : Tok}
    {a a' : Arg} (h : ValFlagOK (some ic) reg c fl i v a a') : ValFlagOK (some ic') reg c fl i v a a' :=
  ⟨h.hfl, h.hai, h.tv, h.fresh, h.hv1, h.hv2, h.give, OptValueOK_congr ic ic' hfl reg c a v h.opt⟩

theorem Item.ok_congr (ic ic' : Ctx) (hfl : ic'.flags = ic.flags) (reg : List Ctx) (c : Ctx) (it : Item)
    (h : it.ok (some ic) reg c) : it.ok (some ic') reg c := by
  cases it with
  | pos v j =>
    obtain ⟨h1, h2, h3, h4, h5⟩ := h
    exact ⟨h1, h2, h3, NotCoreFlag_congr ic ic' hfl v h4, h5⟩
  | spaced fl v i =>
    obtain ⟨h1, a, a', h2⟩ := h
    exact ⟨h1, a, a', ValFlagOK_congr ic ic' hfl h2⟩
  | eq fl v i =>
    obtain ⟨h1, a, a', h2⟩ := h
    exact ⟨h1, a, a', ValFlagOK_congr ic ic' hfl h2⟩
  | glued x y w i =>
    obtain ⟨h1, h2, a, a', h3⟩ := h
    exact ⟨h1, h2, a, a', ValFlagOK_congr ic ic' hfl h3⟩
  | toggle fl i => exact h
  | inverse nofl i => exact h
  | block x i rest => exact h
  | optBare fl i => exact h

theorem ItemsOK_congr (ic ic' : Ctx) (hfl : ic'.flags = ic.flags) (reg : List Ctx) :
    ∀ (items : List Item) (pend : Bool) (c : Ctx), ItemsOK (some ic) reg pend c items → ItemsOK (some ic') reg pend c items
  | [], _, _, _ => trivial
  | it :: r, pend, c, h => ⟨Item.ok_congr ic ic' hfl reg c it h.1, h.2.1, ItemsOK_congr ic ic' hfl reg r _ _ h.2.2⟩

theorem ChainOK_congr (ic ic' : Ctx) (hfl : ic'.flags = ic.flags) (reg : List Ctx) :
    ∀ (calls : List Call) (prev : Option Ctx), ChainOK (some ic) reg prev calls → ChainOK (some ic') reg prev calls
  | [], _, h => h
  | k :: r, prev, h => ⟨⟨h.1.1, h.1.2.1, ItemsOK_congr ic ic' hfl reg _ _ _ h.1.2.2⟩, h.2.1, ChainOK_congr ic ic' hfl reg r _ h.2.2⟩

theorem endsBare_append : ∀ (xs ys : List Item) (p : Bool), endsBare p (xs ++ ys) = endsBare (endsBare p xs) ys
  | [], _, _ => rfl
  | x :: xs, ys, p => by simp [endsBare, endsBare_append xs ys]

theorem ItemsOK_append (ic : Option Ctx) (reg : List Ctx) : ∀ (xs ys : List Item) (p : Bool) (c : Ctx),
    ItemsOK ic reg p c (xs ++ ys) → ItemsOK ic reg p c xs ∧ ItemsOK ic reg (endsBare p xs) (xs.foldl Item.apply c) ys
  | [], _, _, _, h => ⟨trivial, h⟩
  | x :: xs, ys, p, c, h => by
    obtain ⟨h1, h2, h3⟩ := h
    obtain ⟨h4, h5⟩ := ItemsOK_append ic reg xs ys _ _ h3
    exact ⟨⟨h1, h2, h4⟩, h5⟩

/-! ### items never touch the tables of the context -/

theorem updArg_tables (c : Ctx) (i : Nat) (f : Arg → Arg) :
    (c.updArg i f).flags = c.flags ∧ (c.updArg i f).inverse = c.inverse := by
  unfold Ctx.updArg; split <;> exact ⟨rfl, rfl⟩

theorem applyToggles_tables : ∀ (ps : List (Char × Nat)) (c : Ctx),
    (applyToggles c ps).flags = c.flags ∧ (applyToggles c ps).inverse = c.inverse
  | [], _ => ⟨rfl, rfl⟩
  | p :: ps, c => by
    have h := applyToggles_tables ps (c.updArg p.2 Arg.seen)
    have h2 := updArg_tables c p.2 Arg.seen
    simp only [applyToggles, List.foldl_cons] at h ⊢
    exact ⟨h.1.trans h2.1, h.2.trans h2.2⟩

theorem apply_tables (it : Item) (c : Ctx) : (it.apply c).flags = c.flags ∧ (it.apply c).inverse = c.inverse := by
  cases it with
  | block x i rest =>
    have h := applyToggles_tables rest (c.updArg i Arg.seen)
    have h2 := updArg_tables c i Arg.seen
    exact ⟨h.1.trans h2.1, h.2.trans h2.2⟩
  | spaced fl v i => exact updArg_tables c _ _
  | eq fl v i => exact updArg_tables c _ _
  | glued x y w i => exact updArg_tables c _ _
  | toggle fl i => exact updArg_tables c _ _
  | inverse nofl i => exact updArg_tables c _ _
  | pos v j => exact updArg_tables c _ _
  | optBare fl i => exact updArg_tables c _ _

theorem foldl_apply_tables : ∀ (items : List Item) (c : Ctx),
    (items.foldl Item.apply c).flags = c.flags ∧ (items.foldl Item.apply c).inverse = c.inverse
  | [], _ => ⟨rfl, rfl⟩
  | it :: r, c => by
    have h := foldl_apply_tables r (it.apply c)
    have h2 := apply_tables it c
    simp only [List.foldl_cons]
    exact ⟨h.1.trans h2.1, h.2.trans h2.2⟩

/-! ### a core item handled inside a task context -/

/-- the machine after a core item: only the core context, the flag pointer and `flag_got_value` differ -/
def M.withCore (m : M) (ic' : Ctx) (fl : Option (Where × Nat)) (g : Bool) : M :=
  { m with initial := some ic', flag := fl, flagGotValue := g }

/-- `toks` is a core item for task context `c`: from ANY machine between two items of `c` (core context `ic`, task
    registry `reg`) it only replaces the core context by `ic'` and leaves a settled flag behind -/
def CoreStep (ic ic' : Ctx) (reg : List Ctx) (c : Ctx) (toks : List Tok) : Prop :=
  ∀ m, Ready m c → m.initial = some ic → m.registry = reg →
    ∃ fl g, runToks m toks = .ok (m.withCore ic' fl g) ∧ Inert (m.withCore ic' fl g)

theorem setArg_get (c : Ctx) (i : Nat) (a a' : Arg) (h : c.args[i]? = some a) : (c.setArg i a').args[i]? = some a' := by
  have hlt : i < c.args.length := (List.getElem?_eq_some_iff.mp h).1
  simp [Ctx.setArg, hlt]

/-- BOOLEAN CORE FLAG (any unsplit spelling, `--echo` / `-e`) inside a task that does not declare it -/
theorem coreStep_bool (ic : Ctx) (reg : List Ctx) (c : Ctx) (tok : Tok) (i : Nat) (a a' : Arg)
    (hun : Unsplit tok) (hcf : assoc? tok c.flags = none) (hcinv : assoc? tok c.inverse = none)
    (hl : reg.find? (fun x => x.name = some tok || x.aliases.contains tok) = none)
    (hf : assoc? tok ic.flags = some i) (ha : ic.args[i]? = some a) (hh : a.spec.names.headD [] ≠ "help".toList)
    (ht : a.takesValue = false) (hs : a.setValue (.b true) = .ok a') :
    CoreStep ic (ic.setArg i a') reg c [tok] := by
  intro m hr hi hreg
  refine ⟨some (.initial, i), false, ?_, ?_⟩
  · have hctx := ctx_of_ready hr
    have hlk : m.lookupCtx tok = none := by unfold M.lookupCtx; rw [hreg]; exact hl
    have hhd : m.handle tok = .ok (m.withCore (ic.setArg i a') (some (.initial, i)) false) := by
      unfold M.handle
      simp only [hr.st, hctx, hcf, hcinv, Option.isSome_none, Bool.false_eq_true, if_false, reduceCtorEq,
        hr.nw, hi, hf, Option.isSome_some, hr.notInit, Bool.not_false, Bool.and_self, Bool.not_true, Bool.and_false,
        hlk, if_true, Option.bind_some, ha, hh]
      unfold M.switchToFlag
      simp only [checkAmbiguity_ready hr, completeFlag_ready hr, bind, Except.bind, hctx, pure, Except.pure,
        Bool.false_eq_true, if_false, hcf, hi, Option.bind_some, hf]
      simp [M.flagArg, M.updFlagArg, ha, ht, hs, hr.st, hr.notInit, M.withCore, Ctx.setArg]
    exact runToks_single (procTok_one _ (presplit_unsplit m tok hun) hhd)
  · intro b hb
    obtain ⟨s1, s2, s3⟩ := Arg.setValue_settled a a' (.b true) true (by simp) hs
    have : (m.withCore (ic.setArg i a') (some (.initial, i)) false).flagArg = some a' := by
      simp [M.flagArg, M.withCore, setArg_get ic i a a' ha]
    rw [this] at hb; cases hb
    refine ⟨s2, s3, ?_⟩
    intro htv
    have : a.takesValue = true := by simpa [Arg.takesValue, s1] using htv
    rw [ht] at this; cases this

/-- VALUE-TAKING CORE FLAG, SPACED FORM (`--command-timeout 5` / `-T 5`) inside a task that does not declare it;
    the value may even look like a flag (`-T -5`) as long as it is not a flag of the task -/
theorem coreStep_value_spaced (ic : Ctx) (reg : List Ctx) (c : Ctx) (tok v : Tok) (i : Nat) (a a' : Arg)
    (hun : Unsplit tok) (hcf : assoc? tok c.flags = none) (hcinv : assoc? tok c.inverse = none)
    (hl : reg.find? (fun x => x.name = some tok || x.aliases.contains tok) = none)
    (hvf : assoc? v c.flags = none) (hvinv : assoc? v c.inverse = none)
    (hf : assoc? tok ic.flags = some i) (ha : ic.args[i]? = some a) (hh : a.spec.names.headD [] ≠ "help".toList)
    (ht : a.takesValue = true) (hr0 : a.raw = none) (ho : a.spec.optional = false)
    (hs : a.setValue (.s v) = .ok a') :
    CoreStep ic (ic.setArg i a') reg c [tok, v] := by
  intro m hr hi hreg
  refine ⟨some (.initial, i), true, ?_, ?_⟩
  · have hctx := ctx_of_ready hr
    have hlk : m.lookupCtx tok = none := by unfold M.lookupCtx; rw [hreg]; exact hl
    let m1 : M := { m with flag := some (.initial, i), flagGotValue := false }
    have hhd : m.handle tok = .ok m1 := by
      unfold M.handle
      simp only [hr.st, hctx, hcf, hcinv, Option.isSome_none, Bool.false_eq_true, if_false, reduceCtorEq,
        hr.nw, hi, hf, Option.isSome_some, hr.notInit, Bool.not_false, Bool.and_self, Bool.not_true, Bool.and_false,
        hlk, if_true, Option.bind_some, ha, hh]
      unfold M.switchToFlag
      simp only [checkAmbiguity_ready hr, completeFlag_ready hr, bind, Except.bind, hctx, pure, Except.pure,
        Bool.false_eq_true, if_false, hcf, hi, Option.bind_some, hf]
      simp [M.flagArg, ha, ht, hr.st, hr.notInit, m1, hi]
    have h1 : procTok (tok.length + 2) m tok = .ok m1 := procTok_one _ (presplit_unsplit m tok hun) hhd
    have hctx1 : m1.ctx = some c := hctx
    have hfa1 : m1.flagArg = some a := by simp [M.flagArg, m1, hi, ha]
    have hw1 : m1.waiting = true := by unfold M.waiting; rw [hfa1]; simp [ht, hr0]
    have hks : ∀ x, keepSplit m1 x = false := by intro x; unfold keepSplit; rw [hfa1]; simp [ho]
    have hhv : m1.handle v = .ok (m.withCore (ic.setArg i a') (some (.initial, i)) true) := by
      unfold M.handle
      have hst1 : m1.st = .context := hr.st
      have hop1 : m1.optionalPending = false := by simp [M.optionalPending, hfa1, ho]
      simp only [hst1, hctx1, hvf, hvinv, Option.isSome_none, Bool.false_eq_true, if_false, reduceCtorEq, hw1, hop1, Bool.false_and,
        Bool.not_false, Bool.and_self, if_true]
      unfold M.seeValue M.checkAmbiguity
      simp only [hfa1, ho, bind, Except.bind, ht, if_true, hs, Bool.false_eq_true, if_false]
      simp [M.updFlagArg, m1, hi, M.withCore, Ctx.setArg]
    have h2 : procTok (v.length + 2) m1 v = .ok (m.withCore (ic.setArg i a') (some (.initial, i)) true) := by
      unfold procTok
      obtain ⟨p, hp⟩ := presplit_total m1 v
      simp only [hp, rollback, hw1, hks, Bool.not_false, Bool.and_self, if_true, hhv, List.foldlM_nil, pure, Except.pure]
    simp only [runToks, List.foldlM_cons, h1, h2, bind, Except.bind, List.foldlM_nil, pure, Except.pure]
  · intro b hb
    obtain ⟨s1, s2, s3⟩ := Arg.setValue_settled a a' (.s v) true (by simp) hs
    have : (m.withCore (ic.setArg i a') (some (.initial, i)) true).flagArg = some a' := by
      simp [M.flagArg, M.withCore, setArg_get ic i a a' ha]
    rw [this] at hb; cases hb
    exact ⟨s2, s3, fun _ _ => rfl⟩

/-! ### composition with the C01 item / chain lemmas -/

theorem ready_erased {m c} (h : Ready m c) (ic' : Ctx) (fl : Option (Where × Nat)) (g : Bool) :
    Ready ((m.withCore ic' fl g).reflag none false) c := by
  refine ⟨h.st, h.notInit, h.cur, h.unp, ?_, ?_, ?_⟩
  · simp [M.waiting, M.flagArg, M.reflag]
  · intro a ha; simp [M.flagArg, M.reflag] at ha
  · intro i hi; simp [M.reflag] at hi

theorem inert_noflag (m : M) (h : m.flag = none) : Inert m := by
  intro a ha; simp [M.flagArg, h] at ha

/-- end of the command line for a machine that is related to one characterised by the C01 lemmas -/
theorem finish_rel {pend : Bool} {m5 m5e : M} {c5 : Ctx} (hrel : Rel m5 m5e) (hb : Btw pend m5e c5)
    (hmiss : c5.missingPositional = []) :
    ∃ m6, M.enter { m5 with st := .end } = .ok m6 ∧ m6.cur = some c5 ∧ m6.curIsInitial = false ∧ m6.unparsed = [] ∧
      m6.initial = m5e.initial ∧ m6.done = m5e.done := by
  rcases hrel with rfl | ⟨f, g, rfl, hm, hn⟩
  · exact finish_btw hb hmiss
  · cases pend with
    | true =>
      simp only [Btw, if_true] at hb
      obtain ⟨c0, i, a, hp, _⟩ := hb
      obtain ⟨_, hfa, _, _⟩ := popt_facts hp
      have := (hn a hfa).1
      rw [hp.raw] at this; cases this
    | false =>
      have hr : Ready (m5.reflag f g) c5 := by simpa [Btw] using hb
      have hin : Inert ({ m5 with st := .end } : M) := fun a ha => hm a ha
      have hctx : ({ m5 with st := .end } : M).ctx = some c5 := by
        have := ctx_of_ready hr; exact this
      refine ⟨{ m5 with st := .end }, ?_, hr.cur, hr.notInit, hr.unp, rfl, rfl⟩
      rw [enter_inert hin]
      unfold M.completeContext
      rw [hctx]
      simp [hmiss]

/-! ### a core item directly after a bare optional-value flag of the task (the formerly excluded point) -/

/-- while an optional-value TASK flag is pending, a core flag (not `--help`) is handled exactly as from the tied-off machine:
    it is not taken as the pending flag's value -/
theorem popt_handle_core {m c i a} (h : POpt m c i a) (ic : Ctx) (tok : Tok) (j : Nat) (b : Arg)
    (hi : m.initial = some ic) (hnt : m.lookupCtx tok = none)
    (hcf : assoc? tok c.flags = none) (hcinv : assoc? tok c.inverse = none)
    (hf : assoc? tok ic.flags = some j) (hb : ic.args[j]? = some b) (hh : b.spec.names.headD [] ≠ "help".toList) :
    m.handle tok = (m.completed c i a).handle tok := by
  obtain ⟨hc, hfa, hw, _⟩ := popt_facts h
  have hr := popt_ready h
  have hc' : (m.completed c i a).ctx = some (c.setArg i a.seen) := by simp [M.ctx, M.completed, h.notInit]
  have hst' : (m.completed c i a).st = .context := h.st
  have hi' : (m.completed c i a).initial = some ic := hi
  have hci' : (m.completed c i a).curIsInitial = false := h.notInit
  have hnt' : (m.completed c i a).lookupCtx tok = none := hnt
  have hop : m.optionalPending = true := by simp [M.optionalPending, hfa, h.opt]
  have hcft : m.coreFlagInTask tok = true := by simp [M.coreFlagInTask, h.notInit, hi, hf]
  have e1 : (c.setArg i a.seen).flags = c.flags := rfl
  have e2 : (c.setArg i a.seen).inverse = c.inverse := rfl
  unfold M.handle
  simp only [h.st, hst', hc, hc', e1, e2, hcf, hcinv, hw, hr.nw, hop, hcft, hi, hi', h.notInit, hci', hnt, hnt', hf, hb, hh,
    Option.isSome_none, Option.isSome_some, Bool.false_eq_true, if_false, reduceCtorEq, Bool.and_self, Bool.not_true,
    Bool.and_false, Bool.not_false, Bool.false_and, if_true, Option.bind_some]
  exact popt_switchToFlag h tok false hnt

/-- a core-flag-led token after a bare optional-value flag is processed as from the tied-off machine -/
theorem popt_procTok_core {m c i a} (h : POpt m c i a) (ic : Ctx) (n : Nat) (t : Tok) (p : Tok × List Tok) (j : Nat) (b : Arg)
    (hp : presplit (m.completed c i a) t = .ok p)
    (hi : m.initial = some ic) (hnt : m.lookupCtx p.1 = none)
    (hcf : assoc? p.1 c.flags = none) (hcinv : assoc? p.1 c.inverse = none)
    (hf : assoc? p.1 ic.flags = some j) (hb : ic.args[j]? = some b) (hh : b.spec.names.headD [] ≠ "help".toList) :
    procTok (n + 1) m t = procTok (n + 1) (m.completed c i a) t := by
  obtain ⟨hc, hfa, hw, _⟩ := popt_facts h
  have hr := popt_ready h
  have hp0 : presplit m t = .ok p := by rw [← popt_presplit h t]; exact hp
  have hrb' : rollback (m.completed c i a) t p = p := by simp [rollback, hr.nw]
  have hcft : m.coreFlagInTask p.1 = true := by simp [M.coreFlagInTask, h.notInit, hi, hf]
  have hrb : rollback m t p = p := by simp [rollback, hw, keepSplit, hfa, h.opt, hcft]
  have hh' := popt_handle_core h ic p.1 j b hi hnt hcf hcinv hf hb hh
  conv => lhs; unfold procTok
  conv => rhs; unfold procTok
  simp only [hp0, hp, hrb, hrb', hh']

/-- a core item that may also come directly after a bare optional-value flag of the task: there its tokens are processed
    exactly as from the machine in which that flag has been tied off with `True` -/
def CoreStepB (ic ic' : Ctx) (reg : List Ctx) (c : Ctx) (toks : List Tok) : Prop :=
  CoreStep ic ic' reg c toks ∧
  ∀ m c0 i a, POpt m c0 i a → c = c0.setArg i a.seen → m.initial = some ic → m.registry = reg →
    runToks m toks = runToks (m.completed c0 i a) toks

theorem ItemsOK_weaken (ic : Option Ctx) (reg : List Ctx) (pend : Bool) (c : Ctx) :
    ∀ (items : List Item), ItemsOK ic reg pend c items → ItemsOK ic reg false c items
  | [], _ => trivial
  | _ :: _, h => ⟨h.1, fun hh => Bool.noConfusion hh, h.2.2⟩

theorem endsBare_indep (p q : Bool) : ∀ (items : List Item), items ≠ [] → endsBare p items = endsBare q items
  | [], h => absurd rfl h
  | _ :: _, _ => rfl

/-- the tokens of a call with a core item inserted between its items `pre` and `post` -/
def argvWithCore (k : Call) (pre post : List Item) (ctoks : List Tok) (calls2 : List Call) : List Tok :=
  k.tname :: (pre.flatMap Item.toks ++ (ctoks ++ (post.flatMap Item.toks ++ calls2.flatMap Call.toks)))

/-- from a machine between two items: the core item, the remaining items `post` of the call and the following calls -/
theorem run_core_rest (ic ic' : Ctx) (reg : List Ctx) (cpre : Ctx) (post : List Item) (calls2 : List Call) (ctoks : List Tok)
    (hfl : ic'.flags = ic.flags) (m2 : M) (hr2 : Ready m2 cpre) (hinit2 : m2.initial = some ic) (hreg2 : m2.registry = reg)
    (hipost : ItemsOK (some ic) reg false cpre post)
    (hlast : calls2 ≠ [] → endsBare false post = false)
    (hrest : ChainOK (some ic) reg (some (post.foldl Item.apply cpre)) calls2)
    (hcore : CoreStep ic ic' reg cpre ctoks) :
    ∃ m5 m6 c5, runToks m2 (ctoks ++ (post.flatMap Item.toks ++ calls2.flatMap Call.toks)) = .ok m5 ∧
      M.enter { m5 with st := .end } = .ok m6 ∧ m6.cur = some c5 ∧ m6.curIsInitial = false ∧ m6.unparsed = [] ∧
      m6.initial = some ic' ∧ m6.done ++ [c5] = m2.done ++ (post.foldl Item.apply cpre) :: calls2.map Call.result := by
  obtain ⟨fl, g, hrun3, hin3⟩ := hcore m2 hr2 hinit2 hreg2
  have hr3e := ready_erased hr2 ic' fl g
  have hrel3 : Rel (m2.withCore ic' fl g) ((m2.withCore ic' fl g).reflag none false) :=
    Or.inr ⟨none, false, rfl, hin3, inert_noflag _ rfl⟩
  have hipost' : ItemsOK ((m2.withCore ic' fl g).reflag none false).initial ((m2.withCore ic' fl g).reflag none false).registry
      false cpre post := by
    have e1 : ((m2.withCore ic' fl g).reflag none false).initial = some ic' := rfl
    have e2 : ((m2.withCore ic' fl g).reflag none false).registry = reg := hreg2
    rw [e1, e2]; exact ItemsOK_congr ic ic' hfl reg post _ _ hipost
  have hb3e : Btw false ((m2.withCore ic' fl g).reflag none false) cpre := by simpa [Btw] using hr3e
  obtain ⟨m4e, hrun4, hb4, hf4⟩ := items_step post hb3e hipost'
  have hinit4 : m4e.initial = some ic' := by rw [hf4.1]; rfl
  have hreg4 : m4e.registry = reg := by rw [hf4.2.2.1]; exact hreg2
  have hd4 : m4e.done = m2.done := hf4.2.1
  have key : ∃ m5e c5 pend, runToks ((m2.withCore ic' fl g).reflag none false)
        (post.flatMap Item.toks ++ calls2.flatMap Call.toks) = .ok m5e ∧ Btw pend m5e c5 ∧
        m5e.initial = some ic' ∧ c5.missingPositional = [] ∧
        m5e.done ++ [c5] = m2.done ++ (post.foldl Item.apply cpre) :: calls2.map Call.result := by
    cases calls2 with
    | nil =>
      refine ⟨m4e, _, endsBare false post, ?_, hb4, hinit4, hrest _ rfl, ?_⟩
      · simp only [List.flatMap_nil, List.append_nil]; exact hrun4
      · rw [hd4]; simp
    | cons k2 r2 =>
      rw [hlast (by simp)] at hb4
      have hr4 : Ready m4e (post.foldl Item.apply cpre) := by simpa [Btw] using hb4
      obtain ⟨m5e, c5, pend, hrun5, hb5, hi5, _, _, hm5, hd5⟩ :=
        chain_step (some ic') reg (k2 :: r2) hr4 hinit4 hreg4 (ChainOK_congr ic ic' hfl reg _ _ hrest)
      refine ⟨m5e, c5, pend, ?_, hb5, hi5, hm5, ?_⟩
      · rw [runToks_append, hrun4]; exact hrun5
      · rw [hd5, hd4]; simp
  obtain ⟨m5e, c5, pend, hrun5e, hb5, hi5, hm5, hdone⟩ := key
  rcases runToks_rel (post.flatMap Item.toks ++ calls2.flatMap Call.toks) _ _ hrel3 with ⟨e, _, h2⟩ | ⟨m5, m5e', hrun5, h2, hrel5⟩
  · rw [hrun5e] at h2; cases h2
  · rw [hrun5e] at h2
    have : m5e' = m5e := (Except.ok.inj h2).symm
    subst this
    obtain ⟨m6, hfin, hcur6, hni6, hunp6, hi6, hd6⟩ := finish_rel hrel5 hb5 hm5
    refine ⟨m5, m6, c5, ?_, hfin, hcur6, hni6, hunp6, by rw [hi6, hi5], by rw [hd6]; exact hdone⟩
    rw [runToks_append, hrun3]
    exact hrun5

/-- MAIN COMPOSITION, from the machine that has just switched to call `k`: items `pre`, the core item (possibly directly
    after a bare optional-value flag), items `post`, the following calls -/
theorem run_with_core_from (ic ic' : Ctx) (reg : List Ctx) (k : Call) (pre post : List Item) (calls2 : List Call)
    (ctoks : List Tok) (hfl : ic'.flags = ic.flags) (hk : k.items = pre ++ post)
    (m1 : M) (hr1 : Ready m1 k.ctx) (hi1 : m1.initial = some ic) (hg1 : m1.registry = reg)
    (hitems : ItemsOK (some ic) reg false k.ctx k.items)
    (hlast : calls2 ≠ [] → endsBare false k.items = false)
    (hrest : ChainOK (some ic) reg (some k.result) calls2)
    (hcore : CoreStepB ic ic' reg (pre.foldl Item.apply k.ctx) ctoks) :
    ∃ m5 m6 c5, runToks m1 (pre.flatMap Item.toks ++ (ctoks ++ (post.flatMap Item.toks ++ calls2.flatMap Call.toks))) = .ok m5 ∧
      M.enter { m5 with st := .end } = .ok m6 ∧ m6.cur = some c5 ∧ m6.curIsInitial = false ∧ m6.unparsed = [] ∧
      m6.initial = some ic' ∧ m6.done ++ [c5] = m1.done ++ (k :: calls2).map Call.result := by
  rw [hk] at hitems
  obtain ⟨hipre, hipost0⟩ := ItemsOK_append (some ic) reg pre post false k.ctx hitems
  have hipost := ItemsOK_weaken (some ic) reg _ _ post hipost0
  have hipre' : ItemsOK m1.initial m1.registry false k.ctx pre := by rw [hi1, hg1]; exact hipre
  have hb1 : Btw false m1 k.ctx := by simpa [Btw] using hr1
  obtain ⟨m2, hrun2, hb2, hf2⟩ := items_step pre hb1 hipre'
  have hinit2 : m2.initial = some ic := by rw [hf2.1, hi1]
  have hreg2 : m2.registry = reg := by rw [hf2.2.2.1, hg1]
  have hd2 : m2.done = m1.done := hf2.2.1
  have hres : post.foldl Item.apply (pre.foldl Item.apply k.ctx) = k.result := by
    simp [Call.result, hk, List.foldl_append]
  have hlast' : calls2 ≠ [] → endsBare false post = false := by
    intro hne
    have h := hlast hne
    rw [hk, endsBare_append] at h
    cases post with
    | nil =>
      -- the call would end with the bare flag although calls follow: excluded by the chain conditions; then `pre` is not bare
      simpa [endsBare] using h
    | cons it r => rw [endsBare_indep _ false (it :: r) (by simp)] at h; exact h
  have hrest' : ChainOK (some ic) reg (some (post.foldl Item.apply (pre.foldl Item.apply k.ctx))) calls2 := by rw [hres]; exact hrest
  cases hpb : endsBare false pre with
  | false =>
    rw [hpb] at hb2
    have hr2 : Ready m2 (pre.foldl Item.apply k.ctx) := by simpa [Btw] using hb2
    obtain ⟨m5, m6, c5, hrun5, hfin, h1, h2, h3, h4, h5⟩ :=
      run_core_rest ic ic' reg _ post calls2 ctoks hfl m2 hr2 hinit2 hreg2 hipost hlast' hrest' hcore.1
    refine ⟨m5, m6, c5, ?_, hfin, h1, h2, h3, h4, ?_⟩
    · rw [runToks_append, hrun2]; exact hrun5
    · rw [h5, hd2, hres]; rfl
  | true =>
    rw [hpb] at hb2
    simp only [Btw, if_true] at hb2
    obtain ⟨c0, i, a, hp, hceq⟩ := hb2
    have hr2 := popt_ready hp
    rw [← hceq] at hr2
    have hfr := popt_frame hp
    have heq := hcore.2 m2 c0 i a hp hceq hinit2 hreg2
    obtain ⟨m5, m6, c5, hrun5, hfin, h1, h2, h3, h4, h5⟩ :=
      run_core_rest ic ic' reg _ post calls2 ctoks hfl (m2.completed c0 i a) hr2 (by rw [hfr.1]; exact hinit2)
        (by rw [hfr.2.2.1]; exact hreg2) hipost hlast' hrest' hcore.1
    refine ⟨m5, m6, c5, ?_, hfin, h1, h2, h3, h4, ?_⟩
    · rw [runToks_append, hrun2]
      simp only [bind, Except.bind]
      rw [runToks_append] at hrun5 ⊢
      rw [heq]; exact hrun5
    · rw [h5, hfr.2.1, hd2, hres]; rfl

/-- … for the FIRST call of a chain, from the start machine -/
theorem run_with_core (ic ic' : Ctx) (reg : List Ctx) (ign : Bool) (k : Call) (pre post : List Item) (calls2 : List Call)
    (ctoks : List Tok) (hfl : ic'.flags = ic.flags) (hk : k.items = pre ++ post)
    (hok : ChainOK (some ic) reg (some ic) (k :: calls2))
    (hcore : CoreStepB ic ic' reg (pre.foldl Item.apply k.ctx) ctoks) :
    ∃ m5 m6 c5, runToks (M.start (some ic) reg ign) (argvWithCore k pre post ctoks calls2) = .ok m5 ∧
      M.enter { m5 with st := .end } = .ok m6 ∧ m6.cur = some c5 ∧ m6.curIsInitial = false ∧ m6.unparsed = [] ∧
      m6.initial = some ic' ∧ m6.done ++ [c5] = (k :: calls2).map Call.result := by
  obtain ⟨⟨hname, hfind, hitems⟩, hlast, hrest⟩ := hok
  obtain ⟨m1, hrun1, hr1, hi1, hd1, hg1, _⟩ := first_switch (some ic) reg ign k.tname k.ctx hname hfind
  obtain ⟨m5, m6, c5, hrun5, hfin, h1, h2, h3, h4, h5⟩ :=
    run_with_core_from ic ic' reg k pre post calls2 ctoks hfl hk m1 hr1 hi1 hg1 hitems hlast hrest hcore
  refine ⟨m5, m6, c5, ?_, hfin, h1, h2, h3, h4, by rw [h5, hd1]; rfl⟩
  have e0 : argvWithCore k pre post ctoks calls2 =
      [k.tname] ++ (pre.flatMap Item.toks ++ (ctoks ++ (post.flatMap Item.toks ++ calls2.flatMap Call.toks))) := rfl
  rw [e0, runToks_append, hrun1]
  exact hrun5

end Inv
