import Invoke.Lemmas.ParserErase
import Invoke.Lemmas.SpellChain
import Invoke.Lemmas.ProgramParse
/-! C18: a core item (Boolean core flag, value-taking core flag in spaced form) inserted between two items of a task
    call — composition of the erasure lemma with the C01 item / chain lemmas (`run_with_core`). -/
namespace Inv
open M

/-! ### the side conditions of C01 items look at the core context only through its flag table -/

theorem Item.ok_congr (ic ic' : Ctx) (hfl : ic'.flags = ic.flags) (reg : List Ctx) (c : Ctx) (it : Item)
    (h : it.ok (some ic) reg c) : it.ok (some ic') reg c := by
  cases it with
  | pos v j =>
    obtain ⟨h1, h2, h3, h4, h5⟩ := h
    refine ⟨h1, h2, h3, ?_, h5⟩
    intro c0 hc0
    cases hc0
    rw [hfl]; exact h4 ic rfl
  | spaced fl v i => exact h
  | eq fl v i => exact h
  | glued x y w i => exact h
  | toggle fl i => exact h
  | inverse nofl i => exact h
  | block x i rest => exact h
  | optBare fl i => exact h

theorem ItemsOK_congr (ic ic' : Ctx) (hfl : ic'.flags = ic.flags) (reg : List Ctx) :
    ∀ (items : List Item) (pend : Bool) (c : Ctx), ItemsOK (some ic) reg pend c items → ItemsOK (some ic') reg pend c items
  | [], _, _, _ => trivial
  | it :: r, pend, c, h => ⟨Item.ok_congr ic ic' hfl reg c it h.1, h.2.1, ItemsOK_congr ic ic' hfl reg r _ _ h.2.2⟩

theorem ChainOK_congr (ic ic' : Ctx) (hfl : ic'.flags = ic.flags) (reg : List Ctx) :
    ∀ (calls : List Call) (prev : Option Ctx), ChainOK (some ic) reg prev calls → ChainOK (some ic') reg prev calls
  | [], _, h => h
  | k :: r, prev, h => ⟨⟨h.1.1, h.1.2.1, ItemsOK_congr ic ic' hfl reg _ _ _ h.1.2.2⟩, h.2.1, ChainOK_congr ic ic' hfl reg r _ h.2.2⟩

theorem endsBare_append : ∀ (xs ys : List Item) (p : Bool), endsBare p (xs ++ ys) = endsBare (endsBare p xs) ys
  | [], _, _ => rfl
  | x :: xs, ys, p => by simp [endsBare, endsBare_append xs ys]

theorem ItemsOK_append (ic : Option Ctx) (reg : List Ctx) : ∀ (xs ys : List Item) (p : Bool) (c : Ctx),
    ItemsOK ic reg p c (xs ++ ys) → ItemsOK ic reg p c xs ∧ ItemsOK ic reg (endsBare p xs) (xs.foldl Item.apply c) ys
  | [], _, _, _, h => ⟨trivial, h⟩
  | x :: xs, ys, p, c, h => by
    obtain ⟨h1, h2, h3⟩ := h
    obtain ⟨h4, h5⟩ := ItemsOK_append ic reg xs ys _ _ h3
    exact ⟨⟨h1, h2, h4⟩, h5⟩

/-! ### items never touch the tables of the context -/

theorem updArg_tables (c : Ctx) (i : Nat) (f : Arg → Arg) :
    (c.updArg i f).flags = c.flags ∧ (c.updArg i f).inverse = c.inverse := by
  unfold Ctx.updArg; split <;> exact ⟨rfl, rfl⟩

theorem applyToggles_tables : ∀ (ps : List (Char × Nat)) (c : Ctx),
    (applyToggles c ps).flags = c.flags ∧ (applyToggles c ps).inverse = c.inverse
  | [], _ => ⟨rfl, rfl⟩
  | p :: ps, c => by
    have h := applyToggles_tables ps (c.updArg p.2 Arg.seen)
    have h2 := updArg_tables c p.2 Arg.seen
    simp only [applyToggles, List.foldl_cons] at h ⊢
    exact ⟨h.1.trans h2.1, h.2.trans h2.2⟩

theorem apply_tables (it : Item) (c : Ctx) : (it.apply c).flags = c.flags ∧ (it.apply c).inverse = c.inverse := by
  cases it with
  | block x i rest =>
    have h := applyToggles_tables rest (c.updArg i Arg.seen)
    have h2 := updArg_tables c i Arg.seen
    exact ⟨h.1.trans h2.1, h.2.trans h2.2⟩
  | spaced fl v i => exact updArg_tables c _ _
  | eq fl v i => exact updArg_tables c _ _
  | glued x y w i => exact updArg_tables c _ _
  | toggle fl i => exact updArg_tables c _ _
  | inverse nofl i => exact updArg_tables c _ _
  | pos v j => exact updArg_tables c _ _
  | optBare fl i => exact updArg_tables c _ _

theorem foldl_apply_tables : ∀ (items : List Item) (c : Ctx),
    (items.foldl Item.apply c).flags = c.flags ∧ (items.foldl Item.apply c).inverse = c.inverse
  | [], _ => ⟨rfl, rfl⟩
  | it :: r, c => by
    have h := foldl_apply_tables r (it.apply c)
    have h2 := apply_tables it c
    simp only [List.foldl_cons]
    exact ⟨h.1.trans h2.1, h.2.trans h2.2⟩

/-! ### a core item handled inside a task context -/

/-- the machine after a core item: only the core context, the flag pointer and `flag_got_value` differ -/
def M.withCore (m : M) (ic' : Ctx) (fl : Option (Where × Nat)) (g : Bool) : M :=
  { m with initial := some ic', flag := fl, flagGotValue := g }

/-- `toks` is a core item for task context `c`: from ANY machine between two items of `c` (core context `ic`, task
    registry `reg`) it only replaces the core context by `ic'` and leaves a settled flag behind -/
def CoreStep (ic ic' : Ctx) (reg : List Ctx) (c : Ctx) (toks : List Tok) : Prop :=
  ∀ m, Ready m c → m.initial = some ic → m.registry = reg →
    ∃ fl g, runToks m toks = .ok (m.withCore ic' fl g) ∧ Inert (m.withCore ic' fl g)

theorem setArg_get (c : Ctx) (i : Nat) (a a' : Arg) (h : c.args[i]? = some a) : (c.setArg i a').args[i]? = some a' := by
  have hlt : i < c.args.length := (List.getElem?_eq_some_iff.mp h).1
  simp [Ctx.setArg, hlt]

/-- BOOLEAN CORE FLAG (any unsplit spelling, `--echo` / `-e`) inside a task that does not declare it -/
theorem coreStep_bool (ic : Ctx) (reg : List Ctx) (c : Ctx) (tok : Tok) (i : Nat) (a a' : Arg)
    (hun : Unsplit tok) (hcf : assoc? tok c.flags = none) (hcinv : assoc? tok c.inverse = none)
    (hl : reg.find? (fun x => x.name = some tok || x.aliases.contains tok) = none)
    (hf : assoc? tok ic.flags = some i) (ha : ic.args[i]? = some a) (hh : a.spec.names.headD [] ≠ "help".toList)
    (ht : a.takesValue = false) (hs : a.setValue (.b true) = .ok a') :
    CoreStep ic (ic.setArg i a') reg c [tok] := by
  intro m hr hi hreg
  refine ⟨some (.initial, i), false, ?_, ?_⟩
  · have hctx := ctx_of_ready hr
    have hlk : m.lookupCtx tok = none := by unfold M.lookupCtx; rw [hreg]; exact hl
    have hhd : m.handle tok = .ok (m.withCore (ic.setArg i a') (some (.initial, i)) false) := by
      unfold M.handle
      simp only [hr.st, hctx, hcf, hcinv, Option.isSome_none, Bool.false_eq_true, if_false, reduceCtorEq,
        hr.nw, hi, hf, Option.isSome_some, hr.notInit, Bool.not_false, Bool.and_self, Bool.not_true, Bool.and_false,
        hlk, if_true, Option.bind_some, ha, hh]
      unfold M.switchToFlag
      simp only [checkAmbiguity_ready hr, completeFlag_ready hr, bind, Except.bind, hctx, pure, Except.pure,
        Bool.false_eq_true, if_false, hcf, hi, Option.bind_some, hf]
      simp [M.flagArg, M.updFlagArg, ha, ht, hs, hr.st, hr.notInit, M.withCore, Ctx.setArg]
    exact runToks_single (procTok_one _ (presplit_unsplit m tok hun) hhd)
  · intro b hb
    obtain ⟨s1, s2, s3⟩ := Arg.setValue_settled a a' (.b true) true (by simp) hs
    have : (m.withCore (ic.setArg i a') (some (.initial, i)) false).flagArg = some a' := by
      simp [M.flagArg, M.withCore, setArg_get ic i a a' ha]
    rw [this] at hb; cases hb
    refine ⟨s2, s3, ?_⟩
    intro htv
    have : a.takesValue = true := by simpa [Arg.takesValue, s1] using htv
    rw [ht] at this; cases this

/-- VALUE-TAKING CORE FLAG, SPACED FORM (`--command-timeout 5` / `-T 5`) inside a task that does not declare it;
    the value may even look like a flag (`-T -5`) as long as it is not a flag of the task -/
theorem coreStep_value_spaced (ic : Ctx) (reg : List Ctx) (c : Ctx) (tok v : Tok) (i : Nat) (a a' : Arg)
    (hun : Unsplit tok) (hcf : assoc? tok c.flags = none) (hcinv : assoc? tok c.inverse = none)
    (hl : reg.find? (fun x => x.name = some tok || x.aliases.contains tok) = none)
    (hvf : assoc? v c.flags = none) (hvinv : assoc? v c.inverse = none)
    (hf : assoc? tok ic.flags = some i) (ha : ic.args[i]? = some a) (hh : a.spec.names.headD [] ≠ "help".toList)
    (ht : a.takesValue = true) (hr0 : a.raw = none) (ho : a.spec.optional = false)
    (hs : a.setValue (.s v) = .ok a') :
    CoreStep ic (ic.setArg i a') reg c [tok, v] := by
  intro m hr hi hreg
  refine ⟨some (.initial, i), true, ?_, ?_⟩
  · have hctx := ctx_of_ready hr
    have hlk : m.lookupCtx tok = none := by unfold M.lookupCtx; rw [hreg]; exact hl
    let m1 : M := { m with flag := some (.initial, i), flagGotValue := false }
    have hhd : m.handle tok = .ok m1 := by
      unfold M.handle
      simp only [hr.st, hctx, hcf, hcinv, Option.isSome_none, Bool.false_eq_true, if_false, reduceCtorEq,
        hr.nw, hi, hf, Option.isSome_some, hr.notInit, Bool.not_false, Bool.and_self, Bool.not_true, Bool.and_false,
        hlk, if_true, Option.bind_some, ha, hh]
      unfold M.switchToFlag
      simp only [checkAmbiguity_ready hr, completeFlag_ready hr, bind, Except.bind, hctx, pure, Except.pure,
        Bool.false_eq_true, if_false, hcf, hi, Option.bind_some, hf]
      simp [M.flagArg, ha, ht, hr.st, hr.notInit, m1, hi]
    have h1 : procTok (tok.length + 2) m tok = .ok m1 := procTok_one _ (presplit_unsplit m tok hun) hhd
    have hctx1 : m1.ctx = some c := hctx
    have hfa1 : m1.flagArg = some a := by simp [M.flagArg, m1, hi, ha]
    have hw1 : m1.waiting = true := by unfold M.waiting; rw [hfa1]; simp [ht, hr0]
    have hks : ∀ x, keepSplit m1 x = false := by intro x; unfold keepSplit; rw [hfa1]; simp [ho]
    have hhv : m1.handle v = .ok (m.withCore (ic.setArg i a') (some (.initial, i)) true) := by
      unfold M.handle
      have hst1 : m1.st = .context := hr.st
      simp only [hst1, hctx1, hvf, hvinv, Option.isSome_none, Bool.false_eq_true, if_false, reduceCtorEq, hw1, if_true]
      unfold M.seeValue M.checkAmbiguity
      simp only [hfa1, ho, bind, Except.bind, ht, if_true, hs, Bool.false_eq_true, if_false]
      simp [M.updFlagArg, m1, hi, M.withCore, Ctx.setArg]
    have h2 : procTok (v.length + 2) m1 v = .ok (m.withCore (ic.setArg i a') (some (.initial, i)) true) := by
      unfold procTok
      obtain ⟨p, hp⟩ := presplit_total m1 v
      simp only [hp, rollback, hw1, hks, Bool.not_false, Bool.and_self, if_true, hhv, List.foldlM_nil, pure, Except.pure]
    simp only [runToks, List.foldlM_cons, h1, h2, bind, Except.bind, List.foldlM_nil, pure, Except.pure]
  · intro b hb
    obtain ⟨s1, s2, s3⟩ := Arg.setValue_settled a a' (.s v) true (by simp) hs
    have : (m.withCore (ic.setArg i a') (some (.initial, i)) true).flagArg = some a' := by
      simp [M.flagArg, M.withCore, setArg_get ic i a a' ha]
    rw [this] at hb; cases hb
    exact ⟨s2, s3, fun _ _ => rfl⟩

/-! ### composition with the C01 item / chain lemmas -/

theorem ready_erased {m c} (h : Ready m c) (ic' : Ctx) (fl : Option (Where × Nat)) (g : Bool) :
    Ready ((m.withCore ic' fl g).reflag none false) c := by
  refine ⟨h.st, h.notInit, h.cur, h.unp, ?_, ?_, ?_⟩
  · simp [M.waiting, M.flagArg, M.reflag]
  · intro a ha; simp [M.flagArg, M.reflag] at ha
  · intro i hi; simp [M.reflag] at hi

theorem inert_noflag (m : M) (h : m.flag = none) : Inert m := by
  intro a ha; simp [M.flagArg, h] at ha

/-- end of the command line for a machine that is related to one characterised by the C01 lemmas -/
theorem finish_rel {pend : Bool} {m5 m5e : M} {c5 : Ctx} (hrel : Rel m5 m5e) (hb : Btw pend m5e c5)
    (hmiss : c5.missingPositional = []) :
    ∃ m6, M.enter { m5 with st := .end } = .ok m6 ∧ m6.cur = some c5 ∧ m6.curIsInitial = false ∧ m6.unparsed = [] ∧
      m6.initial = m5e.initial ∧ m6.done = m5e.done := by
  rcases hrel with rfl | ⟨f, g, rfl, hm, hn⟩
  · exact finish_btw hb hmiss
  · cases pend with
    | true =>
      simp only [Btw, if_true] at hb
      obtain ⟨c0, i, a, hp, _⟩ := hb
      obtain ⟨_, hfa, _, _⟩ := popt_facts hp
      have := (hn a hfa).1
      rw [hp.raw] at this; cases this
    | false =>
      have hr : Ready (m5.reflag f g) c5 := by simpa [Btw] using hb
      have hin : Inert ({ m5 with st := .end } : M) := fun a ha => hm a ha
      have hctx : ({ m5 with st := .end } : M).ctx = some c5 := by
        have := ctx_of_ready hr; exact this
      refine ⟨{ m5 with st := .end }, ?_, hr.cur, hr.notInit, hr.unp, rfl, rfl⟩
      rw [enter_inert hin]
      unfold M.completeContext
      rw [hctx]
      simp [hmiss]

/-- the tokens of a call with a core item inserted between its items `pre` and `post` -/
def argvWithCore (k : Call) (pre post : List Item) (ctoks : List Tok) (calls2 : List Call) : List Tok :=
  k.tname :: (pre.flatMap Item.toks ++ (ctoks ++ (post.flatMap Item.toks ++ calls2.flatMap Call.toks)))

/-- MAIN COMPOSITION.  A chain `k :: calls2` whose first call's items are `pre ++ post`, with a core item inserted
    between `pre` and `post` (not directly after a bare optional-value flag): the whole token list runs through, and at
    the end the core context is `ic'` and the task contexts are exactly those of the chain without the core item. -/
theorem run_with_core (ic ic' : Ctx) (reg : List Ctx) (ign : Bool) (k : Call) (pre post : List Item) (calls2 : List Call)
    (ctoks : List Tok) (hfl : ic'.flags = ic.flags) (hk : k.items = pre ++ post)
    (hok : ChainOK (some ic) reg (some ic) (k :: calls2))
    (hpre : endsBare false pre = false)
    (hcore : CoreStep ic ic' reg (pre.foldl Item.apply k.ctx) ctoks) :
    ∃ m5 m6 c5, runToks (M.start (some ic) reg ign) (argvWithCore k pre post ctoks calls2) = .ok m5 ∧
      M.enter { m5 with st := .end } = .ok m6 ∧ m6.cur = some c5 ∧ m6.curIsInitial = false ∧ m6.unparsed = [] ∧
      m6.initial = some ic' ∧ m6.done ++ [c5] = (k :: calls2).map Call.result := by
  obtain ⟨⟨hname, hfind, hitems⟩, hlast, hrest⟩ := hok
  rw [hk] at hitems
  obtain ⟨hipre, hipost⟩ := ItemsOK_append (some ic) reg pre post false k.ctx hitems
  rw [hpre] at hipost
  obtain ⟨m1, hrun1, hr1, hi1, hd1, hg1, hu1⟩ := first_switch (some ic) reg ign k.tname k.ctx hname hfind
  have hipre' : ItemsOK m1.initial m1.registry false k.ctx pre := by rw [hi1, hg1]; exact hipre
  have hb1 : Btw false m1 k.ctx := by simpa [Btw] using hr1
  obtain ⟨m2, hrun2, hb2, hf2⟩ := items_step pre hb1 hipre'
  rw [hpre] at hb2
  have hr2 : Ready m2 (pre.foldl Item.apply k.ctx) := by simpa [Btw] using hb2
  have hinit2 : m2.initial = some ic := by rw [hf2.1, hi1]
  have hreg2 : m2.registry = reg := by rw [hf2.2.2.1, hg1]
  have hd2 : m2.done = [] := by rw [hf2.2.1, hd1]
  obtain ⟨fl, g, hrun3, hin3⟩ := hcore m2 hr2 hinit2 hreg2
  -- the erased machine is `Ready` again, with core context `ic'`
  have hr3e := ready_erased hr2 ic' fl g
  have hrel3 : Rel (m2.withCore ic' fl g) ((m2.withCore ic' fl g).reflag none false) :=
    Or.inr ⟨none, false, rfl, hin3, inert_noflag _ rfl⟩
  have hipost' : ItemsOK ((m2.withCore ic' fl g).reflag none false).initial ((m2.withCore ic' fl g).reflag none false).registry
      false (pre.foldl Item.apply k.ctx) post := by
    have e1 : ((m2.withCore ic' fl g).reflag none false).initial = some ic' := rfl
    have e2 : ((m2.withCore ic' fl g).reflag none false).registry = reg := hreg2
    rw [e1, e2]; exact ItemsOK_congr ic ic' hfl reg post _ _ hipost
  have hb3e : Btw false ((m2.withCore ic' fl g).reflag none false) (pre.foldl Item.apply k.ctx) := by simpa [Btw] using hr3e
  obtain ⟨m4e, hrun4, hb4, hf4⟩ := items_step post hb3e hipost'
  have hres : post.foldl Item.apply (pre.foldl Item.apply k.ctx) = k.result := by
    simp [Call.result, hk, List.foldl_append]
  rw [hres] at hb4
  have hinit4 : m4e.initial = some ic' := by rw [hf4.1]; rfl
  have hreg4 : m4e.registry = reg := by rw [hf4.2.2.1]; exact hreg2
  have hd4 : m4e.done = [] := by rw [hf4.2.1]; exact hd2
  -- the rest of the chain on the erased machine
  have key : ∃ m5e c5 pend, runToks ((m2.withCore ic' fl g).reflag none false)
        (post.flatMap Item.toks ++ calls2.flatMap Call.toks) = .ok m5e ∧ Btw pend m5e c5 ∧
        m5e.initial = some ic' ∧ c5.missingPositional = [] ∧ m5e.done ++ [c5] = (k :: calls2).map Call.result := by
    cases calls2 with
    | nil =>
      refine ⟨m4e, k.result, endsBare false post, ?_, hb4, hinit4, hrest _ rfl, ?_⟩
      · simp only [List.flatMap_nil, List.append_nil]; exact hrun4
      · rw [hd4]; simp
    | cons k2 r2 =>
      have hnb : endsBare false post = false := by
        have := hlast (by simp)
        rw [hk, endsBare_append, hpre] at this; exact this
      rw [hnb] at hb4
      have hr4 : Ready m4e k.result := by simpa [Btw] using hb4
      obtain ⟨m5e, c5, pend, hrun5, hb5, hi5, _, _, hm5, hd5⟩ :=
        chain_step (some ic') reg (k2 :: r2) hr4 hinit4 hreg4 (ChainOK_congr ic ic' hfl reg _ _ hrest)
      refine ⟨m5e, c5, pend, ?_, hb5, hi5, hm5, ?_⟩
      · rw [runToks_append, hrun4]; exact hrun5
      · rw [hd5, hd4]; simp
  obtain ⟨m5e, c5, pend, hrun5e, hb5, hi5, hm5, hdone⟩ := key
  -- back to the real machine through the erasure lemma
  rcases runToks_rel (post.flatMap Item.toks ++ calls2.flatMap Call.toks) _ _ hrel3 with ⟨e, _, h2⟩ | ⟨m5, m5e', hrun5, h2, hrel5⟩
  · rw [hrun5e] at h2; cases h2
  · rw [hrun5e] at h2
    have : m5e' = m5e := (Except.ok.inj h2).symm
    subst this
    obtain ⟨m6, hfin, hcur6, hni6, hunp6, hi6, hd6⟩ := finish_rel hrel5 hb5 hm5
    refine ⟨m5, m6, c5, ?_, hfin, hcur6, hni6, hunp6, by rw [hi6, hi5], by rw [hd6]; exact hdone⟩
    have e0 : argvWithCore k pre post ctoks calls2 =
        [k.tname] ++ (pre.flatMap Item.toks ++ (ctoks ++ (post.flatMap Item.toks ++ calls2.flatMap Call.toks))) := rfl
    rw [e0, runToks_append, hrun1]
    simp only [bind, Except.bind]
    rw [runToks_append, hrun2]
    simp only [bind, Except.bind]
    rw [runToks_append, hrun3]
    exact hrun5
end Inv
