import Invoke.Lemmas.ProgramPlacementA
/-! C18: the core pass, `_update_core_context` and the Program-level placement theorem (`program_with_core`):
    a core item inside the first call of a chain vs. the same item before all tasks. -/
namespace Inv
open M

/-! ### the core pass (ignore-unknown parser over the core context alone) -/

theorem seeUnknown_exact (m : M) (c : Ctx) (t : Tok) (hin : Inert m) (hctx : m.ctx = some c) (hmiss : c.missingPositional = []) :
    m.seeUnknown t = .ok { m with st := .unknown, unparsed := m.unparsed ++ [t] } := by
  unfold M.seeUnknown
  rw [enter_inert hin]
  unfold M.completeContext
  rw [hctx]
  simp [hmiss, bind, Except.bind]

theorem procTok_unknown_exact (n : Nat) (m : M) (c : Ctx) (t : Tok) (hst : m.st = .unknown) (hu : m.unparsed ≠ [])
    (hin : Inert m) (hctx : m.ctx = some c) (hmiss : c.missingPositional = []) :
    procTok (n + 1) m t = .ok { m with unparsed := m.unparsed ++ [t] } := by
  unfold procTok
  have he : m.unparsed.isEmpty = false := by
    cases hh : m.unparsed with
    | nil => exact absurd hh hu
    | cons a b => rfl
  have hp : presplit m t = .ok (t, []) := by simp [presplit, he]
  have hr : rollback m t (t, []) = (t, []) := by unfold rollback; split <;> rfl
  simp only [hp, hr]
  have hh : M.handle m t = M.seeUnknown m t := by unfold M.handle; rw [if_pos hst]
  rw [hh, seeUnknown_exact m c t hin hctx hmiss]
  simp only [List.foldlM_nil, pure, Except.pure]
  congr 1
  cases m; simp_all

theorem runToks_unknown_exact : ∀ (ts : List Tok) (m : M) (c : Ctx), m.st = .unknown → m.unparsed ≠ [] → Inert m →
    m.ctx = some c → c.missingPositional = [] → runToks m ts = .ok { m with unparsed := m.unparsed ++ ts }
  | [], m, _, _, _, _, _, _ => by simp [runToks, pure, Except.pure]
  | t :: ts, m, c, hst, hu, hin, hctx, hmiss => by
    have h1 := procTok_unknown_exact (t.length + 1) m c t hst hu hin hctx hmiss
    rw [runToks_cons_ok h1]
    have h2 := runToks_unknown_exact ts { m with unparsed := m.unparsed ++ [t] } c hst (by simp) (fun a ha => hin a ha) hctx hmiss
    rw [h2]
    simp [List.append_assoc]

/-- the core-pass machine after some core items -/
def coreM (ic ic' : Ctx) (fl : Option (Where × Nat)) (g : Bool) : M := (M.start (some ic) [] true).withCore ic' fl g

/-- `toks` handled by the core pass itself (before any task): the core context becomes `ic'`, nothing else -/
def CoreStep0 (ic ic' : Ctx) (toks : List Tok) : Prop :=
  ∃ fl g, runToks (M.start (some ic) [] true) toks = .ok (coreM ic ic' fl g) ∧ Inert (coreM ic ic' fl g)

theorem coreStep0_nil (ic : Ctx) : CoreStep0 ic ic [] :=
  ⟨none, false, rfl, inert_noflag _ rfl⟩

/-- the first token the core context does not know puts the core pass into "store everything" mode -/
theorem corePass_tail (ic ic' : Ctx) (fl : Option (Where × Nat)) (g : Bool) (tname : Tok) (rest : List Tok)
    (hin : Inert (coreM ic ic' fl g)) (hnf : isFlag tname = false)
    (hf : assoc? tname ic'.flags = none) (hi : assoc? tname ic'.inverse = none) (hmiss : ic'.missingPositional = []) :
    runToks (coreM ic ic' fl g) (tname :: rest) =
      .ok { coreM ic ic' fl g with st := .unknown, unparsed := tname :: rest } := by
  have hctx : (coreM ic ic' fl g).ctx = some ic' := rfl
  have hh : (coreM ic ic' fl g).handle tname = .ok { coreM ic ic' fl g with st := .unknown, unparsed := [tname] } := by
    have hsu := seeUnknown_exact (coreM ic ic' fl g) ic' tname hin hctx hmiss
    have hst : (coreM ic ic' fl g).st = .context := rfl
    have hl : (coreM ic ic' fl g).lookupCtx tname = none := rfl
    have hini : (coreM ic ic' fl g).initial = some ic' := rfl
    have hign : (coreM ic ic' fl g).ignoreUnknown = true := rfl
    unfold M.handle
    simp only [hst, hctx, hf, hi, hin.nw, hmiss, hl, hini, hign, reduceCtorEq, if_false, Option.isSome_none,
      Bool.false_eq_true, List.isEmpty_nil, Bool.not_true, Bool.false_and, Bool.not_false]
    rw [hsu]; rfl
  have h1 : procTok (tname.length + 2) (coreM ic ic' fl g) tname =
      .ok { coreM ic ic' fl g with st := .unknown, unparsed := [tname] } :=
    procTok_one _ (presplit_nonflag _ tname hnf) hh
  rw [runToks_cons_ok h1]
  have h2 := runToks_unknown_exact rest { coreM ic ic' fl g with st := .unknown, unparsed := [tname] } ic' rfl (by simp)
    (fun a ha => hin a ha) hctx hmiss
  rw [h2]; rfl

theorem corePass_with (ic ic' : Ctx) (ctoks : List Tok) (tname : Tok) (rest : List Tok)
    (hc0 : CoreStep0 ic ic' ctoks) (hmiss0 : ic.missingPositional = []) (hnf : isFlag tname = false)
    (hf : assoc? tname ic'.flags = none) (hi : assoc? tname ic'.inverse = none) (hmiss : ic'.missingPositional = [])
    (hbody : ∀ t ∈ ctoks ++ tname :: rest, t ≠ ['-', '-']) :
    corePass ic (ctoks ++ tname :: rest) = .ok { contexts := [ic'], unparsed := tname :: rest, remainder := [] } := by
  obtain ⟨fl, g, hrun, hin⟩ := hc0
  have hall : ∀ t ∈ ctoks ++ tname :: rest, (decide (t ≠ ['-', '-'])) = true := by
    intro t ht; simpa using hbody t ht
  have htw := takeWhile_all (fun (x : Tok) => decide (x ≠ ['-', '-'])) _ hall
  have hdw := dropWhile_all (fun (x : Tok) => decide (x ≠ ['-', '-'])) _ hall
  unfold corePass parseArgv
  simp only [htw, hdw, List.drop_nil, bind, Except.bind]
  have hm0e : ({ initial := some ic, cur := none, registry := [], ignoreUnknown := true } : M) = M.start (some ic) [] true := rfl
  rw [hm0e, start_enter (some ic) [] true (fun p hp => by cases hp; exact hmiss0)]
  simp only []
  have hfold : List.foldlM (fun m t => procTok (t.length + 2) m t) (M.start (some ic) [] true) (ctoks ++ tname :: rest) =
      .ok { coreM ic ic' fl g with st := .unknown, unparsed := tname :: rest } := by
    have := runToks_append (M.start (some ic) [] true) ctoks (tname :: rest)
    unfold runToks at this hrun
    rw [this, hrun]
    exact corePass_tail ic ic' fl g tname rest hin hnf hf hi hmiss
  rw [hfold]
  simp only []
  have hfin : M.enter { coreM ic ic' fl g with st := .end, unparsed := tname :: rest } =
      .ok { coreM ic ic' fl g with st := .end, unparsed := tname :: rest } := by
    have hin' : Inert ({ coreM ic ic' fl g with st := .end, unparsed := tname :: rest } : M) := fun a ha => hin a ha
    rw [enter_inert hin']
    unfold M.completeContext
    have : ({ coreM ic ic' fl g with st := .end, unparsed := tname :: rest } : M).ctx = some ic' := rfl
    rw [this]; simp [hmiss]
  rw [hfin]
  rfl

/-! ### the task pass with a core item inside the first call -/

theorem taskPass_with_core (ic ic' : Ctx) (reg : List Ctx) (k : Call) (pre post : List Item) (calls2 : List Call)
    (ctoks : List Tok) (hfl : ic'.flags = ic.flags) (hk : k.items = pre ++ post)
    (hok : ChainOK (some ic) reg (some ic) (k :: calls2))
    (hcore : CoreStepB ic ic' reg (pre.foldl Item.apply k.ctx) ctoks)
    (hbody : ∀ t ∈ argvWithCore k pre post ctoks calls2, t ≠ ['-', '-']) :
    taskPass ic reg (argvWithCore k pre post ctoks calls2) =
      .ok { contexts := ic' :: (k :: calls2).map Call.result, unparsed := [], remainder := [] } := by
  obtain ⟨m5, m6, c5, hrun, hfin, hcur6, hni6, hunp6, hi6, hd6⟩ :=
    run_with_core ic ic' reg false k pre post calls2 ctoks hfl hk hok hcore
  have hall : ∀ t ∈ argvWithCore k pre post ctoks calls2, (decide (t ≠ ['-', '-'])) = true := by
    intro t ht; simpa using hbody t ht
  have htw := takeWhile_all (fun (x : Tok) => decide (x ≠ ['-', '-'])) _ hall
  have hdw := dropWhile_all (fun (x : Tok) => decide (x ≠ ['-', '-'])) _ hall
  unfold taskPass parseArgv
  simp only [htw, hdw, List.drop_nil, bind, Except.bind]
  have hm0e : ({ initial := some ic, cur := none, registry := reg, ignoreUnknown := false } : M) = M.start (some ic) reg false := rfl
  rw [hm0e, start_enter (some ic) reg false (fun p hp => (hok.1.1.2 p hp).2.2)]
  simp only []
  have hfold : List.foldlM (fun m t => procTok (t.length + 2) m t) (M.start (some ic) reg false)
      (argvWithCore k pre post ctoks calls2) = .ok m5 := hrun
  rw [hfold]
  simp only []
  rw [hfin]
  simp only [pure, Except.pure, hi6, hni6, hcur6, hunp6]
  simp [← hd6]

theorem taskPass_plain (ic : Ctx) (reg : List Ctx) (calls : List Call) (hok : ChainOK (some ic) reg (some ic) calls)
    (hbody : ∀ t ∈ calls.flatMap Call.toks, t ≠ ['-', '-']) :
    taskPass ic reg (calls.flatMap Call.toks) = .ok { contexts := ic :: calls.map Call.result, unparsed := [], remainder := [] } := by
  have := parse_chain_core (some ic) reg false calls hok hbody
  simpa [taskPass] using this

/-! ### the same core items handled by the core pass -/

theorem coreStep0_bool (ic : Ctx) (tok : Tok) (i : Nat) (a a' : Arg) (hun : Unsplit tok)
    (hf : assoc? tok ic.flags = some i) (ha : ic.args[i]? = some a) (ht : a.takesValue = false)
    (hs : a.setValue (.b true) = .ok a') : CoreStep0 ic (ic.setArg i a') [tok] := by
  refine ⟨some (.cur, i), false, ?_, ?_⟩
  · have hh := core_bool_in_core (M.start (some ic) [] true) ic tok i a a' rfl rfl rfl rfl hf ha ht hs
    exact runToks_single (procTok_one _ (presplit_unsplit _ tok hun) hh)
  · intro b hb
    obtain ⟨s1, s2, s3⟩ := Arg.setValue_settled a a' (.b true) true (by simp) hs
    have : (coreM ic (ic.setArg i a') (some (.cur, i)) false).flagArg = some a' := by
      simp [M.flagArg, coreM, M.withCore, M.start, M.ctx, setArg_get ic i a a' ha]
    rw [this] at hb; cases hb
    refine ⟨s2, s3, ?_⟩
    intro htv
    have : a.takesValue = true := by simpa [Arg.takesValue, s1] using htv
    rw [ht] at this; cases this

theorem coreStep0_value_spaced (ic : Ctx) (tok v : Tok) (i : Nat) (a a' : Arg) (hun : Unsplit tok)
    (hvf : assoc? v ic.flags = none) (hvinv : assoc? v ic.inverse = none)
    (hf : assoc? tok ic.flags = some i) (ha : ic.args[i]? = some a) (ht : a.takesValue = true) (hr0 : a.raw = none)
    (ho : a.spec.optional = false) (hs : a.setValue (.s v) = .ok a') : CoreStep0 ic (ic.setArg i a') [tok, v] := by
  refine ⟨some (.cur, i), true, ?_, ?_⟩
  · let m0 := M.start (some ic) [] true
    let m1 : M := { m0 with flag := some (.cur, i), flagGotValue := false }
    have hctx0 : m0.ctx = some ic := rfl
    have hhd : m0.handle tok = .ok m1 := by
      unfold M.handle
      have hst : m0.st = .context := rfl
      simp only [hst, hctx0, hf, Option.isSome_some, if_true, reduceCtorEq, if_false]
      unfold M.switchToFlag
      simp only [checkAmbiguity_of_noflag m0 tok rfl, completeFlag_of_noflag m0 rfl, bind, Except.bind, hctx0, pure,
        Except.pure, Bool.false_eq_true, if_false, hf]
      simp [M.flagArg, M.ctx, m0, M.start, ha, ht, m1]
    have h1 : procTok (tok.length + 2) m0 tok = .ok m1 := procTok_one _ (presplit_unsplit m0 tok hun) hhd
    have hctx1 : m1.ctx = some ic := rfl
    have hfa1 : m1.flagArg = some a := by simp [M.flagArg, m1, m0, M.start, M.ctx, ha]
    have hw1 : m1.waiting = true := by unfold M.waiting; rw [hfa1]; simp [ht, hr0]
    have hks : ∀ x, keepSplit m1 x = false := by intro x; unfold keepSplit; rw [hfa1]; simp [ho]
    have hhv : m1.handle v = .ok (coreM ic (ic.setArg i a') (some (.cur, i)) true) := by
      unfold M.handle
      have hst1 : m1.st = .context := rfl
      have hop1 : m1.optionalPending = false := by simp [M.optionalPending, hfa1, ho]
      simp only [hst1, hctx1, hvf, hvinv, Option.isSome_none, Bool.false_eq_true, if_false, reduceCtorEq, hw1, hop1, Bool.false_and,
        Bool.not_false, Bool.and_self, if_true]
      unfold M.seeValue M.checkAmbiguity
      simp only [hfa1, ho, bind, Except.bind, ht, if_true, hs, Bool.false_eq_true, if_false]
      simp [M.updFlagArg, m1, m0, M.start, M.ctx, M.setCtx, coreM, M.withCore, Ctx.setArg]
    have h2 : procTok (v.length + 2) m1 v = .ok (coreM ic (ic.setArg i a') (some (.cur, i)) true) := by
      unfold procTok
      obtain ⟨p, hp⟩ := presplit_total m1 v
      simp only [hp, rollback, hw1, hks, Bool.not_false, Bool.and_self, if_true, hhv, List.foldlM_nil, pure, Except.pure]
    show runToks m0 [tok, v] = _
    simp only [runToks, List.foldlM_cons, h1, h2, bind, Except.bind, List.foldlM_nil, pure, Except.pure]
  · intro b hb
    obtain ⟨s1, s2, s3⟩ := Arg.setValue_settled a a' (.s v) true (by simp) hs
    have : (coreM ic (ic.setArg i a') (some (.cur, i)) true).flagArg = some a' := by
      simp [M.flagArg, coreM, M.withCore, M.start, M.ctx, setArg_get ic i a a' ha]
    rw [this] at hb; cases hb
    exact ⟨s2, s3, fun _ _ => rfl⟩

/-! ### `_update_core_context` and what the property compares -/

/-- what is observable of an argument: its declaration and its value -/
def Arg.view (a : Arg) : ArgSpec × PVal := (a.spec, a.value)
def Ctx.view (c : Ctx) : List (ArgSpec × PVal) := c.args.map Arg.view

theorem mergeCoreArg_self_view (x : Arg) : (mergeCoreArg x x).view = x.view := by
  unfold mergeCoreArg; split <;> rfl

theorem zipWith_merge_self_view : ∀ (l : List Arg), (List.zipWith mergeCoreArg l l).map Arg.view = l.map Arg.view
  | [] => rfl
  | x :: xs => by simp [List.zipWith, mergeCoreArg_self_view, zipWith_merge_self_view xs]

theorem zipWith_merge_set_view (a a' : Arg) (hs : a'.spec = a.spec) (hga : a.gotValue = false) (hga' : a'.gotValue = true)
    (hv : a'.val ≠ .none) : ∀ (l : List Arg) (i : Nat), l[i]? = some a →
    (List.zipWith mergeCoreArg l (l.set i a')).map Arg.view = (List.zipWith mergeCoreArg (l.set i a') l).map Arg.view
  | [], _, h => by simp at h
  | x :: xs, 0, h => by
    have hx : x = a := by simpa using h
    subst hx
    simp only [List.set, List.zipWith, List.map_cons]
    congr 1
    simp [mergeCoreArg, hga, hga', Arg.view, Arg.value, hv, hs]
  | x :: xs, i + 1, h => by
    have h' : xs[i]? = some a := by simpa using h
    simp only [List.set, List.zipWith, List.map_cons]
    rw [zipWith_merge_set_view a a' hs hga hga' hv xs i h']

theorem updateCore_view (ic : Ctx) (i : Nat) (a a' : Arg) (ha : ic.args[i]? = some a) (hs : a'.spec = a.spec)
    (hga : a.gotValue = false) (hga' : a'.gotValue = true) (hv : a'.val ≠ .none) :
    (updateCore ic (ic.setArg i a')).view = (updateCore (ic.setArg i a') ic).view :=
  zipWith_merge_set_view a a' hs hga hga' hv ic.args i ha

theorem find_view : ∀ (l l' : List Arg) (n : Tok), l.map Arg.view = l'.map Arg.view →
    (l.find? (Arg.isNamed n)).map Arg.value = (l'.find? (Arg.isNamed n)).map Arg.value
  | [], [], _, _ => rfl
  | [], _ :: _, _, h => by simp at h
  | _ :: _, [], _, h => by simp at h
  | x :: xs, y :: ys, n, h => by
    simp only [List.map_cons, List.cons.injEq] at h
    obtain ⟨h1, h2⟩ := h
    have hsp : x.spec = y.spec := congrArg Prod.fst h1
    have hvl : x.value = y.value := congrArg Prod.snd h1
    have hn : Arg.isNamed n x = Arg.isNamed n y := by simp [Arg.isNamed, hsp]
    simp only [List.find?_cons, hn]
    cases Arg.isNamed n y with
    | true => simp [hvl]
    | false => exact find_view xs ys n h2

theorem valueOf_view (c c' : Ctx) (h : c.view = c'.view) (n : Tok) : c.valueOf n = c'.valueOf n := by
  have := find_view c.args c'.args n h
  unfold Ctx.valueOf Ctx.argNamed
  cases h1 : c.args.find? (Arg.isNamed n) <;> cases h2 : c'.args.find? (Arg.isNamed n) <;> simp [h1, h2] at this ⊢
  exact this

theorem overrides_view (c c' : Ctx) (h : c.view = c'.view) : overrides c = overrides c' := by
  unfold overrides
  simp only [valueOf_view c c' h]

/-! ### the two-pass parse with the core item inside the first call vs. before all tasks -/

theorem program_with_core (ic ic' : Ctx) (reg : List Ctx) (k : Call) (pre post : List Item) (calls2 : List Call)
    (ctoks : List Tok) (hfl : ic'.flags = ic.flags) (hinv : ic'.inverse = ic.inverse) (hmiss' : ic'.missingPositional = [])
    (hk : k.items = pre ++ post)
    (hok : ChainOK (some ic) reg (some ic) (k :: calls2))
    (hcore : CoreStepB ic ic' reg (pre.foldl Item.apply k.ctx) ctoks)
    (hcore0 : CoreStep0 ic ic' ctoks)
    (hbodyA : ∀ t ∈ argvWithCore k pre post ctoks calls2, t ≠ ['-', '-']) :
    programParse ic reg (argvWithCore k pre post ctoks calls2) =
      .ok { core := updateCore ic ic', tasks := (k :: calls2).map Call.result,
            unparsed := argvWithCore k pre post ctoks calls2, remainder := [] } ∧
    programParse ic reg (ctoks ++ (k :: calls2).flatMap Call.toks) =
      .ok { core := updateCore ic' ic, tasks := (k :: calls2).map Call.result,
            unparsed := (k :: calls2).flatMap Call.toks, remainder := [] } := by
  obtain ⟨hnf, hnp⟩ := hok.1.1
  obtain ⟨hf, hi, hm⟩ := hnp ic rfl
  have hmem : ∀ t, t ∈ (k :: calls2).flatMap Call.toks → t ∈ argvWithCore k pre post ctoks calls2 := by
    intro t ht
    simp only [argvWithCore, List.flatMap_cons, Call.toks, hk, List.flatMap_append, List.mem_cons, List.mem_append] at ht ⊢
    rcases ht with (h | h | h) | h
    · exact Or.inl h
    · exact Or.inr (Or.inl h)
    · exact Or.inr (Or.inr (Or.inr (Or.inl h)))
    · exact Or.inr (Or.inr (Or.inr (Or.inr h)))
  have hmemc : ∀ t, t ∈ ctoks → t ∈ argvWithCore k pre post ctoks calls2 := by
    intro t ht
    simp only [argvWithCore, List.mem_cons, List.mem_append]
    exact Or.inr (Or.inr (Or.inl ht))
  constructor
  · -- the core pass knows nothing: everything is handed to task parsing
    have h1 := corePass_with ic ic [] k.tname
      (pre.flatMap Item.toks ++ (ctoks ++ (post.flatMap Item.toks ++ calls2.flatMap Call.toks)))
      (coreStep0_nil ic) hm hnf hf hi hm (by simpa [argvWithCore] using hbodyA)
    have h2 := taskPass_with_core ic ic' reg k pre post calls2 ctoks hfl hk hok hcore hbodyA
    unfold programParse
    have e : argvWithCore k pre post ctoks calls2 = [] ++ k.tname ::
        (pre.flatMap Item.toks ++ (ctoks ++ (post.flatMap Item.toks ++ calls2.flatMap Call.toks))) := rfl
    rw [e, h1]
    simp only [bind, Except.bind, pure, Except.pure]
    have h2' : taskPass ic reg (k.tname ::
        (pre.flatMap Item.toks ++ (ctoks ++ (post.flatMap Item.toks ++ calls2.flatMap Call.toks)))) = _ := h2
    rw [h2']
    rfl
  · have e : (k :: calls2).flatMap Call.toks = k.tname :: (k.items.flatMap Item.toks ++ calls2.flatMap Call.toks) := by
      simp [List.flatMap_cons, Call.toks]
    have hb : ∀ t ∈ ctoks ++ k.tname :: (k.items.flatMap Item.toks ++ calls2.flatMap Call.toks), t ≠ ['-', '-'] := by
      intro t ht
      rcases List.mem_append.mp ht with h | h
      · exact hbodyA t (hmemc t h)
      · exact hbodyA t (hmem t (by rw [e]; exact h))
    have h1 := corePass_with ic ic' ctoks k.tname (k.items.flatMap Item.toks ++ calls2.flatMap Call.toks)
      hcore0 hm hnf (by rw [hfl]; exact hf) (by rw [hinv]; exact hi) hmiss' hb
    have h2 := taskPass_plain ic reg (k :: calls2) hok (fun t ht => hbodyA t (hmem t ht))
    unfold programParse
    rw [e, h1]
    simp only [bind, Except.bind, pure, Except.pure]
    rw [← e, h2]
end Inv
