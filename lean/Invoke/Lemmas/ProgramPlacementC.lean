import Invoke.Lemmas.ProgramPlacementB
/-! C18: the `=` and glued spellings of a value-taking core flag inside a task context (through `presplit`). -/
namespace Inv
open M

/-- a token that `presplit` turns into (core value flag, [value]) is handled inside a task context like the spaced form -/
theorem core_value_split (ic : Ctx) (reg : List Ctx) (c : Ctx) (T tok v : Tok) (i : Nat) (a a' : Arg) (n : Nat)
    (m : M) (hr : Ready m c) (hi : m.initial = some ic) (hreg : m.registry = reg)
    (hps : presplit m T = .ok (tok, [v]))
    (hcf : assoc? tok c.flags = none) (hcinv : assoc? tok c.inverse = none)
    (hl : reg.find? (fun x => x.name = some tok || x.aliases.contains tok) = none)
    (hvf : assoc? v c.flags = none) (hvinv : assoc? v c.inverse = none)
    (hf : assoc? tok ic.flags = some i) (ha : ic.args[i]? = some a) (hh : a.spec.names.headD [] ≠ "help".toList)
    (ht : a.takesValue = true) (hr0 : a.raw = none) (ho : a.spec.optional = false)
    (hs : a.setValue (.s v) = .ok a') :
    procTok (n + 2) m T = .ok (m.withCore (ic.setArg i a') (some (.initial, i)) true) := by
  have hctx := ctx_of_ready hr
  have hlk : m.lookupCtx tok = none := by unfold M.lookupCtx; rw [hreg]; exact hl
  let m1 : M := { m with flag := some (.initial, i), flagGotValue := false }
  have hhd : m.handle tok = .ok m1 := by
    unfold M.handle
    simp only [hr.st, hctx, hcf, hcinv, Option.isSome_none, Bool.false_eq_true, if_false, reduceCtorEq,
      hr.nw, hi, hf, Option.isSome_some, hr.notInit, Bool.not_false, Bool.and_self, Bool.not_true, Bool.and_false,
      hlk, if_true, Option.bind_some, ha, hh]
    unfold M.switchToFlag
    simp only [checkAmbiguity_ready hr, completeFlag_ready hr, bind, Except.bind, hctx, pure, Except.pure,
      Bool.false_eq_true, if_false, hcf, hi, Option.bind_some, hf]
    simp [M.flagArg, ha, ht, hr.st, hr.notInit, m1, hi]
  have hctx1 : m1.ctx = some c := hctx
  have hfa1 : m1.flagArg = some a := by simp [M.flagArg, m1, hi, ha]
  have hw1 : m1.waiting = true := by unfold M.waiting; rw [hfa1]; simp [ht, hr0]
  have hks : ∀ x, keepSplit m1 x = false := by intro x; unfold keepSplit; rw [hfa1]; simp [ho]
  have hhv : m1.handle v = .ok (m.withCore (ic.setArg i a') (some (.initial, i)) true) := by
    unfold M.handle
    have hst1 : m1.st = .context := hr.st
    have hop1 : m1.optionalPending = false := by simp [M.optionalPending, hfa1, ho]
    simp only [hst1, hctx1, hvf, hvinv, Option.isSome_none, Bool.false_eq_true, if_false, reduceCtorEq, hw1, hop1, Bool.false_and,
      Bool.not_false, Bool.and_self, if_true]
    unfold M.seeValue M.checkAmbiguity
    simp only [hfa1, ho, bind, Except.bind, ht, if_true, hs, Bool.false_eq_true, if_false]
    simp [M.updFlagArg, m1, hi, M.withCore, Ctx.setArg]
  have h2 : procTok (n + 1) m1 v = .ok (m.withCore (ic.setArg i a') (some (.initial, i)) true) := by
    unfold procTok
    obtain ⟨p, hp⟩ := presplit_total m1 v
    simp only [hp, rollback, hw1, hks, Bool.not_false, Bool.and_self, if_true, hhv, List.foldlM_nil, pure, Except.pure]
  have hrb : rollback m T (tok, [v]) = (tok, [v]) := by simp [rollback, hr.nw]
  unfold procTok
  simp only [hps, hrb, hhd, List.foldlM_cons, List.foldlM_nil, h2, bind, Except.bind, pure, Except.pure]

theorem inert_withCore_value (m : M) (ic : Ctx) (i : Nat) (a a' : Arg) (v : Tok) (ha : ic.args[i]? = some a)
    (hs : a.setValue (.s v) = .ok a') (w : Where) (hw : w = .initial ∨ m.curIsInitial = true) :
    Inert (m.withCore (ic.setArg i a') (some (w, i)) true) := by
  intro b hb
  obtain ⟨s1, s2, s3⟩ := Arg.setValue_settled a a' (.s v) true (by simp) hs
  have : (m.withCore (ic.setArg i a') (some (w, i)) true).flagArg = some a' := by
    rcases hw with rfl | hci
    · simp [M.flagArg, M.withCore, setArg_get ic i a a' ha]
    · cases w <;> simp [M.flagArg, M.withCore, M.ctx, hci, setArg_get ic i a a' ha]
  rw [this] at hb; cases hb
  exact ⟨s2, s3, fun _ _ => rfl⟩

theorem presplit_glued_core {m c} (h : Ready m c) (ic : Ctx) (hi : m.initial = some ic) (x y : Char) (w : Tok) (i : Nat) (a : Arg)
    (hx : x ≠ '-') (hy : y ≠ '=') (hcf : assoc? ['-', x] c.flags = none)
    (hf : assoc? ['-', x] ic.flags = some i) (ha : ic.args[i]? = some a) (htv : a.takesValue = true) :
    presplit m ('-' :: x :: y :: w) = .ok (['-', x], [y :: w]) := by
  have hgf : gluedFlag m ['-', x] = some a := by
    simp [gluedFlag, h.st, ctx_of_ready h, hcf, h.notInit, hi, hf, ha]
  unfold presplit
  have hig : isGlued m ('-' :: x :: y :: w) = true := by simp [isGlued, isLongFlag, hx, hy, hgf, htv]
  simp [isFlag, h.unp, hig, isLongFlag, hx, splitShort, hgf, htv]

/-- the same pieces handled by the core pass (machine before any task) -/
theorem core0_value_split (ic : Ctx) (T tok v : Tok) (i : Nat) (a a' : Arg) (n : Nat)
    (hps : presplit (M.start (some ic) [] true) T = .ok (tok, [v]))
    (hvf : assoc? v ic.flags = none) (hvinv : assoc? v ic.inverse = none)
    (hf : assoc? tok ic.flags = some i) (ha : ic.args[i]? = some a)
    (ht : a.takesValue = true) (hr0 : a.raw = none) (ho : a.spec.optional = false)
    (hs : a.setValue (.s v) = .ok a') :
    procTok (n + 2) (M.start (some ic) [] true) T = .ok (coreM ic (ic.setArg i a') (some (.cur, i)) true) := by
  let m1 : M := { (M.start (some ic) [] true) with flag := some (.cur, i), flagGotValue := false }
  have hctx0 : (M.start (some ic) [] true).ctx = some ic := rfl
  have hhd : (M.start (some ic) [] true).handle tok = .ok m1 := by
    unfold M.handle
    have hst : (M.start (some ic) [] true).st = .context := rfl
    simp only [hst, hctx0, hf, Option.isSome_some, if_true, reduceCtorEq, if_false]
    unfold M.switchToFlag
    simp only [checkAmbiguity_of_noflag (M.start (some ic) [] true) tok rfl, completeFlag_of_noflag (M.start (some ic) [] true) rfl, bind, Except.bind, hctx0, pure,
      Except.pure, Bool.false_eq_true, if_false, hf]
    simp [M.flagArg, M.ctx, M.start, ha, ht, m1]
  have hctx1 : m1.ctx = some ic := rfl
  have hfa1 : m1.flagArg = some a := by simp [M.flagArg, m1, M.start, M.ctx, ha]
  have hw1 : m1.waiting = true := by unfold M.waiting; rw [hfa1]; simp [ht, hr0]
  have hks : ∀ x, keepSplit m1 x = false := by intro x; unfold keepSplit; rw [hfa1]; simp [ho]
  have hhv : m1.handle v = .ok (coreM ic (ic.setArg i a') (some (.cur, i)) true) := by
    unfold M.handle
    have hst1 : m1.st = .context := rfl
    have hop1 : m1.optionalPending = false := by simp [M.optionalPending, hfa1, ho]
    simp only [hst1, hctx1, hvf, hvinv, Option.isSome_none, Bool.false_eq_true, if_false, reduceCtorEq, hw1, hop1, Bool.false_and,
      Bool.not_false, Bool.and_self, if_true]
    unfold M.seeValue M.checkAmbiguity
    simp only [hfa1, ho, bind, Except.bind, ht, if_true, hs, Bool.false_eq_true, if_false]
    simp [M.updFlagArg, m1, M.start, M.ctx, M.setCtx, coreM, M.withCore, Ctx.setArg]
  have h2 : procTok (n + 1) m1 v = .ok (coreM ic (ic.setArg i a') (some (.cur, i)) true) := by
    unfold procTok
    obtain ⟨p, hp⟩ := presplit_total m1 v
    simp only [hp, rollback, hw1, hks, Bool.not_false, Bool.and_self, if_true, hhv, List.foldlM_nil, pure, Except.pure]
  have hw0 : (M.start (some ic) [] true).waiting = false := rfl
  have hrb : rollback (M.start (some ic) [] true) T (tok, [v]) = (tok, [v]) := by simp [rollback, hw0]
  unfold procTok
  simp only [hps, hrb, hhd, List.foldlM_cons, List.foldlM_nil, h2, bind, Except.bind, pure, Except.pure]

/-- the documented spellings of "core value flag `tok` with value `v`" as token lists -/
inductive CoreValSpelling (tok v : Tok) : List Tok → Prop
  /-- `--command-timeout 5`, `-T 5` -/
  | spaced (hun : Unsplit tok) : CoreValSpelling tok v [tok, v]
  /-- `--command-timeout=5`, `-T=5` -/
  | eq (hft : FlagTok tok) : CoreValSpelling tok v [tok ++ '=' :: v]
  /-- `-T5`, `-Fx=y`: value glued to the short flag; non-empty and not starting with `=` (it may CONTAIN `=`: the
      glued-value rule consults the core flags inside a task too) -/
  | glued (x y : Char) (w : Tok) (htok : tok = ['-', x]) (hv : v = y :: w) (hx : x ≠ '-') (hy : y ≠ '=') :
      CoreValSpelling tok v ['-' :: x :: y :: w]

theorem coreStep_value (ic : Ctx) (reg : List Ctx) (c : Ctx) (tok v : Tok) (toks : List Tok) (i : Nat) (a a' : Arg)
    (hsp : CoreValSpelling tok v toks)
    (hcf : assoc? tok c.flags = none) (hcinv : assoc? tok c.inverse = none)
    (hl : reg.find? (fun x => x.name = some tok || x.aliases.contains tok) = none)
    (hvf : assoc? v c.flags = none) (hvinv : assoc? v c.inverse = none)
    (hf : assoc? tok ic.flags = some i) (ha : ic.args[i]? = some a) (hh : a.spec.names.headD [] ≠ "help".toList)
    (ht : a.takesValue = true) (hr0 : a.raw = none) (ho : a.spec.optional = false)
    (hs : a.setValue (.s v) = .ok a') :
    CoreStep ic (ic.setArg i a') reg c toks := by
  cases hsp with
  | spaced hun => exact coreStep_value_spaced ic reg c tok v i a a' hun hcf hcinv hl hvf hvinv hf ha hh ht hr0 ho hs
  | eq hft =>
    intro m hr hi hreg
    refine ⟨some (.initial, i), true, ?_, inert_withCore_value m ic i a a' v ha hs .initial (Or.inl rfl)⟩
    have := core_value_split ic reg c (tok ++ '=' :: v) tok v i a a' (tok ++ '=' :: v).length m hr hi hreg
      (presplit_eq_form hr hft v) hcf hcinv hl hvf hvinv hf ha hh ht hr0 ho hs
    exact runToks_single this
  | glued x y w htok hv hx hy =>
    subst htok; subst hv
    intro m hr hi hreg
    refine ⟨some (.initial, i), true, ?_, inert_withCore_value m ic i a a' (y :: w) ha hs .initial (Or.inl rfl)⟩
    have := core_value_split ic reg c ('-' :: x :: y :: w) ['-', x] (y :: w) i a a' ('-' :: x :: y :: w).length m hr hi hreg
      (presplit_glued_core hr ic hi x y w i a hx hy hcf hf ha ht) hcf hcinv hl hvf hvinv hf ha hh ht hr0 ho hs
    exact runToks_single this

theorem coreStep0_value (ic : Ctx) (tok v : Tok) (toks : List Tok) (i : Nat) (a a' : Arg)
    (hsp : CoreValSpelling tok v toks)
    (hvf : assoc? v ic.flags = none) (hvinv : assoc? v ic.inverse = none)
    (hf : assoc? tok ic.flags = some i) (ha : ic.args[i]? = some a)
    (ht : a.takesValue = true) (hr0 : a.raw = none) (ho : a.spec.optional = false)
    (hs : a.setValue (.s v) = .ok a') :
    CoreStep0 ic (ic.setArg i a') toks := by
  cases hsp with
  | spaced hun => exact coreStep0_value_spaced ic tok v i a a' hun hvf hvinv hf ha ht hr0 ho hs
  | eq hft =>
    refine ⟨some (.cur, i), true, ?_, inert_withCore_value _ ic i a a' v ha hs .cur (Or.inr rfl)⟩
    have hfl : isFlag (tok ++ '=' :: v) = true := by
      rcases hft.2 with ⟨r, rfl⟩ | ⟨x, rfl⟩ <;> rfl
    have hun0 : (M.start (some ic) [] true).unparsed = [] := rfl
    have hps : presplit (M.start (some ic) [] true) (tok ++ '=' :: v) = .ok (tok, [v]) := by
      unfold presplit
      simp [hfl, hun0, hasEq_append, isGlued_eq_form _ hft, beforeEq_append hft.1, afterEq_append hft.1]
    exact runToks_single (core0_value_split ic _ tok v i a a' (tok ++ '=' :: v).length hps hvf hvinv hf ha ht hr0 ho hs)
  | glued x y w htok hv hx hy =>
    subst htok; subst hv
    refine ⟨some (.cur, i), true, ?_, inert_withCore_value _ ic i a a' (y :: w) ha hs .cur (Or.inr rfl)⟩
    have hgf : gluedFlag (M.start (some ic) [] true) ['-', x] = some a := by
      simp [gluedFlag, M.start, M.ctx, hf, ha]
    have hun0 : (M.start (some ic) [] true).unparsed = [] := rfl
    have hps : presplit (M.start (some ic) [] true) ('-' :: x :: y :: w) = .ok (['-', x], [y :: w]) := by
      unfold presplit
      have hig : isGlued (M.start (some ic) [] true) ('-' :: x :: y :: w) = true := by simp [isGlued, isLongFlag, hx, hy, hgf, ht]
      simp [isFlag, hun0, hig, isLongFlag, hx, splitShort, hgf, ht]
    exact runToks_single (core0_value_split ic _ ['-', x] (y :: w) i a a' ('-' :: x :: y :: w).length hps hvf hvinv hf ha ht hr0 ho hs)
/-- the two-pass parse of a command line that consists of task calls only -/
theorem program_plain (ic : Ctx) (reg : List Ctx) (k : Call) (calls2 : List Call)
    (hok : ChainOK (some ic) reg (some ic) (k :: calls2))
    (hbody : ∀ t ∈ (k :: calls2).flatMap Call.toks, t ≠ ['-', '-']) :
    programParse ic reg ((k :: calls2).flatMap Call.toks) =
      .ok { core := updateCore ic ic, tasks := (k :: calls2).map Call.result,
            unparsed := (k :: calls2).flatMap Call.toks, remainder := [] } := by
  obtain ⟨hnf, hnp⟩ := hok.1.1
  obtain ⟨hf, hi, hm⟩ := hnp ic rfl
  have e : (k :: calls2).flatMap Call.toks = k.tname :: (k.items.flatMap Item.toks ++ calls2.flatMap Call.toks) := by
    simp [List.flatMap_cons, Call.toks]
  have h1 := corePass_with ic ic [] k.tname (k.items.flatMap Item.toks ++ calls2.flatMap Call.toks)
    (coreStep0_nil ic) hm hnf hf hi hm (by intro t ht; exact hbody t (by rw [e]; simpa using ht))
  have h2 := taskPass_plain ic reg (k :: calls2) hok hbody
  unfold programParse
  rw [e]
  have h1' : corePass ic (k.tname :: (k.items.flatMap Item.toks ++ calls2.flatMap Call.toks)) = _ := h1
  rw [h1']
  simp only [bind, Except.bind, pure, Except.pure]
  rw [← e, h2]

theorem updateCore_self_view (ic : Ctx) : (updateCore ic ic).view = ic.view :=
  zipWith_merge_self_view ic.args
end Inv
