import Invoke.Lemmas.ProgramPlacementC
/-! C18: the core item inside ANY call of the chain (not only the first one). -/
namespace Inv
open M

/-! ### the core item inside ANY call of the chain -/

/-- calls that are followed by something: each admissible, none ending with a bare optional-value flag -/
def PrefixOK (ic : Option Ctx) (reg : List Ctx) : Option Ctx → List Call → Prop
  | _, [] => True
  | prev, x :: xs => CallOK ic reg prev x ∧ endsBare false x.items = false ∧ PrefixOK ic reg (some x.result) xs

/-- the context the next task name is read in, after the calls `xs` -/
def lastPrev : Option Ctx → List Call → Option Ctx
  | prev, [] => prev
  | _, x :: xs => lastPrev (some x.result) xs

theorem ChainOK_split (ic : Option Ctx) (reg : List Ctx) (k : Call) (ys : List Call) :
    ∀ (xs : List Call) (prev : Option Ctx), ChainOK ic reg prev (xs ++ k :: ys) →
      PrefixOK ic reg prev xs ∧ CallOK ic reg (lastPrev prev xs) k ∧ (ys ≠ [] → endsBare false k.items = false) ∧
      ChainOK ic reg (some k.result) ys
  | [], _, h => ⟨trivial, h.1, h.2.1, h.2.2⟩
  | x :: xs, prev, h => by
    obtain ⟨h1, h2, h3⟩ := h
    obtain ⟨a, b, c, d⟩ := ChainOK_split ic reg k ys xs _ h3
    exact ⟨⟨h1, h2 (by simp), a⟩, b, c, d⟩

/-- a prefix of calls from a ready state ends in a ready state -/
theorem prefix_step (ic : Option Ctx) (reg : List Ctx) : ∀ (calls : List Call) {m : M} {c : Ctx}, Ready m c →
    m.initial = ic → m.registry = reg → PrefixOK ic reg (some c) calls →
    ∃ m' c', runToks m (calls.flatMap Call.toks) = .ok m' ∧ Ready m' c' ∧ m'.initial = ic ∧ m'.registry = reg ∧
      lastPrev (some c) calls = some c' ∧ m'.done ++ [c'] = m.done ++ [c] ++ calls.map Call.result
  | [], m, c, h, hi, hg, _ => ⟨m, c, rfl, h, hi, hg, rfl, by simp⟩
  | x :: xs, m, c, h, hi, hg, hok => by
    obtain ⟨⟨hname, hfind, hitems⟩, hnb, hrest⟩ := hok
    have hlk : m.lookupCtx x.tname = some x.ctx := by simpa [M.lookupCtx, hg] using hfind
    obtain ⟨m1, hrun1, hr1, hi1, hd1, hg1, _⟩ := step_switch h x.tname x.ctx hname hlk
    have hitems' : ItemsOK m1.initial m1.registry false x.ctx x.items := by rw [hi1, hg1, hi, hg]; exact hitems
    have hb1 : Btw false m1 x.ctx := by simpa [Btw] using hr1
    obtain ⟨m2, hrun2, hb2, hf2⟩ := items_step x.items hb1 hitems'
    rw [hnb] at hb2
    have hr2 : Ready m2 x.result := by simpa [Btw, Call.result] using hb2
    obtain ⟨m3, c3, hrun3, hr3, hi3, hg3, hl3, hd3⟩ := prefix_step ic reg xs hr2 (by rw [hf2.1, hi1, hi]) (by rw [hf2.2.2.1, hg1, hg]) hrest
    refine ⟨m3, c3, ?_, hr3, hi3, hg3, hl3, ?_⟩
    · have e0 : (x :: xs).flatMap Call.toks = [x.tname] ++ (x.items.flatMap Item.toks ++ xs.flatMap Call.toks) := by
        simp [List.flatMap_cons, Call.toks]
      rw [e0, runToks_append, hrun1]
      simp only [bind, Except.bind]
      rw [runToks_append, hrun2]
      exact hrun3
    · rw [hd3, hf2.2.1, hd1]; simp [List.append_assoc]

/-- the core item inside a call that is NOT the first one -/
theorem run_with_core_later (ic ic' : Ctx) (reg : List Ctx) (ign : Bool) (k0 : Call) (r0 : List Call) (k : Call)
    (pre post : List Item) (calls2 : List Call) (ctoks : List Tok) (hfl : ic'.flags = ic.flags) (hk : k.items = pre ++ post)
    (hok : ChainOK (some ic) reg (some ic) ((k0 :: r0) ++ k :: calls2))
    (hcore : CoreStepB ic ic' reg (pre.foldl Item.apply k.ctx) ctoks) :
    ∃ m5 m6 c5, runToks (M.start (some ic) reg ign)
        ((k0 :: r0).flatMap Call.toks ++ argvWithCore k pre post ctoks calls2) = .ok m5 ∧
      M.enter { m5 with st := .end } = .ok m6 ∧ m6.cur = some c5 ∧ m6.curIsInitial = false ∧ m6.unparsed = [] ∧
      m6.initial = some ic' ∧ m6.done ++ [c5] = ((k0 :: r0) ++ k :: calls2).map Call.result := by
  obtain ⟨hpfx, hcallk, hlast, hrest⟩ := ChainOK_split (some ic) reg k calls2 (k0 :: r0) (some ic) hok
  obtain ⟨⟨hname0, hfind0, hitems0⟩, hnb0, hpfx0⟩ := hpfx
  obtain ⟨m1, hrun1, hr1, hi1, hd1, hg1, _⟩ := first_switch (some ic) reg ign k0.tname k0.ctx hname0 hfind0
  have hitems0' : ItemsOK m1.initial m1.registry false k0.ctx k0.items := by rw [hi1, hg1]; exact hitems0
  have hb1 : Btw false m1 k0.ctx := by simpa [Btw] using hr1
  obtain ⟨m2, hrun2, hb2, hf2⟩ := items_step k0.items hb1 hitems0'
  rw [hnb0] at hb2
  have hr2 : Ready m2 k0.result := by simpa [Btw, Call.result] using hb2
  have hi2 : m2.initial = some ic := by rw [hf2.1, hi1]
  have hg2 : m2.registry = reg := by rw [hf2.2.2.1, hg1]
  have hd2 : m2.done = [] := by rw [hf2.2.1, hd1]
  obtain ⟨m3, c3, hrun3, hr3, hi3, hg3, hl3, hd3⟩ := prefix_step (some ic) reg r0 hr2 hi2 hg2 hpfx0
  obtain ⟨hnamek, hfindk, hitemsk⟩ := hcallk
  have hlp : lastPrev (some ic) (k0 :: r0) = some c3 := hl3
  rw [hlp] at hnamek
  have hlk : m3.lookupCtx k.tname = some k.ctx := by simpa [M.lookupCtx, hg3] using hfindk
  obtain ⟨m4, hrun4, hr4, hi4, hd4, hg4, _⟩ := step_switch hr3 k.tname k.ctx hnamek hlk
  obtain ⟨m5, m6, c5, hrun5, hfin, h1, h2, h3, h4, h5⟩ :=
    run_with_core_from ic ic' reg k pre post calls2 ctoks hfl hk m4 hr4 (by rw [hi4, hi3]) (by rw [hg4, hg3]) hitemsk hlast hrest hcore
  refine ⟨m5, m6, c5, ?_, hfin, h1, h2, h3, h4, ?_⟩
  · have e0 : (k0 :: r0).flatMap Call.toks = [k0.tname] ++ (k0.items.flatMap Item.toks ++ r0.flatMap Call.toks) := by
      simp [List.flatMap_cons, Call.toks]
    have e1 : argvWithCore k pre post ctoks calls2 = [k.tname] ++
        (pre.flatMap Item.toks ++ (ctoks ++ (post.flatMap Item.toks ++ calls2.flatMap Call.toks))) := rfl
    rw [e0, e1, List.append_assoc, runToks_append, hrun1]
    simp only [bind, Except.bind]
    rw [List.append_assoc, runToks_append, hrun2]
    simp only [bind, Except.bind]
    rw [runToks_append, hrun3]
    simp only [bind, Except.bind]
    rw [runToks_append, hrun4]
    exact hrun5
  · rw [h5, hd4]
    have : m3.done ++ [c3] = k0.result :: r0.map Call.result := by rw [hd3, hd2]; simp
    rw [this]; simp

theorem taskPass_with_core_later (ic ic' : Ctx) (reg : List Ctx) (k0 : Call) (r0 : List Call) (k : Call)
    (pre post : List Item) (calls2 : List Call) (ctoks : List Tok) (hfl : ic'.flags = ic.flags) (hk : k.items = pre ++ post)
    (hok : ChainOK (some ic) reg (some ic) ((k0 :: r0) ++ k :: calls2))
    (hcore : CoreStepB ic ic' reg (pre.foldl Item.apply k.ctx) ctoks)
    (hbody : ∀ t ∈ (k0 :: r0).flatMap Call.toks ++ argvWithCore k pre post ctoks calls2, t ≠ ['-', '-']) :
    taskPass ic reg ((k0 :: r0).flatMap Call.toks ++ argvWithCore k pre post ctoks calls2) =
      .ok { contexts := ic' :: ((k0 :: r0) ++ k :: calls2).map Call.result, unparsed := [], remainder := [] } := by
  obtain ⟨m5, m6, c5, hrun, hfin, hcur6, hni6, hunp6, hi6, hd6⟩ :=
    run_with_core_later ic ic' reg false k0 r0 k pre post calls2 ctoks hfl hk hok hcore
  have hall : ∀ t ∈ (k0 :: r0).flatMap Call.toks ++ argvWithCore k pre post ctoks calls2, (decide (t ≠ ['-', '-'])) = true := by
    intro t ht; simpa using hbody t ht
  have htw := takeWhile_all (fun (x : Tok) => decide (x ≠ ['-', '-'])) _ hall
  have hdw := dropWhile_all (fun (x : Tok) => decide (x ≠ ['-', '-'])) _ hall
  unfold taskPass parseArgv
  simp only [htw, hdw, List.drop_nil, bind, Except.bind]
  have hm0e : ({ initial := some ic, cur := none, registry := reg, ignoreUnknown := false } : M) = M.start (some ic) reg false := rfl
  have hn0 : NameOK (some ic) k0.tname := hok.1.1
  rw [hm0e, start_enter (some ic) reg false (fun p hp => (hn0.2 p hp).2.2)]
  simp only []
  have hfold : List.foldlM (fun m t => procTok (t.length + 2) m t) (M.start (some ic) reg false)
      ((k0 :: r0).flatMap Call.toks ++ argvWithCore k pre post ctoks calls2) = .ok m5 := hrun
  rw [hfold]
  simp only []
  rw [hfin]
  simp only [pure, Except.pure, hi6, hni6, hcur6, hunp6]
  simp [hd6]

/-- the core item before all tasks -/
theorem program_core_first (ic ic' : Ctx) (reg : List Ctx) (k : Call) (calls : List Call) (ctoks : List Tok)
    (hfl : ic'.flags = ic.flags) (hinv : ic'.inverse = ic.inverse) (hmiss' : ic'.missingPositional = [])
    (hok : ChainOK (some ic) reg (some ic) (k :: calls)) (hcore0 : CoreStep0 ic ic' ctoks)
    (hbody : ∀ t ∈ ctoks ++ (k :: calls).flatMap Call.toks, t ≠ ['-', '-']) :
    programParse ic reg (ctoks ++ (k :: calls).flatMap Call.toks) =
      .ok { core := updateCore ic' ic, tasks := (k :: calls).map Call.result,
            unparsed := (k :: calls).flatMap Call.toks, remainder := [] } := by
  obtain ⟨hnf, hnp⟩ := hok.1.1
  obtain ⟨hf, hi, hm⟩ := hnp ic rfl
  have e : (k :: calls).flatMap Call.toks = k.tname :: (k.items.flatMap Item.toks ++ calls.flatMap Call.toks) := by
    simp [List.flatMap_cons, Call.toks]
  have h1 := corePass_with ic ic' ctoks k.tname (k.items.flatMap Item.toks ++ calls.flatMap Call.toks)
    hcore0 hm hnf (by rw [hfl]; exact hf) (by rw [hinv]; exact hi) hmiss' (by rw [← e]; exact hbody)
  have h2 := taskPass_plain ic reg (k :: calls) hok (fun t ht => hbody t (List.mem_append.mpr (Or.inr ht)))
  unfold programParse
  rw [e, h1]
  simp only [bind, Except.bind, pure, Except.pure]
  rw [← e, h2]

theorem program_with_core_later (ic ic' : Ctx) (reg : List Ctx) (k0 : Call) (r0 : List Call) (k : Call)
    (pre post : List Item) (calls2 : List Call) (ctoks : List Tok)
    (hfl : ic'.flags = ic.flags) (hinv : ic'.inverse = ic.inverse) (hmiss' : ic'.missingPositional = [])
    (hk : k.items = pre ++ post)
    (hok : ChainOK (some ic) reg (some ic) ((k0 :: r0) ++ k :: calls2))
    (hcore : CoreStepB ic ic' reg (pre.foldl Item.apply k.ctx) ctoks)
    (hcore0 : CoreStep0 ic ic' ctoks)
    (hbodyA : ∀ t ∈ (k0 :: r0).flatMap Call.toks ++ argvWithCore k pre post ctoks calls2, t ≠ ['-', '-'])
    (hbodyB : ∀ t ∈ ctoks ++ ((k0 :: r0) ++ k :: calls2).flatMap Call.toks, t ≠ ['-', '-']) :
    programParse ic reg ((k0 :: r0).flatMap Call.toks ++ argvWithCore k pre post ctoks calls2) =
      .ok { core := updateCore ic ic', tasks := ((k0 :: r0) ++ k :: calls2).map Call.result,
            unparsed := (k0 :: r0).flatMap Call.toks ++ argvWithCore k pre post ctoks calls2, remainder := [] } ∧
    programParse ic reg (ctoks ++ ((k0 :: r0) ++ k :: calls2).flatMap Call.toks) =
      .ok { core := updateCore ic' ic, tasks := ((k0 :: r0) ++ k :: calls2).map Call.result,
            unparsed := ((k0 :: r0) ++ k :: calls2).flatMap Call.toks, remainder := [] } := by
  constructor
  · obtain ⟨hnf, hnp⟩ := hok.1.1
    obtain ⟨hf, hi, hm⟩ := hnp ic rfl
    have e : (k0 :: r0).flatMap Call.toks ++ argvWithCore k pre post ctoks calls2 =
        k0.tname :: ((k0.items.flatMap Item.toks ++ r0.flatMap Call.toks) ++ argvWithCore k pre post ctoks calls2) := by
      simp [List.flatMap_cons, Call.toks]
    have h1 := corePass_with ic ic [] k0.tname ((k0.items.flatMap Item.toks ++ r0.flatMap Call.toks) ++ argvWithCore k pre post ctoks calls2)
      (coreStep0_nil ic) hm hnf hf hi hm (by rw [List.nil_append, ← e]; exact hbodyA)
    have h2 := taskPass_with_core_later ic ic' reg k0 r0 k pre post calls2 ctoks hfl hk hok hcore hbodyA
    unfold programParse
    rw [e]
    have h1' : corePass ic (k0.tname :: ((k0.items.flatMap Item.toks ++ r0.flatMap Call.toks) ++ argvWithCore k pre post ctoks calls2)) = _ := h1
    rw [h1']
    simp only [bind, Except.bind, pure, Except.pure]
    rw [← e, h2]
  · exact program_core_first ic ic' reg k0 (r0 ++ k :: calls2) ctoks hfl hinv hmiss' hok hcore0 hbodyB
end Inv
