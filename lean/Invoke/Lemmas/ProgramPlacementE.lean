import Invoke.Lemmas.ProgramPlacementD
/-! C18: the combined short Boolean block of core flags (`-ew`) inside a task — per-piece induction on the erasure lemma. -/
namespace Inv
open M

/-! ### combined short Boolean block of core flags (`-ew`) -/

theorem withCore_reflag (m : M) (ic' : Ctx) (fl f : Option (Where × Nat)) (g g' : Bool) :
    (m.withCore ic' fl g).reflag f g' = m.withCore ic' f g' := rfl

theorem reflag_inv (R m2 : M) (f : Option (Where × Nat)) (g : Bool) (h : R = m2.reflag f g) :
    m2 = R.reflag m2.flag m2.flagGotValue := by
  subst h; cases m2; rfl

/-- one Boolean core flag handled with ARBITRARY fuel from a ready machine -/
theorem core_bool_procTok (ic : Ctx) (reg : List Ctx) (c : Ctx) (tok : Tok) (i : Nat) (a a' : Arg) (n : Nat)
    (m : M) (hr : Ready m c) (hi : m.initial = some ic) (hreg : m.registry = reg)
    (hun : Unsplit tok) (hcf : assoc? tok c.flags = none) (hcinv : assoc? tok c.inverse = none)
    (hl : reg.find? (fun x => x.name = some tok || x.aliases.contains tok) = none)
    (hf : assoc? tok ic.flags = some i) (ha : ic.args[i]? = some a) (hh : a.spec.names.headD [] ≠ "help".toList)
    (ht : a.takesValue = false) (hs : a.setValue (.b true) = .ok a') :
    procTok (n + 1) m tok = .ok (m.withCore (ic.setArg i a') (some (.initial, i)) false) := by
  have hctx := ctx_of_ready hr
  have hlk : m.lookupCtx tok = none := by unfold M.lookupCtx; rw [hreg]; exact hl
  have hhd : m.handle tok = .ok (m.withCore (ic.setArg i a') (some (.initial, i)) false) := by
    unfold M.handle
    simp only [hr.st, hctx, hcf, hcinv, Option.isSome_none, Bool.false_eq_true, if_false, reduceCtorEq,
      hr.nw, hi, hf, Option.isSome_some, hr.notInit, Bool.not_false, Bool.and_self, Bool.not_true, Bool.and_false,
      hlk, if_true, Option.bind_some, ha, hh]
    unfold M.switchToFlag
    simp only [checkAmbiguity_ready hr, completeFlag_ready hr, bind, Except.bind, hctx, pure, Except.pure,
      Bool.false_eq_true, if_false, hcf, hi, Option.bind_some, hf]
    simp [M.flagArg, M.updFlagArg, ha, ht, hs, hr.st, hr.notInit, M.withCore, Ctx.setArg]
  exact procTok_one n (presplit_unsplit m tok hun) hhd

theorem inert_withCore_bool (m : M) (ic : Ctx) (i : Nat) (a a' : Arg) (ha : ic.args[i]? = some a) (ht : a.takesValue = false)
    (hs : a.setValue (.b true) = .ok a') : Inert (m.withCore (ic.setArg i a') (some (.initial, i)) false) := by
  intro b hb
  obtain ⟨s1, s2, s3⟩ := Arg.setValue_settled a a' (.b true) true (by simp) hs
  have : (m.withCore (ic.setArg i a') (some (.initial, i)) false).flagArg = some a' := by
    simp [M.flagArg, M.withCore, setArg_get ic i a a' ha]
  rw [this] at hb; cases hb
  refine ⟨s2, s3, ?_⟩
  intro htv
  have : a.takesValue = true := by simpa [Arg.takesValue, s1] using htv
  rw [ht] at this; cases this

/-- … and from a machine that has already handled core items (its flag is settled but points into the core context) -/
theorem core_bool_piece (ic : Ctx) (reg : List Ctx) (c : Ctx) (tok : Tok) (i : Nat) (a a' : Arg) (n : Nat)
    (m : M) (hr : Ready m c) (hreg : m.registry = reg) (fl : Option (Where × Nat)) (g : Bool) (hin : Inert (m.withCore ic fl g))
    (hun : Unsplit tok) (hcf : assoc? tok c.flags = none) (hcinv : assoc? tok c.inverse = none)
    (hl : reg.find? (fun x => x.name = some tok || x.aliases.contains tok) = none)
    (hf : assoc? tok ic.flags = some i) (ha : ic.args[i]? = some a) (hh : a.spec.names.headD [] ≠ "help".toList)
    (ht : a.takesValue = false) (hs : a.setValue (.b true) = .ok a') :
    ∃ fl' g', procTok (n + 1) (m.withCore ic fl g) tok = .ok (m.withCore (ic.setArg i a') fl' g') ∧
      Inert (m.withCore (ic.setArg i a') fl' g') := by
  have hrE : Ready ((m.withCore ic fl g).reflag none false) c := ready_erased hr ic fl g
  have hE := core_bool_procTok ic reg c tok i a a' n ((m.withCore ic fl g).reflag none false) hrE rfl hreg hun hcf hcinv hl hf ha hh ht hs
  have hrel : Rel (m.withCore ic fl g) ((m.withCore ic fl g).reflag none false) :=
    Or.inr ⟨none, false, rfl, hin, inert_noflag _ rfl⟩
  rcases procTok_rel (n + 1) _ _ tok hrel with ⟨e, _, h2⟩ | ⟨m2, R, h1, h2, hrel2⟩
  · rw [hE] at h2; cases h2
  · rw [hE] at h2
    have hR : R = ((m.withCore ic fl g).reflag none false).withCore (ic.setArg i a') (some (.initial, i)) false :=
      (Except.ok.inj h2).symm
    have hRi : Inert R := by rw [hR]; exact inert_withCore_bool _ ic i a a' ha ht hs
    rcases hrel2 with heq | ⟨f, g2, heq, hm2, _⟩
    · refine ⟨some (.initial, i), false, ?_, ?_⟩
      · rw [h1, ← heq, hR]; rfl
      · have : m.withCore (ic.setArg i a') (some (.initial, i)) false = R := by rw [hR]; rfl
        rw [this]; exact hRi
    · have hm2' := reflag_inv R m2 f g2 heq
      refine ⟨m2.flag, m2.flagGotValue, ?_, ?_⟩
      · rw [h1, hm2', hR]; rfl
      · have : m.withCore (ic.setArg i a') m2.flag m2.flagGotValue = m2 := by rw [hm2', hR]; rfl
        rw [this]; exact hm2

/-- a sequence of Boolean core flags (none declared by the task, none a task name), with the core context it produces -/
inductive BoolPieces (reg : List Ctx) (c : Ctx) : Ctx → List Tok → Ctx → Prop
  | nil (ic : Ctx) : BoolPieces reg c ic [] ic
  | cons {ic ic' : Ctx} {tok : Tok} {rest : List Tok} (i : Nat) (a a' : Arg)
      (hun : Unsplit tok) (hcf : assoc? tok c.flags = none) (hcinv : assoc? tok c.inverse = none)
      (hl : reg.find? (fun x => x.name = some tok || x.aliases.contains tok) = none)
      (hf : assoc? tok ic.flags = some i) (ha : ic.args[i]? = some a) (hh : a.spec.names.headD [] ≠ "help".toList)
      (ht : a.takesValue = false) (hs : a.setValue (.b true) = .ok a')
      (hrest : BoolPieces reg c (ic.setArg i a') rest ic') : BoolPieces reg c ic (tok :: rest) ic'

theorem BoolPieces.tables {reg c ic ps ic'} (h : BoolPieces reg c ic ps ic') :
    ic'.flags = ic.flags ∧ ic'.inverse = ic.inverse ∧ ic'.positional = ic.positional := by
  induction h with
  | nil ic => exact ⟨rfl, rfl, rfl⟩
  | cons i a a' _ _ _ _ _ _ _ _ _ _ ih => exact ih

theorem pieces_fold (reg : List Ctx) (c : Ctx) (n : Nat) (m : M) (hr : Ready m c) (hreg : m.registry = reg) :
    ∀ {ic ps ic'}, BoolPieces reg c ic ps ic' → ∀ fl g, Inert (m.withCore ic fl g) →
      ∃ fl' g', ps.foldlM (procTok (n + 1)) (m.withCore ic fl g) = .ok (m.withCore ic' fl' g') ∧ Inert (m.withCore ic' fl' g') := by
  intro ic ps ic' h
  induction h with
  | nil ic => intro fl g hin; exact ⟨fl, g, rfl, hin⟩
  | cons i a a' hun hcf hcinv hl hf ha hh ht hs _ ih =>
    intro fl g hin
    obtain ⟨fl1, g1, h1, hin1⟩ := core_bool_piece _ reg c _ i a a' n m hr hreg fl g hin hun hcf hcinv hl hf ha hh ht hs
    obtain ⟨fl2, g2, h2, hin2⟩ := ih fl1 g1 hin1
    refine ⟨fl2, g2, ?_, hin2⟩
    rw [List.foldlM_cons, h1]
    exact h2

/-- the pieces of the combined short block `-xyz…` -/
def blockPieces (x : Char) (ys : List Char) : List Tok := ['-', x] :: ys.map (fun ch => ['-', ch])

/-- COMBINED SHORT BOOLEAN BLOCK of core flags (`-ew`) inside a task that declares none of them -/
theorem coreStep_block (ic ic' : Ctx) (reg : List Ctx) (c : Ctx) (x : Char) (ys : List Char)
    (hx : x ≠ '-') (hys : ys ≠ []) (hne : hasEq ('-' :: x :: ys) = false)
    (hp : BoolPieces reg c ic (blockPieces x ys) ic') :
    CoreStep ic ic' reg c ['-' :: x :: ys] := by
  intro m hr hi hreg
  cases hp with
  | cons i a a' hun hcf hcinv hl hf ha hh ht hs hrest =>
    have hgf : gluedFlag m ['-', x] = some a := by
      simp [gluedFlag, hr.st, ctx_of_ready hr, hcf, hr.notInit, hi, hf, ha]
    have hig : isGlued m ('-' :: x :: ys) = false := by simp [isGlued, hgf, ht]
    have hlen : ('-' :: x :: ys).length > 2 := by
      cases ys with
      | nil => exact absurd rfl hys
      | cons y w => simp
    have hps : presplit m ('-' :: x :: ys) = .ok (['-', x], ys.map (fun ch => ['-', ch])) := by
      unfold presplit
      simp [isFlag, hr.unp, hne, isLongFlag, hx, splitShort, hgf, ht, hlen]
    have hrb : rollback m ('-' :: x :: ys) (['-', x], ys.map (fun ch => ['-', ch])) = (['-', x], ys.map (fun ch => ['-', ch])) := by
      simp [rollback, hr.nw]
    have hctx := ctx_of_ready hr
    have hlk : m.lookupCtx ['-', x] = none := by unfold M.lookupCtx; rw [hreg]; exact hl
    have hhd : m.handle ['-', x] = .ok (m.withCore (ic.setArg i a') (some (.initial, i)) false) := by
      unfold M.handle
      simp only [hr.st, hctx, hcf, hcinv, Option.isSome_none, Bool.false_eq_true, if_false, reduceCtorEq,
        hr.nw, hi, hf, Option.isSome_some, hr.notInit, Bool.not_false, Bool.and_self, Bool.not_true, Bool.and_false,
        hlk, if_true, Option.bind_some, ha, hh]
      unfold M.switchToFlag
      simp only [checkAmbiguity_ready hr, completeFlag_ready hr, bind, Except.bind, hctx, pure, Except.pure,
        Bool.false_eq_true, if_false, hcf, hi, Option.bind_some, hf]
      simp [M.flagArg, M.updFlagArg, ha, ht, hs, hr.st, hr.notInit, M.withCore, Ctx.setArg]
    obtain ⟨fl', g', hfold, hin'⟩ := pieces_fold reg c (ys.length + 2) m hr hreg hrest (some (.initial, i)) false
      (inert_withCore_bool m ic i a a' ha ht hs)
    refine ⟨fl', g', ?_, hin'⟩
    apply runToks_single
    show procTok (('-' :: x :: ys).length + 2) m ('-' :: x :: ys) = _
    have hl2 : ('-' :: x :: ys).length + 2 = (ys.length + 2 + 1) + 1 := by simp
    rw [hl2]
    unfold procTok
    simp only [hps, hrb, hhd]
    exact hfold

/-! the same block handled by the core pass -/

theorem inert_coreM_bool (ic icj : Ctx) (i : Nat) (a a' : Arg) (ha : icj.args[i]? = some a) (ht : a.takesValue = false)
    (hs : a.setValue (.b true) = .ok a') : Inert (coreM ic (icj.setArg i a') (some (.cur, i)) false) := by
  intro b hb
  obtain ⟨s1, s2, s3⟩ := Arg.setValue_settled a a' (.b true) true (by simp) hs
  have : (coreM ic (icj.setArg i a') (some (.cur, i)) false).flagArg = some a' := by
    simp [M.flagArg, coreM, M.withCore, M.start, M.ctx, setArg_get icj i a a' ha]
  rw [this] at hb; cases hb
  refine ⟨s2, s3, ?_⟩
  intro htv
  have : a.takesValue = true := by simpa [Arg.takesValue, s1] using htv
  rw [ht] at this; cases this

theorem core0_bool_piece (ic icj : Ctx) (tok : Tok) (i : Nat) (a a' : Arg) (n : Nat) (fl : Option (Where × Nat)) (g : Bool)
    (hin : Inert (coreM ic icj fl g)) (hun : Unsplit tok)
    (hf : assoc? tok icj.flags = some i) (ha : icj.args[i]? = some a) (ht : a.takesValue = false)
    (hs : a.setValue (.b true) = .ok a') :
    ∃ fl' g', procTok (n + 1) (coreM ic icj fl g) tok = .ok (coreM ic (icj.setArg i a') fl' g') ∧
      Inert (coreM ic (icj.setArg i a') fl' g') := by
  have hh := core_bool_in_core ((coreM ic icj fl g).reflag none false) icj tok i a a' rfl rfl rfl rfl hf ha ht hs
  have hE : procTok (n + 1) ((coreM ic icj fl g).reflag none false) tok =
      .ok (coreM ic (icj.setArg i a') (some (.cur, i)) false) := procTok_one n (presplit_unsplit _ tok hun) hh
  have hrel : Rel (coreM ic icj fl g) ((coreM ic icj fl g).reflag none false) :=
    Or.inr ⟨none, false, rfl, hin, inert_noflag _ rfl⟩
  rcases procTok_rel (n + 1) _ _ tok hrel with ⟨e, _, h2⟩ | ⟨m2, R, h1, h2, hrel2⟩
  · rw [hE] at h2; cases h2
  · rw [hE] at h2
    have hR : R = coreM ic (icj.setArg i a') (some (.cur, i)) false := (Except.ok.inj h2).symm
    have hRi : Inert R := by rw [hR]; exact inert_coreM_bool ic icj i a a' ha ht hs
    rcases hrel2 with heq | ⟨f, g2, heq, hm2, _⟩
    · exact ⟨some (.cur, i), false, by rw [h1, ← heq, hR], by rw [← hR]; exact hRi⟩
    · have hm2' := reflag_inv R m2 f g2 heq
      refine ⟨m2.flag, m2.flagGotValue, ?_, ?_⟩
      · rw [h1, hm2', hR]; rfl
      · have : coreM ic (icj.setArg i a') m2.flag m2.flagGotValue = m2 := by rw [hm2', hR]; rfl
        rw [this]; exact hm2

theorem pieces_fold0 (ic : Ctx) (reg : List Ctx) (c : Ctx) (n : Nat) :
    ∀ {icj ps ic'}, BoolPieces reg c icj ps ic' → ∀ fl g, Inert (coreM ic icj fl g) →
      ∃ fl' g', ps.foldlM (procTok (n + 1)) (coreM ic icj fl g) = .ok (coreM ic ic' fl' g') ∧ Inert (coreM ic ic' fl' g') := by
  intro icj ps ic' h
  induction h with
  | nil icj => intro fl g hin; exact ⟨fl, g, rfl, hin⟩
  | cons i a a' hun _ _ _ hf ha _ ht hs _ ih =>
    intro fl g hin
    obtain ⟨fl1, g1, h1, hin1⟩ := core0_bool_piece ic _ _ i a a' n fl g hin hun hf ha ht hs
    obtain ⟨fl2, g2, h2, hin2⟩ := ih fl1 g1 hin1
    refine ⟨fl2, g2, ?_, hin2⟩
    rw [List.foldlM_cons, h1]
    exact h2

theorem coreStep0_block (ic ic' : Ctx) (reg : List Ctx) (c : Ctx) (x : Char) (ys : List Char)
    (hx : x ≠ '-') (hys : ys ≠ []) (hne : hasEq ('-' :: x :: ys) = false)
    (hp : BoolPieces reg c ic (blockPieces x ys) ic') :
    CoreStep0 ic ic' ['-' :: x :: ys] := by
  cases hp with
  | cons i a a' hun hcf hcinv hl hf ha hh ht hs hrest =>
    have hgf : gluedFlag (M.start (some ic) [] true) ['-', x] = some a := by
      simp [gluedFlag, M.start, M.ctx, hf, ha]
    have hig : isGlued (M.start (some ic) [] true) ('-' :: x :: ys) = false := by simp [isGlued, hgf, ht]
    have hlen : ('-' :: x :: ys).length > 2 := by
      cases ys with
      | nil => exact absurd rfl hys
      | cons y w => simp
    have hun0 : (M.start (some ic) [] true).unparsed = [] := rfl
    have hps : presplit (M.start (some ic) [] true) ('-' :: x :: ys) = .ok (['-', x], ys.map (fun ch => ['-', ch])) := by
      unfold presplit
      simp [isFlag, hun0, hne, isLongFlag, hx, splitShort, hgf, ht, hlen]
    have hw0 : (M.start (some ic) [] true).waiting = false := rfl
    have hrb : rollback (M.start (some ic) [] true) ('-' :: x :: ys) (['-', x], ys.map (fun ch => ['-', ch])) =
        (['-', x], ys.map (fun ch => ['-', ch])) := by simp [rollback, hw0]
    have hhd : (M.start (some ic) [] true).handle ['-', x] = .ok (coreM ic (ic.setArg i a') (some (.cur, i)) false) :=
      core_bool_in_core (M.start (some ic) [] true) ic ['-', x] i a a' rfl rfl rfl rfl hf ha ht hs
    obtain ⟨fl', g', hfold, hin'⟩ := pieces_fold0 ic reg c (ys.length + 2) hrest (some (.cur, i)) false
      (inert_coreM_bool ic ic i a a' ha ht hs)
    refine ⟨fl', g', ?_, hin'⟩
    apply runToks_single
    show procTok (('-' :: x :: ys).length + 2) (M.start (some ic) [] true) ('-' :: x :: ys) = _
    have hl2 : ('-' :: x :: ys).length + 2 = (ys.length + 2 + 1) + 1 := by simp
    rw [hl2]
    unfold procTok
    simp only [hps, hrb, hhd]
    exact hfold

/-! `_update_core_context` after several core flags -/

/-- `b` is the original core argument `a`, or `a` was fresh and `b` is a given value of it -/
def ArgRel (a b : Arg) : Prop := b = a ∨ (a.gotValue = false ∧ b.spec = a.spec ∧ b.gotValue = true ∧ b.val ≠ .none)

def ArgsRel : List Arg → List Arg → Prop
  | [], [] => True
  | a :: l, b :: l' => ArgRel a b ∧ ArgsRel l l'
  | _, _ => False

theorem ArgsRel.refl : ∀ (l : List Arg), ArgsRel l l
  | [] => trivial
  | _ :: l => ⟨Or.inl rfl, ArgsRel.refl l⟩

theorem ArgsRel.set : ∀ (l l' : List Arg) (i : Nat) (a' : Arg), ArgsRel l l' →
    (∀ o a, l[i]? = some o → l'[i]? = some a → ArgRel o a → ArgRel o a') → ArgsRel l (l'.set i a')
  | [], [], _, _, _, _ => trivial
  | [], _ :: _, _, _, h, _ => h.elim
  | _ :: _, [], _, _, h, _ => h.elim
  | o :: l, a :: l', 0, a', h, hstep => ⟨hstep o a rfl rfl h.1, h.2⟩
  | o :: l, a :: l', i + 1, a', h, hstep => ⟨h.1, ArgsRel.set l l' i a' h.2 (fun o a ho ha => hstep o a (by simpa using ho) (by simpa using ha))⟩

theorem mergeCoreArg_rel_view (a b : Arg) (h : ArgRel a b) : (mergeCoreArg a b).view = (mergeCoreArg b a).view := by
  rcases h with rfl | ⟨h1, h2, h3, h4⟩
  · rfl
  · simp [mergeCoreArg, h1, h3, Arg.view, Arg.value, h4, h2]

theorem zipWith_rel_view : ∀ (l l' : List Arg), ArgsRel l l' →
    (List.zipWith mergeCoreArg l l').map Arg.view = (List.zipWith mergeCoreArg l' l).map Arg.view
  | [], [], _ => rfl
  | [], _ :: _, h => h.elim
  | _ :: _, [], h => h.elim
  | a :: l, b :: l', h => by
    simp only [List.zipWith, List.map_cons]
    rw [mergeCoreArg_rel_view a b h.1, zipWith_rel_view l l' h.2]

theorem BoolPieces.argsRel {reg : List Ctx} {c ic0 : Ctx} (hfresh : ∀ a ∈ ic0.args, a.takesValue = false → a.gotValue = false ∧ a.spec.kind ≠ .list) :
    ∀ {ic ps ic'}, BoolPieces reg c ic ps ic' → ArgsRel ic0.args ic.args → ArgsRel ic0.args ic'.args := by
  intro ic ps ic' h
  induction h with
  | nil ic => exact id
  | cons i a a' _ _ _ _ _ ha _ ht hs _ ih =>
    intro hrel
    apply ih
    apply ArgsRel.set _ _ i a' hrel
    intro o a2 ho ha2 hr
    rw [ha] at ha2
    have : a2 = a := (Option.some.inj ha2).symm
    subst this
    obtain ⟨s1, s2, s3⟩ := Arg.setValue_settled a2 a' (.b true) true (by simp) hs
    have hospec : a2.spec = o.spec := by
      rcases hr with rfl | ⟨_, h2, _, _⟩
      · rfl
      · exact h2
    have hot : o.takesValue = false := by simpa [Arg.takesValue, ← hospec] using ht
    obtain ⟨hf1, hf2⟩ := hfresh o (List.mem_of_getElem? ho) hot
    refine Or.inr ⟨hf1, s1.trans hospec, ?_, s3⟩
    have : ¬ a'.spec.kind = .list := by rw [s1, hospec]; exact hf2
    simp [Arg.gotValue, this, s3]

theorem updateCore_view_pieces (reg : List Ctx) (c ic ic' : Ctx) (ps : List Tok)
    (hfresh : ∀ a ∈ ic.args, a.takesValue = false → a.gotValue = false ∧ a.spec.kind ≠ .list)
    (hp : BoolPieces reg c ic ps ic') : (updateCore ic ic').view = (updateCore ic' ic).view :=
  zipWith_rel_view ic.args ic'.args (BoolPieces.argsRel hfresh hp (ArgsRel.refl _))

theorem BoolPieces.congr {reg : List Ctx} {c c' : Ctx} (hf : c'.flags = c.flags) (hi : c'.inverse = c.inverse) :
    ∀ {ic ps ic'}, BoolPieces reg c ic ps ic' → BoolPieces reg c' ic ps ic' := by
  intro ic ps ic' h
  induction h with
  | nil ic => exact .nil ic
  | cons i a a' hun hcf hcinv hl hf' ha hh ht hs _ ih =>
    exact .cons i a a' hun (by rw [hf]; exact hcf) (by rw [hi]; exact hcinv) hl hf' ha hh ht hs ih
end Inv
