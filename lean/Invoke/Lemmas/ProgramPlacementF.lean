import Invoke.Lemmas.ProgramPlacementE
/-! C18: every core item (Boolean flag, value flag in any spelling, combined short block) may also come directly after a
    bare optional-value flag of the task (`CoreStepB`). -/
namespace Inv
open M

/-! ### the core items are transparent to a pending bare optional-value flag of the task (`CoreStepB`) -/

theorem runToks_first_eq (m m' : M) (t : Tok) (rest : List Tok)
    (h : procTok (t.length + 2) m t = procTok (t.length + 2) m' t) : runToks m (t :: rest) = runToks m' (t :: rest) := by
  simp only [runToks, List.foldlM_cons, h]

theorem popt_lookup {m c i a} (_h : POpt m c i a) (reg : List Ctx) (hreg : m.registry = reg) (tok : Tok)
    (hl : reg.find? (fun x => x.name = some tok || x.aliases.contains tok) = none) : m.lookupCtx tok = none := by
  unfold M.lookupCtx; rw [hreg]; exact hl

theorem coreStepB_bool (ic : Ctx) (reg : List Ctx) (c : Ctx) (tok : Tok) (i : Nat) (a a' : Arg)
    (hun : Unsplit tok) (hcf : assoc? tok c.flags = none) (hcinv : assoc? tok c.inverse = none)
    (hl : reg.find? (fun x => x.name = some tok || x.aliases.contains tok) = none)
    (hf : assoc? tok ic.flags = some i) (ha : ic.args[i]? = some a) (hh : a.spec.names.headD [] ≠ "help".toList)
    (ht : a.takesValue = false) (hs : a.setValue (.b true) = .ok a') :
    CoreStepB ic (ic.setArg i a') reg c [tok] := by
  refine ⟨coreStep_bool ic reg c tok i a a' hun hcf hcinv hl hf ha hh ht hs, ?_⟩
  intro m c0 j b hp hceq hi hreg
  subst hceq
  apply runToks_first_eq
  exact popt_procTok_core hp ic _ tok (tok, []) i a (presplit_unsplit _ tok hun) hi (popt_lookup hp reg hreg tok hl)
    hcf hcinv hf ha hh

theorem coreStepB_value (ic : Ctx) (reg : List Ctx) (c : Ctx) (tok v : Tok) (toks : List Tok) (i : Nat) (a a' : Arg)
    (hsp : CoreValSpelling tok v toks)
    (hcf : assoc? tok c.flags = none) (hcinv : assoc? tok c.inverse = none)
    (hl : reg.find? (fun x => x.name = some tok || x.aliases.contains tok) = none)
    (hvf : assoc? v c.flags = none) (hvinv : assoc? v c.inverse = none)
    (hf : assoc? tok ic.flags = some i) (ha : ic.args[i]? = some a) (hh : a.spec.names.headD [] ≠ "help".toList)
    (ht : a.takesValue = true) (hr0 : a.raw = none) (ho : a.spec.optional = false)
    (hs : a.setValue (.s v) = .ok a') :
    CoreStepB ic (ic.setArg i a') reg c toks := by
  refine ⟨coreStep_value ic reg c tok v toks i a a' hsp hcf hcinv hl hvf hvinv hf ha hh ht hr0 ho hs, ?_⟩
  intro m c0 j b hp hceq hi hreg
  subst hceq
  have hr := popt_ready hp
  have hi' : (m.completed c0 j b).initial = some ic := hi
  cases hsp with
  | spaced hun =>
    apply runToks_first_eq
    exact popt_procTok_core hp ic _ tok (tok, []) i a (presplit_unsplit _ tok hun) hi (popt_lookup hp reg hreg tok hl)
      hcf hcinv hf ha hh
  | eq hft =>
    apply runToks_first_eq
    exact popt_procTok_core hp ic _ _ (tok, [v]) i a (presplit_eq_form hr hft v) hi (popt_lookup hp reg hreg tok hl)
      hcf hcinv hf ha hh
  | glued x y w htok hv hx hy =>
    subst htok; subst hv
    apply runToks_first_eq
    exact popt_procTok_core hp ic _ _ (['-', x], [y :: w]) i a (presplit_glued_core hr ic hi' x y w i a hx hy hcf hf ha ht) hi
      (popt_lookup hp reg hreg _ hl) hcf hcinv hf ha hh

theorem presplit_block_core {m c} (hr : Ready m c) (ic : Ctx) (hi : m.initial = some ic) (x : Char) (ys : List Char) (i : Nat) (a : Arg)
    (hx : x ≠ '-') (hys : ys ≠ []) (hne : hasEq ('-' :: x :: ys) = false) (hcf : assoc? ['-', x] c.flags = none)
    (hf : assoc? ['-', x] ic.flags = some i) (ha : ic.args[i]? = some a) (ht : a.takesValue = false) :
    presplit m ('-' :: x :: ys) = .ok (['-', x], ys.map (fun ch => ['-', ch])) := by
  have hgf : gluedFlag m ['-', x] = some a := by
    simp [gluedFlag, hr.st, ctx_of_ready hr, hcf, hr.notInit, hi, hf, ha]
  have hlen : ('-' :: x :: ys).length > 2 := by
    cases ys with
    | nil => exact absurd rfl hys
    | cons y w => simp
  unfold presplit
  simp [isFlag, hr.unp, hne, isLongFlag, hx, splitShort, hgf, ht, hlen, isGlued]

theorem coreStepB_block (ic ic' : Ctx) (reg : List Ctx) (c : Ctx) (x : Char) (ys : List Char)
    (hx : x ≠ '-') (hys : ys ≠ []) (hne : hasEq ('-' :: x :: ys) = false)
    (hp : BoolPieces reg c ic (blockPieces x ys) ic') :
    CoreStepB ic ic' reg c ['-' :: x :: ys] := by
  refine ⟨coreStep_block ic ic' reg c x ys hx hys hne hp, ?_⟩
  intro m c0 j b hpo hceq hi hreg
  subst hceq
  have hr := popt_ready hpo
  have hi' : (m.completed c0 j b).initial = some ic := hi
  cases hp with
  | cons i a a' hun hcf hcinv hl hf ha hh ht hs hrest =>
    apply runToks_first_eq
    exact popt_procTok_core hpo ic _ _ (['-', x], ys.map (fun ch => ['-', ch])) i a
      (presplit_block_core hr ic hi' x ys i a hx hys hne hcf hf ha ht) hi (popt_lookup hpo reg hreg _ hl) hcf hcinv hf ha hh
end Inv
