import Invoke.Lemmas.ProgramPlacementF
/-! C18: a combined short block is processed exactly like its letters in order — at the level of the token loop
    (`short_block_expands`), of `parse_argv` and of the two-pass `Program` parse. -/
namespace Inv
open M

/-! ### a combined short block is processed exactly like its letters in order (any machine, any letters) -/

/-- the conditions under which the token loop splits `-xyz…` into its letters: the parser is not in "store everything" mode,
    nothing is unparsed yet, the split is not rolled back (no value pending, or an optional one and `-x` is a flag), and `-x`
    is not a value-taking flag of the current context (or, inside a task, of the core context) -/
def SplitsAsBlock (m : M) (x : Char) : Prop :=
  m.unparsed = [] ∧ (m.waiting = false ∨ keepSplit m ['-', x] = true) ∧
  (∀ a, gluedFlag m ['-', x] = some a → a.takesValue = false)

theorem procTok_unsplit (n : Nat) (m : M) (t : Tok) (hps : presplit m t = .ok (t, [])) :
    procTok (n + 1) m t = M.handle m t := by
  unfold procTok
  have hr : rollback m t (t, []) = (t, []) := by unfold rollback; split <;> rfl
  simp only [hps, hr]
  cases M.handle m t with
  | error e => rfl
  | ok m' => rfl

theorem hasEq_cons_false {c : Char} {r : Tok} (h : hasEq (c :: r) = false) : c ≠ '=' ∧ hasEq r = false := by
  unfold hasEq at h
  by_cases hc : c = '='
  · simp [hc] at h
  · simp only [hc, if_false] at h; exact ⟨hc, h⟩

theorem hasEq_mem_false : ∀ {r : Tok}, hasEq r = false → ∀ ch ∈ r, ch ≠ '='
  | [], _, _, h => by cases h
  | c :: r, h, ch, hm => by
    obtain ⟨h1, h2⟩ := hasEq_cons_false h
    rcases List.mem_cons.mp hm with rfl | hm'
    · exact h1
    · exact hasEq_mem_false h2 ch hm'

theorem piece_unsplit (ch : Char) (h : ch ≠ '=') : Unsplit ['-', ch] := by
  refine ⟨?_, Or.inr (by simp)⟩
  simp [hasEq, h]

/-- the letters of a block, each handled with whatever fuel, are handled by `handle` -/
theorem foldlM_pieces (n : Nat) (ps : List Tok) (hun : ∀ p ∈ ps, Unsplit p) (m : M) :
    ps.foldlM (procTok (n + 1)) m = ps.foldlM (fun m t => M.handle m t) m := by
  induction ps generalizing m with
  | nil => rfl
  | cons p r ih =>
    rw [List.foldlM_cons, List.foldlM_cons, procTok_unsplit n m p (presplit_unsplit m p (hun p (by simp)))]
    cases M.handle m p with
    | error e => rfl
    | ok m' => exact ih (fun q hq => hun q (by simp [hq])) m'

theorem runToks_pieces (ps : List Tok) (hun : ∀ p ∈ ps, Unsplit p) (m : M) :
    runToks m ps = ps.foldlM (fun m t => M.handle m t) m := by
  induction ps generalizing m with
  | nil => rfl
  | cons p r ih =>
    simp only [runToks, List.foldlM_cons]
    rw [procTok_unsplit (p.length + 1) m p (presplit_unsplit m p (hun p (by simp)))]
    cases M.handle m p with
    | error e => rfl
    | ok m' => exact ih (fun q hq => hun q (by simp [hq])) m'

/-- SHORT BLOCKS EXPAND IN ORDER (token-loop level, ANY machine state, ANY letters: Boolean or value-taking, of the task or
    of the core, known or unknown).  Wherever the loop splits `-xyz…` at all, processing the one token is exactly processing
    the tokens `-x -y -z …` one after the other, in the order written. -/
theorem short_block_expands (m : M) (x : Char) (ys : List Char) (hx : x ≠ '-') (hys : ys ≠ [])
    (hne : hasEq ('-' :: x :: ys) = false) (hs : SplitsAsBlock m x) :
    procTok (('-' :: x :: ys).length + 2) m ('-' :: x :: ys) = runToks m (blockPieces x ys) := by
  obtain ⟨hunp, hkeep, hnv⟩ := hs
  have hlen : ('-' :: x :: ys).length > 2 := by
    cases ys with
    | nil => exact absurd rfl hys
    | cons y w => simp
  have hig : isGlued m ('-' :: x :: ys) = false := by
    unfold isGlued
    cases hg : gluedFlag m (List.take 2 ('-' :: x :: ys)) with
    | none => simp
    | some a =>
      have : gluedFlag m ['-', x] = some a := by simpa using hg
      simp [hnv a this]
  have hss : splitShort m ('-' :: x :: ys) = (['-', x], ys.map (fun ch => ['-', ch])) := by
    unfold splitShort
    have ht : List.take 2 ('-' :: x :: ys) = ['-', x] := rfl
    have hd : List.drop 2 ('-' :: x :: ys) = ys := rfl
    simp only [ht, hd]
    cases hg : gluedFlag m ['-', x] with
    | none => rfl
    | some a => simp [hnv a hg]
  have hps : presplit m ('-' :: x :: ys) = .ok (['-', x], ys.map (fun ch => ['-', ch])) := by
    unfold presplit
    simp [isFlag, hunp, hne, isLongFlag, hx, hss, hlen]
  have hrb : rollback m ('-' :: x :: ys) (['-', x], ys.map (fun ch => ['-', ch])) = (['-', x], ys.map (fun ch => ['-', ch])) := by
    unfold rollback
    rcases hkeep with h | h
    · simp [h]
    · simp [h]
  obtain ⟨hx1, hx2⟩ := hasEq_cons_false (hasEq_cons_false hne).2
  have hall : ∀ p ∈ blockPieces x ys, Unsplit p := by
    intro p hp
    simp only [blockPieces, List.mem_cons, List.mem_map] at hp
    rcases hp with rfl | ⟨ch, hch, rfl⟩
    · exact piece_unsplit x hx1
    · exact piece_unsplit ch (hasEq_mem_false hx2 ch hch)
  have hl2 : ('-' :: x :: ys).length + 2 = (ys.length + 2 + 1) + 1 := by simp
  rw [hl2, runToks_pieces _ hall]
  unfold procTok
  simp only [hps, hrb, blockPieces, List.foldlM_cons]
  cases M.handle m ['-', x] with
  | error e => rfl
  | ok m1 =>
    simp only [bind, Except.bind]
    exact foldlM_pieces (ys.length + 2) _ (fun p hp => hall p (by simp [blockPieces, hp])) m1

/-- … hence inside any token list -/
theorem short_block_expands_in_list (m0 : M) (a b : List Tok) (x : Char) (ys : List Char) (hx : x ≠ '-') (hys : ys ≠ [])
    (hne : hasEq ('-' :: x :: ys) = false) (hs : ∀ m1, runToks m0 a = .ok m1 → SplitsAsBlock m1 x) :
    runToks m0 (a ++ ('-' :: x :: ys) :: b) = runToks m0 (a ++ (blockPieces x ys ++ b)) := by
  rw [runToks_append, runToks_append]
  cases h : runToks m0 a with
  | error e => rfl
  | ok m1 =>
    simp only [bind, Except.bind]
    have e1 : runToks m1 (('-' :: x :: ys) :: b) = (procTok (('-' :: x :: ys).length + 2) m1 ('-' :: x :: ys) >>= fun m' => runToks m' b) := by
      simp only [runToks, List.foldlM_cons]
    rw [e1, short_block_expands m1 x ys hx hys hne (hs m1 h), runToks_append]

/-! ### the same at the level of `parse_argv` and of the two-pass `Program` parse -/

theorem takeWhile_append_all {α} (p : α → Bool) (a b : List α) (ha : ∀ t ∈ a, p t = true) :
    (a ++ b).takeWhile p = a ++ b.takeWhile p := by
  induction a with
  | nil => rfl
  | cons t r ih =>
    rw [List.cons_append, List.takeWhile_cons, ha t (by simp), if_pos rfl, ih (fun u hu => ha u (by simp [hu]))]
    rfl

theorem dropWhile_append_all {α} (p : α → Bool) (a b : List α) (ha : ∀ t ∈ a, p t = true) :
    (a ++ b).dropWhile p = b.dropWhile p := by
  induction a with
  | nil => rfl
  | cons t r ih =>
    rw [List.cons_append, List.dropWhile_cons, ha t (by simp), if_pos rfl, ih (fun u hu => ha u (by simp [hu]))]

theorem blockPieces_no_sentinel (x : Char) (ys : List Char) (hx : x ≠ '-') (hy : '-' ∉ ys) :
    ∀ t ∈ blockPieces x ys, t ≠ ['-', '-'] := by
  intro t ht
  simp only [blockPieces, List.mem_cons, List.mem_map] at ht
  rcases ht with rfl | ⟨ch, hch, rfl⟩
  · intro e; simp at e; exact hx e
  · intro e; simp at e; exact hy (e ▸ hch)

/-- `parse_argv` (ANY parser): a combined short block and its letters written one by one, in the same place, parse alike -/
theorem parseArgv_block_expands (initial : Option Ctx) (registry : List Ctx) (ign : Bool) (a b : List Tok) (x : Char) (ys : List Char)
    (hx : x ≠ '-') (hys : ys ≠ []) (hy : '-' ∉ ys) (hne : hasEq ('-' :: x :: ys) = false) (ha : ∀ t ∈ a, t ≠ ['-', '-'])
    (hs : ∀ m0 m1, M.enter { initial := initial, cur := none, registry := registry, ignoreUnknown := ign } = .ok m0 →
      runToks m0 a = .ok m1 → SplitsAsBlock m1 x) :
    parseArgv initial registry ign (a ++ ('-' :: x :: ys) :: b) = parseArgv initial registry ign (a ++ (blockPieces x ys ++ b)) := by
  have hpa : ∀ t ∈ a, decide (t ≠ ['-', '-']) = true := fun t ht => by simpa using ha t ht
  have hT : decide (('-' :: x :: ys) ≠ ['-', '-']) = true := by
    cases ys with
    | nil => exact absurd rfl hys
    | cons y w => simp
  have hpp : ∀ t ∈ blockPieces x ys, decide (t ≠ ['-', '-']) = true :=
    fun t ht => by simpa using blockPieces_no_sentinel x ys hx hy t ht
  have tw1 : (a ++ ('-' :: x :: ys) :: b).takeWhile (· ≠ ['-', '-']) = a ++ ('-' :: x :: ys) :: b.takeWhile (· ≠ ['-', '-']) := by
    rw [takeWhile_append_all _ a _ hpa, List.takeWhile_cons, hT, if_pos rfl]
  have dw1 : (a ++ ('-' :: x :: ys) :: b).dropWhile (· ≠ ['-', '-']) = b.dropWhile (· ≠ ['-', '-']) := by
    rw [dropWhile_append_all _ a _ hpa, List.dropWhile_cons, hT, if_pos rfl]
  have tw2 : (a ++ (blockPieces x ys ++ b)).takeWhile (· ≠ ['-', '-']) =
      a ++ (blockPieces x ys ++ b.takeWhile (· ≠ ['-', '-'])) := by
    rw [takeWhile_append_all _ a _ hpa, takeWhile_append_all _ _ _ hpp]
  have dw2 : (a ++ (blockPieces x ys ++ b)).dropWhile (· ≠ ['-', '-']) = b.dropWhile (· ≠ ['-', '-']) := by
    rw [dropWhile_append_all _ a _ hpa, dropWhile_append_all _ _ _ hpp]
  unfold parseArgv
  simp only [tw1, dw1, tw2, dw2]
  cases h0 : M.enter { initial := initial, cur := none, registry := registry, ignoreUnknown := ign } with
  | error e => rfl
  | ok m0 =>
    simp only [bind, Except.bind]
    have := short_block_expands_in_list m0 a (b.takeWhile (· ≠ ['-', '-'])) x ys hx hys hne (fun m1 h1 => hs m0 m1 h0 h1)
    unfold runToks at this
    rw [this]

/-- what the property compares of a `Program` parse: core context, task contexts, remainder -/
def ProgResult.eff (r : ProgResult) : Ctx × List Ctx × Tok := (r.core, r.tasks, r.remainder)

/-- BLOCK BEFORE THE TASKS: in the region the core pass parses itself -/
theorem program_block_expands_core (ic : Ctx) (reg : List Ctx) (a b : List Tok) (x : Char) (ys : List Char)
    (hx : x ≠ '-') (hys : ys ≠ []) (hy : '-' ∉ ys) (hne : hasEq ('-' :: x :: ys) = false) (ha : ∀ t ∈ a, t ≠ ['-', '-'])
    (hs : ∀ m0 m1, M.enter (M.start (some ic) [] true) = .ok m0 → runToks m0 a = .ok m1 → SplitsAsBlock m1 x) :
    programParse ic reg (a ++ ('-' :: x :: ys) :: b) = programParse ic reg (a ++ (blockPieces x ys ++ b)) := by
  unfold programParse corePass
  rw [parseArgv_block_expands (some ic) [] true a b x ys hx hys hy hne ha hs]

/-- BLOCK INSIDE A TASK'S ARGUMENT LIST (anywhere after the first task name `tname`; `ctoks` are core items before it).
    The core pass hands both spellings to task parsing verbatim; there the block is split into its letters. -/
theorem program_block_expands_in_task (ic ic' : Ctx) (reg : List Ctx) (ctoks : List Tok) (tname : Tok) (mid post : List Tok)
    (x : Char) (ys : List Char) (hx : x ≠ '-') (hys : ys ≠ []) (hy : '-' ∉ ys) (hne : hasEq ('-' :: x :: ys) = false)
    (hc0 : CoreStep0 ic ic' ctoks) (hmiss0 : ic.missingPositional = []) (hnf : isFlag tname = false)
    (hf : assoc? tname ic'.flags = none) (hi : assoc? tname ic'.inverse = none) (hmiss : ic'.missingPositional = [])
    (hbody : ∀ t ∈ ctoks ++ tname :: (mid ++ post), t ≠ ['-', '-'])
    (hs : ∀ m0 m1, M.enter (M.start (some ic) reg false) = .ok m0 → runToks m0 (tname :: mid) = .ok m1 → SplitsAsBlock m1 x) :
    (programParse ic reg (ctoks ++ tname :: (mid ++ ('-' :: x :: ys) :: post))).map ProgResult.eff =
      (programParse ic reg (ctoks ++ tname :: (mid ++ (blockPieces x ys ++ post)))).map ProgResult.eff := by
  have hT : ('-' :: x :: ys) ≠ ['-', '-'] := by
    cases ys with
    | nil => exact absurd rfl hys
    | cons y w => simp
  have hmem : ∀ t, t ∈ ctoks ++ tname :: (mid ++ post) ↔ (t ∈ ctoks ∨ t = tname ∨ t ∈ mid ∨ t ∈ post) := by
    intro t; simp [List.mem_append, List.mem_cons]
  have hbA : ∀ t ∈ ctoks ++ tname :: (mid ++ ('-' :: x :: ys) :: post), t ≠ ['-', '-'] := by
    intro t ht
    simp only [List.mem_append, List.mem_cons] at ht
    rcases ht with h | h | h | h | h
    · exact hbody t ((hmem t).mpr (Or.inl h))
    · exact hbody t ((hmem t).mpr (Or.inr (Or.inl h)))
    · exact hbody t ((hmem t).mpr (Or.inr (Or.inr (Or.inl h))))
    · rw [h]; exact hT
    · exact hbody t ((hmem t).mpr (Or.inr (Or.inr (Or.inr h))))
  have hbB : ∀ t ∈ ctoks ++ tname :: (mid ++ (blockPieces x ys ++ post)), t ≠ ['-', '-'] := by
    intro t ht
    simp only [List.mem_append, List.mem_cons] at ht
    rcases ht with h | h | h | h | h
    · exact hbody t ((hmem t).mpr (Or.inl h))
    · exact hbody t ((hmem t).mpr (Or.inr (Or.inl h)))
    · exact hbody t ((hmem t).mpr (Or.inr (Or.inr (Or.inl h))))
    · exact blockPieces_no_sentinel x ys hx hy t h
    · exact hbody t ((hmem t).mpr (Or.inr (Or.inr (Or.inr h))))
  have h1A := corePass_with ic ic' ctoks tname (mid ++ ('-' :: x :: ys) :: post) hc0 hmiss0 hnf hf hi hmiss hbA
  have h1B := corePass_with ic ic' ctoks tname (mid ++ (blockPieces x ys ++ post)) hc0 hmiss0 hnf hf hi hmiss hbB
  have hmidn : ∀ t ∈ tname :: mid, t ≠ ['-', '-'] := by
    intro t ht
    rcases List.mem_cons.mp ht with h | h
    · exact hbody t ((hmem t).mpr (Or.inr (Or.inl h)))
    · exact hbody t ((hmem t).mpr (Or.inr (Or.inr (Or.inl h))))
  have htp : taskPass ic reg (tname :: (mid ++ ('-' :: x :: ys) :: post)) =
      taskPass ic reg (tname :: (mid ++ (blockPieces x ys ++ post))) := by
    have := parseArgv_block_expands (some ic) reg false (tname :: mid) post x ys hx hys hy hne hmidn hs
    simpa [taskPass] using this
  unfold programParse
  rw [h1A, h1B]
  simp only [bind, Except.bind, pure, Except.pure]
  rw [htp]
  cases taskPass ic reg (tname :: (mid ++ (blockPieces x ys ++ post))) with
  | error e => rfl
  | ok r2 =>
    simp only []
    cases r2.contexts with
    | nil => rfl
    | cons v ts => rfl

/-- how to discharge `SplitsAsBlock` between two items of a task (C01's `Ready` machines): the first letter is a flag of the
    task that takes no value, or not a flag of the task and no value-taking flag of the core context -/
theorem splitsAsBlock_of_ready {m c} (hr : Ready m c) (x : Char)
    (h : (∃ i a, assoc? ['-', x] c.flags = some i ∧ c.args[i]? = some a ∧ a.takesValue = false) ∨
         (assoc? ['-', x] c.flags = none ∧ ∀ ic i a, m.initial = some ic → assoc? ['-', x] ic.flags = some i →
            ic.args[i]? = some a → a.takesValue = false)) : SplitsAsBlock m x := by
  refine ⟨hr.unp, Or.inl hr.nw, ?_⟩
  intro a hg
  unfold gluedFlag at hg
  simp only [hr.st, reduceCtorEq, if_false, ctx_of_ready hr, hr.notInit, Bool.false_eq_true] at hg
  rcases h with ⟨i, b, h1, h2, h3⟩ | ⟨h1, h2⟩
  · simp only [h1, Option.bind_some, h2] at hg
    cases hg; exact h3
  · simp only [h1, Option.bind_none] at hg
    cases hi : m.initial with
    | none => simp [hi] at hg
    | some ic =>
      simp only [hi] at hg
      cases hidx : assoc? ['-', x] ic.flags with
      | none => simp [hidx] at hg
      | some i =>
        simp only [hidx, Option.bind_some] at hg
        exact h2 ic i a hi hidx hg
end Inv
