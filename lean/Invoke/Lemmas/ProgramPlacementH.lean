import Invoke.Lemmas.ProgramPlacementG
/-! C18: core items compose (`CoreStep.comp`, `CoreStep0'.comp`); a block of Boolean core letters followed by one
    value-taking core letter (value = next token) is a core item (`BlockValue`). -/
namespace Inv
open M

/-! ### core items compose -/

theorem withCore_withCore (m : M) (ic1 ic2 : Ctx) (f1 f2 : Option (Where × Nat)) (g1 g2 : Bool) :
    (m.withCore ic1 f1 g1).withCore ic2 f2 g2 = m.withCore ic2 f2 g2 := rfl

/-- two core items one after the other are a core item -/
theorem CoreStep.comp {ic ic1 ic2 : Ctx} {reg : List Ctx} {c : Ctx} {t1 t2 : List Tok}
    (h1 : CoreStep ic ic1 reg c t1) (h2 : CoreStep ic1 ic2 reg c t2) : CoreStep ic ic2 reg c (t1 ++ t2) := by
  intro m hr hi hreg
  obtain ⟨fl, g, hrun1, hin1⟩ := h1 m hr hi hreg
  have hrE : Ready ((m.withCore ic1 fl g).reflag none false) c := ready_erased hr ic1 fl g
  obtain ⟨fl2, g2, hrun2, hin2⟩ := h2 ((m.withCore ic1 fl g).reflag none false) hrE rfl hreg
  have hrel : Rel (m.withCore ic1 fl g) ((m.withCore ic1 fl g).reflag none false) :=
    Or.inr ⟨none, false, rfl, hin1, inert_noflag _ rfl⟩
  rcases runToks_rel t2 _ _ hrel with ⟨e, _, h2'⟩ | ⟨m2, R, hm2, hR, hrel2⟩
  · rw [hrun2] at h2'; cases h2'
  · rw [hrun2] at hR
    have hR' : R = m.withCore ic2 fl2 g2 := (Except.ok.inj hR).symm
    have hRi : Inert R := by rw [hR']; exact hin2
    rcases hrel2 with heq | ⟨f, g3, heq, hmi, _⟩
    · refine ⟨fl2, g2, ?_, hin2⟩
      rw [runToks_append, hrun1]
      simp only [bind, Except.bind]
      rw [hm2, ← heq, hR']
    · have hm2' := reflag_inv R m2 f g3 heq
      refine ⟨m2.flag, m2.flagGotValue, ?_, ?_⟩
      · rw [runToks_append, hrun1]
        simp only [bind, Except.bind]
        rw [hm2, hm2', hR']; rfl
      · have : m.withCore ic2 m2.flag m2.flagGotValue = m2 := by rw [hm2', hR']; rfl
        rw [this]; exact hmi

/-- the same for the core pass: a core item handled from ANY core-pass machine whose flag is settled -/
def CoreStep0' (icj ic' : Ctx) (toks : List Tok) : Prop :=
  ∀ (ic : Ctx) (fl : Option (Where × Nat)) (g : Bool), Inert (coreM ic icj fl g) →
    ∃ fl' g', runToks (coreM ic icj fl g) toks = .ok (coreM ic ic' fl' g') ∧ Inert (coreM ic ic' fl' g')

theorem coreM_indep (ic ic2 icj : Ctx) (fl : Option (Where × Nat)) (g : Bool) : coreM ic icj fl g = coreM ic2 icj fl g := rfl

theorem CoreStep0.to' {icj ic' : Ctx} {toks : List Tok} (h : CoreStep0 icj ic' toks) : CoreStep0' icj ic' toks := by
  intro ic fl g hin
  obtain ⟨fl', g', hrun, hin'⟩ := h
  have hstart : M.start (some icj) [] true = (coreM ic icj fl g).reflag none false := rfl
  rw [hstart] at hrun
  have hrel : Rel (coreM ic icj fl g) ((coreM ic icj fl g).reflag none false) :=
    Or.inr ⟨none, false, rfl, hin, inert_noflag _ rfl⟩
  rcases runToks_rel toks _ _ hrel with ⟨e, _, h2'⟩ | ⟨m2, R, hm2, hR, hrel2⟩
  · rw [hrun] at h2'; cases h2'
  · rw [hrun] at hR
    have hR' : R = coreM ic ic' fl' g' := (Except.ok.inj hR).symm
    rcases hrel2 with heq | ⟨f, g3, heq, hmi, _⟩
    · exact ⟨fl', g', by rw [hm2, ← heq, hR'], hin'⟩
    · have hm2' := reflag_inv R m2 f g3 heq
      refine ⟨m2.flag, m2.flagGotValue, by rw [hm2, hm2', hR']; rfl, ?_⟩
      have : coreM ic ic' m2.flag m2.flagGotValue = m2 := by rw [hm2', hR']; rfl
      rw [this]; exact hmi

theorem CoreStep0'.to0 {ic ic' : Ctx} {toks : List Tok} (h : CoreStep0' ic ic' toks) : CoreStep0 ic ic' toks := by
  obtain ⟨fl', g', h1, h2⟩ := h ic none false (inert_noflag _ rfl)
  exact ⟨fl', g', h1, h2⟩

theorem CoreStep0'.comp {ic0 ic1 ic2 : Ctx} {t1 t2 : List Tok} (h1 : CoreStep0' ic0 ic1 t1) (h2 : CoreStep0' ic1 ic2 t2) :
    CoreStep0' ic0 ic2 (t1 ++ t2) := by
  intro ic fl g hin
  obtain ⟨f1, g1, r1, i1⟩ := h1 ic fl g hin
  obtain ⟨f2, g2, r2, i2⟩ := h2 ic f1 g1 i1
  refine ⟨f2, g2, ?_, i2⟩
  rw [runToks_append, r1]; exact r2

/-- a sequence of Boolean core flags written as separate tokens is a core item (task side and core side) -/
theorem coreStep_pieces {reg : List Ctx} {c : Ctx} : ∀ {ic ps ic'}, BoolPieces reg c ic ps ic' → ps ≠ [] → CoreStep ic ic' reg c ps := by
  intro ic ps ic' h
  induction h with
  | nil ic => intro hne; exact absurd rfl hne
  | @cons ic ic' tok rest i a a' hun hcf hcinv hl hf ha hh ht hs hrest ih =>
    intro _
    have h1 := coreStep_bool ic reg c tok i a a' hun hcf hcinv hl hf ha hh ht hs
    cases rest with
    | nil => cases hrest; exact h1
    | cons t2 r2 => exact CoreStep.comp (t1 := [tok]) h1 (ih (by simp))

theorem coreStep0'_pieces {reg : List Ctx} {c : Ctx} : ∀ {ic ps ic'}, BoolPieces reg c ic ps ic' → CoreStep0' ic ic' ps := by
  intro ic ps ic' h
  induction h with
  | nil ic => intro ic0 fl g hin; exact ⟨fl, g, rfl, hin⟩
  | @cons ic ic' tok rest i a a' hun _ _ _ hf ha _ ht hs _ ih =>
    have h1 : CoreStep0' ic (ic.setArg i a') [tok] := (coreStep0_bool ic tok i a a' hun hf ha ht hs).to'
    exact CoreStep0'.comp (t1 := [tok]) h1 ih

/-! ### a block of Boolean core letters followed by ONE value-taking core letter, value = next token -/

/-- the block `-x…z` whose letters are Boolean core flags (`bps`, from core context `ic` to `ic1`) followed by the value-taking core
    flag `vtok` (argument `i` of `ic1`), given the value `v` as the next token -/
structure BlockValue (reg : List Ctx) (c : Ctx) (ic ic1 : Ctx) (x : Char) (ys : List Char) (bps : List Tok) (vtok v : Tok)
    (i : Nat) (a a' : Arg) : Prop where
  hx : x ≠ '-'
  hys : ys ≠ []
  hne : hasEq ('-' :: x :: ys) = false
  split : blockPieces x ys = bps ++ [vtok]
  bne : bps ≠ []
  pieces : BoolPieces reg c ic bps ic1
  vun : Unsplit vtok
  hcf : assoc? vtok c.flags = none
  hcinv : assoc? vtok c.inverse = none
  hl : reg.find? (fun x => x.name = some vtok || x.aliases.contains vtok) = none
  hvf : assoc? v c.flags = none
  hvinv : assoc? v c.inverse = none
  hvf0 : assoc? v ic.flags = none
  hvinv0 : assoc? v ic.inverse = none
  hf : assoc? vtok ic1.flags = some i
  ha : ic1.args[i]? = some a
  hh : a.spec.names.headD [] ≠ "help".toList
  ht : a.takesValue = true
  hr0 : a.raw = none
  ho : a.spec.optional = false
  hs : a.setValue (.s v) = .ok a'

theorem BlockValue.first {reg c ic ic1 x ys bps vtok v i a a'} (h : BlockValue reg c ic ic1 x ys bps vtok v i a a') :
    ∃ rest, bps = ['-', x] :: rest := by
  have := h.split
  cases hb : bps with
  | nil => exact absurd hb h.bne
  | cons p r =>
    rw [hb] at this
    simp only [blockPieces, List.cons_append, List.cons.injEq] at this
    exact ⟨r, by rw [this.1]⟩

theorem coreStep_block_value {reg c ic ic1 x ys bps vtok v i a a'} (h : BlockValue reg c ic ic1 x ys bps vtok v i a a') :
    CoreStep ic (ic1.setArg i a') reg c ['-' :: x :: ys, v] := by
  have hcomp : CoreStep ic (ic1.setArg i a') reg c (bps ++ [vtok, v]) :=
    CoreStep.comp (coreStep_pieces h.pieces h.bne)
      (coreStep_value_spaced ic1 reg c vtok v i a a' h.vun h.hcf h.hcinv h.hl h.hvf h.hvinv h.hf h.ha h.hh h.ht h.hr0 h.ho h.hs)
  intro m hr hi hreg
  obtain ⟨fl, g, hrun, hin⟩ := hcomp m hr hi hreg
  refine ⟨fl, g, ?_, hin⟩
  obtain ⟨rest, hb⟩ := h.first
  have hp := h.pieces
  rw [hb] at hp
  cases hp with
  | cons j b b' hun hcf hcinv hl hf hb' hh ht hs hrest =>
    have hsab : SplitsAsBlock m x := by
      apply splitsAsBlock_of_ready hr x
      right
      refine ⟨hcf, ?_⟩
      intro ic0 j0 b0 hi0 hf0 hb0
      rw [hi] at hi0; cases hi0
      rw [hf] at hf0; cases hf0
      rw [hb'] at hb0; cases hb0
      exact ht
    have := short_block_expands_in_list m [] [v] x ys h.hx h.hys h.hne (fun m1 h1 => by
      have : m1 = m := by simpa [runToks, pure, Except.pure] using h1.symm
      rw [this]; exact hsab)
    simp only [List.nil_append] at this
    rw [this, h.split, List.append_assoc]
    exact hrun

theorem coreStepB_block_value {reg c ic ic1 x ys bps vtok v i a a'} (h : BlockValue reg c ic ic1 x ys bps vtok v i a a') :
    CoreStepB ic (ic1.setArg i a') reg c ['-' :: x :: ys, v] := by
  refine ⟨coreStep_block_value h, ?_⟩
  intro m c0 j b hpo hceq hi hreg
  subst hceq
  have hr := popt_ready hpo
  have hi' : (m.completed c0 j b).initial = some ic := hi
  obtain ⟨rest, hb⟩ := h.first
  have hp := h.pieces
  rw [hb] at hp
  cases hp with
  | cons k d d' hun hcf hcinv hl hf hd hh ht hs hrest =>
    apply runToks_first_eq
    exact popt_procTok_core hpo ic _ _ (['-', x], ys.map (fun ch => ['-', ch])) k d
      (presplit_block_core hr ic hi' x ys k d h.hx h.hys h.hne hcf hf hd ht) hi (popt_lookup hpo reg hreg _ hl) hcf hcinv hf hd hh

theorem BoolPieces.keeps_none {reg c} : ∀ {ic ps ic'}, BoolPieces reg c ic ps ic' → ∀ (v : Tok),
    (assoc? v ic'.flags = assoc? v ic.flags) ∧ (assoc? v ic'.inverse = assoc? v ic.inverse) := by
  intro ic ps ic' h v
  obtain ⟨t1, t2, _⟩ := h.tables
  rw [t1, t2]; exact ⟨rfl, rfl⟩

theorem coreStep0_block_value {reg c ic ic1 x ys bps vtok v i a a'} (h : BlockValue reg c ic ic1 x ys bps vtok v i a a') :
    CoreStep0 ic (ic1.setArg i a') ['-' :: x :: ys, v] := by
  have hk := h.pieces.keeps_none v
  have hv : CoreStep0' ic1 (ic1.setArg i a') [vtok, v] :=
    (coreStep0_value_spaced ic1 vtok v i a a' h.vun (by rw [hk.1]; exact h.hvf0) (by rw [hk.2]; exact h.hvinv0) h.hf h.ha h.ht h.hr0 h.ho h.hs).to'
  have hcomp : CoreStep0 ic (ic1.setArg i a') (bps ++ [vtok, v]) := (CoreStep0'.comp (coreStep0'_pieces h.pieces) hv).to0
  obtain ⟨fl, g, hrun, hin⟩ := hcomp
  refine ⟨fl, g, ?_, hin⟩
  obtain ⟨rest, hb⟩ := h.first
  have hp := h.pieces
  rw [hb] at hp
  cases hp with
  | cons j b b' hun hcf hcinv hl hf hb' hh ht hs hrest =>
    have hsab : SplitsAsBlock (M.start (some ic) [] true) x := by
      refine ⟨rfl, Or.inl rfl, ?_⟩
      intro a0 hg
      have : gluedFlag (M.start (some ic) [] true) ['-', x] = some b := by simp [gluedFlag, M.start, M.ctx, hf, hb']
      rw [this] at hg; cases hg; exact ht
    have := short_block_expands_in_list (M.start (some ic) [] true) [] [v] x ys h.hx h.hys h.hne (fun m1 h1 => by
      have : m1 = M.start (some ic) [] true := by simpa [runToks, pure, Except.pure] using h1.symm
      rw [this]; exact hsab)
    simp only [List.nil_append] at this
    rw [this, h.split, List.append_assoc]
    exact hrun

theorem updateCore_view_block_value {reg c ic ic1 x ys bps vtok v i a a'} (h : BlockValue reg c ic ic1 x ys bps vtok v i a a')
    (hfresh : ∀ b ∈ ic.args, b.takesValue = false → b.gotValue = false ∧ b.spec.kind ≠ .list)
    (hfv : ∀ o, ic.args[i]? = some o → o.gotValue = false ∧ o.spec.kind ≠ .list) :
    (updateCore ic (ic1.setArg i a')).view = (updateCore (ic1.setArg i a') ic).view := by
  apply zipWith_rel_view
  have hrel := BoolPieces.argsRel hfresh h.pieces (ArgsRel.refl _)
  apply ArgsRel.set _ _ i a' hrel
  intro o a2 ho ha2 hr
  rw [h.ha] at ha2
  have : a2 = a := (Option.some.inj ha2).symm
  subst this
  obtain ⟨s1, s2, s3⟩ := Arg.setValue_settled a2 a' (.s v) true (by simp) h.hs
  have hospec : a2.spec = o.spec := by
    rcases hr with rfl | ⟨_, h2, _, _⟩
    · rfl
    · exact h2
  obtain ⟨hf1, hf2⟩ := hfv o ho
  refine Or.inr ⟨hf1, s1.trans hospec, ?_, s3⟩
  have : ¬ a'.spec.kind = .list := by rw [s1, hospec]; exact hf2
  simp [Arg.gotValue, this, s3]
end Inv
