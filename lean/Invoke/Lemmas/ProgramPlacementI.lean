import Invoke.Lemmas.ProgramPlacementH
/-! C18: a core OPTIONAL-value flag as a core item — with a value in any documented spelling (`coreStep*_optvalue`), and
    bare when the next token is a different core flag (`coreStep*_optbare_then`). -/
namespace Inv
open M

/-! ### a core OPTIONAL-value flag given WITH a value (`--list=sub`, `-l=sub`, `-lsub`, `--list sub`) as a core item -/

/-- the two steps inside a task context: the flag token makes the machine point at the core argument; the value token — not
    flag-like, not a flag of the task or of the core, not a task name, and with every positional of the task filled (the
    documented rule for optional values) — becomes its value -/
theorem core_optvalue_steps (ic : Ctx) (reg : List Ctx) (c : Ctx) (tok v : Tok) (i : Nat) (a a' : Arg)
    (m : M) (hr : Ready m c) (hi : m.initial = some ic) (hreg : m.registry = reg)
    (hcf : assoc? tok c.flags = none) (hcinv : assoc? tok c.inverse = none)
    (hl : reg.find? (fun x => x.name = some tok || x.aliases.contains tok) = none)
    (hvnf : isFlag v = false) (hvf : assoc? v c.flags = none) (hvinv : assoc? v c.inverse = none) (hvf0 : assoc? v ic.flags = none)
    (hvl : reg.find? (fun x => x.name = some v || x.aliases.contains v) = none) (hmiss : c.missingPositional = [])
    (hf : assoc? tok ic.flags = some i) (ha : ic.args[i]? = some a) (hh : a.spec.names.headD [] ≠ "help".toList)
    (ht : a.takesValue = true) (hr0 : a.raw = none) (hs : a.setValue (.s v) = .ok a') :
    m.handle tok = .ok { m with flag := some (.initial, i), flagGotValue := false } ∧
    ∀ n, procTok (n + 1) { m with flag := some (.initial, i), flagGotValue := false } v =
      .ok (m.withCore (ic.setArg i a') (some (.initial, i)) true) := by
  have hctx := ctx_of_ready hr
  have hlk : m.lookupCtx tok = none := by unfold M.lookupCtx; rw [hreg]; exact hl
  have hlv : m.lookupCtx v = none := by unfold M.lookupCtx; rw [hreg]; exact hvl
  have hhd : m.handle tok = .ok { m with flag := some (.initial, i), flagGotValue := false } := by
    unfold M.handle
    simp only [hr.st, hctx, hcf, hcinv, Option.isSome_none, Bool.false_eq_true, if_false, reduceCtorEq,
      hr.nw, hi, hf, Option.isSome_some, hr.notInit, Bool.not_false, Bool.and_self, Bool.not_true, Bool.and_false,
      hlk, if_true, Option.bind_some, ha, hh]
    unfold M.switchToFlag
    simp only [checkAmbiguity_ready hr, completeFlag_ready hr, bind, Except.bind, hctx, pure, Except.pure,
      Bool.false_eq_true, if_false, hcf, hi, Option.bind_some, hf]
    simp [M.flagArg, ha, ht, hr.st, hr.notInit]
  refine ⟨hhd, ?_⟩
  intro n
  generalize hm1 : ({ m with flag := some (.initial, i), flagGotValue := false } : M) = m1
  have hctx1 : m1.ctx = some c := by rw [← hm1]; exact hctx
  have hfa1 : m1.flagArg = some a := by rw [← hm1]; simp [M.flagArg, hi, ha]
  have hw1 : m1.waiting = true := by unfold M.waiting; rw [hfa1]; simp [ht, hr0]
  have hst1 : m1.st = .context := by rw [← hm1]; exact hr.st
  have hl1 : m1.lookupCtx v = none := by rw [← hm1]; exact hlv
  have hcft : m1.coreFlagInTask v = false := by rw [← hm1]; simp [M.coreFlagInTask, hi, hvf0]
  have hhv : m1.handle v = .ok (m.withCore (ic.setArg i a') (some (.initial, i)) true) := by
    unfold M.handle
    simp only [hst1, hctx1, hvf, hvinv, Option.isSome_none, Bool.false_eq_true, if_false, reduceCtorEq, hw1, hcft, Bool.and_false,
      Bool.not_false, Bool.and_self, if_true]
    unfold M.seeValue M.checkAmbiguity
    simp only [hfa1, hr0, hctx1, hmiss, hl1, bind, Except.bind, ht, if_true, hs]
    rw [← hm1]
    cases a.spec.optional <;> simp [M.updFlagArg, hi, M.withCore, Ctx.setArg]
  exact (procTok_unsplit n m1 v (presplit_nonflag m1 v hvnf)).trans hhv

theorem coreStep_optvalue (ic : Ctx) (reg : List Ctx) (c : Ctx) (tok v : Tok) (toks : List Tok) (i : Nat) (a a' : Arg)
    (hsp : CoreValSpelling tok v toks)
    (hcf : assoc? tok c.flags = none) (hcinv : assoc? tok c.inverse = none)
    (hl : reg.find? (fun x => x.name = some tok || x.aliases.contains tok) = none)
    (hvnf : isFlag v = false) (hvf : assoc? v c.flags = none) (hvinv : assoc? v c.inverse = none) (hvf0 : assoc? v ic.flags = none)
    (hvl : reg.find? (fun x => x.name = some v || x.aliases.contains v) = none) (hmiss : c.missingPositional = [])
    (hf : assoc? tok ic.flags = some i) (ha : ic.args[i]? = some a) (hh : a.spec.names.headD [] ≠ "help".toList)
    (ht : a.takesValue = true) (hr0 : a.raw = none) (hs : a.setValue (.s v) = .ok a') :
    CoreStep ic (ic.setArg i a') reg c toks := by
  intro m hr hi hreg
  obtain ⟨hhd, hval⟩ := core_optvalue_steps ic reg c tok v i a a' m hr hi hreg hcf hcinv hl hvnf hvf hvinv hvf0 hvl hmiss hf ha hh ht hr0 hs
  refine ⟨some (.initial, i), true, ?_, inert_withCore_value m ic i a a' v ha hs .initial (Or.inl rfl)⟩
  have hrbk : ∀ T, rollback m T (tok, [v]) = (tok, [v]) := by intro T; simp [rollback, hr.nw]
  have split_form : ∀ T, presplit m T = .ok (tok, [v]) → runToks m [T] = .ok (m.withCore (ic.setArg i a') (some (.initial, i)) true) := by
    intro T hps
    apply runToks_single
    have hl2 : T.length + 2 = (T.length + 1) + 1 := rfl
    rw [hl2]
    unfold procTok
    simp only [hps, hrbk, hhd, List.foldlM_cons, List.foldlM_nil, hval, bind, Except.bind, pure, Except.pure]
  cases hsp with
  | spaced hun =>
    have h1 : procTok (tok.length + 2) m tok = .ok { m with flag := some (.initial, i), flagGotValue := false } :=
      procTok_one _ (presplit_unsplit m tok hun) hhd
    simp only [runToks, List.foldlM_cons, h1, hval, bind, Except.bind, List.foldlM_nil, pure, Except.pure]
  | eq hft => exact split_form _ (presplit_eq_form hr hft v)
  | glued x y w htok hv hx hy =>
    subst htok; subst hv
    exact split_form _ (presplit_glued_core hr ic hi x y w i a hx hy hcf hf ha ht)

theorem coreStepB_optvalue (ic : Ctx) (reg : List Ctx) (c : Ctx) (tok v : Tok) (toks : List Tok) (i : Nat) (a a' : Arg)
    (hsp : CoreValSpelling tok v toks)
    (hcf : assoc? tok c.flags = none) (hcinv : assoc? tok c.inverse = none)
    (hl : reg.find? (fun x => x.name = some tok || x.aliases.contains tok) = none)
    (hvnf : isFlag v = false) (hvf : assoc? v c.flags = none) (hvinv : assoc? v c.inverse = none) (hvf0 : assoc? v ic.flags = none)
    (hvl : reg.find? (fun x => x.name = some v || x.aliases.contains v) = none) (hmiss : c.missingPositional = [])
    (hf : assoc? tok ic.flags = some i) (ha : ic.args[i]? = some a) (hh : a.spec.names.headD [] ≠ "help".toList)
    (ht : a.takesValue = true) (hr0 : a.raw = none) (hs : a.setValue (.s v) = .ok a') :
    CoreStepB ic (ic.setArg i a') reg c toks := by
  refine ⟨coreStep_optvalue ic reg c tok v toks i a a' hsp hcf hcinv hl hvnf hvf hvinv hvf0 hvl hmiss hf ha hh ht hr0 hs, ?_⟩
  intro m c0 j b hp hceq hi hreg
  subst hceq
  have hr := popt_ready hp
  have hi' : (m.completed c0 j b).initial = some ic := hi
  cases hsp with
  | spaced hun =>
    apply runToks_first_eq
    exact popt_procTok_core hp ic _ tok (tok, []) i a (presplit_unsplit _ tok hun) hi (popt_lookup hp reg hreg tok hl)
      hcf hcinv hf ha hh
  | eq hft =>
    apply runToks_first_eq
    exact popt_procTok_core hp ic _ _ (tok, [v]) i a (presplit_eq_form hr hft v) hi (popt_lookup hp reg hreg tok hl)
      hcf hcinv hf ha hh
  | glued x y w htok hv hx hy =>
    subst htok; subst hv
    apply runToks_first_eq
    exact popt_procTok_core hp ic _ _ (['-', x], [y :: w]) i a (presplit_glued_core hr ic hi' x y w i a hx hy hcf hf ha ht) hi
      (popt_lookup hp reg hreg _ hl) hcf hcinv hf ha hh

/-- the same handled by the core pass (before any task) -/
theorem coreStep0_optvalue (ic : Ctx) (tok v : Tok) (toks : List Tok) (i : Nat) (a a' : Arg)
    (hsp : CoreValSpelling tok v toks)
    (hvnf : isFlag v = false) (hvf : assoc? v ic.flags = none) (hvinv : assoc? v ic.inverse = none)
    (hmiss : ic.missingPositional = [])
    (hf : assoc? tok ic.flags = some i) (ha : ic.args[i]? = some a)
    (ht : a.takesValue = true) (hr0 : a.raw = none) (hs : a.setValue (.s v) = .ok a') :
    CoreStep0 ic (ic.setArg i a') toks := by
  have hctx0 : (M.start (some ic) [] true).ctx = some ic := rfl
  have hhd : (M.start (some ic) [] true).handle tok =
      .ok { (M.start (some ic) [] true) with flag := some (.cur, i), flagGotValue := false } := by
    unfold M.handle
    have hst : (M.start (some ic) [] true).st = .context := rfl
    simp only [hst, hctx0, hf, Option.isSome_some, if_true, reduceCtorEq, if_false]
    unfold M.switchToFlag
    simp only [checkAmbiguity_of_noflag (M.start (some ic) [] true) tok rfl, completeFlag_of_noflag (M.start (some ic) [] true) rfl, bind, Except.bind, hctx0, pure,
      Except.pure, Bool.false_eq_true, if_false, hf]
    simp [M.flagArg, M.ctx, M.start, ha, ht]
  have hval : ∀ n, procTok (n + 1) { (M.start (some ic) [] true) with flag := some (.cur, i), flagGotValue := false } v =
      .ok (coreM ic (ic.setArg i a') (some (.cur, i)) true) := by
    intro n
    generalize hm1 : ({ (M.start (some ic) [] true) with flag := some (.cur, i), flagGotValue := false } : M) = m1
    have hctx1 : m1.ctx = some ic := by rw [← hm1]; rfl
    have hfa1 : m1.flagArg = some a := by rw [← hm1]; simp [M.flagArg, M.start, M.ctx, ha]
    have hw1 : m1.waiting = true := by unfold M.waiting; rw [hfa1]; simp [ht, hr0]
    have hst1 : m1.st = .context := by rw [← hm1]; rfl
    have hl1 : m1.lookupCtx v = none := by rw [← hm1]; rfl
    have hcft : m1.coreFlagInTask v = false := by rw [← hm1]; simp [M.coreFlagInTask, M.start]
    have hhv : m1.handle v = .ok (coreM ic (ic.setArg i a') (some (.cur, i)) true) := by
      unfold M.handle
      simp only [hst1, hctx1, hvf, hvinv, Option.isSome_none, Bool.false_eq_true, if_false, reduceCtorEq, hw1, hcft, Bool.and_false,
        Bool.not_false, Bool.and_self, if_true]
      unfold M.seeValue M.checkAmbiguity
      simp only [hfa1, hr0, hctx1, hmiss, hl1, bind, Except.bind, ht, if_true, hs]
      rw [← hm1]
      cases a.spec.optional <;> simp [M.updFlagArg, M.start, M.ctx, M.setCtx, coreM, M.withCore, Ctx.setArg]
    exact (procTok_unsplit n m1 v (presplit_nonflag m1 v hvnf)).trans hhv
  refine ⟨some (.cur, i), true, ?_, inert_withCore_value _ ic i a a' v ha hs .cur (Or.inr rfl)⟩
  have hw0 : (M.start (some ic) [] true).waiting = false := rfl
  have hun0 : (M.start (some ic) [] true).unparsed = [] := rfl
  have split_form : ∀ T, presplit (M.start (some ic) [] true) T = .ok (tok, [v]) →
      runToks (M.start (some ic) [] true) [T] = .ok (coreM ic (ic.setArg i a') (some (.cur, i)) true) := by
    intro T hps
    apply runToks_single
    have hrb : rollback (M.start (some ic) [] true) T (tok, [v]) = (tok, [v]) := by simp [rollback, hw0]
    have hl2 : T.length + 2 = (T.length + 1) + 1 := rfl
    rw [hl2]
    unfold procTok
    simp only [hps, hrb, hhd, List.foldlM_cons, List.foldlM_nil, hval, bind, Except.bind, pure, Except.pure]
  cases hsp with
  | spaced hun =>
    have h1 := procTok_one (tok.length + 1) (presplit_unsplit (M.start (some ic) [] true) tok hun) hhd
    simp only [runToks, List.foldlM_cons, h1, hval, bind, Except.bind, List.foldlM_nil, pure, Except.pure]
  | eq hft =>
    have hfl : isFlag (tok ++ '=' :: v) = true := by
      rcases hft.2 with ⟨r, rfl⟩ | ⟨x, rfl⟩ <;> rfl
    apply split_form
    unfold presplit
    simp [hfl, hun0, hasEq_append, isGlued_eq_form _ hft, beforeEq_append hft.1, afterEq_append hft.1]
  | glued x y w htok hv hx hy =>
    subst htok; subst hv
    have hgf : gluedFlag (M.start (some ic) [] true) ['-', x] = some a := by
      simp [gluedFlag, M.start, M.ctx, hf, ha]
    have hig : isGlued (M.start (some ic) [] true) ('-' :: x :: y :: w) = true := by simp [isGlued, isLongFlag, hx, hy, hgf, ht]
    apply split_form
    unfold presplit
    simp [isFlag, hun0, hig, isLongFlag, hx, splitShort, hgf, ht]

/-! ### a BARE core optional-value flag (`-l`, `--list`) followed by another core flag -/

/-- the flag token alone: the machine points at the core argument and waits -/
theorem core_opt_switch (ic : Ctx) (reg : List Ctx) (c : Ctx) (tok : Tok) (i : Nat) (a : Arg)
    (m : M) (hr : Ready m c) (hi : m.initial = some ic) (hreg : m.registry = reg)
    (hcf : assoc? tok c.flags = none) (hcinv : assoc? tok c.inverse = none)
    (hl : reg.find? (fun x => x.name = some tok || x.aliases.contains tok) = none)
    (hf : assoc? tok ic.flags = some i) (ha : ic.args[i]? = some a) (hh : a.spec.names.headD [] ≠ "help".toList)
    (ht : a.takesValue = true) :
    m.handle tok = .ok { m with flag := some (.initial, i), flagGotValue := false } := by
  have hctx := ctx_of_ready hr
  have hlk : m.lookupCtx tok = none := by unfold M.lookupCtx; rw [hreg]; exact hl
  unfold M.handle
  simp only [hr.st, hctx, hcf, hcinv, Option.isSome_none, Bool.false_eq_true, if_false, reduceCtorEq,
    hr.nw, hi, hf, Option.isSome_some, hr.notInit, Bool.not_false, Bool.and_self, Bool.not_true, Bool.and_false,
    hlk, if_true, Option.bind_some, ha, hh]
  unfold M.switchToFlag
  simp only [checkAmbiguity_ready hr, completeFlag_ready hr, bind, Except.bind, hctx, pure, Except.pure,
    Bool.false_eq_true, if_false, hcf, hi, Option.bind_some, hf]
  simp [M.flagArg, ha, ht, hr.st, hr.notInit]

/-- with the optional core flag pending, a DIFFERENT core flag token (not a flag of the task, not a task name; every
    positional of the task filled) is handled exactly as from the machine where the pending flag has been tied off with
    its "given without a value" value -/
theorem core_optbare_next (ic : Ctx) (reg : List Ctx) (c : Ctx) (t2 : Tok) (i j : Nat) (a ab a2 : Arg)
    (m : M) (hr : Ready m c) (hi : m.initial = some ic) (hreg : m.registry = reg)
    (h2cf : assoc? t2 c.flags = none) (h2cinv : assoc? t2 c.inverse = none)
    (h2l : reg.find? (fun x => x.name = some t2 || x.aliases.contains t2) = none)
    (h2f : assoc? t2 ic.flags = some j) (h2a : ic.args[j]? = some a2) (hji : j ≠ i)
    (hh2 : a2.spec.names.headD [] ≠ "help".toList) (hmiss : c.missingPositional = [])
    (ha : ic.args[i]? = some a) (ht : a.takesValue = true) (hr0 : a.raw = none) (ho : a.spec.optional = true) (hk : a.spec.kind ≠ .list)
    (hs : a.setValue (.b true) false = .ok ab) :
    ({ m with flag := some (.initial, i), flagGotValue := false } : M).handle t2 =
      (m.withCore (ic.setArg i ab) (some (.initial, i)) false).handle t2 := by
  have hctx := ctx_of_ready hr
  obtain ⟨sp, sr, _⟩ := Arg.setValue_settled a ab (.b true) false (by simp) hs
  obtain ⟨m1, hm1⟩ : ∃ x : M, x = { m with flag := some (.initial, i), flagGotValue := false } := ⟨_, rfl⟩
  obtain ⟨mT, hmT⟩ : ∃ x : M, x = m.withCore (ic.setArg i ab) (some (.initial, i)) false := ⟨_, rfl⟩
  rw [← hm1, ← hmT]
  have hst1 : m1.st = .context := by rw [hm1]; exact hr.st
  have hstT : mT.st = .context := by rw [hmT]; exact hr.st
  have hctx1 : m1.ctx = some c := by rw [hm1]; exact hctx
  have hctxT : mT.ctx = some c := by rw [hmT]; simpa [M.ctx, M.withCore, hr.notInit] using hr.cur
  have hfa1 : m1.flagArg = some a := by rw [hm1]; simp [M.flagArg, hi, ha]
  have hfaT : mT.flagArg = some ab := by rw [hmT]; simp [M.flagArg, M.withCore, setArg_get ic i a ab ha]
  have hw1 : m1.waiting = true := by unfold M.waiting; rw [hfa1]; simp [ht, hr0]
  have htb : ab.takesValue = true := by simpa [Arg.takesValue, sp] using ht
  have hrb : ab.raw.isNone = false := by cases hx : ab.raw <;> simp_all
  have hwT : mT.waiting = false := by unfold M.waiting; rw [hfaT]; simp [htb, hrb, sp, hk]
  have hni1 : m1.curIsInitial = false := by rw [hm1]; exact hr.notInit
  have hniT : mT.curIsInitial = false := by rw [hmT]; exact hr.notInit
  have hi1 : m1.initial = some ic := by rw [hm1]; exact hi
  have hiT : mT.initial = some (ic.setArg i ab) := by rw [hmT]; rfl
  have hl1 : m1.lookupCtx t2 = none := by rw [hm1]; unfold M.lookupCtx; simp only [hreg]; exact h2l
  have hlT : mT.lookupCtx t2 = none := by rw [hmT]; unfold M.lookupCtx; simp only [M.withCore, hreg]; exact h2l
  have hop1 : m1.optionalPending = true := by simp [M.optionalPending, hfa1, ho]
  have hcf1 : m1.coreFlagInTask t2 = true := by simp [M.coreFlagInTask, hni1, hi1, h2f]
  have hfl : (ic.setArg i ab).flags = ic.flags := rfl
  have haj : (ic.setArg i ab).args[j]? = some a2 := by simp [Ctx.setArg, List.getElem?_set_ne (Ne.symm hji), h2a]
  have hca1 : m1.checkAmbiguity t2 = .ok () := by
    unfold M.checkAmbiguity; simp [hfa1, ho, hr0, hctx1, hmiss, hl1]
  have hcaT : mT.checkAmbiguity t2 = .ok () := by
    unfold M.checkAmbiguity; rw [hfaT]; cases hx : ab.raw <;> simp_all
  have hcp1 : m1.completeFlag = .ok mT := by
    unfold M.completeFlag
    simp only [hfa1, ho, hr0, hs, Option.isNone_none, Bool.not_true, Bool.and_false, Bool.false_eq_true, if_false, Bool.and_self,
      if_true, bind, Except.bind]
    rw [hm1, hmT]; simp [M.updFlagArg, hi, M.withCore, Ctx.setArg]
  have hcpT : mT.completeFlag = .ok mT := by
    unfold M.completeFlag
    simp [hfaT, sp, ho, hrb]
  have hsw : m1.switchToFlag t2 = mT.switchToFlag t2 := by
    unfold M.switchToFlag
    simp only [hca1, hcaT, hcp1, hcpT, bind, Except.bind]
  unfold M.handle
  simp only [hst1, hstT, hctx1, hctxT, h2cf, h2cinv, Option.isSome_none, Bool.false_eq_true, if_false, reduceCtorEq,
    hw1, hwT, hop1, hcf1, Bool.and_self, Bool.not_true, Bool.and_false, hmiss, List.isEmpty_nil, hni1, hniT, hi1, hiT, hfl, h2f,
    Option.isSome_some, Bool.not_false, hl1, hlT, if_true, Option.bind_some, h2a, haj, hh2, Bool.false_and]
  exact hsw

/-- a core item handled from a machine whose (core) flag is settled -/
theorem CoreStep.from_inert {ic1 ic2 : Ctx} {reg : List Ctx} {c : Ctx} {t2 : List Tok} (h2 : CoreStep ic1 ic2 reg c t2)
    (m : M) (hr : Ready m c) (hreg : m.registry = reg) (fl : Option (Where × Nat)) (g : Bool)
    (hin1 : Inert (m.withCore ic1 fl g)) :
    ∃ fl2 g2, runToks (m.withCore ic1 fl g) t2 = .ok (m.withCore ic2 fl2 g2) ∧ Inert (m.withCore ic2 fl2 g2) := by
  have hrE : Ready ((m.withCore ic1 fl g).reflag none false) c := ready_erased hr ic1 fl g
  obtain ⟨fl2, g2, hrun2, hin2⟩ := h2 ((m.withCore ic1 fl g).reflag none false) hrE rfl hreg
  have hrel : Rel (m.withCore ic1 fl g) ((m.withCore ic1 fl g).reflag none false) :=
    Or.inr ⟨none, false, rfl, hin1, inert_noflag _ rfl⟩
  rcases runToks_rel t2 _ _ hrel with ⟨e, _, h2'⟩ | ⟨m2, R, hm2, hR, hrel2⟩
  · rw [hrun2] at h2'; cases h2'
  · rw [hrun2] at hR
    have hR' : R = m.withCore ic2 fl2 g2 := (Except.ok.inj hR).symm
    rcases hrel2 with heq | ⟨f, g3, heq, hmi, _⟩
    · exact ⟨fl2, g2, by rw [hm2, ← heq, hR'], hin2⟩
    · have hm2' := reflag_inv R m2 f g3 heq
      refine ⟨m2.flag, m2.flagGotValue, ?_, ?_⟩
      · rw [hm2, hm2', hR']; rfl
      · have : m.withCore ic2 m2.flag m2.flagGotValue = m2 := by rw [hm2', hR']; rfl
        rw [this]; exact hmi

theorem inert_withCore_optbare (m : M) (ic : Ctx) (i : Nat) (a ab : Arg) (w : Where) (hw : w = .initial ∨ m.curIsInitial = true)
    (ha : ic.args[i]? = some a) (hk : a.spec.kind ≠ .list) (hs : a.setValue (.b true) false = .ok ab) :
    Inert (m.withCore (ic.setArg i ab) (some (w, i)) false) := by
  intro b hb
  obtain ⟨s1, s2, s3⟩ := Arg.setValue_settled a ab (.b true) false (by simp) hs
  have : (m.withCore (ic.setArg i ab) (some (w, i)) false).flagArg = some ab := by
    rcases hw with rfl | hw
    · simp [M.flagArg, M.withCore, setArg_get ic i a ab ha]
    · cases w <;> simp [M.flagArg, M.withCore, M.ctx, hw, setArg_get ic i a ab ha]
  rw [this] at hb; cases hb
  exact ⟨s2, s3, fun _ hl => absurd (s1 ▸ hl) hk⟩

/-- BARE OPTIONAL CORE FLAG FOLLOWED BY A CORE ITEM THAT STARTS WITH A DIFFERENT CORE FLAG TOKEN (`-l -e`, `--list --echo`,
    `-l -T 5`): inside a task whose positionals are all filled it is a core item — the optional flag gets its "given
    without a value" value `ab`, then the following core item acts on that core context -/
theorem coreStep_optbare_then (ic ic2 : Ctx) (reg : List Ctx) (c : Ctx) (tok t2 : Tok) (rest : List Tok) (i j : Nat) (a ab a2 : Arg)
    (hun : Unsplit tok) (hcf : assoc? tok c.flags = none) (hcinv : assoc? tok c.inverse = none)
    (hl : reg.find? (fun x => x.name = some tok || x.aliases.contains tok) = none)
    (hf : assoc? tok ic.flags = some i) (ha : ic.args[i]? = some a) (hh : a.spec.names.headD [] ≠ "help".toList)
    (ht : a.takesValue = true) (hr0 : a.raw = none) (ho : a.spec.optional = true) (hk : a.spec.kind ≠ .list)
    (hs : a.setValue (.b true) false = .ok ab)
    (hun2 : Unsplit t2) (h2cf : assoc? t2 c.flags = none) (h2cinv : assoc? t2 c.inverse = none)
    (h2l : reg.find? (fun x => x.name = some t2 || x.aliases.contains t2) = none)
    (h2f : assoc? t2 ic.flags = some j) (h2a : ic.args[j]? = some a2) (hji : j ≠ i)
    (hh2 : a2.spec.names.headD [] ≠ "help".toList) (hmiss : c.missingPositional = [])
    (hstep : CoreStep (ic.setArg i ab) ic2 reg c (t2 :: rest)) :
    CoreStep ic ic2 reg c (tok :: t2 :: rest) := by
  intro m hr hi hreg
  have h1 : procTok (tok.length + 2) m tok = .ok { m with flag := some (.initial, i), flagGotValue := false } :=
    procTok_one _ (presplit_unsplit m tok hun) (core_opt_switch ic reg c tok i a m hr hi hreg hcf hcinv hl hf ha hh ht)
  have h2 : procTok (t2.length + 2) { m with flag := some (.initial, i), flagGotValue := false } t2 =
      procTok (t2.length + 2) (m.withCore (ic.setArg i ab) (some (.initial, i)) false) t2 := by
    rw [procTok_unsplit _ _ t2 (presplit_unsplit _ t2 hun2), procTok_unsplit _ _ t2 (presplit_unsplit _ t2 hun2)]
    exact core_optbare_next ic reg c t2 i j a ab a2 m hr hi hreg h2cf h2cinv h2l h2f h2a hji hh2 hmiss ha ht hr0 ho hk hs
  have hin : Inert (m.withCore (ic.setArg i ab) (some (.initial, i)) false) :=
    inert_withCore_optbare m ic i a ab .initial (Or.inl rfl) ha hk hs
  obtain ⟨fl2, g2, hrun, hin2⟩ := hstep.from_inert m hr hreg _ _ hin
  refine ⟨fl2, g2, ?_, hin2⟩
  rw [← hrun]
  simp only [runToks, List.foldlM_cons, h1, h2, bind, Except.bind]

theorem coreStepB_optbare_then (ic ic2 : Ctx) (reg : List Ctx) (c : Ctx) (tok t2 : Tok) (rest : List Tok) (i j : Nat) (a ab a2 : Arg)
    (hun : Unsplit tok) (hcf : assoc? tok c.flags = none) (hcinv : assoc? tok c.inverse = none)
    (hl : reg.find? (fun x => x.name = some tok || x.aliases.contains tok) = none)
    (hf : assoc? tok ic.flags = some i) (ha : ic.args[i]? = some a) (hh : a.spec.names.headD [] ≠ "help".toList)
    (ht : a.takesValue = true) (hr0 : a.raw = none) (ho : a.spec.optional = true) (hk : a.spec.kind ≠ .list)
    (hs : a.setValue (.b true) false = .ok ab)
    (hun2 : Unsplit t2) (h2cf : assoc? t2 c.flags = none) (h2cinv : assoc? t2 c.inverse = none)
    (h2l : reg.find? (fun x => x.name = some t2 || x.aliases.contains t2) = none)
    (h2f : assoc? t2 ic.flags = some j) (h2a : ic.args[j]? = some a2) (hji : j ≠ i)
    (hh2 : a2.spec.names.headD [] ≠ "help".toList) (hmiss : c.missingPositional = [])
    (hstep : CoreStep (ic.setArg i ab) ic2 reg c (t2 :: rest)) :
    CoreStepB ic ic2 reg c (tok :: t2 :: rest) := by
  refine ⟨coreStep_optbare_then ic ic2 reg c tok t2 rest i j a ab a2 hun hcf hcinv hl hf ha hh ht hr0 ho hk hs hun2 h2cf h2cinv h2l
    h2f h2a hji hh2 hmiss hstep, ?_⟩
  intro m c0 j' b hp hceq hi hreg
  subst hceq
  apply runToks_first_eq
  exact popt_procTok_core hp ic _ tok (tok, []) i a (presplit_unsplit _ tok hun) hi (popt_lookup hp reg hreg tok hl)
    hcf hcinv hf ha hh

/-- the same pair handled by the core pass (before any task) -/
theorem coreStep0_optbare_then (ic ic2 : Ctx) (tok t2 : Tok) (rest : List Tok) (i j : Nat) (a ab : Arg)
    (hun : Unsplit tok) (hf : assoc? tok ic.flags = some i) (ha : ic.args[i]? = some a)
    (ht : a.takesValue = true) (hr0 : a.raw = none) (ho : a.spec.optional = true) (hk : a.spec.kind ≠ .list)
    (hs : a.setValue (.b true) false = .ok ab)
    (hun2 : Unsplit t2) (h2f : assoc? t2 ic.flags = some j) (hmiss : ic.missingPositional = [])
    (hstep : CoreStep0 (ic.setArg i ab) ic2 (t2 :: rest)) :
    CoreStep0 ic ic2 (tok :: t2 :: rest) := by
  have hctx0 : (M.start (some ic) [] true).ctx = some ic := rfl
  have hhd : (M.start (some ic) [] true).handle tok =
      .ok { (M.start (some ic) [] true) with flag := some (.cur, i), flagGotValue := false } := by
    unfold M.handle
    have hst : (M.start (some ic) [] true).st = .context := rfl
    simp only [hst, hctx0, hf, Option.isSome_some, if_true, reduceCtorEq, if_false]
    unfold M.switchToFlag
    simp only [checkAmbiguity_of_noflag (M.start (some ic) [] true) tok rfl, completeFlag_of_noflag (M.start (some ic) [] true) rfl, bind, Except.bind, hctx0, pure,
      Except.pure, Bool.false_eq_true, if_false, hf]
    simp [M.flagArg, M.ctx, M.start, ha, ht]
  obtain ⟨sp, sr, _⟩ := Arg.setValue_settled a ab (.b true) false (by simp) hs
  obtain ⟨m1, hm1⟩ : ∃ x : M, x = { (M.start (some ic) [] true) with flag := some (.cur, i), flagGotValue := false } := ⟨_, rfl⟩
  obtain ⟨mT, hmT⟩ : ∃ x : M, x = coreM ic (ic.setArg i ab) (some (.cur, i)) false := ⟨_, rfl⟩
  have hin : Inert (coreM ic (ic.setArg i ab) (some (.cur, i)) false) :=
    inert_withCore_optbare _ ic i a ab .cur (Or.inr rfl) ha hk hs
  have hnext : m1.handle t2 = mT.handle t2 := by
    have hst1 : m1.st = .context := by rw [hm1]; rfl
    have hstT : mT.st = .context := by rw [hmT]; rfl
    have hctx1 : m1.ctx = some ic := by rw [hm1]; rfl
    have hctxT : mT.ctx = some (ic.setArg i ab) := by rw [hmT]; rfl
    have hfa1 : m1.flagArg = some a := by rw [hm1]; simp [M.flagArg, M.start, M.ctx, ha]
    have hfaT : mT.flagArg = some ab := by
      rw [hmT]; simp [M.flagArg, coreM, M.withCore, M.start, M.ctx, setArg_get ic i a ab ha]
    have hrb : ab.raw.isNone = false := by cases hx : ab.raw <;> simp_all
    have hl1 : m1.lookupCtx t2 = none := by rw [hm1]; rfl
    have hfl : (ic.setArg i ab).flags = ic.flags := rfl
    have hca1 : m1.checkAmbiguity t2 = .ok () := by
      unfold M.checkAmbiguity; simp [hfa1, ho, hr0, hctx1, hmiss, hl1]
    have hcaT : mT.checkAmbiguity t2 = .ok () := by
      unfold M.checkAmbiguity; rw [hfaT]; cases hx : ab.raw <;> simp_all
    have hcp1 : m1.completeFlag = .ok mT := by
      unfold M.completeFlag
      simp only [hfa1, ho, hr0, hs, Option.isNone_none, Bool.not_true, Bool.and_false, Bool.false_eq_true, if_false, Bool.and_self,
        if_true, bind, Except.bind]
      rw [hm1, hmT]; simp [M.updFlagArg, M.start, M.ctx, M.setCtx, coreM, M.withCore, Ctx.setArg]
    have hcpT : mT.completeFlag = .ok mT := by
      unfold M.completeFlag
      simp [hfaT, sp, ho, hrb]
    unfold M.handle
    simp only [hst1, hstT, hctx1, hctxT, hfl, h2f, Option.isSome_some, if_true, reduceCtorEq, if_false]
    unfold M.switchToFlag
    simp only [hca1, hcaT, hcp1, hcpT, bind, Except.bind]
  have h1 : procTok (tok.length + 2) (M.start (some ic) [] true) tok = .ok m1 := by
    rw [hm1]; exact procTok_one _ (presplit_unsplit _ tok hun) hhd
  have h2 : procTok (t2.length + 2) m1 t2 = procTok (t2.length + 2) mT t2 := by
    rw [procTok_unsplit _ _ t2 (presplit_unsplit _ t2 hun2), procTok_unsplit _ _ t2 (presplit_unsplit _ t2 hun2)]
    exact hnext
  obtain ⟨fl2, g2, hrun, hin2⟩ := hstep.to' ic (some (.cur, i)) false hin
  refine ⟨fl2, g2, ?_, hin2⟩
  rw [← hrun, ← hmT]
  simp only [runToks, List.foldlM_cons, h1, h2, bind, Except.bind]

/-! ### a bare core optional-value flag followed by a flag OF THE TASK, or by the end of the command line -/

/-- with the optional core flag pending, a flag token of the task (every positional of the task filled, the token not a
    task name) is handled exactly as from the tied-off machine -/
theorem core_optbare_next_taskflag (ic : Ctx) (reg : List Ctx) (c : Ctx) (t2 : Tok) (i : Nat) (a ab : Arg)
    (m : M) (hr : Ready m c) (hi : m.initial = some ic) (hreg : m.registry = reg)
    (h2cf : (assoc? t2 c.flags).isSome = true)
    (h2l : reg.find? (fun x => x.name = some t2 || x.aliases.contains t2) = none)
    (hmiss : c.missingPositional = [])
    (ha : ic.args[i]? = some a) (hr0 : a.raw = none) (ho : a.spec.optional = true)
    (hs : a.setValue (.b true) false = .ok ab) :
    ({ m with flag := some (.initial, i), flagGotValue := false } : M).handle t2 =
      (m.withCore (ic.setArg i ab) (some (.initial, i)) false).handle t2 := by
  have hctx := ctx_of_ready hr
  obtain ⟨sp, sr, _⟩ := Arg.setValue_settled a ab (.b true) false (by simp) hs
  obtain ⟨m1, hm1⟩ : ∃ x : M, x = { m with flag := some (.initial, i), flagGotValue := false } := ⟨_, rfl⟩
  obtain ⟨mT, hmT⟩ : ∃ x : M, x = m.withCore (ic.setArg i ab) (some (.initial, i)) false := ⟨_, rfl⟩
  rw [← hm1, ← hmT]
  have hst1 : m1.st = .context := by rw [hm1]; exact hr.st
  have hstT : mT.st = .context := by rw [hmT]; exact hr.st
  have hctx1 : m1.ctx = some c := by rw [hm1]; exact hctx
  have hctxT : mT.ctx = some c := by rw [hmT]; simpa [M.ctx, M.withCore, hr.notInit] using hr.cur
  have hfa1 : m1.flagArg = some a := by rw [hm1]; simp [M.flagArg, hi, ha]
  have hfaT : mT.flagArg = some ab := by rw [hmT]; simp [M.flagArg, M.withCore, setArg_get ic i a ab ha]
  have hrb : ab.raw.isNone = false := by cases hx : ab.raw <;> simp_all
  have hl1 : m1.lookupCtx t2 = none := by rw [hm1]; unfold M.lookupCtx; simp only [hreg]; exact h2l
  have hca1 : m1.checkAmbiguity t2 = .ok () := by
    unfold M.checkAmbiguity; simp [hfa1, ho, hr0, hctx1, hmiss, hl1]
  have hcaT : mT.checkAmbiguity t2 = .ok () := by
    unfold M.checkAmbiguity; rw [hfaT]; cases hx : ab.raw <;> simp_all
  have hcp1 : m1.completeFlag = .ok mT := by
    unfold M.completeFlag
    simp only [hfa1, ho, hr0, hs, Option.isNone_none, Bool.not_true, Bool.and_false, Bool.false_eq_true, if_false, Bool.and_self,
      if_true, bind, Except.bind]
    rw [hm1, hmT]; simp [M.updFlagArg, hi, M.withCore, Ctx.setArg]
  have hcpT : mT.completeFlag = .ok mT := by
    unfold M.completeFlag
    simp [hfaT, sp, ho, hrb]
  unfold M.handle
  simp only [hst1, hstT, hctx1, hctxT, h2cf, if_true, reduceCtorEq, if_false]
  unfold M.switchToFlag
  simp only [hca1, hcaT, hcp1, hcpT, bind, Except.bind]

/-- … and the end of the command line ties it off the same way -/
theorem core_optbare_end (ic : Ctx) (i : Nat) (a ab : Arg)
    (m : M) (hi : m.initial = some ic)
    (ha : ic.args[i]? = some a) (hr0 : a.raw = none) (ho : a.spec.optional = true)
    (hs : a.setValue (.b true) false = .ok ab) :
    M.enter { ({ m with flag := some (.initial, i), flagGotValue := false } : M) with st := .end } =
      M.enter { (m.withCore (ic.setArg i ab) (some (.initial, i)) false) with st := .end } := by
  obtain ⟨sp, sr, _⟩ := Arg.setValue_settled a ab (.b true) false (by simp) hs
  obtain ⟨m1, hm1⟩ : ∃ x : M, x = { ({ m with flag := some (.initial, i), flagGotValue := false } : M) with st := .end } := ⟨_, rfl⟩
  obtain ⟨mT, hmT⟩ : ∃ x : M, x = { (m.withCore (ic.setArg i ab) (some (.initial, i)) false) with st := .end } := ⟨_, rfl⟩
  rw [← hm1, ← hmT]
  have hfa1 : m1.flagArg = some a := by rw [hm1]; simp [M.flagArg, hi, ha]
  have hfaT : mT.flagArg = some ab := by rw [hmT]; simp [M.flagArg, M.withCore, setArg_get ic i a ab ha]
  have hrb : ab.raw.isNone = false := by cases hx : ab.raw <;> simp_all
  have hcp1 : m1.completeFlag = .ok mT := by
    unfold M.completeFlag
    simp only [hfa1, ho, hr0, hs, Option.isNone_none, Bool.not_true, Bool.and_false, Bool.false_eq_true, if_false, Bool.and_self,
      if_true, bind, Except.bind]
    rw [hm1, hmT]; simp [M.updFlagArg, hi, M.withCore, Ctx.setArg]
  have hcpT : mT.completeFlag = .ok mT := by
    unfold M.completeFlag
    simp [hfaT, sp, ho, hrb]
  unfold M.enter
  simp only [hcp1, hcpT, bind, Except.bind]
end Inv
