import Invoke.Model.RunOpts
import Invoke.Model.Context
/-! Helper lemmas for C15 (core Lean only). -/
namespace Inv
open Generated

/-! ## association lists -/

theorem kwGet_map_resolve (cfg kw : KW) (keys : List Key) (k : Key) (hk : k ∈ keys) :
    kwGet (keys.map (resolvePair cfg kw)) k = some (resolveKey cfg kw k) := by
  induction keys with
  | nil => cases hk
  | cons a rest ih =>
    simp only [List.map, kwGet, resolvePair]
    by_cases h : a = k
    · simp [h]
    · simp only [h, if_false]
      have : k ∈ rest := by
        cases hk with
        | head => exact absurd rfl h
        | tail _ h' => exact h'
      exact ih this

theorem kwGet_setOpt_ne (o : KW) (k k' : Key) (v : V) (h : k' ≠ k) :
    kwGet (setOpt o k v) k' = kwGet o k' := by
  induction o with
  | nil => rfl
  | cons p rest ih =>
    obtain ⟨a, b⟩ := p
    simp only [setOpt, List.map] at ih ⊢
    by_cases ha : a = k
    · have hak : ¬ a = k' := fun e => h (e ▸ ha.symm ▸ rfl)
      simp [setPair, ha, kwGet, ih]
      have : ¬ k = k' := fun e => h e.symm
      simp [this]
    · simp only [setPair, ha, if_false, kwGet]
      by_cases hk : a = k'
      · simp [hk]
      · simp [hk, ih]

theorem kwGet_setOpt_self (o : KW) (k : Key) (v : V) (h : (kwGet o k).isSome = true) :
    kwGet (setOpt o k v) k = some v := by
  induction o with
  | nil => simp [kwGet] at h
  | cons p rest ih =>
    obtain ⟨a, b⟩ := p
    simp only [setOpt, List.map] at ih ⊢
    by_cases ha : a = k
    · simp [setPair, ha, kwGet]
    · simp only [setPair, ha, if_false, kwGet]
      simp only [kwGet, ha, if_false] at h
      exact ih h

theorem optGet_setOpt_ne (o : KW) (k k' : Key) (v : V) (h : k' ≠ k) :
    optGet (setOpt o k v) k' = optGet o k' := by
  simp [optGet, kwGet_setOpt_ne o k k' v h]

theorem optGet_setOpt_self (o : KW) (k : Key) (v : V) (h : (kwGet o k).isSome = true) :
    optGet (setOpt o k v) k = v := by
  simp [optGet, kwGet_setOpt_self o k v h]

theorem kwGet_setOpt_isSome (o : KW) (k k' : Key) (v : V) :
    (kwGet (setOpt o k v) k').isSome = (kwGet o k').isSome := by
  by_cases h : k' = k
  · subst h
    cases hs : (kwGet o k').isSome
    · -- absent stays absent
      induction o with
      | nil => rfl
      | cons p rest ih =>
        obtain ⟨a, b⟩ := p
        simp only [setOpt, List.map] at ih ⊢
        by_cases ha : a = k'
        · simp [kwGet, ha] at hs
        · simp only [kwGet, ha, if_false] at hs
          simp only [setPair, ha, if_false, kwGet]
          exact ih hs
    · simp [kwGet_setOpt_self o k' v hs]
  · rw [kwGet_setOpt_ne o k k' v h]

theorem resolveAll_get (cfg kw : KW) (k : Key) (hk : k ∈ runOptionKeys) :
    kwGet (resolveAll cfg kw) k = some (resolveKey cfg kw k) :=
  kwGet_map_resolve cfg kw runOptionKeys k hk

theorem optGet_resolveAll (cfg kw : KW) (k : Key) (hk : k ∈ runOptionKeys) :
    optGet (resolveAll cfg kw) k = resolveKey cfg kw k := by
  simp [optGet, resolveAll_get cfg kw k hk]

/-! ## the three rewriting steps of `_unify_kwargs_with_config` -/

theorem applyHideEcho_get (o : KW) (k : Key) (h : k ≠ "echo") : optGet (applyHideEcho o) k = optGet o k := by
  unfold applyHideEcho; split
  · exact optGet_setOpt_ne o "echo" k .false h
  · rfl

theorem applyDryEcho_get (o : KW) (k : Key) (h : k ≠ "echo") : optGet (applyDryEcho o) k = optGet o k := by
  unfold applyDryEcho; split
  · exact optGet_setOpt_ne o "echo" k .true h
  · rfl

theorem applyAsyncHide_get (a : Bool) (o : KW) (k : Key) (h : k ≠ "hide") :
    optGet (applyAsyncHide a o) k = optGet o k := by
  unfold applyAsyncHide; split
  · exact optGet_setOpt_ne o "hide" k .true h
  · rfl

theorem applyHideEcho_isSome (o : KW) (k : Key) : (kwGet (applyHideEcho o) k).isSome = (kwGet o k).isSome := by
  unfold applyHideEcho; split
  · exact kwGet_setOpt_isSome ..
  · rfl

theorem applyDryEcho_isSome (o : KW) (k : Key) : (kwGet (applyDryEcho o) k).isSome = (kwGet o k).isSome := by
  unfold applyDryEcho; split
  · exact kwGet_setOpt_isSome ..
  · rfl

/-- the options after the three interaction steps -/
def finalOpts (cfg kw : KW) : KW :=
  applyAsyncHide (resolveKey cfg kw "asynchronous").truthy (applyDryEcho (applyHideEcho (resolveAll cfg kw)))

theorem mem_echo : "echo" ∈ runOptionKeys := by decide
theorem mem_hide : "hide" ∈ runOptionKeys := by decide
theorem mem_dry : "dry" ∈ runOptionKeys := by decide
theorem mem_async : "asynchronous" ∈ runOptionKeys := by decide
theorem mem_disown : "disown" ∈ runOptionKeys := by decide
theorem mem_in : "in_stream" ∈ runOptionKeys := by decide
theorem mem_out : "out_stream" ∈ runOptionKeys := by decide
theorem mem_err : "err_stream" ∈ runOptionKeys := by decide
theorem mem_env : "env" ∈ runOptionKeys := by decide
theorem mem_replace : "replace_env" ∈ runOptionKeys := by decide
theorem mem_shell : "shell" ∈ runOptionKeys := by decide

theorem finalOpts_get (cfg kw : KW) (k : Key) (hk : k ∈ runOptionKeys) (he : k ≠ "echo") (hh : k ≠ "hide") :
    optGet (finalOpts cfg kw) k = resolveKey cfg kw k := by
  unfold finalOpts
  rw [applyAsyncHide_get _ _ _ hh, applyDryEcho_get _ _ he, applyHideEcho_get _ _ he, optGet_resolveAll _ _ _ hk]

theorem finalOpts_echo (cfg kw : KW) :
    optGet (finalOpts cfg kw) "echo" =
      if resolveKey cfg kw "dry" = .true then .true
      else if resolveKey cfg kw "hide" = .true then .false
      else resolveKey cfg kw "echo" := by
  unfold finalOpts
  rw [applyAsyncHide_get _ _ _ (by decide)]
  have hsome : (kwGet (applyHideEcho (resolveAll cfg kw)) "echo").isSome = true := by
    rw [applyHideEcho_isSome, resolveAll_get _ _ _ mem_echo]; rfl
  have hdry : optGet (applyHideEcho (resolveAll cfg kw)) "dry" = resolveKey cfg kw "dry" := by
    rw [applyHideEcho_get _ _ (by decide), optGet_resolveAll _ _ _ mem_dry]
  unfold applyDryEcho
  rw [hdry]
  by_cases hd : resolveKey cfg kw "dry" = .true
  · simp only [hd, if_true]
    exact optGet_setOpt_self _ _ _ hsome
  · simp only [hd, if_false]
    unfold applyHideEcho
    rw [optGet_resolveAll _ _ _ mem_hide]
    by_cases hh : resolveKey cfg kw "hide" = .true
    · simp only [hh, if_true]
      exact optGet_setOpt_self _ _ _ (by rw [resolveAll_get _ _ _ mem_echo]; rfl)
    · simp only [hh, if_false]
      exact optGet_resolveAll _ _ _ mem_echo

theorem finalOpts_hide (cfg kw : KW) :
    optGet (finalOpts cfg kw) "hide" =
      if (resolveKey cfg kw "asynchronous").truthy then .true else resolveKey cfg kw "hide" := by
  unfold finalOpts applyAsyncHide
  have hsome : (kwGet (applyDryEcho (applyHideEcho (resolveAll cfg kw))) "hide").isSome = true := by
    rw [applyDryEcho_isSome, applyHideEcho_isSome, resolveAll_get _ _ _ mem_hide]; rfl
  cases ha : (resolveKey cfg kw "asynchronous").truthy
  · simp only [Bool.false_eq_true, if_false]
    rw [applyDryEcho_get _ _ (by decide), applyHideEcho_get _ _ (by decide), optGet_resolveAll _ _ _ mem_hide]
  · simp only [if_true]
    exact optGet_setOpt_self _ _ _ hsome

/-- `unify` in closed form -/
theorem unify_eq (cfg : KW) (ct : V) (kw : KW) :
    unify cfg ct kw =
      if hasUnknown kw then .error .typeError
      else if (resolveKey cfg kw "asynchronous").truthy && (resolveKey cfg kw "disown").truthy then .error .asyncDisown
      else match normalizeHide (optGet (finalOpts cfg kw) "hide") (optGet (finalOpts cfg kw) "out_stream")
                  (optGet (finalOpts cfg kw) "err_stream") with
        | none => .error .badHide
        | some hide =>
          .ok { opts := finalOpts cfg kw, timeout := resolveTimeout (kwGet kw "timeout") ct, hide := hide,
                outStream := defaultStream (optGet (finalOpts cfg kw) "out_stream") (.stream 1),
                errStream := defaultStream (optGet (finalOpts cfg kw) "err_stream") (.stream 2),
                inStream := if (optGet (finalOpts cfg kw) "in_stream").isNone then
                              (if (resolveKey cfg kw "asynchronous").truthy then .false else .stream 0)
                            else optGet (finalOpts cfg kw) "in_stream",
                async := (resolveKey cfg kw "asynchronous").truthy,
                disown := (resolveKey cfg kw "disown").truthy } := by
  unfold unify finalOpts
  simp only [optGet_resolveAll _ _ _ mem_async, optGet_resolveAll _ _ _ mem_disown]
  rfl

/-! ## views used by the `decide`-able examples of Props/C15 -/

/-- what a successful unification yields, for `decide`-able examples -/
def unifyView (cfg : KW) (ct : V) (kw : KW) : Option (V × List String × V × V × V) :=
  match unify cfg ct kw with
  | .ok u => some (optGet u.opts "echo", u.hide, u.timeout, u.inStream, u.outStream)
  | .error _ => none
def unifyErr (cfg : KW) (ct : V) (kw : KW) : Option RunErr :=
  match unify cfg ct kw with
  | .ok _ => none
  | .error e => some e

/-! ## environment -/

/-- lookup in a mapping given as a list of bindings where a LATER binding of the same name wins (what a Python
    dict literal / `**kwargs` expansion does); for duplicate-free lists it is `envGet` -/
def givenGet (e : EnvMap) (name : String) : Option String :=
  match e with
  | [] => none
  | (k, v) :: rest =>
    match givenGet rest name with
    | some x => some x
    | none => if k = name then some v else none

theorem envGet_envSet (e : EnvMap) (k v name : String) :
    envGet (envSet e k v) name = if k = name then some v else envGet e name := by
  induction e with
  | nil => simp [envSet, envGet]
  | cons p rest ih =>
    obtain ⟨a, b⟩ := p
    simp only [envSet]
    by_cases ha : a = k
    · subst ha
      by_cases hn : a = name <;> simp [envGet, hn]
    · simp only [ha, if_false, envGet]
      by_cases hn : a = name
      · subst hn
        have : ¬ k = a := fun e => ha e.symm
        simp [this]
      · simp [hn, ih]

theorem envGet_envUpdate (parent given : EnvMap) (name : String) :
    envGet (envUpdate parent given) name =
      match givenGet given name with
      | some x => some x
      | none => envGet parent name := by
  induction given generalizing parent with
  | nil => simp [envUpdate, givenGet]
  | cons p rest ih =>
    obtain ⟨k, v⟩ := p
    simp only [envUpdate, givenGet]
    rw [ih]
    cases hr : givenGet rest name with
    | some x => rfl
    | none =>
      simp only [envGet_envSet]
      by_cases hk : k = name <;> simp [hk]

def envKeys (e : EnvMap) : List String := e.map Prod.fst

theorem givenGet_none_of_not_mem (e : EnvMap) (name : String) (h : name ∉ envKeys e) : givenGet e name = none := by
  induction e with
  | nil => rfl
  | cons p rest ih =>
    obtain ⟨k, v⟩ := p
    simp only [envKeys, List.map, List.mem_cons, not_or] at h
    simp only [givenGet]
    rw [ih (by simpa [envKeys] using h.2)]
    have : ¬ k = name := fun e => h.1 e.symm
    simp [this]

theorem givenGet_eq_envGet (e : EnvMap) (name : String) (h : (envKeys e).Nodup) : givenGet e name = envGet e name := by
  induction e with
  | nil => rfl
  | cons p rest ih =>
    obtain ⟨k, v⟩ := p
    simp only [envKeys, List.map, List.nodup_cons] at h
    simp only [givenGet, envGet]
    by_cases hk : k = name
    · subst hk
      rw [givenGet_none_of_not_mem rest k (by simpa [envKeys] using h.1)]
      simp
    · simp only [hk, if_false]
      rw [ih (by simpa [envKeys] using h.2)]
      cases envGet rest name <;> rfl

/-! ## stacks -/

theorem popCwd_pushCwd (c : Ctx) (p : Str) : popCwd (pushCwd c p) = c := by
  simp [popCwd, pushCwd]

theorem popPrefix_pushPrefix (c : Ctx) (p : Str) : popPrefix (pushPrefix c p) = c := by
  simp [popPrefix, pushPrefix]

/-! ## the anchor rule of `Context.cwd` -/

theorem fromLastAbs_no_abs (l : List Str) (h : l.any startsAbs = false) : fromLastAbs l = l := by
  induction l with
  | nil => rfl
  | cons p rest ih =>
    simp only [List.any_cons, Bool.or_eq_false_iff] at h
    simp [fromLastAbs, h.2]

theorem fromLastAbs_cons_no_abs (a : Str) (rest : List Str) (h : rest.any startsAbs = false) :
    fromLastAbs (a :: rest) = a :: rest := by
  simp [fromLastAbs, h]

theorem fromLastAbs_append_abs (pre : List Str) (a : Str) (rest : List Str) (ha : startsAbs a = true)
    (h : rest.any startsAbs = false) : fromLastAbs (pre ++ a :: rest) = a :: rest := by
  induction pre with
  | nil => exact fromLastAbs_cons_no_abs a rest h
  | cons p pre ih =>
    have : (pre ++ a :: rest).any startsAbs = true := by simp [ha]
    simp only [List.cons_append, fromLastAbs, this, if_true]
    exact ih

end Inv
