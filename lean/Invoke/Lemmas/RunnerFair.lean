import Invoke.Lemmas.RunnerTerm
/-! Infinite fair schedules: the corollary of the rounds theorem (C08). -/
namespace Inv

/-- an infinite schedule of thread steps -/
abbrev Sched := Nat → Actor

/-- every thread of the runner (the timer need not) is scheduled again and again -/
def Fair (σ : Sched) : Prop := ∀ a : Actor, a ≠ .timer → ∀ n, ∃ m, n ≤ m ∧ σ m = a

/-- the `k` steps of `σ` starting at position `n` -/
def seg (σ : Sched) (n k : Nat) : List Actor := (List.range k).map (fun i => σ (n + i))

theorem seg_append (σ : Sched) (n k1 k2 : Nat) : seg σ n (k1 + k2) = seg σ n k1 ++ seg σ (n + k1) k2 := by
  simp only [seg, List.range_add, List.map_append, List.map_map]
  congr 1
  apply List.map_congr_left
  intro i _
  simp [Nat.add_assoc]

theorem mem_seg (σ : Sched) (n k m : Nat) (h1 : n ≤ m) (h2 : m < n + k) : σ m ∈ seg σ n k := by
  simp only [seg, List.mem_map, List.mem_range]
  exact ⟨m - n, by omega, by congr 1; omega⟩

theorem seg_mono (σ : Sched) (n k k' : Nat) (h : k ≤ k') (a : Actor) (ha : a ∈ seg σ n k) : a ∈ seg σ n k' := by
  obtain ⟨d, rfl⟩ := Nat.exists_eq_add_of_le h
  rw [seg_append]; exact List.mem_append_left _ ha

/-- from any position a fair schedule has a finite segment in which every thread occurs -/
theorem fair_cover (σ : Sched) (hf : Fair σ) (n : Nat) : ∃ k, Covers (seg σ n k) := by
  obtain ⟨m1, h1, e1⟩ := hf .main (by simp) n
  obtain ⟨m2, h2, e2⟩ := hf .out (by simp) n
  obtain ⟨m3, h3, e3⟩ := hf .err (by simp) n
  obtain ⟨m4, h4, e4⟩ := hf .stdin (by simp) n
  refine ⟨m1 + m2 + m3 + m4 + 1, ?_⟩
  intro a ha
  cases a with
  | timer => exact absurd rfl ha
  | main => rw [← e1]; exact mem_seg σ n _ m1 h1 (by omega)
  | out => rw [← e2]; exact mem_seg σ n _ m2 h2 (by omega)
  | err => rw [← e3]; exact mem_seg σ n _ m3 h3 (by omega)
  | stdin => rw [← e4]; exact mem_seg σ n _ m4 h4 (by omega)

theorem runRound_append (s : S) (a b : List Actor) : runRound s (a ++ b) = runRound (runRound s a) b := by
  simp [runRound, List.foldl_append]

theorem fair_terminates_aux (σ : Sched) (hf : Fair σ) (m : Nat) :
    ∀ (s : S) (n : Nat), mu s ≤ m → Good s → ∃ k, Terminal (runRound s (seg σ n k)) := by
  induction m with
  | zero =>
    intro s n hm hg
    by_cases ht : Terminal s
    · exact ⟨0, by simpa [seg, runRound] using ht⟩
    · obtain ⟨k, hc⟩ := fair_cover σ hf n
      have := round_decreases s (seg σ n k) hg ht hc
      omega
  | succ m ih =>
    intro s n hm hg
    by_cases ht : Terminal s
    · exact ⟨0, by simpa [seg, runRound] using ht⟩
    · obtain ⟨k1, hc⟩ := fair_cover σ hf n
      have hdec := round_decreases s (seg σ n k1) hg ht hc
      obtain ⟨k2, hk2⟩ := ih (runRound s (seg σ n k1)) (n + k1) (by omega) (good_round s _ hg)
      exact ⟨k1 + k2, by rw [seg_append, runRound_append]; exact hk2⟩

end Inv
