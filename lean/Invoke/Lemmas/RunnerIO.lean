import Invoke.Model.RunnerIO
/-! Helper lemmas about the runner transition system: stream conservation (C02(b)). -/
namespace Inv

/-- per-pipe invariant: captured ++ in-pipe = everything written; a reader that saw EOF left
    nothing behind and the pipe is closed for good -/
def PipeInv (p : Pipe) (pc : RdPc) (cap : List Chunk) : Prop :=
  cap.flatten ++ p.buf.flatten = p.written.flatten ∧ (pc = .done → p.buf = [] ∧ p.isOpen = false)

theorem pipeInv_write (p : Pipe) (pc : RdPc) (cap : List Chunk) (h : PipeInv p pc cap) :
    PipeInv (pipeWrite p) pc cap := by
  obtain ⟨h1, h2⟩ := h
  unfold pipeWrite
  split
  · rename_i c r hp
    by_cases ho : p.isOpen = true
    · simp only [ho, if_true]
      refine ⟨?_, ?_⟩
      · simp only [List.flatten_append, List.flatten_cons, List.flatten_nil, List.append_nil, ← List.append_assoc, h1]
      · intro hd; have := h2 hd; simp_all
    · simp only [ho]; exact ⟨h1, h2⟩
  · exact ⟨h1, h2⟩

theorem pipeInv_close (p : Pipe) (pc : RdPc) (cap : List Chunk) (h : PipeInv p pc cap) :
    PipeInv { p with isOpen := false } pc cap := by
  obtain ⟨h1, h2⟩ := h
  exact ⟨h1, fun hd => ⟨(h2 hd).1, rfl⟩⟩

theorem pipeInv_fault (p : Pipe) (pc : RdPc) (cap : List Chunk) (h : PipeInv p pc cap) :
    PipeInv { p with fault := true } pc cap := h

theorem pipeInv_closeIfUnheld (s : S) (p : Pipe) (pc : RdPc) (cap : List Chunk) (h : PipeInv p pc cap) :
    PipeInv (closeIfUnheld s p) pc cap := by
  unfold closeIfUnheld; split
  · exact h
  · exact pipeInv_close p pc cap h

theorem pipeInv_reader (n : Nat) (p : Pipe) (pc : RdPc) (cap : List Chunk) (h : PipeInv p pc cap) :
    PipeInv (readerStep n p pc cap).1 (readerStep n p pc cap).2.1 (readerStep n p pc cap).2.2 := by
  obtain ⟨h1, h2⟩ := h
  unfold readerStep
  split
  · exact ⟨h1, h2⟩
  · exact ⟨h1, h2⟩
  · split
    · exact ⟨h1, by intro h; cases h⟩
    · split
      · rename_i c r hb
        rw [hb] at h1
        split
        · refine ⟨?_, by intro h; cases h⟩
          simpa [List.flatten_append, List.append_assoc] using h1
        · refine ⟨?_, by intro h; cases h⟩
          simp only [List.flatten_append, List.flatten_cons, List.flatten_nil, List.append_nil, List.append_assoc] at h1 ⊢
          rw [← List.append_assoc (List.take n c), List.take_append_drop]; exact h1
      · rename_i hb
        split
        · exact ⟨by simpa [hb] using h1, by intro h; cases h⟩
        · rename_i ho
          exact ⟨by simpa [hb] using h1, fun _ => ⟨hb, by simpa using ho⟩⟩

/-- both pipes satisfy the invariant -/
def StreamInv (s : S) : Prop := PipeInv s.out s.outPc s.capOut ∧ PipeInv s.err s.errPc s.capErr

theorem streamInv_env (s : S) (e : EnvAct) (h : StreamInv s) : StreamInv (envStep s e) := by
  obtain ⟨ho, he⟩ := h
  cases e <;> simp only [envStep]
  · exact ⟨pipeInv_write _ _ _ ho, he⟩
  · exact ⟨ho, pipeInv_write _ _ _ he⟩
  · exact ⟨pipeInv_close _ _ _ ho, he⟩
  · exact ⟨ho, pipeInv_close _ _ _ he⟩
  · split
    · exact ⟨ho, he⟩
    · exact ⟨pipeInv_closeIfUnheld _ _ _ _ ho, pipeInv_closeIfUnheld _ _ _ _ he⟩
  · exact ⟨ho, he⟩
  · exact ⟨pipeInv_fault _ _ _ ho, he⟩
  · exact ⟨ho, pipeInv_fault _ _ _ he⟩

theorem mainStep_frame (s : S) :
    (mainStep s).out = s.out ∧ (mainStep s).err = s.err ∧ (mainStep s).outPc = s.outPc ∧
    (mainStep s).errPc = s.errPc ∧ (mainStep s).capOut = s.capOut ∧ (mainStep s).capErr = s.capErr := by
  unfold mainStep nextJoin enterJoin afterJoins leaveWait
  cases s.mainPc <;> simp only [] <;> (repeat' split) <;> simp_all

theorem stdinStep_frame (s : S) :
    (stdinStep s).out = s.out ∧ (stdinStep s).err = s.err ∧ (stdinStep s).outPc = s.outPc ∧
    (stdinStep s).errPc = s.errPc ∧ (stdinStep s).capOut = s.capOut ∧ (stdinStep s).capErr = s.capErr := by
  unfold stdinStep
  (repeat' split) <;> simp_all

theorem streamInv_kill (s : S) (h : StreamInv s) : StreamInv (killEffect s) := by
  obtain ⟨ho, he⟩ := h
  unfold killEffect; split
  · exact ⟨ho, he⟩
  · exact ⟨pipeInv_closeIfUnheld _ _ _ _ ho, pipeInv_closeIfUnheld _ _ _ _ he⟩

theorem streamInv_timer (s : S) (h : StreamInv s) : StreamInv (timerStep s) := by
  unfold timerStep
  split
  · exact h
  · split
    · exact h
    · split
      · exact h
      · exact streamInv_kill s h
    · exact h
    · exact h

theorem streamInv_step (s : S) (a : Actor) (h : StreamInv s) : StreamInv (step s a) := by
  cases a with
  | main =>
    obtain ⟨h1, h2, h3, h4, h5, h6⟩ := mainStep_frame s
    simp only [step, StreamInv, h1, h2, h3, h4, h5, h6]; exact h
  | stdin =>
    obtain ⟨h1, h2, h3, h4, h5, h6⟩ := stdinStep_frame s
    simp only [step, StreamInv, h1, h2, h3, h4, h5, h6]; exact h
  | timer => exact streamInv_timer s h
  | out => exact ⟨pipeInv_reader _ _ _ _ h.1, h.2⟩
  | err =>
    simp only [step]
    split
    · exact h
    · exact ⟨h.1, pipeInv_reader _ _ _ _ h.2⟩

theorem streamInv_run (s : S) (evs : List Ev) (h : StreamInv s) : StreamInv (run s evs) := by
  induction evs generalizing s with
  | nil => exact h
  | cons e r ih =>
    simp only [run, List.foldl_cons] at ih ⊢
    apply ih
    cases e with
    | act a => exact streamInv_step s a h
    | env e => exact streamInv_env s e h

theorem streamInv_init (hi ht w p e : Bool) (o er : List Chunk) (ins : List InItem) (ho sf : Bool) (n : Nat) (asy : Bool) :
    StreamInv (S.init hi ht w p e o er ins ho sf n asy) := by
  cases sf <;> cases asy <;> simp [StreamInv, PipeInv, S.init]

end Inv

namespace Inv

/-- what the child writes over its lifetime is fixed by the script: written ++ still-to-write -/
def S.outScript (s : S) : List Chunk := s.out.written ++ s.out.pending
def S.errScript (s : S) : List Chunk := s.err.written ++ s.err.pending

theorem pipeWrite_script (p : Pipe) : (pipeWrite p).written ++ (pipeWrite p).pending = p.written ++ p.pending := by
  unfold pipeWrite; split
  · split <;> simp_all
  · rfl

theorem closeIfUnheld_fields (s : S) (p : Pipe) :
    (closeIfUnheld s p).written = p.written ∧ (closeIfUnheld s p).pending = p.pending := by
  unfold closeIfUnheld; split <;> simp

theorem script_env (s : S) (e : EnvAct) :
    (envStep s e).outScript = s.outScript ∧ (envStep s e).errScript = s.errScript := by
  cases e <;> simp only [envStep, S.outScript, S.errScript, pipeWrite_script, and_self]
  split
  · simp
  · simp [(closeIfUnheld_fields s s.out).1, (closeIfUnheld_fields s s.out).2,
          (closeIfUnheld_fields s s.err).1, (closeIfUnheld_fields s s.err).2]

theorem readerStep_fields (n : Nat) (p : Pipe) (pc : RdPc) (cap : List Chunk) :
    (readerStep n p pc cap).1.written = p.written ∧ (readerStep n p pc cap).1.pending = p.pending := by
  unfold readerStep; (repeat' split) <;> simp

theorem script_step (s : S) (a : Actor) :
    (step s a).outScript = s.outScript ∧ (step s a).errScript = s.errScript := by
  cases a with
  | main => obtain ⟨h1, h2, _⟩ := mainStep_frame s; simp [step, S.outScript, S.errScript, h1, h2]
  | stdin => obtain ⟨h1, h2, _⟩ := stdinStep_frame s; simp [step, S.outScript, S.errScript, h1, h2]
  | out => simp [step, S.outScript, S.errScript, (readerStep_fields s.readSize s.out s.outPc s.capOut).1,
                 (readerStep_fields s.readSize s.out s.outPc s.capOut).2]
  | err =>
    simp only [step]; split
    · simp
    · simp [S.outScript, S.errScript, (readerStep_fields s.readSize s.err s.errPc s.capErr).1,
            (readerStep_fields s.readSize s.err s.errPc s.capErr).2]
  | timer =>
    simp only [step, timerStep]
    split
    · simp
    · split
      · simp [S.outScript, S.errScript]
      · split
        · simp [S.outScript, S.errScript]
        · simp only [S.outScript, S.errScript, killEffect]
          split
          · simp
          · simp [(closeIfUnheld_fields s s.out).1, (closeIfUnheld_fields s s.out).2,
                  (closeIfUnheld_fields s s.err).1, (closeIfUnheld_fields s s.err).2]
      · simp [S.outScript, S.errScript]
      · simp

theorem script_run (s : S) (evs : List Ev) :
    (run s evs).outScript = s.outScript ∧ (run s evs).errScript = s.errScript := by
  induction evs generalizing s with
  | nil => exact ⟨rfl, rfl⟩
  | cons e r ih =>
    simp only [run, List.foldl_cons] at ih ⊢
    have h := ih (evStep s e)
    cases e with
    | act a => simp only [evStep] at h ⊢; rw [h.1, h.2]; exact script_step s a
    | env e => simp only [evStep] at h ⊢; rw [h.1, h.2]; exact script_env s e

end Inv
