import Invoke.Lemmas.RunnerRejoin
/-! # What is known when the first join is over (`Joined` for every reachable state) -/
namespace Inv

def okOut (s : S) : Bool := s.outPc != .read || s.anyDead
def okErr (s : S) : Bool := s.pty || s.errPc != .read || s.anyDead

theorem jo0 (s : S) : s.joinOrder[0]? = some .out := by simp [S.joinOrder]

theorem jo_last (s : S) (i : Nat) (a : Actor) (h1 : s.joinOrder[i]? = some a) (h2 : s.joinOrder[i + 1]? = none) :
    s.pty = true ∨ a = .err := by
  unfold S.joinOrder at h1 h2
  cases hp : s.pty with
  | true => exact Or.inl rfl
  | false =>
    right
    cases hs : s.hasStdin <;> simp [hp, hs] at h1 h2
    · match i, h1, h2 with
      | 0, h1, h2 => simp at h2
      | 1, h1, h2 => simpa using h1.symm
      | n + 2, h1, h2 => simp at h1
    · match i, h1, h2 with
      | 0, h1, h2 => simp at h2
      | 1, h1, h2 => simp at h2
      | 2, h1, h2 => simpa using h1.symm
      | n + 3, h1, h2 => simp at h1

theorem finished_out_ok (s : S) (h : s.finished .out = true) : okOut s = true := by
  simp [S.finished, S.rdDone] at h; simp [okOut, h]
theorem finished_err_ok (s : S) (h : s.finished .err = true) : okErr s = true := by
  simp only [S.finished, S.rdDone, Bool.or_eq_true] at h
  simp only [okErr, Bool.or_eq_true]
  rcases h with h | h
  · exact Or.inl (Or.inl h)
  · exact Or.inl (Or.inr h)

structure JI (s : S) : Prop where
  tmo : ∀ i n, s.mainPc = .join i n true → s.anyDead = true
  jsome : ∀ i n t, s.mainPc = .join i n t → ∃ a, s.joinOrder[i]? = some a
  jout : ∀ i n t, s.mainPc = .join i n t → 1 ≤ i → okOut s = true
  post : (s.mainPc = .checkTimeout ∨ s.mainPc = .stop ∨ s.mainPc = .done) → s.startFails = false →
    okOut s = true ∧ okErr s = true
  exc : decided s.mainPc = true → s.startFails = false → (s.outcome = .threadExc ↔ s.anyDead = true)
  chk : s.mainPc = .checkTimeout → s.anyDead = false
  rcpin : ∀ rc, s.outcome = .timedOut rc → rc = s.rc ∧ s.exited = true
  khas : s.killIssued = true → s.hasTimer = true
  kex : s.killIssued = true → s.exited = true
  sfpc : s.startFails = true → s.mainPc = .done

/-- every step that is not the main thread's -/
theorem JI.frame {x y : S} (h : JI x)
    (hpc : y.mainPc = x.mainPc) (ho : y.outcome = x.outcome) (hsf : y.startFails = x.startFails)
    (hjo : y.joinOrder = x.joinOrder)
    (hk : y.killIssued = true → (x.killIssued = true ∨ x.hasTimer = true) ∧ y.exited = true)
    (hT : y.hasTimer = x.hasTimer)
    (hdead : x.anyDead = true → y.anyDead = true)
    (hout : okOut x = true → okOut y = true) (herr : okErr x = true → okErr y = true)
    (hlive : okOut x = true → okErr x = true → x.anyDead = false → y.anyDead = false)
    (hrc : x.exited = true → y.rc = x.rc ∧ y.exited = true) : JI y := by
  refine ⟨?_, ?_, ?_, ?_, ?_, ?_, ?_, ?_, ?_, ?_⟩
  · intro i n hp; rw [hpc] at hp; exact hdead (h.tmo i n hp)
  · intro i n t hp; rw [hpc] at hp; rw [hjo]; exact h.jsome i n t hp
  · intro i n t hp hi; rw [hpc] at hp; exact hout (h.jout i n t hp hi)
  · intro hp hs; rw [hpc] at hp; rw [hsf] at hs
    obtain ⟨a, b⟩ := h.post hp hs; exact ⟨hout a, herr b⟩
  · intro hd hs; rw [hpc] at hd; rw [hsf] at hs; rw [ho]
    have hx := h.exc hd hs
    constructor
    · intro a; exact hdead (hx.1 a)
    · intro a
      cases hxd : x.anyDead with
      | true => exact hx.2 hxd
      | false =>
        have hp : x.mainPc = .checkTimeout ∨ x.mainPc = .stop ∨ x.mainPc = .done := by
          cases hm : x.mainPc <;> simp_all [decided]
        obtain ⟨p1, p2⟩ := h.post hp hs
        rw [hlive p1 p2 hxd] at a; exact Bool.noConfusion a
  · intro hp; rw [hpc] at hp
    have hxd := h.chk hp
    have hs : x.startFails = false := by
      cases hx : x.startFails with
      | false => rfl
      | true => have := h.sfpc hx; rw [hp] at this; cases this
    obtain ⟨p1, p2⟩ := h.post (Or.inl hp) hs
    exact hlive p1 p2 hxd
  · intro rc hr; rw [ho] at hr
    obtain ⟨a, b⟩ := h.rcpin rc hr
    obtain ⟨c, d⟩ := hrc b
    exact ⟨by rw [c]; exact a, d⟩
  · intro hy
    rcases (hk hy).1 with a | a
    · rw [hT]; exact h.khas a
    · rw [hT]; exact a
  · intro hy; exact (hk hy).2
  · intro hy; rw [hsf] at hy; rw [hpc]; exact h.sfpc hy

/-- steps that touch neither a reader's pc nor the main thread -/
theorem JI.same {x y : S} (h : JI x)
    (hpc : y.mainPc = x.mainPc) (ho : y.outcome = x.outcome) (hsf : y.startFails = x.startFails)
    (h1 : y.outPc = x.outPc) (h2 : y.errPc = x.errPc) (h3 : y.pty = x.pty) (h4 : y.hasStdin = x.hasStdin)
    (hk : y.killIssued = true → (x.killIssued = true ∨ x.hasTimer = true) ∧ y.exited = true)
    (hT : y.hasTimer = x.hasTimer)
    (hrc : x.exited = true → y.rc = x.rc ∧ y.exited = true) : JI y := by
  have hd : y.anyDead = x.anyDead := by simp [S.anyDead, h1, h2, h3]
  have ho' : okOut y = okOut x := by simp [okOut, h1, hd]
  have he' : okErr y = okErr x := by simp [okErr, h2, h3, hd]
  refine h.frame hpc ho hsf (by simp [S.joinOrder, h3, h4]) hk hT (by rw [hd]; exact id) (by rw [ho']; exact id)
    (by rw [he']; exact id) (fun _ _ a => by rw [hd]; exact a) hrc

theorem ji_env (x : S) (e : EnvAct) (h : JI x) : JI (envStep x e) := by
  cases e with
  | exit rc =>
    simp only [envStep]
    split
    · exact h
    · rename_i hx
      refine h.same rfl rfl rfl rfl rfl rfl rfl (fun a => ⟨Or.inl a, rfl⟩) rfl (fun a => absurd a hx)
  | _ =>
    simp only [envStep] <;>
      exact h.same rfl rfl rfl rfl rfl rfl rfl (fun a => ⟨Or.inl a, h.kex a⟩) rfl (fun a => ⟨rfl, a⟩)

theorem ji_stdin (x : S) (h : JI x) : JI (stdinStep x) := by
  unfold stdinStep
  (repeat' split) <;>
    first
    | exact h
    | exact h.same rfl rfl rfl rfl rfl rfl rfl (fun a => ⟨Or.inl a, h.kex a⟩) rfl (fun a => ⟨rfl, a⟩)

theorem ji_timer (x : S) (h : JI x) : JI (timerStep x) := by
  unfold timerStep
  split
  · exact h
  · rename_i hT
    have hT' : x.hasTimer = true := by simpa using hT
    split
    · exact h.same rfl rfl rfl rfl rfl rfl rfl (fun a => ⟨Or.inl a, h.kex a⟩) rfl (fun a => ⟨rfl, a⟩)
    · split
      · exact h.same rfl rfl rfl rfl rfl rfl rfl (fun a => ⟨Or.inl a, h.kex a⟩) rfl (fun a => ⟨rfl, a⟩)
      · have kf := killEffect_timer_frame x
        refine h.same kf.2.1 kf.2.2.2.2.1 kf.2.2.2.1 kf.2.2.2.2.2.2.2.2.2.2.2.1 kf.2.2.2.2.2.2.2.2.2.2.2.2.1
          kf.2.2.2.2.2.2.2.2.2.2.2.2.2.1 ?_ (fun _ => ⟨Or.inr hT', ?_⟩) kf.2.2.1 ?_
        · unfold killEffect; split <;> rfl
        · show (killEffect x).exited = true
          unfold killEffect; split
          · rename_i he; exact he
          · rfl
        · intro he
          show (killEffect x).rc = x.rc ∧ (killEffect x).exited = true
          unfold killEffect; simp [he]
    · exact h.same rfl rfl rfl rfl rfl rfl rfl (fun a => ⟨Or.inl a, h.kex a⟩) rfl (fun a => ⟨rfl, a⟩)
    · exact h

theorem readerStep_stable (n : Nat) (p : Pipe) (pc : RdPc) (cap : List Chunk) (h : pc ≠ .read) :
    (readerStep n p pc cap).2.1 = pc := by
  cases pc with
  | read => exact absurd rfl h
  | done => rfl
  | dead => rfl

theorem ji_out (x : S) (h : JI x) : JI (step x .out) := by
  have hst : x.outPc ≠ .read → (step x .out).outPc = x.outPc := fun hne =>
    readerStep_stable x.readSize x.out x.outPc x.capOut hne
  refine h.frame rfl rfl rfl rfl (fun a => ⟨Or.inl a, h.kex a⟩) rfl (anyDead_out x) ?_ ?_ ?_ (fun a => ⟨rfl, a⟩)
  · intro ho
    simp only [okOut, Bool.or_eq_true, bne_iff_ne, ne_eq] at ho ⊢
    rcases ho with a | a
    · left; rw [hst a]; exact a
    · right; exact anyDead_out x a
  · intro he
    simp only [okErr, Bool.or_eq_true, bne_iff_ne, ne_eq] at he ⊢
    rcases he with (a | a) | a
    · exact Or.inl (Or.inl a)
    · exact Or.inl (Or.inr a)
    · exact Or.inr (anyDead_out x a)
  · intro ho _ hd
    simp only [okOut, hd, Bool.or_false, bne_iff_ne, ne_eq] at ho
    have hy := hst ho
    simp only [S.anyDead, Bool.or_eq_false_iff, decide_eq_false_iff_not, Bool.and_eq_false_iff, Bool.not_eq_false',
      ] at hd ⊢
    exact ⟨by rw [hy]; exact hd.1, hd.2⟩

theorem ji_err (x : S) (h : JI x) : JI (step x .err) := by
  by_cases hp : x.pty = true
  · simp only [step, hp, if_true]; exact h
  · have hp' : x.pty = false := by simpa using hp
    have hs : step x .err =
        { x with err := (readerStep x.readSize x.err x.errPc x.capErr).1,
                 errPc := (readerStep x.readSize x.err x.errPc x.capErr).2.1,
                 capErr := (readerStep x.readSize x.err x.errPc x.capErr).2.2,
                 mirErr := mirrorOf x.hideErr x.mirErr x.capErr (readerStep x.readSize x.err x.errPc x.capErr).2.2 } := by
      simp only [step]; rw [if_neg hp]
    have hde := anyDead_err x
    rw [hs] at hde ⊢
    have hst : x.errPc ≠ .read → (readerStep x.readSize x.err x.errPc x.capErr).2.1 = x.errPc := fun hne =>
      readerStep_stable x.readSize x.err x.errPc x.capErr hne
    refine h.frame rfl rfl rfl rfl (fun a => ⟨Or.inl a, h.kex a⟩) rfl hde ?_ ?_ ?_ (fun a => ⟨rfl, a⟩)
    · intro ho
      simp only [okOut, Bool.or_eq_true, bne_iff_ne, ne_eq] at ho ⊢
      rcases ho with a | a
      · left; exact a
      · right; exact hde a
    · intro he
      simp only [okErr, Bool.or_eq_true, bne_iff_ne, ne_eq] at he ⊢
      rcases he with (a | a) | a
      · exact Or.inl (Or.inl a)
      · exact Or.inl (Or.inr (by rw [hst a]; exact a))
      · exact Or.inr (hde a)
    · intro _ he hd
      simp only [okErr, hd, hp', Bool.or_false, Bool.false_or, bne_iff_ne, ne_eq] at he
      have hy := hst he
      simp only [S.anyDead, Bool.or_eq_false_iff, decide_eq_false_iff_not, Bool.and_eq_false_iff, Bool.not_eq_false',
        ] at hd ⊢
      refine ⟨hd.1, ?_⟩
      rcases hd.2 with a | a
      · rw [hp'] at a; cases a
      · right; rw [hy]; exact a

/-- the main thread moves: reader state and flags stay, the obligations of the new pc are given -/
theorem JI.mv {x y : S} (h : JI x)
    (f1 : y.outPc = x.outPc) (f2 : y.errPc = x.errPc) (f3 : y.pty = x.pty) (f4 : y.hasStdin = x.hasStdin)
    (f5 : y.startFails = x.startFails) (f6 : y.killIssued = x.killIssued) (f7 : y.hasTimer = x.hasTimer)
    (f8 : y.exited = x.exited) (hne : x.mainPc ≠ .done)
    (htmo : ∀ i n, y.mainPc = .join i n true → x.anyDead = true)
    (hjs : ∀ i n t, y.mainPc = .join i n t → ∃ a, x.joinOrder[i]? = some a)
    (hjout : ∀ i n t, y.mainPc = .join i n t → 1 ≤ i → okOut x = true)
    (hpost : (y.mainPc = .checkTimeout ∨ y.mainPc = .stop ∨ y.mainPc = .done) → okOut x = true ∧ okErr x = true)
    (hexc : decided y.mainPc = true → (y.outcome = .threadExc ↔ x.anyDead = true))
    (hchk : y.mainPc = .checkTimeout → x.anyDead = false)
    (hrc : ∀ rc, y.outcome = .timedOut rc → rc = y.rc ∧ x.exited = true) : JI y := by
  have hd : y.anyDead = x.anyDead := by simp [S.anyDead, f1, f2, f3]
  have ho' : okOut y = okOut x := by simp [okOut, f1, hd]
  have he' : okErr y = okErr x := by simp [okErr, f2, f3, hd]
  have hjo : y.joinOrder = x.joinOrder := by simp [S.joinOrder, f3, f4]
  refine ⟨?_, ?_, ?_, ?_, ?_, ?_, ?_, ?_, ?_, ?_⟩
  · intro i n hp; rw [hd]; exact htmo i n hp
  · intro i n t hp; rw [hjo]; exact hjs i n t hp
  · intro i n t hp hi; rw [ho']; exact hjout i n t hp hi
  · intro hp _; rw [ho', he']; exact hpost hp
  · intro hp _; rw [hd]; exact hexc hp
  · intro hp; rw [hd]; exact hchk hp
  · intro rc hr; obtain ⟨a, b⟩ := hrc rc hr; exact ⟨a, by rw [f8]; exact b⟩
  · intro hy; rw [f6] at hy; rw [f7]; exact h.khas hy
  · intro hy; rw [f6] at hy; rw [f8]; exact h.kex hy
  · intro hy; rw [f5] at hy; exact absurd (h.sfpc hy) hne

/-- the new pc is before the joins and the decision stays what it was -/
theorem JI.mv_pre {x y : S} (h : JI x)
    (f1 : y.outPc = x.outPc) (f2 : y.errPc = x.errPc) (f3 : y.pty = x.pty) (f4 : y.hasStdin = x.hasStdin)
    (f5 : y.startFails = x.startFails) (f6 : y.killIssued = x.killIssued) (f7 : y.hasTimer = x.hasTimer)
    (f8 : y.exited = x.exited) (f9 : y.rc = x.rc) (f10 : y.outcome = x.outcome) (hne : x.mainPc ≠ .done)
    (hj : ∀ i n t, y.mainPc ≠ .join i n t)
    (hp : y.mainPc ≠ .checkTimeout ∧ y.mainPc ≠ .stop ∧ y.mainPc ≠ .done) : JI y := by
  refine h.mv f1 f2 f3 f4 f5 f6 f7 f8 hne (fun i n a => absurd a (hj i n true)) (fun i n t a => absurd a (hj i n t))
    (fun i n t a => absurd a (hj i n t)) ?_ ?_ (fun a => absurd a hp.1) ?_
  · rintro (a | a | a)
    · exact absurd a hp.1
    · exact absurd a hp.2.1
    · exact absurd a hp.2.2
  · intro a
    cases hm : y.mainPc <;> simp_all [decided]
  · intro rc hr; rw [f10] at hr; obtain ⟨a, b⟩ := h.rcpin rc hr; exact ⟨by rw [f9]; exact a, b⟩

theorem decideOutcome_ne_exc (x : S) (b : Bool) : decideOutcome x b ≠ .threadExc := by
  unfold decideOutcome; split
  · simp
  · split <;> simp

theorem decideOutcome_timedOut (x : S) (b : Bool) (rc : Int) (h : decideOutcome x b = .timedOut rc) : rc = x.rc := by
  unfold decideOutcome at h
  split at h
  · cases h; rfl
  · split at h <;> cases h

theorem ji_afterJoins (x : S) (h : JI x) (hne : x.mainPc ≠ .done) (ho : okOut x = true) (he : okErr x = true) :
    JI (afterJoins x) := by
  unfold afterJoins
  by_cases hd : x.anyDead = true
  · rw [if_pos hd]
    refine h.mv rfl rfl rfl rfl rfl rfl rfl rfl hne ?_ ?_ ?_ (fun _ => ⟨ho, he⟩) (fun _ => ⟨fun _ => hd, fun _ => rfl⟩) ?_ ?_
    · intro i n a; simp only at a; split at a <;> cases a
    · intro i n t a; simp only at a; split at a <;> cases a
    · intro i n t a; simp only at a; split at a <;> cases a
    · intro a; simp only at a; split at a <;> cases a
    · intro rc a; cases a
  · rw [if_neg hd]
    have hd' : x.anyDead = false := by simpa using hd
    by_cases hT : x.hasTimer = true
    · rw [if_pos hT]
      by_cases hK : x.killIssued = true
      · rw [if_pos hK]
        refine h.mv rfl rfl rfl rfl rfl rfl rfl rfl hne (fun i n a => by cases a) (fun i n t a => by cases a)
          (fun i n t a => by cases a) (fun _ => ⟨ho, he⟩) (fun _ => ?_) (fun a => by cases a) ?_
        · show decideOutcome x true = .threadExc ↔ x.anyDead = true
          constructor
          · intro a; exact absurd a (decideOutcome_ne_exc x true)
          · intro a; rw [hd'] at a; cases a
        · intro rc a
          exact ⟨decideOutcome_timedOut x true rc a, h.kex hK⟩
      · rw [if_neg hK]
        refine h.mv rfl rfl rfl rfl rfl rfl rfl rfl hne (fun i n a => by cases a) (fun i n t a => by cases a)
          (fun i n t a => by cases a) (fun _ => ⟨ho, he⟩) (fun a => by simp [decided] at a) (fun _ => hd') ?_
        intro rc a; exact h.rcpin rc a
    · rw [if_neg hT]
      refine h.mv rfl rfl rfl rfl rfl rfl rfl rfl hne (fun i n a => by cases a) (fun i n t a => by cases a)
        (fun i n t a => by cases a) (fun _ => ⟨ho, he⟩) (fun _ => ?_) (fun a => by cases a) ?_
      · show decideOutcome x false = .threadExc ↔ x.anyDead = true
        constructor
        · intro a; exact absurd a (decideOutcome_ne_exc x false)
        · intro a; rw [hd'] at a; cases a
      · intro rc a
        have : decideOutcome x false = .timedOut rc := a
        unfold decideOutcome at this
        simp only [Bool.false_eq_true, if_false] at this
        split at this <;> cases this

/-- `joinHasTimeout a` means the sibling reader is dead -/
theorem joinHasTimeout_dead (x : S) (a : Actor) (h : x.joinHasTimeout a = true) : x.anyDead = true := by
  cases a <;> simp [S.joinHasTimeout] at h
  · simp [S.anyDead, h.1, h.2]
  · simp [S.anyDead, h]

theorem ji_enterJoin (x : S) (i : Nat) (h : JI x) (hne : x.mainPc ≠ .done)
    (hout : 1 ≤ i → okOut x = true)
    (hall : x.joinOrder[i]? = none → okOut x = true ∧ okErr x = true) : JI (enterJoin x i) := by
  unfold enterJoin
  split
  · rename_i a ha
    refine h.mv rfl rfl rfl rfl rfl rfl rfl rfl hne ?_ ?_ ?_ ?_ (fun hc => by simp [decided] at hc) (fun hc => by cases hc)
      (fun rc hr => h.rcpin rc hr)
    · intro i' n hp
      simp only [MainPc.join.injEq] at hp
      exact joinHasTimeout_dead x a hp.2.2
    · intro i' n t hp
      simp only [MainPc.join.injEq] at hp
      exact ⟨a, by rw [← hp.1]; exact ha⟩
    · intro i' n t hp hi
      simp only [MainPc.join.injEq] at hp
      exact hout (by rw [hp.1]; exact hi)
    · rintro (hc | hc | hc) <;> cases hc
  · rename_i hnone
    obtain ⟨a, b⟩ := hall hnone
    exact ji_afterJoins x h hne a b

theorem ji_sf (x : S) (h : JI x) (hne : x.mainPc ≠ .done) : x.startFails = false := by
  cases hx : x.startFails with
  | false => rfl
  | true => exact absurd (h.sfpc hx) hne

theorem okOut_of_dead (x : S) (h : x.anyDead = true) : okOut x = true := by simp [okOut, h]
theorem okErr_of_dead (x : S) (h : x.anyDead = true) : okErr x = true := by simp [okErr, h]

theorem ji_nextJoin (x : S) (i : Nat) (a : Actor) (h : JI x) (hne : x.mainPc ≠ .done)
    (ha : x.joinOrder[i]? = some a) (hprev : 1 ≤ i → okOut x = true)
    (hfin : x.finished a = true ∨ x.anyDead = true) : JI (nextJoin x i) := by
  have hoo : okOut x = true := by
    rcases hfin with hf | hf
    · cases i with
      | zero =>
        have : a = .out := by have := jo0 x; rw [ha] at this; cases this; rfl
        rw [this] at hf; exact finished_out_ok x hf
      | succ k => exact hprev (Nat.succ_le_succ (Nat.zero_le k))
    · exact okOut_of_dead x hf
  refine ji_enterJoin x (i + 1) h hne (fun _ => hoo) (fun hnone => ⟨hoo, ?_⟩)
  rcases hfin with hf | hf
  · rcases jo_last x i a ha hnone with hp | hp
    · simp [okErr, hp]
    · rw [hp] at hf; exact finished_err_ok x hf
  · exact okErr_of_dead x hf

theorem ji_main (x : S) (h : JI x) (ht : TimerInv x) : JI (mainStep x) := by
  by_cases hne : x.mainPc = .done
  · unfold mainStep; simp only [hne]; exact h
  unfold mainStep
  split
  · exact h.mv_pre rfl rfl rfl rfl rfl rfl rfl rfl rfl rfl hne (fun _ _ _ a => by cases a) ⟨by simp, by simp, by simp⟩
  · split <;>
      exact h.mv_pre rfl rfl rfl rfl rfl rfl rfl rfl rfl rfl hne (fun _ _ _ a => by cases a) ⟨by simp, by simp, by simp⟩
  · exact h.mv_pre rfl rfl rfl rfl rfl rfl rfl rfl rfl rfl hne (fun _ _ _ a => by cases a) ⟨by simp, by simp, by simp⟩
  · -- pollDead
    split
    · unfold leaveWait
      split <;>
        exact h.mv_pre rfl rfl rfl rfl rfl rfl rfl rfl rfl rfl hne (fun _ _ _ a => by cases a) ⟨by simp, by simp, by simp⟩
    · exact h.mv_pre rfl rfl rfl rfl rfl rfl rfl rfl rfl rfl hne (fun _ _ _ a => by cases a) ⟨by simp, by simp, by simp⟩
  · split <;>
      exact h.mv_pre rfl rfl rfl rfl rfl rfl rfl rfl rfl rfl hne (fun _ _ _ a => by cases a) ⟨by simp, by simp, by simp⟩
  · exact h.mv_pre rfl rfl rfl rfl rfl rfl rfl rfl rfl rfl hne (fun _ _ _ a => by cases a) ⟨by simp, by simp, by simp⟩
  · -- setFin
    rename_i hpc
    have h' : JI { x with fin := true } :=
      h.mv_pre rfl rfl rfl rfl rfl rfl rfl rfl rfl rfl hne (fun _ _ _ a => by simp [hpc] at a)
        ⟨by simp [hpc], by simp [hpc], by simp [hpc]⟩
    refine ji_enterJoin _ 0 h' (by simp [hpc]) (fun a => absurd a (by decide)) (fun a => ?_)
    have := jo0 { x with fin := true }
    rw [a] at this; cases this
  · -- join
    rename_i i n t hpc
    obtain ⟨a, ha⟩ := h.jsome i n t hpc
    split
    · rename_i hnone; rw [ha] at hnone; cases hnone
    · rename_i a' ha'
      have haa : a' = a := by rw [ha] at ha'; cases ha'; rfl
      subst haa
      split
      · rename_i hf
        exact ji_nextJoin x i a' h hne ha (h.jout i n t hpc) (Or.inl hf)
      · split
        · rename_i hto
          have htt : t = true := by simp at hto; exact hto.1
          subst htt
          exact ji_nextJoin x i a' h hne ha (h.jout i n true hpc) (Or.inr (h.tmo i n hpc))
        · refine h.mv rfl rfl rfl rfl rfl rfl rfl rfl hne ?_ ?_ ?_ ?_ (fun hc => by simp [decided] at hc)
            (fun hc => by cases hc) (fun rc hr => h.rcpin rc hr)
          · intro i' n' hp; simp only [MainPc.join.injEq] at hp
            obtain ⟨p1, _, p3⟩ := hp; subst p1; subst p3; exact h.tmo _ n hpc
          · intro i' n' t' hp; simp only [MainPc.join.injEq] at hp
            obtain ⟨p1, _, _⟩ := hp; subst p1; exact ⟨a', ha⟩
          · intro i' n' t' hp hi; simp only [MainPc.join.injEq] at hp
            obtain ⟨p1, _, _⟩ := hp; subst p1; exact h.jout _ n t hpc hi
          · rintro (hc | hc | hc) <;> cases hc
  · -- checkTimeout
    rename_i hpc
    have hsf := ji_sf x h hne
    have hd := h.chk hpc
    obtain ⟨p1, p2⟩ := h.post (Or.inl hpc) hsf
    have hex : x.exited = true := ht.doneExited (ht.check hpc).2
    refine h.mv rfl rfl rfl rfl rfl rfl rfl rfl hne (fun i n a => by cases a) (fun i n t a => by cases a)
      (fun i n t a => by cases a) (fun _ => ⟨p1, p2⟩) (fun _ => ?_) (fun a => by cases a) ?_
    · constructor
      · intro a; exact absurd a (decideOutcome_ne_exc x _)
      · intro a; rw [hd] at a; cases a
    · intro rc a; exact ⟨decideOutcome_timedOut x _ rc a, hex⟩
  · -- stop
    rename_i hpc
    have hsf := ji_sf x h hne
    refine h.mv rfl rfl rfl rfl rfl rfl rfl rfl hne (fun i n a => by cases a) (fun i n t a => by cases a)
      (fun i n t a => by cases a) (fun _ => h.post (Or.inr (Or.inl hpc)) hsf)
      (fun _ => h.exc (by rw [hpc]; rfl) hsf) (fun a => by cases a) (fun rc a => h.rcpin rc a)
  · exact h

theorem ji_ev (x : S) (e : Ev) (h : JI x) (ht : TimerInv x) : JI (evStep x e) := by
  cases e with
  | env e => exact ji_env x e h
  | act a =>
    cases a with
    | main => exact ji_main x h ht
    | out => exact ji_out x h
    | err => exact ji_err x h
    | stdin => exact ji_stdin x h
    | timer => exact ji_timer x h

theorem ji_run (x : S) (evs : List Ev) (h : JI x) (ht : TimerInv x) : JI (run x evs) := by
  induction evs generalizing x with
  | nil => exact h
  | cons e r ih =>
    simp only [run, List.foldl_cons] at ih ⊢
    exact ih _ (ji_ev x e h ht) (timerInv_run x [e] ht)

theorem ji_init (hi ht w p e : Bool) (o er : List Chunk) (ins : List InItem) (ho sf : Bool) (n : Nat) (asy : Bool) :
    JI (S.init hi ht w p e o er ins ho sf n asy) := by
  cases sf <;> cases asy <;> constructor <;> simp [S.init, decided]

theorem startFails_ev (s : S) (e : Ev) : (evStep s e).startFails = s.startFails := by
  cases e with
  | env e => cases e <;> simp only [evStep, envStep] <;> (try split) <;> rfl
  | act a =>
    cases a with
    | main =>
      simp only [evStep, step]
      unfold mainStep nextJoin enterJoin afterJoins leaveWait
      cases s.mainPc <;> simp only [] <;> (repeat' split) <;> simp_all
    | out => rfl
    | err => simp only [evStep, step]; split <;> rfl
    | stdin => simp only [evStep, step]; unfold stdinStep; (repeat' split) <;> rfl
    | timer =>
      simp only [evStep, step]; unfold timerStep
      (repeat' split) <;> first | rfl | exact (killEffect_timer_frame s).2.2.2.1

theorem startFails_run (s : S) (evs : List Ev) : (run s evs).startFails = s.startFails := by
  induction evs generalizing s with
  | nil => rfl
  | cons e r ih => simp only [run, List.foldl_cons] at ih ⊢; rw [ih, startFails_ev]

/-- HEADLINE LEMMA: in every reachable state in which the first join is over (and the command had started), the facts
    the second pass relies on hold -/
theorem joined_reachable (hi ht w p e : Bool) (o er : List Chunk) (ins : List InItem) (ho : Bool) (n : Nat) (asy : Bool)
    (evs : List Ev) (hdone : (run (S.init hi ht w p e o er ins ho false n asy) evs).mainPc = .done) :
    Joined (run (S.init hi ht w p e o er ins ho false n asy) evs) := by
  have tinv := timerInv_run _ evs (timerInv_init hi ht w p e o er ins ho false n asy)
  have jinv := ji_run _ evs (ji_init hi ht w p e o er ins ho false n asy) (timerInv_init hi ht w p e o er ins ho false n asy)
  have shp := outcomeShape_run _ evs (timerInv_init hi ht w p e o er ins ho false n asy)
    (outcomeShape_init hi ht w p e o er ins ho false n asy)
  have hsf : (run (S.init hi ht w p e o er ins ho false n asy) evs).startFails = false := by
    rw [startFails_run]; simp [S.init]
  generalize run (S.init hi ht w p e o er ins ho false n asy) evs = s at *
  have hdec : decided s.mainPc = true := by rw [hdone]; rfl
  have hexc := jinv.exc hdec hsf
  refine ⟨fun a => hexc.2 a, fun hd => ?_⟩
  obtain ⟨p1, p2⟩ := jinv.post (Or.inr (Or.inr hdone)) hsf
  have hne : s.outcome ≠ .threadExc := fun a => by have := hexc.1 a; rw [hd] at this; cases this
  have hpd : s.processDone = true := tinv.decidedDone hdec hsf hne
  have hex : s.exited = true := tinv.doneExited hpd
  have hdd := hd
  simp only [S.anyDead, Bool.or_eq_false_iff, decide_eq_false_iff_not, Bool.and_eq_false_iff, Bool.not_eq_false'] at hdd
  have ho1 : s.outPc = .done := by
    simp only [okOut, hd, Bool.or_false, bne_iff_ne, ne_eq] at p1
    cases hx : s.outPc with
    | read => exact absurd hx p1
    | done => rfl
    | dead => exact absurd hx hdd.1
  have he1 : s.pty = true ∨ s.errPc = .done := by
    simp only [okErr, hd, Bool.or_false, Bool.or_eq_true, bne_iff_ne, ne_eq] at p2
    rcases p2 with a | a
    · exact Or.inl a
    · cases hx : s.errPc with
      | read => exact absurd hx a
      | done => exact Or.inr rfl
      | dead =>
        rcases hdd.2 with b | b
        · exact Or.inl b
        · exact absurd hx b
  refine ⟨ho1, he1, hpd, hex, ?_, fun a b => ?_⟩
  · rcases shp hdec hsf with a | ⟨rc, a⟩ | a
    · exact absurd a hne
    · have hk := tinv.timedOutIssued rc a
      have hT := jinv.khas hk
      obtain ⟨r1, _⟩ := jinv.rcpin rc a
      rw [a, hT, hk, r1]; simp [decideOutcome]
    · have hk : s.killIssued = false := by
        cases hx : s.killIssued with
        | false => rfl
        | true =>
          rcases tinv.issuedTimedOut hdec hx with b | ⟨rc, b⟩
          · exact absurd b hne
          · rw [a] at b
            have := decideOutcome_timedOut s false rc b
            unfold decideOutcome at b
            simp only [Bool.false_eq_true, if_false] at b
            split at b <;> cases b
      rw [a, hk]; simp
  · rcases tinv.settled a (by rw [hdone]; rfl) hpd with c | c
    · rw [b] at c; cases c
    · exact c

end Inv
