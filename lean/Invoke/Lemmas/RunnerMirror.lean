import Invoke.Lemmas.RunnerIO
/-! Mirror logs: what the reader threads forward to our own output streams (C02). -/
namespace Inv

/-- what is mirrored is the capture, or nothing when the stream is hidden -/
def MirInv (s : S) : Prop :=
  s.mirOut = (if s.hideOut then [] else s.capOut) ∧ s.mirErr = (if s.hideErr then [] else s.capErr)

theorem readerStep_extends (n : Nat) (p : Pipe) (pc : RdPc) (cap : List Chunk) :
    ∃ new, (readerStep n p pc cap).2.2 = cap ++ new := by
  unfold readerStep
  split
  · exact ⟨[], by simp⟩
  · exact ⟨[], by simp⟩
  · split
    · exact ⟨[], by simp⟩
    · split
      · split
        · exact ⟨_, rfl⟩
        · exact ⟨_, rfl⟩
      · split <;> exact ⟨[], by simp⟩

theorem mirrorOf_spec (hide : Bool) (cap new : List Chunk) :
    mirrorOf hide (if hide then [] else cap) cap (cap ++ new) = (if hide then [] else cap ++ new) := by
  cases hide <;> simp [mirrorOf]

theorem mainStep_mir_frame (s : S) :
    (mainStep s).mirOut = s.mirOut ∧ (mainStep s).mirErr = s.mirErr ∧ (mainStep s).hideOut = s.hideOut ∧
    (mainStep s).hideErr = s.hideErr := by
  unfold mainStep nextJoin enterJoin afterJoins leaveWait
  cases s.mainPc <;> simp only [] <;> (repeat' split) <;> simp_all

theorem stdinStep_mir_frame (s : S) :
    (stdinStep s).mirOut = s.mirOut ∧ (stdinStep s).mirErr = s.mirErr ∧ (stdinStep s).hideOut = s.hideOut ∧
    (stdinStep s).hideErr = s.hideErr := by
  unfold stdinStep; (repeat' split) <;> simp

theorem timerStep_mir_frame (s : S) :
    (timerStep s).mirOut = s.mirOut ∧ (timerStep s).mirErr = s.mirErr ∧ (timerStep s).hideOut = s.hideOut ∧
    (timerStep s).hideErr = s.hideErr ∧ (timerStep s).capOut = s.capOut ∧ (timerStep s).capErr = s.capErr := by
  unfold timerStep killEffect; (repeat' split) <;> simp

theorem mirInv_step (s : S) (a : Actor) (h : MirInv s) : MirInv (step s a) := by
  obtain ⟨h1, h2⟩ := h
  cases a with
  | main =>
    obtain ⟨m1, m2, m3, m4⟩ := mainStep_mir_frame s
    obtain ⟨_, _, _, _, c1, c2⟩ := mainStep_frame s
    simp only [step, MirInv, m1, m2, m3, m4, c1, c2]; exact ⟨h1, h2⟩
  | stdin =>
    obtain ⟨m1, m2, m3, m4⟩ := stdinStep_mir_frame s
    obtain ⟨_, _, _, _, c1, c2⟩ := stdinStep_frame s
    simp only [step, MirInv, m1, m2, m3, m4, c1, c2]; exact ⟨h1, h2⟩
  | timer =>
    obtain ⟨m1, m2, m3, m4, c1, c2⟩ := timerStep_mir_frame s
    simp only [step, MirInv, m1, m2, m3, m4, c1, c2]; exact ⟨h1, h2⟩
  | out =>
    obtain ⟨new, hn⟩ := readerStep_extends s.readSize s.out s.outPc s.capOut
    refine ⟨?_, h2⟩
    simp only [step]
    rw [hn, h1]; exact mirrorOf_spec _ _ _
  | err =>
    simp only [step]; split
    · exact ⟨h1, h2⟩
    · obtain ⟨new, hn⟩ := readerStep_extends s.readSize s.err s.errPc s.capErr
      refine ⟨h1, ?_⟩
      simp only []
      rw [hn, h2]; exact mirrorOf_spec _ _ _

theorem mirInv_env (s : S) (e : EnvAct) (h : MirInv s) : MirInv (envStep s e) := by
  obtain ⟨h1, h2⟩ := h
  cases e <;> simp only [envStep] <;> (try split) <;> exact ⟨h1, h2⟩

theorem mirInv_run (s : S) (evs : List Ev) (h : MirInv s) : MirInv (run s evs) := by
  induction evs generalizing s with
  | nil => exact h
  | cons e r ih =>
    simp only [run, List.foldl_cons] at ih ⊢
    apply ih
    cases e with
    | act a => exact mirInv_step s a h
    | env e => exact mirInv_env s e h

theorem hide_const_run (s : S) (evs : List Ev) : (run s evs).hideOut = s.hideOut ∧ (run s evs).hideErr = s.hideErr := by
  induction evs generalizing s with
  | nil => exact ⟨rfl, rfl⟩
  | cons e r ih =>
    simp only [run, List.foldl_cons] at ih ⊢
    have key : (evStep s e).hideOut = s.hideOut ∧ (evStep s e).hideErr = s.hideErr := by
      cases e with
      | env e => cases e <;> simp only [evStep, envStep] <;> (try split) <;> simp
      | act a =>
        cases a with
        | main => exact ⟨(mainStep_mir_frame s).2.2.1, (mainStep_mir_frame s).2.2.2⟩
        | stdin => exact ⟨(stdinStep_mir_frame s).2.2.1, (stdinStep_mir_frame s).2.2.2⟩
        | timer => exact ⟨(timerStep_mir_frame s).2.2.1, (timerStep_mir_frame s).2.2.2.1⟩
        | out => exact ⟨rfl, rfl⟩
        | err => simp only [evStep, step]; split <;> exact ⟨rfl, rfl⟩
    obtain ⟨i1, i2⟩ := ih (evStep s e)
    exact ⟨by rw [i1, key.1], by rw [i2, key.2]⟩

end Inv
