import Invoke.Lemmas.RunnerTerm
import Invoke.Lemmas.RunnerTimer
/-! Helper lemmas composing the termination argument (C08) with the timeout bookkeeping (C14):
    once a kill has been issued and no grandchild holds the pipes, the environment has come to an
    end, so every sequence of fair rounds ends the run - with the timed-out failure. -/
namespace Inv

/-- an ended command whose pipes nobody else holds has both pipes closed -/
def ClosedInv (s : S) : Prop := s.exited = true → s.holdOpen = false → s.out.isOpen = false ∧ s.err.isOpen = false

theorem pipeWrite_isOpen (p : Pipe) : (pipeWrite p).isOpen = p.isOpen := by
  unfold pipeWrite; (repeat' split) <;> rfl

theorem readerStep_isOpen (n : Nat) (p : Pipe) (pc : RdPc) (cap : List Chunk) : (readerStep n p pc cap).1.isOpen = p.isOpen := by
  unfold readerStep; (repeat' split) <;> rfl

theorem closedInv_ev (s : S) (e : Ev) (h : ClosedInv s) : ClosedInv (evStep s e) := by
  cases e with
  | env e =>
    cases e <;> simp only [evStep, envStep, ClosedInv] <;> (try split) <;> intro hx hh
    all_goals first
      | exact h hx hh
      | (simp only [pipeWrite_isOpen]; exact h hx hh)
      | (have := h hx hh; simp [this.1, this.2])
      | (simp only [closeIfUnheld] at *; simp_all)
  | act a =>
    cases a with
    | out =>
      intro hx hh
      have := h hx hh
      simp only [evStep, step, readerStep_isOpen]; exact this
    | err =>
      simp only [evStep, step]; split
      · exact h
      · intro hx hh
        have := h hx hh
        simp only [readerStep_isOpen]; exact this
    | stdin =>
      obtain ⟨f1, f2, _, _, _, _⟩ := stdinStep_frame s
      obtain ⟨_, _, _, m4, _⟩ := stdinStep_mainframe s
      have ho := opts_stdin s
      simp only [S.opts, Prod.mk.injEq] at ho
      intro hx hh
      simp only [evStep, step] at hx hh ⊢
      rw [f1, f2]; rw [m4] at hx; rw [ho.2.2.2.2.2.1] at hh
      exact h hx hh
    | main =>
      obtain ⟨f1, f2, _, _, _, _⟩ := mainStep_frame s
      have ho := opts_main s
      simp only [S.opts, Prod.mk.injEq] at ho
      have hex : (mainStep s).exited = s.exited := by
        unfold mainStep nextJoin enterJoin afterJoins leaveWait
        cases s.mainPc <;> simp only [] <;> (repeat' split) <;> simp_all
      intro hx hh
      simp only [evStep, step] at hx hh ⊢
      rw [f1, f2]; rw [hex] at hx; rw [ho.2.2.2.2.2.1] at hh
      exact h hx hh
    | timer =>
      simp only [evStep, step]
      unfold timerStep
      split
      · exact h
      · split
        · exact h
        · split
          · exact h
          · intro _ hh
            have hh' : s.holdOpen = false := by
              have := opts_kill s
              simp only [S.opts, Prod.mk.injEq] at this
              rw [← this.2.2.2.2.2.1]; exact hh
            show (killEffect s).out.isOpen = false ∧ (killEffect s).err.isOpen = false
            unfold killEffect
            split
            · rename_i hx; exact h hx hh'
            · simp [closeIfUnheld, hh']
        · exact h
        · exact h

theorem closedInv_run (s : S) (evs : List Ev) (h : ClosedInv s) : ClosedInv (run s evs) := by
  induction evs generalizing s with
  | nil => exact h
  | cons e r ih =>
    simp only [run, List.foldl_cons] at ih ⊢
    exact ih _ (closedInv_ev s e h)

theorem closedInv_init (hi ht w p e : Bool) (o er : List Chunk) (ins : List InItem) (ho sf : Bool) (n : Nat) (asy : Bool) :
    ClosedInv (S.init hi ht w p e o er ins ho sf n asy) := by
  intro hx; simp [S.init] at hx

/-- a kill, once issued, stays issued -/
theorem killIssued_mono_ev (s : S) (e : Ev) (h : s.killIssued = true) : (evStep s e).killIssued = true := by
  cases e with
  | env e => cases e <;> simp only [evStep, envStep] <;> (try split) <;> exact h
  | act a =>
    cases a with
    | out => exact h
    | err => simp only [evStep, step]; split <;> exact h
    | stdin => simp only [evStep, step]; unfold stdinStep; (repeat' split) <;> exact h
    | timer =>
      simp only [evStep, step]; unfold timerStep killEffect
      (repeat' split) <;> simp_all
    | main =>
      simp only [evStep, step]
      unfold mainStep nextJoin enterJoin afterJoins leaveWait
      cases s.mainPc <;> simp only [] <;> (repeat' split) <;> simp_all

theorem killIssued_mono_run (s : S) (evs : List Ev) (h : s.killIssued = true) : (run s evs).killIssued = true := by
  induction evs generalizing s with
  | nil => exact h
  | cons e r ih =>
    simp only [run, List.foldl_cons] at ih ⊢
    exact ih _ (killIssued_mono_ev s e h)

/-- rounds of thread steps are schedules without environment events -/
theorem runRound_eq_run (s : S) (r : List Actor) : runRound s r = run s (r.map .act) := by
  induction r generalizing s with
  | nil => rfl
  | cons a r ih => simp only [runRound, List.foldl_cons, List.map_cons, run, evStep] at ih ⊢; exact ih _

theorem rounds_eq_run (s : S) (rs : List (List Actor)) : rs.foldl runRound s = run s (rs.flatten.map .act) := by
  induction rs generalizing s with
  | nil => rfl
  | cons r rs ih =>
    simp only [List.foldl_cons, List.flatten_cons, List.map_append]
    rw [ih, runRound_eq_run]
    simp [run, List.foldl_append]

/-- termination from reachable states (C08's `reachable_terminates`, restated here for reuse) -/
theorem reachable_terminates' (hi ht w p e : Bool) (o er : List Chunk) (ins : List InItem) (ho sf : Bool)
    (n : Nat) (asy : Bool) (hn : 0 < n) (evs : List Ev) (rs : List (List Actor))
    (hx : (run (S.init hi ht w p e o er ins ho sf n asy) evs).exited = true)
    (h1 : (run (S.init hi ht w p e o er ins ho sf n asy) evs).out.isOpen = false)
    (h2 : (run (S.init hi ht w p e o er ins ho sf n asy) evs).err.isOpen = false)
    (hc : ∀ r ∈ rs, Covers r) (hl : mu (run (S.init hi ht w p e o er ins ho sf n asy) evs) < rs.length) :
    Terminal (rs.foldl runRound (run (S.init hi ht w p e o er ins ho sf n asy) evs)) := by
  have hg : Good (run (S.init hi ht w p e o er ins ho sf n asy) evs) := by
    refine ⟨⟨hx, h1, h2, ?_⟩, termWF_run _ evs (termWF_init hi ht w p e o er ins ho sf n asy)⟩
    have := opts_run (S.init hi ht w p e o er ins ho sf n asy) evs
    simp only [S.opts, Prod.mk.injEq] at this
    rw [this.2.2.2.2.2.2.2]; simpa [S.init] using hn
  rcases rounds_bound rs _ hg hc with h | h
  · exact h
  · omega

end Inv
