import Invoke.Lemmas.RunnerTimer
import Invoke.Model.Rejoin
/-! # A second `Promise.join()` takes the same decision

`Promise.join()` may be called again (explicitly, or by leaving `with promise:` after a join): `Runner._finish` is
re-entered on a run whose first join is over.  `rejoin` is that re-entry in the transition system; the theorem says
that the decision - return, unexpected exit, timed-out failure, worker exception - is the one of the first join,
along EVERY schedule of the second pass (timer thread and environment included). -/
namespace Inv

/-- what the second pass relies on, relative to the decision `t` it has to reproduce -/
structure RJ (t : Outcome) (x : S) : Prop where
  dead : x.anyDead = true → t = .threadExc
  live : x.anyDead = false →
    x.outPc = .done ∧ (x.pty = true ∨ x.errPc = .done) ∧ x.processDone = true ∧ x.exited = true ∧
    t = decideOutcome x (x.hasTimer && x.killIssued) ∧
    (x.hasTimer = true → x.killIssued = false → x.early = true)
  dec : decided x.mainPc = true → x.outcome = t
  chk : x.mainPc = .checkTimeout → x.killIssued = false ∧ x.hasTimer = true ∧ x.anyDead = false

/-- states that agree on the fields the invariant reads -/
theorem RJ.congr {t : Outcome} {x y : S} (h : RJ t x)
    (h1 : y.outPc = x.outPc) (h2 : y.errPc = x.errPc) (h3 : y.pty = x.pty) (h4 : y.processDone = x.processDone)
    (h5 : y.exited = x.exited) (h6 : y.rc = x.rc) (h7 : y.warn = x.warn) (h8 : y.hasTimer = x.hasTimer)
    (h9 : y.killIssued = x.killIssued) (h10 : y.early = x.early) (h11 : y.mainPc = x.mainPc)
    (h12 : y.outcome = x.outcome) : RJ t y := by
  have hd : y.anyDead = x.anyDead := by simp [S.anyDead, h1, h2, h3]
  have hdo : ∀ b, decideOutcome y b = decideOutcome x b := fun b => decideOutcome_congr x y b h6 h7
  refine ⟨?_, ?_, ?_, ?_⟩
  · rw [hd]; exact h.dead
  · rw [hd, h1, h2, h3, h4, h5, h8, h9, h10, hdo]; exact h.live
  · rw [h11, h12]; exact h.dec
  · rw [h11, h9, h8, hd]; exact h.chk


/-- a worker is dead before and after: only the pending decision matters -/
theorem RJ.dead_congr {t : Outcome} {x y : S} (h : RJ t x) (hx : x.anyDead = true) (hy : y.anyDead = true)
    (hpc : y.mainPc = x.mainPc) (ho : y.outcome = x.outcome) : RJ t y := by
  refine ⟨fun _ => h.dead hx, ?_, ?_, ?_⟩
  · intro hl; rw [hy] at hl; exact Bool.noConfusion hl
  · rw [hpc, ho]; exact h.dec
  · intro hc; rw [hpc] at hc; have := (h.chk hc).2.2; rw [hx] at this; exact Bool.noConfusion this

/-- the main thread moves: the other fields stay, the new pc's obligations are given -/
theorem RJ.move {t : Outcome} {x y : S} (h : RJ t x)
    (h1 : y.outPc = x.outPc) (h2 : y.errPc = x.errPc) (h3 : y.pty = x.pty)
    (h4 : x.processDone = true → y.processDone = true)
    (h5 : y.exited = x.exited) (h6 : y.rc = x.rc) (h7 : y.warn = x.warn) (h8 : y.hasTimer = x.hasTimer)
    (h9 : y.killIssued = x.killIssued) (h10 : x.early = true → y.early = true)
    (hdec : decided y.mainPc = true → y.outcome = t)
    (hchk : y.mainPc = .checkTimeout → y.killIssued = false ∧ y.hasTimer = true ∧ y.anyDead = false) : RJ t y := by
  have hd : y.anyDead = x.anyDead := by simp [S.anyDead, h1, h2, h3]
  have hdo : ∀ b, decideOutcome y b = decideOutcome x b := fun b => decideOutcome_congr x y b h6 h7
  refine ⟨?_, ?_, hdec, hchk⟩
  · rw [hd]; exact h.dead
  · intro hl
    rw [hd] at hl
    obtain ⟨a1, a2, a3, a4, a5, a6⟩ := h.live hl
    refine ⟨by rw [h1]; exact a1, by rw [h3, h2]; exact a2, h4 a3, by rw [h5]; exact a4, ?_, ?_⟩
    · rw [hdo, h8, h9]; exact a5
    · intro b1 b2; rw [h8] at b1; rw [h9] at b2; exact h10 (a6 b1 b2)

theorem rj_env (t : Outcome) (x : S) (e : EnvAct) (h : RJ t x) : RJ t (envStep x e) := by
  cases e with
  | exit rc =>
    simp only [envStep]
    split
    · exact h
    · rename_i hx
      cases hd : x.anyDead with
      | true => exact h.dead_congr hd (by simpa [S.anyDead] using hd) rfl rfl
      | false => have := (h.live hd).2.2.2.1; simp [this] at hx
  | _ => simp only [envStep] <;> exact h.congr rfl rfl rfl rfl rfl rfl rfl rfl rfl rfl rfl rfl

theorem rj_stdin (t : Outcome) (x : S) (h : RJ t x) : RJ t (stdinStep x) := by
  unfold stdinStep
  (repeat' split) <;> first | exact h | exact h.congr rfl rfl rfl rfl rfl rfl rfl rfl rfl rfl rfl rfl

theorem rj_timer (t : Outcome) (x : S) (h : RJ t x) : RJ t (timerStep x) := by
  unfold timerStep
  split
  · exact h
  · split
    · exact h.congr rfl rfl rfl rfl rfl rfl rfl rfl rfl rfl rfl rfl
    · split
      · exact h.congr rfl rfl rfl rfl rfl rfl rfl rfl rfl rfl rfl rfl
      · rename_i hpd
        cases hd : x.anyDead with
        | true =>
          refine h.dead_congr hd ?_ ?_ ?_
          · unfold killEffect; split <;> simpa [S.anyDead] using hd
          · unfold killEffect; split <;> rfl
          · unfold killEffect; split <;> rfl
        | false => have := (h.live hd).2.2.1; simp [this] at hpd
    · exact h.congr rfl rfl rfl rfl rfl rfl rfl rfl rfl rfl rfl rfl
    · exact h

theorem rj_out (t : Outcome) (x : S) (h : RJ t x) : RJ t (step x .out) := by
  cases hd : x.anyDead with
  | true => exact h.dead_congr hd (anyDead_out x hd) rfl rfl
  | false =>
    have ho := (h.live hd).1
    refine h.congr ?_ rfl rfl rfl rfl rfl rfl rfl rfl rfl rfl rfl
    show (readerStep x.readSize x.out x.outPc x.capOut).2.1 = x.outPc
    rw [ho]; rfl

theorem rj_err (t : Outcome) (x : S) (h : RJ t x) : RJ t (step x .err) := by
  cases hd : x.anyDead with
  | true =>
    refine h.dead_congr hd (anyDead_err x hd) ?_ ?_ <;> (simp only [step]; split <;> rfl)
  | false =>
    simp only [step]
    split
    · exact h
    · rename_i hp
      have he : x.errPc = .done := by
        rcases (h.live hd).2.1 with a | a
        · exact absurd a hp
        · exact a
      refine h.congr rfl ?_ rfl rfl rfl rfl rfl rfl rfl rfl rfl rfl
      show (readerStep x.readSize x.err x.errPc x.capErr).2.1 = x.errPc
      rw [he]; rfl

theorem rj_afterJoins (t : Outcome) (x : S) (h : RJ t x) : RJ t (afterJoins x) := by
  unfold afterJoins
  by_cases hd : x.anyDead = true
  · rw [if_pos hd]
    refine h.move rfl rfl rfl (fun a => a) rfl rfl rfl rfl rfl (fun a => a) (fun _ => (h.dead hd).symm) ?_
    intro hc; simp only at hc; split at hc <;> cases hc
  · rw [if_neg hd]
    have hd' : x.anyDead = false := by simpa using hd
    obtain ⟨_, _, _, _, ht, _⟩ := h.live hd'
    by_cases hT : x.hasTimer = true
    · rw [if_pos hT]
      by_cases hK : x.killIssued = true
      · rw [if_pos hK]
        refine h.move rfl rfl rfl (fun a => a) rfl rfl rfl rfl rfl (fun a => a) (fun _ => ?_) (fun hc => by cases hc)
        show decideOutcome x true = t
        rw [ht, hT, hK]; rfl
      · rw [if_neg hK]
        have hK' : x.killIssued = false := by simpa using hK
        exact h.move rfl rfl rfl (fun a => a) rfl rfl rfl rfl rfl (fun a => a) (fun hc => by simp [decided] at hc)
          (fun _ => ⟨hK', hT, hd'⟩)
    · rw [if_neg hT]
      have hT' : x.hasTimer = false := by simpa using hT
      refine h.move rfl rfl rfl (fun a => a) rfl rfl rfl rfl rfl (fun a => a) (fun _ => ?_) (fun hc => by cases hc)
      show decideOutcome x false = t
      rw [ht, hT']; rfl

theorem rj_enterJoin (t : Outcome) (x : S) (i : Nat) (h : RJ t x) : RJ t (enterJoin x i) := by
  unfold enterJoin
  split
  · exact h.move rfl rfl rfl (fun a => a) rfl rfl rfl rfl rfl (fun a => a) (fun hc => by simp [decided] at hc)
      (fun hc => by cases hc)
  · exact rj_afterJoins t x h

theorem rj_leaveWait (t : Outcome) (x : S) (h : RJ t x) : RJ t (leaveWait x) := by
  unfold leaveWait
  split <;>
    exact h.move rfl rfl rfl (fun a => a) rfl rfl rfl rfl rfl (fun a => a) (fun hc => by simp [decided] at hc)
      (fun hc => by cases hc)

theorem rj_main (t : Outcome) (x : S) (h : RJ t x) : RJ t (mainStep x) := by
  unfold mainStep
  split
  · exact h.move rfl rfl rfl (fun a => a) rfl rfl rfl rfl rfl (fun a => a) (fun hc => by simp [decided] at hc)
      (fun hc => by cases hc)
  · split <;>
      exact h.move rfl rfl rfl (fun a => a) rfl rfl rfl rfl rfl (fun a => a) (fun hc => by simp [decided] at hc)
        (fun hc => by cases hc)
  · exact h.move rfl rfl rfl (fun a => a) rfl rfl rfl rfl rfl (fun a => a) (fun hc => by simp [decided] at hc)
      (fun hc => by cases hc)
  · -- pollDead
    split
    · apply rj_leaveWait
      exact h.move rfl rfl rfl (fun a => by simp [a]) rfl rfl rfl rfl rfl (fun a => a)
        (fun hc => by rename_i hpc _; simp [hpc, decided] at hc) (fun hc => by rename_i hpc _; simp [hpc] at hc)
    · exact h.move rfl rfl rfl (fun a => a) rfl rfl rfl rfl rfl (fun a => a) (fun hc => by simp [decided] at hc)
        (fun hc => by cases hc)
  · -- settleCheck
    split <;>
      exact h.move rfl rfl rfl (fun a => a) rfl rfl rfl rfl rfl (fun a => a) (fun hc => by simp [decided] at hc)
        (fun hc => by cases hc)
  · -- settleCancel
    exact h.move rfl rfl rfl (fun a => a) rfl rfl rfl rfl rfl (fun _ => rfl) (fun hc => by simp [decided] at hc)
      (fun hc => by cases hc)
  · -- setFin
    apply rj_enterJoin
    exact h.move rfl rfl rfl (fun a => a) rfl rfl rfl rfl rfl (fun a => a)
      (fun hc => by rename_i hpc; simp [hpc, decided] at hc) (fun hc => by rename_i hpc; simp [hpc] at hc)
  · -- join
    split
    · exact rj_afterJoins t x h
    · split
      · exact rj_enterJoin t x _ h
      · split
        · exact rj_enterJoin t x _ h
        · exact h.move rfl rfl rfl (fun a => a) rfl rfl rfl rfl rfl (fun a => a) (fun hc => by simp [decided] at hc)
            (fun hc => by cases hc)
  · -- checkTimeout
    rename_i hpc
    obtain ⟨hK, hT, hd⟩ := h.chk hpc
    obtain ⟨_, _, _, _, ht, he⟩ := h.live hd
    refine h.move rfl rfl rfl (fun a => a) rfl rfl rfl rfl rfl (fun a => a) (fun _ => ?_) (fun hc => by cases hc)
    show decideOutcome x (!timerAlive x.tmPc && !x.early) = t
    rw [ht, hT, hK, he hT hK]; simp
  · -- stop
    rename_i hpc
    exact h.move rfl rfl rfl (fun a => a) rfl rfl rfl rfl rfl (fun a => a)
      (fun _ => h.dec (by rw [hpc]; rfl)) (fun hc => by cases hc)
  · exact h

theorem rj_ev (t : Outcome) (x : S) (e : Ev) (h : RJ t x) : RJ t (evStep x e) := by
  cases e with
  | env e => exact rj_env t x e h
  | act a =>
    cases a with
    | main => exact rj_main t x h
    | out => exact rj_out t x h
    | err => exact rj_err t x h
    | stdin => exact rj_stdin t x h
    | timer => exact rj_timer t x h

theorem rj_run (t : Outcome) (x : S) (evs : List Ev) (h : RJ t x) : RJ t (run x evs) := by
  induction evs generalizing x with
  | nil => exact h
  | cons e r ih =>
    simp only [run, List.foldl_cons] at ih ⊢
    exact ih _ (rj_ev t x e h)

/-- what is known once the first join is over (`s.mainPc = .done`): a dead worker was reported as such; otherwise both
    readers have finished, the process was seen to end, the decision was the ordinary one or - iff a kill was issued -
    the timed-out failure, and a run with a timeout that was not killed had its timer disarmed as timely -/
structure Joined (s : S) : Prop where
  dead : s.anyDead = true → s.outcome = .threadExc
  live : s.anyDead = false →
    s.outPc = .done ∧ (s.pty = true ∨ s.errPc = .done) ∧ s.processDone = true ∧ s.exited = true ∧
    s.outcome = decideOutcome s (s.hasTimer && s.killIssued) ∧
    (s.hasTimer = true → s.killIssued = false → s.early = true)

theorem rj_rejoin (s : S) (h : Joined s) : RJ s.outcome (rejoin s) :=
  ⟨h.dead, h.live, fun hc => by simp [rejoin, decided] at hc, fun hc => by simp [rejoin] at hc⟩

end Inv
