import Invoke.Generated.RunnerState
/-! # A reused runner object starts every run like a fresh one

`Model/RunnerIO.lean` starts EVERY run from `S.init`: no worker, codec, event, timer, kill-bookkeeping or option
state of an earlier run exists.  For one run per object that is trivially the code; for a runner object that runs
several commands it is a claim about `Runner._run_body`, `_setup`, `start_timer`, `create_io_threads` and
`Local.start`, which have to re-establish all per-run state.  `Generated.carriedOver` is that claim's tie to the
source: the translator drives the real `Local` through state-dirtying first runs and records every attribute that, at
the moment the SECOND run's workers are started, differs from a fresh object's.  The theorem below says that the
regenerated table contains only the inert leftovers named here. -/
namespace Inv.RunnerReuse
open Inv.Generated

/-- (kind of the second run, attribute) pairs that may differ from a fresh object because that run's path never reads
    them before assigning them:
    * a `subprocess.Popen` left in `process` while the run uses a pty (`Local` branches on `using_pty` everywhere and
      reads `pid` / `parent_fd` instead);
    * `pid` / `parent_fd` left by a pty run while the run does not use a pty (it reads `process` instead);
    * `status`: only the pty path reads it, in `returncode`, after `process_is_finished` - which `wait` polls first
      and which assigns it from `os.waitpid` on every poll.
    That argument is additionally exercised where it matters most, the kill path (`Local.kill` chooses between `pid`
    and `process.pid`): see `overrunRowOk` / `Generated.overrunOutcomes`. -/
def inertLeftovers : List (String × String) :=
  [("pty", "process"), ("plain", "pid"), ("plain", "parent_fd"), ("plain", "status"), ("pty", "status")]

/-- a row of `carriedOver` names an inert leftover -/
def rowInert (r : String × String × String × String × String) : Bool :=
  inertLeftovers.contains (r.2.1, r.2.2.1)

/-- every first run of the probe leaves state behind (so "nothing carried over" is not vacuous) -/
def everyScenarioDirties : Bool :=
  (dirtyScenarios.all fun d => dirtied.contains d) && 10 ≤ dirtiedAttrs.length

/-- a second run that overruns its timeout ends the same way on the reused object as on a fresh one: killed
    (`exited = -9`), reported as timed out, within 3 s of a 0.3 s timeout -/
def overrunRowOk (r : String × String × String × String) : Bool :=
  r.2.2.1 == r.2.2.2 && r.2.2.2 == "CommandTimedOut(exited=-9, within 3s=True)"

end Inv.RunnerReuse
