import Invoke.Model.RunnerIO
/-! Helper lemmas about the stdin handler and the timer of the runner transition system (C13, C14). -/
namespace Inv

/-- the data items of an input script, in order -/
def dataOf : List InItem → List Chunk
  | [] => []
  | .data d :: r => d :: dataOf r
  | .notReady :: r => dataOf r
  | .eof :: r => dataOf r

/-- a chunk that was read from the input stream but not yet written to the child -/
def S.inPending (s : S) : List Chunk := match s.inPc with | .write d => [d] | _ => []

/-- the options never change -/
def S.opts (s : S) : Bool × Bool × Bool × Bool × Bool × Bool × Bool × Nat :=
  (s.hasStdin, s.hasTimer, s.warn, s.pty, s.echo, s.holdOpen, s.startFails, s.readSize)

theorem opts_env (s : S) (e : EnvAct) : (envStep s e).opts = s.opts := by
  cases e <;> simp only [envStep, S.opts] <;> (try split) <;> rfl

theorem opts_main (s : S) : (mainStep s).opts = s.opts := by
  unfold mainStep nextJoin enterJoin afterJoins leaveWait S.opts
  cases s.mainPc <;> simp only [] <;> (repeat' split) <;> simp_all

theorem opts_stdin (s : S) : (stdinStep s).opts = s.opts := by
  unfold stdinStep S.opts; (repeat' split) <;> simp_all

theorem opts_kill (s : S) : (killEffect s).opts = s.opts := by
  unfold killEffect S.opts; split <;> rfl

theorem opts_timer (s : S) : (timerStep s).opts = s.opts := by
  unfold timerStep
  split
  · rfl
  · split
    · rfl
    · split
      · rfl
      · have := opts_kill s; simp only [S.opts] at this ⊢; simpa using this
    · rfl
    · rfl

theorem opts_step (s : S) (a : Actor) : (step s a).opts = s.opts := by
  cases a with
  | main => exact opts_main s
  | stdin => exact opts_stdin s
  | timer => exact opts_timer s
  | out => simp [step, S.opts]
  | err => simp only [step]; split <;> simp [S.opts]

theorem opts_run (s : S) (evs : List Ev) : (run s evs).opts = s.opts := by
  induction evs generalizing s with
  | nil => rfl
  | cons e r ih =>
    simp only [run, List.foldl_cons] at ih ⊢
    rw [ih]
    cases e with
    | act a => exact opts_step s a
    | env e => exact opts_env s e

/-- the stdin-side invariant -/
structure StdinInv (ins0 : List InItem) (s : S) : Prop where
  cons : s.fwd ++ s.inPending ++ dataOf s.inScript = dataOf ins0
  closes : s.closeCount = (if s.inClosed then 1 else 0)
  ptyNoClose : s.pty = true → s.inClosed = false
  echoed : s.echoed = (if s.echo then s.fwd else [])
  doneFin : s.inPc = .done → s.fin = true
  noStdin : s.hasStdin = false → s.fwd = [] ∧ s.closeCount = 0
  closePre : s.inPc = .close → s.inClosed = false ∧ s.pty = false

theorem fwd_append_handler (cs : List (Bool × Chunk)) (d : Chunk) :
    ((cs ++ [(true, d)]).filter (·.1)).map (·.2) = (cs.filter (·.1)).map (·.2) ++ [d] := by
  simp [List.filter_append]

theorem fwd_append_intr (cs : List (Bool × Chunk)) (d : Chunk) :
    ((cs ++ [(false, d)]).filter (·.1)).map (·.2) = (cs.filter (·.1)).map (·.2) := by
  simp [List.filter_append]

theorem stdinInv_env (ins0 : List InItem) (s : S) (e : EnvAct) (h : StdinInv ins0 s) : StdinInv ins0 (envStep s e) := by
  obtain ⟨h1, h2, h3, h4, h5, h6, h7⟩ := h
  cases e <;> simp only [envStep] <;> (try split) <;>
    exact ⟨h1, h2, h3, h4, h5, h6, h7⟩

theorem mainStep_stdin_frame (s : S) :
    (mainStep s).fwd = s.fwd ∧ (mainStep s).inPc = s.inPc ∧ (mainStep s).inScript = s.inScript ∧
    (mainStep s).closeCount = s.closeCount ∧ (mainStep s).inClosed = s.inClosed ∧
    (mainStep s).echoed = s.echoed ∧ (s.fin = true → (mainStep s).fin = true) := by
  unfold mainStep nextJoin enterJoin afterJoins leaveWait S.fwd
  cases s.mainPc <;> simp only [] <;> (repeat' split) <;> simp_all [List.filter_append]

theorem stdinInv_main (ins0 : List InItem) (s : S) (h : StdinInv ins0 s) : StdinInv ins0 (mainStep s) := by
  obtain ⟨h1, h2, h3, h4, h5, h6, h7⟩ := h
  obtain ⟨f1, f2, f3, f4, f5, f6, f7⟩ := mainStep_stdin_frame s
  have ho := opts_main s
  simp only [S.opts, Prod.mk.injEq] at ho
  obtain ⟨o1, _, _, o4, o5, _⟩ := ho
  refine ⟨?_, ?_, ?_, ?_, ?_, ?_, ?_⟩
  · simp only [S.inPending, f1, f2, f3]; exact h1
  · rw [f4, f5]; exact h2
  · rw [o4, f5]; exact h3
  · rw [f6, o5, f1]; exact h4
  · rw [f2]; intro hd; exact f7 (h5 hd)
  · rw [o1, f1, f4]; exact h6
  · rw [f2, f5, o4]; exact h7

theorem killEffect_stdin_frame (s : S) :
    (killEffect s).childStdin = s.childStdin ∧ (killEffect s).inPc = s.inPc ∧ (killEffect s).inScript = s.inScript ∧
    (killEffect s).closeCount = s.closeCount ∧ (killEffect s).inClosed = s.inClosed ∧
    (killEffect s).echoed = s.echoed ∧ (killEffect s).fin = s.fin := by
  unfold killEffect; split <;> simp

theorem stdinInv_timer (ins0 : List InItem) (s : S) (h : StdinInv ins0 s) : StdinInv ins0 (timerStep s) := by
  obtain ⟨h1, h2, h3, h4, h5, h6, h7⟩ := h
  unfold timerStep
  split
  · exact ⟨h1, h2, h3, h4, h5, h6, h7⟩
  · split
    · exact ⟨h1, h2, h3, h4, h5, h6, h7⟩
    · split
      · exact ⟨h1, h2, h3, h4, h5, h6, h7⟩
      · obtain ⟨k1, k2, k3, k4, k5, k6, k7⟩ := killEffect_stdin_frame s
        have ko := opts_kill s
        simp only [S.opts, Prod.mk.injEq] at ko
        obtain ⟨o1, _, _, o4, o5, _⟩ := ko
        refine ⟨?_, ?_, ?_, ?_, ?_, ?_, ?_⟩ <;> simp only [S.fwd, S.inPending, k1, k2, k3, k4, k5, k6, k7, o1, o4, o5]
        · exact h1
        · exact h2
        · exact h3
        · exact h4
        · exact h5
        · exact h6
        · exact h7
    · exact ⟨h1, h2, h3, h4, h5, h6, h7⟩
    · exact ⟨h1, h2, h3, h4, h5, h6, h7⟩

theorem stdinInv_stdin (ins0 : List InItem) (s : S) (h : StdinInv ins0 s) : StdinInv ins0 (stdinStep s) := by
  obtain ⟨h1, h2, h3, h4, h5, h6, h7⟩ := h
  unfold stdinStep
  split
  · exact ⟨h1, h2, h3, h4, h5, h6, h7⟩
  · rename_i hst
    have hst' : s.hasStdin = true := by simpa using hst
    split
    · -- read
      rename_i hpc
      simp only [S.inPending, hpc, List.append_nil] at h1
      split
      · rename_i hsc
        split
        · rename_i hcl
          exact ⟨by simpa [S.inPending, S.fwd, hsc] using h1, h2, h3, h4, by simp, by simp [hst'], by simpa [and_comm] using hcl⟩
        · exact ⟨by simpa [S.inPending, S.fwd, hsc] using h1, h2, h3, h4, by simp, by simp [hst'], by simp⟩
      · rename_i d r hsc
        refine ⟨?_, h2, h3, h4, by simp, by simp [hst'], by simp⟩
        simpa [S.inPending, S.fwd, hsc, dataOf] using h1
      · rename_i r hsc
        refine ⟨?_, h2, h3, h4, by simp, by simp [hst'], by simp⟩
        simpa [S.inPending, S.fwd, hsc, dataOf] using h1
      · rename_i r hsc
        split
        · rename_i hcl
          refine ⟨?_, h2, h3, h4, by simp, by simp [hst'], by simpa [and_comm] using hcl⟩
          simpa [S.inPending, S.fwd, hsc, dataOf] using h1
        · refine ⟨?_, h2, h3, h4, by simp, by simp [hst'], by simp⟩
          simpa [S.inPending, S.fwd, hsc, dataOf] using h1
    · -- write d
      rename_i d hpc
      simp only [S.inPending, hpc] at h1
      refine ⟨?_, h2, h3, ?_, by simp, by simp [hst'], by simp⟩
      · simp only [S.fwd, S.inPending, fwd_append_handler]
        simpa [S.fwd, List.append_assoc] using h1
      · simp only [S.fwd, fwd_append_handler]
        by_cases he : s.echo = true
        · simp only [he, if_true] at h4 ⊢; rw [h4]; rfl
        · simp only [he] at h4 ⊢; simpa using h4
    · -- close
      rename_i hpc
      simp only [S.inPending, hpc, List.append_nil] at h1
      obtain ⟨hc, hp⟩ := h7 hpc
      refine ⟨by simpa [S.inPending, S.fwd] using h1, ?_, ?_, h4, by simp, by simp [hst'], by simp⟩
      · simp [h2, hc]
      · simp [hp]
    · -- isSet
      rename_i hd hpc
      simp only [S.inPending, hpc, List.append_nil] at h1
      split
      · rename_i hf
        refine ⟨by simpa [S.inPending, S.fwd] using h1, h2, h3, h4, ?_, by simp [hst'], by simp⟩
        intro _; simp at hf; exact hf.1
      · exact ⟨by simpa [S.inPending, S.fwd] using h1, h2, h3, h4, by simp, by simp [hst'], by simp⟩
    · exact ⟨h1, h2, h3, h4, h5, h6, h7⟩

theorem stdinInv_step (ins0 : List InItem) (s : S) (a : Actor) (h : StdinInv ins0 s) : StdinInv ins0 (step s a) := by
  cases a with
  | main => exact stdinInv_main ins0 s h
  | stdin => exact stdinInv_stdin ins0 s h
  | timer => exact stdinInv_timer ins0 s h
  | out => obtain ⟨h1, h2, h3, h4, h5, h6, h7⟩ := h; exact ⟨h1, h2, h3, h4, h5, h6, h7⟩
  | err =>
    obtain ⟨h1, h2, h3, h4, h5, h6, h7⟩ := h
    simp only [step]; split <;> exact ⟨h1, h2, h3, h4, h5, h6, h7⟩

theorem stdinInv_run (ins0 : List InItem) (s : S) (evs : List Ev) (h : StdinInv ins0 s) : StdinInv ins0 (run s evs) := by
  induction evs generalizing s with
  | nil => exact h
  | cons e r ih =>
    simp only [run, List.foldl_cons] at ih ⊢
    apply ih
    cases e with
    | act a => exact stdinInv_step ins0 s a h
    | env e => exact stdinInv_env ins0 s e h

theorem stdinInv_init (hi ht w p e : Bool) (o er : List Chunk) (ins : List InItem) (ho sf : Bool) (n : Nat) (asy : Bool) :
    StdinInv ins (S.init hi ht w p e o er ins ho sf n asy) := by
  refine ⟨?_, ?_, ?_, ?_, ?_, ?_, ?_⟩ <;> simp [S.init, S.fwd, S.inPending]

end Inv
